#!/bin/bash
# Offline setup: pre-warm the Go build cache for the harness (plain and -race).
# No check depends on it: ./check rebuilds what it needs against the current /repo.
cd "$(dirname "$0")"
export GOFLAGS=-mod=mod GOPROXY=off GOSUMDB=off GOTOOLCHAIN=local CGO_ENABLED=1
mkdir -p harness/bin evidence
(cd harness && go build -tags verif ./... ) || echo "warning: pre-warm build failed (checks rebuild on demand)"
(cd harness && go build -race -tags verif ./core/ ./corpus/ ) || echo "warning: race pre-warm failed"
exit 0
