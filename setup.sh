#!/bin/bash
# Offline setup: pre-warm the Go build cache for the harness (plain and -race). No check depends on it.
cd "$(dirname "$0")"
export GOFLAGS=-mod=mod GOPROXY=off GOSUMDB=off GOTOOLCHAIN=local CGO_ENABLED=1
mkdir -p harness/bin evidence
(cd harness && go build -tags verif ./... ) || exit 1
(cd harness && go build -race -tags verif ./core/ ./corpus/ ) || exit 1
exit 0
