#!/bin/bash
# Parallel variant of seeded_sweep.sh: usage seeded_sweep_par.sh [tier] [shards] [name-regex]
# With a name-regex (e.g. '^C(03|11)-') only those changes are run and their lines replace the old ones in RESULTS.md.
# Runs every seeded change against its property's check (and also_checked_by ones) and writes seeded/RESULTS.md.
tier="${1:-quick}"; n="${2:-4}"; pat="${3:-}"
cd /verif
tmp=$(mktemp -d /tmp/sweep-XXXXXX)
ls -d seeded/C*-*/ | sort -V > $tmp/all
if [ -n "$pat" ]; then grep -E "seeded/$(echo "$pat" | sed 's/^\^//')" $tmp/all > $tmp/sel; mv $tmp/sel $tmp/all; fi
split -n r/$n $tmp/all $tmp/shard.
for sh in $tmp/shard.*; do
  ( while read d; do
      name=$(basename "$d"); p=${name%%-*}
      [ -f "$d/patch.diff" ] || continue
      extra=$(python3 -c "import json;print(' '.join(json.load(open('${d}meta.json')).get('also_checked_by',[])))" 2>/dev/null)
      pf="/verif/${d}patch.diff"
      latest=$(ls -t /verif/${d}patch.at-*.diff 2>/dev/null | head -1); [ -n "$latest" ] && pf="$latest"
      res=$(timeout 3000 tools/try_mutant.sh "$pf" "$tier" $p $extra 2>&1)
      line=$(echo "$res" | grep -E "^== |PATCH FAILED" | tr '\n' ' ')
      echo "$name | $line" >> $sh.out
    done < $sh ) &
done
wait
{
  echo "# Seeded changes vs. checks ($tier tier, $(date -u +%F), /repo $(git -C /repo rev-parse --short HEAD))"
  echo
  echo "Each seeded change was applied to a scratch copy of /repo and the owning property's check was run with VERIF_REPO pointing at the copy. exit=1 means the check reported a VIOLATION (caught)."
  echo
  echo '```'
  if [ -n "$pat" ] && [ -f seeded/RESULTS.md ]; then
    { grep -E '^C[0-9]+-[0-9]+ \|' seeded/RESULTS.md | grep -vE "$pat"; cat $tmp/shard.*.out; } | sort -V
  else
    cat $tmp/shard.*.out | sort -V
  fi
  echo '```'
} > seeded/RESULTS.md.new
mv seeded/RESULTS.md.new seeded/RESULTS.md
rm -rf $tmp
grep -c "exit=1" seeded/RESULTS.md
