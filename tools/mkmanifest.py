#!/usr/bin/env python3
"""Regenerates /verif/MANIFEST.json from the table below (single source of truth)."""
import json, os, sys
HERE = os.path.dirname(os.path.dirname(os.path.abspath(__file__)))
ALL = ["C%02d" % i for i in range(1, 21)]

CHECKS = {
 "C12": dict(category="exploration", design_ref="DESIGN.md §4 C12", engine="corpus",
   technique="runtime monitoring: one compiled use-interpreter template renders use histories given as data with the real generator and runtime; an offline history checker over the HTML5 token stream of each context's output (<=1 definition per item and context, definition before first use, every use carries its call / class name / once content, registered classes never inlined and served by the endpoint, per-context output equal to the isolated run)",
   text="exploration: all histories of length <=2 (thorough <=3) over 43 use atoms (script components, on* attributes, class expressions in every container form of templ.Classes / RenderCSSItems, once handles with block and WithComponent), each also nested in once / child block / child component, plus 60k (1M) seeded random histories of up to 30 uses over 3 scripts, 5 css classes and 3 once handles; 1-3 contexts rendered alternately, and CSSMiddleware + Handler (buffered / streamed) with a pre-registered subset and the stylesheet endpoint.",
   note="ids and function names are opaque labels announced by the driver; no fault injection (record-before-emit on a failing writer is C10's ground) and no goroutines (C14); one class is never both enabled and disabled in one expression. Two genuine defects fixed (container forms handled for names but not rules, and vice versa)."),
 "C13": dict(category="exploration", design_ref="DESIGN.md §4 C13", engine="corpus",
   technique="runtime monitoring: one compiled call-tree interpreter renders call trees given as data; a reference call-tree semantics in the harness (a callee sees exactly its call-site block, rendered where and as often as its slot occurs) predicts the marker structure; exact comparison on the HTML5 token stream",
   text="exploration: every forest with <=3 nodes over 36 call kinds (generated callees: slot / ignore / twice / pass-on / inner / after and the legacy call syntax; OnceHandle.Once, Once(WithComponent), Flush, Join, function components reading / ignoring children, function components that capture their children into a buffer of their own (written once / twice / discarded), hand-written and generated capture layers around a slot callee, WithChildren from code; each with and without a block), <=4 nodes over 18 kinds (thorough), plus 100k (4M) seeded random trees of up to 34 nodes biased to an unconsumed block followed by a slot-bearing sibling or descendant.",
   note="Hand-written function components follow the documented GetChildren + ClearChildren protocol; nesting beyond 3 block levels goes through a generated dispatcher; a runaway render is cut by an output limit of 8x the expected size and counted as a violation. One genuine defect fixed (children stored in the shared context value leaked through Once / Flush / Join / function components)."),
 "C18": dict(category="exploration", design_ref="DESIGN.md §4 C18", engine="in-proc",
   technique="runtime monitoring: independent base-protocol frame parser as wire tap and malformed-input oracle, chunk-controlled readers, token/id matching of every Call return, response-lost watchdog, pending-map and goroutine-leak observation; concurrent sessions run in race-instrumented child processes (GORACE log parsed, races attributed to templ code)",
   text="exploration: seeded message sequences (calls, notifications, results, errors; numeric and string ids; multi-byte payloads up to 1 MB) written with NewStream().Write, checked on the wire (Content-Length == body bytes) and read back under 11 chunking families; every truncation of a 3-frame stream, ~50 header malformations and seeded mutations read in a child (error or the correct message, never a panic, spin or hang); 360 sessions of two Conns over a re-chunking, yielding duplex with N in {2,8,32} callers, notifiers, a peer answering out of order / late / never / with errors and seeded cancellations: each call returns its own reply or its own (possibly wrapped) cancellation.",
   note="Must-accept means canonical base-protocol frames only; a JSON value followed by extra bytes inside the declared length is counted, not judged; no Content-Length between 4 MB and 2^31-1 is generated (the implementation allocates the declared length). No hook in /repo: windows are widened by yields inside the duplex and the pending map is read by reflection."),
 "C19": dict(category="exploration", design_ref="DESIGN.md §4 C19", engine="in-proc",
   technique="runtime monitoring: schedule scripts forced through the verif hook sites (registered / deliver / unregistered) against the real sse.Handler in race-instrumented child processes; crash monitor (exit status + stderr); porcupine linearizability check of Sub/Unsub/Broadcast histories; progress watchdogs on harness-created stalls; goroutine baseline; race detector",
   text="exploration: 38 forced schedules (delivery parked, client cancelled, handler unregistered, delivery released; cancel during write; cancel before registration completes; back-to-back broadcasts with a cancel between them; write error; stalled client) plus 2000 (quick) / 200000 (thorough) seeded compositions of 5 episode kinds with <=12 clients and <=10 broadcasts. Model: receivers R are a subset of the connected clients and contain every stable connected client; per-client ordering and duplicates are not required.",
   note="Trusted: the client-boundary timestamps (first ping / ServeHTTP returned), quiescence = delivery goroutines finished + barrier event, porcupine. 10 s watchdogs on harness-created stalls count as violations (the blocked state is created by the harness, not by load). One genuine defect fixed (send on closed channel killed the watch process)."),
 "C01": dict(category="exploration", design_ref="DESIGN.md §4 C01", engine="corpus",
   technique="runtime monitoring: 68 dynamic HTML sinks compiled through the real templ generator and Go compiler, rendered with hostile strings; rendered bytes re-read with the x/net/html HTML5 tokenizer and compared with the same component rendered with a benign sentinel (differential skeleton oracle); plus a strict five-entity decoder over templ.EscapeString in-process",
   text="exploration: held on every (sink, string) pair generated: every byte, U+0000-U+07FF plus boundary sequences, all strings <=3 (quick) / <=4 (thorough) over a 21-symbol metacharacter alphabet, ~120 attack vectors with single-edit mutations, seeded random strings, and values longer than the 4 KB output buffer; 25k strings x 68 sinks = 1.7M compiled renders per quick run plus 3M escaper calls.",
   note="Surrounding static markup is a fixed set of 68 templates (text, RCDATA, raw text, first/last/void/conditional attributes, spread string/*string/KeyValue, class containers, style, URL, JSONScript id/type/nonce, script nonces); C02's model programs render hostile metacharacter values in arbitrary generated markup as well. style values, templ.URL results and raw-text content are checked for structure only. Spread keys, templ.Raw and Safe* contents are trusted input."),
 "C03": dict(category="exploration", design_ref="DESIGN.md §4 C03", engine="corpus",
   technique="runtime monitoring: 19 JavaScript positions compiled through the real generator; rendered bytes tokenized (x/net/html) against a benign skeleton; lexical breakout monitors on each dynamic fragment; every dynamic script element / on* attribute evaluated separately in a fresh V8 context (v8go worker process) with recording sinks; the record is compared with the Go value's JSON",
   text="exploration over (position, value) pairs: strings (every byte, code points, bounded-exhaustive <=3/<=4 over a 21-symbol JS/HTML alphabet, ~170 JS vectors with mutations, random, long) x shapes (string, named string, slices, maps incl. hostile keys, nested, struct, numbers incl. -0/1e308/+-2^53, bool, nil); 264k evaluations per quick run.",
   note="Numbers compared as float64; integers beyond +-2^53 not generated; U+FFFD runs collapsed for invalid UTF-8; a raw U+2028/9 in a quoted literal is treated as ending it (pre-ES2019 semantics); templ.JSExpression / JSUnsafeFuncCall are trusted code. One defect fixed (backtick ${), one listed (object key \"__proto__\", five positions)."),
 "C15": dict(category="exploration", design_ref="DESIGN.md §4 C15", engine="cli",
   technique="runtime monitoring of the race-instrumented templ CLI on seeded directory trees x worker counts {1,2,3,8,16,64} x flag sets x GOMAXPROCS {1,2,16}: tree snapshot (sha256, mtime) before/after vs. in-process single-file reference generation; exit status; second-run idempotence; cross-worker equality; race-detector log; -lazy with explicit (also sub-second) mtimes",
   text="exploration: 10 trees / 140 scenarios / 280 CLI runs per quick run (150 trees thorough) containing skipped and non-skipped directories, orphans inside and outside skipped directories, stale siblings, unparseable files and files whose generated code is not valid Go; 0 race reports; tens of distinct worker completion orders observed from debug logs.",
   note="No delay hook (H5 not added): schedule diversity comes from worker count, GOMAXPROCS and file sizes and is measured, not forced. The reference shares parser/generator/gofmt code with the CLI by design (the check is about independence from tree, flags, workers and schedule; C02 checks the generator). -lazy is judged by its usage text: a template whose sibling is strictly newer is not processed."),
 "C16": dict(category="exploration", design_ref="DESIGN.md §4 C16", engine="corpus",
   technique="runtime monitoring: the real FSEventHandler(devMode) driven in-process on scratch packages; binaries built per version run with and without TEMPL_DEV_MODE; long-lived old binaries re-read updated text files; explicit mtimes; dev-mode bytes == normal bytes, and for edits classified 'no recompile' old binary + new text == freshly built binary",
   text="exploration: a position x expression-type matrix (12 positions squared x 5 types = 431 edit pairs, enumerated completely) plus structure edits, random edit sequences up to 4 steps and hostile static text (quotes, backslash, backtick, newlines in raw elements, non-ASCII, C0/C1, invalid UTF-8); ~8k evaluations, ~250 windows classified 'no recompile' per quick run.",
   note="Behaviour inside the runtime's 100 ms mtime window is not examined; error messages are not compared. One genuine defect fixed (HasChanged ignored changes of the generated Go code other than expression texts)."),
 "C06": dict(category="exploration", design_ref="DESIGN.md §4 C06", engine="in-proc",
   technique="runtime monitoring: parser.ParseString run in child processes over corpus-derived, truncated, mutated, generated and random inputs; per-input recover, per-thread CPU-time budget (soft, then solo re-run with a hard budget), ParseError position range check; reflective position oracle (bounds, order, line/col vs index, source prefix, name ranges) on every input the parse+generate+gofmt pipeline accepts",
   text="exploration: ~0.44M (quick) / ~5M (thorough) inputs: every .templ file and test input of the repository found at run time, every truncation (stride rule), token-dictionary mutations, CRLF conversion, multi-byte insertion before expressions, random bytes and token soups, truncations of generated programs; no panic, crash, over-budget parse, out-of-input error position or unfaithful range among them; ~140k expressions and ~170k ranges position-checked per quick run.",
   note="Termination is judged by CPU time of the parsing thread (soft 5 CPU-s, then solo re-run at 60 CPU-s; between = inconclusive); the loop-progress hook H1 of the design was not added, so a livelock is found only through the budget. Position-less errors (ErrLegacyFileFormat) are not demanded. The sweep stops after 2 over-budget or 4 crashing inputs."),
 "C07": dict(category="exploration", design_ref="DESIGN.md §4 C07", engine="in-proc",
   technique="runtime monitoring: generator.Generate on corpus files, mutants and seeded every-slot programs; the oracle walks every rune-start byte of every Go expression through TargetPositionFromSource / SourcePositionFromTarget and compares bytes, adjacency, round trip, end-of-line positions, coverage, stray map entries and symbol ranges (go/parser on the generated text)",
   text="exploration: ~12k accepted programs per quick run (~100k thorough) covering all 27 observed syntactic slots with multi-line and multi-byte expressions and multi-byte text before expressions; ~8.6M positions, 0.5M end-of-line positions and 41k symbol ranges checked per quick run.",
   note="Coordinates are 0-based line and byte column at rune starts (mid-rune bytes are counted, not required); files without a package clause and invalid UTF-8 are skipped and counted; a Go-block symbol range is demanded only when the block contains a declaration and does not end in a // line. Two genuine defects fixed (class attribute polluting line 0; symbol range lost when two symbols start on one line)."),
 "C04": dict(category="exploration", design_ref="DESIGN.md §4 C04", engine="in-proc",
   technique="runtime monitoring: bulk in-process monitor of templ.URL against an independent WHATWG scheme extractor; compiled href/action templates rendered with hostile values and decided with an HTML5 tokenizer; compile probes (real generator + go build) for the SafeURL typing clause",
   text="exploration with a bounded-exhaustive sub-space: every sequence of <=4 (quick) / <=5 (thorough) tokens over a 32-token adversarial alphabet and every string of <=6 / <=7 symbols over a 14-symbol alphabet, 142 XSS vectors with mutations, random long strings (9.5M sanitiser calls quick); 94k end-to-end renders through <a href>, <form action> (also inside conditional attributes); 22 compile probes for the typing clause (lower, upper and mixed case element/attribute names).",
   note="`exhaustive` refers only to the named sub-space. Returning the failure URL is always acceptable (over-blocking is counted, not judged). href supplied through spread attributes is recorded, not judged. Trusted: the whaturl oracle (WHATWG scheme-start/scheme states), x/net/html tokenizer. One genuine defect fixed (case-sensitive sink detection)."),
 "C05": dict(category="exploration", design_ref="DESIGN.md §4 C05", engine="in-proc",
   technique="runtime monitoring: bulk in-process monitor of safehtml.SanitizeCSS / templ.SanitizeCSS with a sentinel-and-canary style sheet decided by a from-scratch CSS Syntax Level 3 tokenizer/parser; css components and style attributes (map / KV / slice / func forms) rendered by compiled templates, HTML5-tokenised, the <style> text or decoded attribute decided the same way",
   text="exploration with a bounded-exhaustive sub-space: values <=4 (quick) / <=6 (thorough) over a 22-symbol CSS-adversarial alphabet for background-image and font-family (<=4/<=5 for color and display), listed url()/string shapes with exhaustive holes, 67 property names, 600k random values; 70k rendered outputs through 14 sinks (6 css components, 8 style-attribute forms).",
   note="Contained bad-string/bad-url tokens, ':' or newline inside a value and balanced ()/[] are not flagged on their own (they stay inside their declaration per CSS Syntax 3); '{}' blocks in values are flagged. Plain strings, templ.SafeCSS and SafeCSSProperty values are trusted input per templ's documentation. Trusted: the css3 oracle (unit-tested against the specification's examples). Three genuine defects fixed (font-family / background-image containment; double escaping of style attributes)."),
 "C10": dict(category="fault_enumeration", design_ref="DESIGN.md §4 C10", engine="corpus",
   technique="fault injection at every byte offset into components compiled by the real generator (scratch package, one driver process per DefaultBufferSize); offline oracle over the event log: prefix / nil=>whole document once / errors.Is wrap / templ.Error file+line / carry-over renders / H2 buffer-pool live-set monitor",
   text="fault_enumeration: for each of ~260 components (hand-written set covering every node/attribute kind, Flush/Join/Once/Raw/ComponentFunc wrappers, plus seeded interpreter trees) x buffer sizes {8,64,4096}: every writer-fault offset 0..|D| x {hard error with partial write, short write, zero write}, every reached failable expression (text, attribute, style, script), nested component and child block, cancellation before start and mid-render, failing Flush; after every failure the same and another component are rendered normally on the same goroutine (no carry-over). Completeness of the offset dimension is verified from the log.",
   note="Components and buffer sizes are samples; single-fault writer model (the writer misbehaves in exactly one Write call); bytes compared through per-prefix hashes; short-write and cancelled-context clauses are observed but not judged for the two unbuffered library roots (templ.Raw, ComponentScript) that write straight to the caller's writer. Trusted: the driver's fault writers, hook H2."),
 "C11": dict(category="fault_enumeration", design_ref="DESIGN.md §4 C11", engine="in-proc",
   technique="runtime monitoring of templ.Handler with httptest.ResponseRecorder, a real net/http server and a corpus driver hosting templates produced by templ generate; components write k marked chunks then fail or succeed; reference = the error path run alone; streaming mode observed as a positive control",
   text="fault_enumeration: for every handler configuration (status 5 x content type 2 x error handler 7 x streaming 2 = 140), component shape and outcome, every failure point k=0..8 is executed (chunk sizes 1 B..200 KB sampled); buffered mode must give the whole document with configured status/content type or exactly the error path's response with no chunk marker; streaming runs prove the monitor sees partial output when it exists.",
   note="Failure kinds: returned error, error after context cancel, nested component error; panicking components are outside the statement. Trusted: net/http, httptest."),
 "C14": dict(category="exploration", design_ref="DESIGN.md §4 C14", engine="corpus",
   technique="stress under the Go race detector (driver built -race, GORACE log parsed and deduplicated), G in {4,16,64} goroutines with faulting / yielding writers and shared package-level values; bytes of every successful render vs. the in-process sequential reference; H2 buffer-pool live-set monitor; dev mode with text files written by the real FSEventHandler and rewritten while rendering",
   text="exploration: ~400k (thorough ~8M) concurrent renders over the C10 component set, 0 race reports required, every successful render byte-equal to its sequential reference, pool invariants (never handed out while live, never released twice, gets==puts at quiescence) with buffers observed moving between goroutines; development-mode renders against the shared watch-mode cache while a goroutine rewrites text files.",
   note="The race detector only sees executed interleavings; half of the phases run with the hook off so harness mutexes add no happens-before edges. Dev-mode rewrite oracle is 'forward-only mix of equal-length versions' because templ re-reads the cache per literal."),
 "C20": dict(category="exploration", design_ref="DESIGN.md §4 C20", engine="in-proc",
   technique="runtime monitoring of the live-reload proxy between an in-process backend and an HTTP client: DOM-level differ (x/net/html parse, remove exactly one reload script as last child of body, compare), Content-Length / Content-Encoding checker with independent gzip/brotli decoding, independent CSP script-src nonce reader, byte identity for the pass-through class",
   text="exploration: 72 documents (empty .. 1 MB; 4 MB in thorough; CRLF, Latin-1, BOM, frameset, generated trees) x 7 backend encodings x 7 content types, every CSP header shape (9) in the modified class, HX-Request, skip marker, chunked vs Content-Length, status codes; full cross product for three canonical documents.",
   note="The oracle shares x/net/html with the proxy, so a parser defect common to both is invisible; only GET requests with explicit Accept-Encoding. Two genuine defects found and fixed (unknown encodings rewritten; BOM documents mangled)."),
 "C02": dict(category="exploration", design_ref="DESIGN.md §4 C02, §3 (model, wsgap)", engine="corpus",
   technique="runtime monitor: reference interpreter of a templ program model vs. bytes and evaluation trace observed from code produced by the real templ generate + go build (HTML5 token stream, whitespace-gap rule, trace set comparison, compile status)",
   text="Seeded random model programs (all node and attribute kinds of the model, random separators/layouts) plus a seed-independent adjacency matrix (21 node kinds squared x 3 separators x 4 (quick) / 8 (thorough) parent contexts) and attribute cells (7 attribute kinds x plain/conditional-then/else/nested) are generated by the real CLI, compiled, rendered with several argument vectors and compared unit-by-unit with a reference interpreter: tags, attributes (decoded), comments, doctype, text bytes, required/forbidden whitespace gaps, and the set of evaluated expression ids. Held-on-observed-executions; not a proof of the generator.",
   note="Trusted: the model's reference interpreter and gap rule (DESIGN §3), x/net/html tokenizer. Domain: embedded Go well typed, dynamic values without whitespace, script/css templates and on*/style attributes are not in the model (C03/C05/C12 cover them). Two known findings (class expression hoisted out of conditional attributes) are listed in KNOWN_FINDINGS.json."),
 "C17": dict(category="exploration", design_ref="DESIGN.md §4 C17", engine="in-proc",
   technique="runtime monitor: byte-splice reference model compared with the real Document after every applied change; bounded-exhaustive enumeration + seeded random edit sequences",
   text="Every document of length <=6 (quick) / <=7 (thorough) over {letter, LF} x every ordered range (incl. out-of-bounds lines/characters) x 7 replacement texts is applied through Document.Apply and DocumentContents.Apply and compared with a splice reference; plus tens of thousands of random multi-edit sequences on documents up to ~4KB checked after every step. Held-on-observed-executions, exhaustive only inside the stated bound.",
   note="Trusted: the reference splice model (30 lines), LSP positions interpreted as byte offsets (ASCII documents only), start<=end."),
}

NOT_YET = {
}

def main():
    checks = []
    for pid in ALL:
        if pid not in CHECKS:
            continue
        c = CHECKS[pid]
        checks.append({
            "property_id": pid,
            "quick_cmd": "./check %s quick" % pid,
            "thorough_cmd": "./check %s thorough" % pid,
            "evidence_file": "/verif/evidence/%s.json" % pid,
            "replay_cmd_template": "./check %s quick --replay {path}" % pid,
            "engine": c["engine"],
            "level_claimed": {"category": c["category"], "text": c["text"], "design_ref": c["design_ref"]},
            "level_note": c["note"],
            "technique": c["technique"],
        })
    na = []
    for pid in ALL:
        if pid not in CHECKS:
            na.append({"property_id": pid, "reason": NOT_YET.get(pid, "check not built yet in this revision of /verif (planned: see DESIGN.md §4); not claimed until its monitor runs silent on the unchanged tree")})
    hooks_file = os.path.join(HERE, "hooks_commits.txt")
    commits = [l.split()[0] for l in open(hooks_file)] if os.path.exists(hooks_file) else []
    m = {
        "version": 1,
        "setup_cmd": "./setup.sh",
        "hooks": {
            "guard": "verif",
            "enable": "go build -tags verif (the harness module replaces github.com/a-h/templ with /repo, so the current working tree is what is compiled)",
            "baseline_off_cmd": "cd /repo && export GOFLAGS=-mod=mod GOPROXY=off GOSUMDB=off GOTOOLCHAIN=local && go test -vet=off -count=1 -timeout 25m ./... ; (cd runtime/fuzzing && go test -vet=off -count=1 -timeout 25m ./...)",
            "source_commits": commits,
            "add_only": True,
        },
        "engines": [
            {"name": "in-proc", "path": "harness/checks", "serves_properties": [p for p in ALL if CHECKS.get(p, {}).get("engine") == "in-proc"], "kind_free_text": "harness links templ packages from /repo (build tag verif) and runs monitors over generated/enumerated workloads in-process or in child processes"},
            {"name": "corpus", "path": "harness/corpus", "serves_properties": [p for p in ALL if CHECKS.get(p, {}).get("engine") == "corpus"], "kind_free_text": "generated .templ packages -> real `templ generate` built from /repo -> go build -> driver binary executing jobs and writing an event log; verdicts computed offline from the log"},
            {"name": "cli", "path": "harness/checks", "serves_properties": [p for p in ALL if CHECKS.get(p, {}).get("engine") == "cli"], "kind_free_text": "race-instrumented templ binary run as a subprocess on generated directory trees"},
        ],
        "checks": checks,
        "not_applicable": na,
        "notes": "All checks are runtime monitors over observed executions (family: runtime monitoring and sanitizers). KNOWN_FINDINGS.json lists recorded and fixed defects. See DESIGN.md.",
    }
    json.dump(m, open(os.path.join(HERE, "MANIFEST.json"), "w"), indent=1)
    print("wrote MANIFEST.json with", len(checks), "checks;", len(na), "not claimed")

main()
