#!/usr/bin/env python3
"""Regenerates /verif/MANIFEST.json from the table below (single source of truth)."""
import json, os, sys
HERE = os.path.dirname(os.path.dirname(os.path.abspath(__file__)))
ALL = ["C%02d" % i for i in range(1, 21)]

CHECKS = {
 "C17": dict(category="exploration", design_ref="DESIGN.md §4 C17", engine="in-proc",
   technique="runtime monitor: byte-splice reference model compared with the real Document after every applied change; bounded-exhaustive enumeration + seeded random edit sequences",
   text="Every document of length <=6 (quick) / <=7 (thorough) over {letter, LF} x every ordered range (incl. out-of-bounds lines/characters) x 7 replacement texts is applied through Document.Apply and DocumentContents.Apply and compared with a splice reference; plus tens of thousands of random multi-edit sequences on documents up to ~4KB checked after every step. Held-on-observed-executions, exhaustive only inside the stated bound.",
   note="Trusted: the reference splice model (30 lines), LSP positions interpreted as byte offsets (ASCII documents only), start<=end."),
}

NOT_YET = {
}

def main():
    checks = []
    for pid in ALL:
        if pid not in CHECKS:
            continue
        c = CHECKS[pid]
        checks.append({
            "property_id": pid,
            "quick_cmd": "./check %s quick" % pid,
            "thorough_cmd": "./check %s thorough" % pid,
            "evidence_file": "/verif/evidence/%s.json" % pid,
            "replay_cmd_template": "./check %s quick --replay {path}" % pid,
            "engine": c["engine"],
            "level_claimed": {"category": c["category"], "text": c["text"], "design_ref": c["design_ref"]},
            "level_note": c["note"],
            "technique": c["technique"],
        })
    na = []
    for pid in ALL:
        if pid not in CHECKS:
            na.append({"property_id": pid, "reason": NOT_YET.get(pid, "check not built yet in this revision of /verif (planned: see DESIGN.md §4); not claimed until its monitor runs silent on the unchanged tree")})
    hooks_file = os.path.join(HERE, "hooks_commits.txt")
    commits = [l.split()[0] for l in open(hooks_file)] if os.path.exists(hooks_file) else []
    m = {
        "version": 1,
        "setup_cmd": "./setup.sh",
        "hooks": {
            "guard": "verif",
            "enable": "go build -tags verif (the harness module replaces github.com/a-h/templ with /repo, so the current working tree is what is compiled)",
            "baseline_off_cmd": "cd /repo && export GOFLAGS=-mod=mod GOPROXY=off GOSUMDB=off GOTOOLCHAIN=local && go test -vet=off -count=1 -timeout 25m ./... ; (cd runtime/fuzzing && go test -vet=off -count=1 -timeout 25m ./...)",
            "source_commits": commits,
            "add_only": True,
        },
        "engines": [
            {"name": "in-proc", "path": "harness/checks", "serves_properties": [p for p in ALL if CHECKS.get(p, {}).get("engine") == "in-proc"], "kind_free_text": "harness links templ packages from /repo (build tag verif) and runs monitors over generated/enumerated workloads in-process or in child processes"},
            {"name": "corpus", "path": "harness/corpus", "serves_properties": [p for p in ALL if CHECKS.get(p, {}).get("engine") == "corpus"], "kind_free_text": "generated .templ packages -> real `templ generate` built from /repo -> go build -> driver binary executing jobs and writing an event log; verdicts computed offline from the log"},
            {"name": "cli", "path": "harness/checks", "serves_properties": [p for p in ALL if CHECKS.get(p, {}).get("engine") == "cli"], "kind_free_text": "race-instrumented templ binary run as a subprocess on generated directory trees"},
        ],
        "checks": checks,
        "not_applicable": na,
        "notes": "All checks are runtime monitors over observed executions (family: runtime monitoring and sanitizers). KNOWN_FINDINGS.json lists recorded and fixed defects. See DESIGN.md.",
    }
    json.dump(m, open(os.path.join(HERE, "MANIFEST.json"), "w"), indent=1)
    print("wrote MANIFEST.json with", len(checks), "checks;", len(na), "not claimed")

main()
