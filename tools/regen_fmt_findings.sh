#!/bin/bash
# Development tool (never run by a check): regenerates the C08/C09 entries of KNOWN_FINDINGS.json
# against the current /repo: enumerated matrix/cell keys (cmd/c08keys) + witnesses harvested from
# check runs over seeds 1..10 (quick) and seed 1 (thorough). Review the printed NEW/GONE lines.
set -e
cd /verif/harness; export GOFLAGS=-mod=mod GOPROXY=off GOSUMDB=off GOTOOLCHAIN=local
go build -tags verif -o bin/c08keys ./cmd/c08keys
H=$(mktemp -d /tmp/harvest-XXXX); K=$(mktemp -d /tmp/kf-XXXX)
python3 - <<'PY'
import json
p='/verif/KNOWN_FINDINGS.json'; k=json.load(open(p))
json.dump(k,open('/tmp/kf-backup.json','w'))
k['findings']=[f for f in k['findings'] if f['property'] not in ('C08','C09')]
json.dump(k,open(p,'w'),indent=1,ensure_ascii=False)
PY
./bin/c08keys -out $K >/dev/null 2>&1
python3 - $K <<'PY'
import json,sys
p='/verif/KNOWN_FINDINGS.json'; k=json.load(open(p))
for f in ['C08-known-findings.json','C09-known-findings.json']:
    d=json.load(open(sys.argv[1]+'/'+f)); k['findings']+= d if isinstance(d,list) else d['findings']
json.dump(k,open(p,'w'),indent=1,ensure_ascii=False)
PY
cd /verif
for s in 1 2 3 4 5 6 7 8 9 10; do for id in C08 C09; do VERIF_OUT=$H VERIF_SEED=$s ./check $id quick >/dev/null 2>&1 || true; done; done
for id in C08 C09; do VERIF_OUT=$H ./check $id thorough >/dev/null 2>&1 || true; done
cd harness; ./bin/c08keys -out $K -merge-replays $H 2>&1 | grep harvested || true
python3 - $K <<'PY'
import json,sys
p='/verif/KNOWN_FINDINGS.json'; k=json.load(open(p)); old=json.load(open('/tmp/kf-backup.json'))
oldk={(f['property'],f['key']) for f in old['findings'] if f['property'] in('C08','C09')}
k['findings']=[f for f in k['findings'] if f['property'] not in ('C08','C09')]
new=set()
for f in ['C08-known-findings.json','C09-known-findings.json']:
    d=json.load(open(sys.argv[1]+'/'+f)); d=d if isinstance(d,list) else d['findings']
    for x in d:
        new.add((x['property'],x['key']))
        if (x['property'],x['key']) not in oldk: print('NEW',x['property'],x['key'][:120].replace('\n','⏎'))
    k['findings']+=d
for o in sorted(oldk-new): print('GONE',o[0],o[1][:120].replace('\n','⏎'))
json.dump(k,open(p,'w'),indent=1,ensure_ascii=False)
print('C08',sum(1 for f in k['findings'] if f['property']=='C08'),'C09',sum(1 for f in k['findings'] if f['property']=='C09'))
PY
rm -rf $H $K
