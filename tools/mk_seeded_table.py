#!/usr/bin/env python3
"""Writes the 'seeded changes' table of DESIGN.md (between the SEEDED-TABLE markers) from
seeded/*/meta.json and seeded/RESULTS.md."""
import json, glob, os, re
root = os.path.dirname(os.path.dirname(os.path.abspath(__file__)))
res = {}
for line in open(os.path.join(root, 'seeded/RESULTS.md')):
    m = re.match(r'^(C\d+-\d+) \| (.*)$', line.strip())
    if m:
        res[m.group(1)] = re.findall(r'== (C\d+) exit=(\d+)', m.group(2))
rows = []
def key(d):
    m = re.match(r'C(\d+)-(\d+)', os.path.basename(d)); return (int(m.group(1)), int(m.group(2)))
for d in sorted(glob.glob(os.path.join(root, 'seeded/C*-*')), key=key):
    sid = os.path.basename(d)
    meta = json.load(open(os.path.join(d, 'meta.json')))
    summ = ' '.join(meta.get('summary', '').split())
    if len(summ) > 230: summ = summ[:227] + '…'
    needs = ' '.join(meta.get('needs', '').split())
    if len(needs) > 160: needs = needs[:157] + '…'
    r = res.get(sid, [])
    caught = ', '.join(f"{c} {'caught' if e == '1' else ('MISSED' if e == '0' else 'exit ' + e)}" for c, e in r) or 'not run'
    rows.append(f"| {sid} | {summ.replace('|', '/')} | {needs.replace('|', '/')} | {caught} |")
table = "| id | seeded change | needs | quick check result |\n|----|---------------|-------|--------------------|\n" + "\n".join(rows) + "\n"
p = os.path.join(root, 'DESIGN.md')
s = open(p).read()
a, b = '<!-- SEEDED-TABLE-BEGIN -->', '<!-- SEEDED-TABLE-END -->'
if a in s:
    s = s[:s.index(a) + len(a)] + "\n" + table + s[s.index(b):]
    open(p, 'w').write(s)
    print("table written:", len(rows), "rows")
else:
    print(table)
