#!/bin/bash
# usage: sweep.sh <tier> <seed>... ; runs every claimed check and prints one line per run
tier="$1"; shift
cd "$(dirname "$0")/.."
ids=$(python3 -c "import json;print(' '.join(c['property_id'] for c in json.load(open('MANIFEST.json'))['checks']))")
for s in "$@"; do for id in $ids; do
  out=$(VERIF_SEED=$s ./check $id $tier 2>&1); code=$?
  echo "seed=$s $id exit=$code $(echo "$out" | grep '^SUMMARY' | sed 's/SUMMARY //')"
  if [ $code -ne 0 ]; then echo "$out" | grep -E "^(VIOLATION|  what|INCONCLUSIVE|INFRA)" | head -6; fi
done; done
