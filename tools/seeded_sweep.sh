#!/bin/bash
# Runs every seeded change under /verif/seeded/<Cxx>-<k>/ against its property's quick check
# (on a scratch copy of /repo with the patch applied) and writes /verif/seeded/RESULTS.md.
# usage: seeded_sweep.sh [tier] [pattern]
tier="${1:-quick}"; pat="${2:-}"
cd /verif
out=/verif/seeded/RESULTS.md
tmp=$(mktemp)
for d in seeded/C*-*/; do
  name=$(basename "$d"); p=${name%%-*}
  [ -n "$pat" ] && [[ "$name" != $pat ]] && continue
  [ -f "$d/patch.diff" ] || continue
  extra=$(python3 -c "import json;print(' '.join(json.load(open('$d/meta.json')).get('also_checked_by',[])))" 2>/dev/null)
  pf="/verif/${d}patch.diff"
  # a patch re-applied (with fuzz or by hand) to a later /repo HEAD takes precedence
  latest=$(ls -t /verif/${d}patch.at-*.diff 2>/dev/null | head -1); [ -n "$latest" ] && pf="$latest"
  res=$(timeout 2400 tools/try_mutant.sh "$pf" "$tier" $p $extra 2>&1)
  line=$(echo "$res" | grep "^== " | tr '\n' ' ')
  echo "$name | $line" | tee -a "$tmp"
done
{
  echo "# Seeded changes vs. checks ($tier tier, $(date -u +%F))"
  echo
  echo "Each seeded change was applied to a scratch copy of /repo and the owning property's check was run with VERIF_REPO pointing at the copy. exit=1 means the check reported a VIOLATION (caught)."
  echo
  echo '```'
  cat "$tmp"
  echo '```'
} > "$out.new"
if [ -z "$pat" ]; then mv "$out.new" "$out"; else cat "$out.new"; rm -f "$out.new"; fi
rm -f "$tmp"
