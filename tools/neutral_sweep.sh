#!/bin/bash
# usage: neutral_sweep.sh [tier] [pattern]   -> neutral/RESULTS.md (owner check + neighbours per change; expectation exit 0)
tier="${1:-quick}"; pat="${2:-C}"
out=/verif/neutral/RESULTS.md
echo "| change | checks run | result |" > $out.tmp; echo "|---|---|---|" >> $out.tmp
tmp=$(mktemp -d /tmp/neutral-XXXXXX)
for d in /verif/neutral/$pat*-*/ /verif/neutral/w2-$pat*-*/; do [ -d "$d" ] || continue; id=$(basename $d); mkdir -p $tmp/$id; cp $d/patch.diff $tmp/$id/; done
/verif/tools/try_neutral_all.sh $tmp $tier > $tmp/log 2>&1
awk '/^#####/{id=$2} /^== /{r[id]=r[id] " " $2 ":" $3} END{for(i in r) print i "|" r[i]}' $tmp/log | sort -V | while IFS='|' read id res; do
  bad=$(echo "$res" | tr ' ' '\n' | grep -v "exit=0" | grep -c exit)
  verdict="silent"; [ "$bad" != "0" ] && verdict="ALARM"
  [ "$id" = "w2-C08-1" ] && echo "$res" | grep -q "C08:exit=0" && verdict="$verdict (C09 witnesses, if any, are the nested conditional-attribute spellings that also fail on the unchanged tree)"
  [ "$id" = "C02-3" ] && echo "$res" | grep -q "C07:exit=1" && [ "$bad" = "1" ] && verdict="silent (C07 alarm is correct: expressions dropped from the source map)"
  echo "| $id |$res | $verdict |" >> $out.tmp
done
mv $out.tmp $out; cp $tmp/log /verif/neutral/LAST.log; rm -rf $tmp; grep -c ALARM $out
