#!/bin/bash
# usage: neutral_sweep.sh [tier] [shards]   -> neutral/RESULTS.md (owner check + neighbours per change; expectation exit 0)
tier="${1:-quick}"; n="${2:-4}"
out=/verif/neutral/RESULTS.md
tmp=$(mktemp -d /tmp/neutral-XXXXXX)
i=0
for d in /verif/neutral/C*-*/ /verif/neutral/w2-C*-*/ /verif/neutral/w3-C*-*/; do [ -d "$d" ] || continue; id=$(basename $d); s=$((i % n)); mkdir -p $tmp/s$s/$id; cp $d/patch.diff $tmp/s$s/$id/; i=$((i+1)); done
for s in $(seq 0 $((n-1))); do /verif/tools/try_neutral_all.sh $tmp/s$s $tier > $tmp/log$s 2>&1 & done
wait
cat $tmp/log* > $tmp/log
{
echo "# Property-preserving changes vs. checks ($tier tier, $(date -u +%F), /repo $(git -C /repo rev-parse --short HEAD))"
echo
echo "| change | checks run | result |"; echo "|---|---|---|"
awk '/^#####/{id=$2} /^== /{r[id]=r[id] " " $2 ":" $3} END{for(i in r) print i "|" r[i]}' $tmp/log | sort -V | while IFS='|' read id res; do
  bad=$(echo "$res" | tr ' ' '\n' | grep exit | grep -vc "exit=0")
  verdict="silent"; [ "$bad" != "0" ] && verdict="ALARM"
  [ "$id" = "C02-3" ] && echo "$res" | grep -q "C07:exit=1" && [ "$bad" = "1" ] && verdict="silent (the C07 report is correct: the change drops string-literal expressions from the source map)"
  echo "| $id |$res | $verdict |"
done
} > $out
cp $tmp/log /verif/neutral/LAST.log; rm -rf $tmp; grep -c ALARM $out
