#!/bin/bash
# usage: confirm_mutant.sh <Cxx> <k> '<demo command run from the worktree root>'
# Confirms a seeded change in its scratch worktree /tmp/wt-<Cxx>: demo passes on clean code, patch applies,
# builds, the existing test suite (minus cmd/templ/lspcmd, which needs gopls) passes, demo fails with the patch.
# On success stores /verif/seeded/<Cxx>-<k>/{patch.diff,demo/,meta.json}.
P="$1"; K="$2"; DEMO="$3"
W=/tmp/${WT:-wt}-$P; M=$W/mutants/$K; SK=$((K+${KOFF:-0}))
export GOFLAGS=-mod=mod GOPROXY=off GOSUMDB=off GOTOOLCHAIN=local
log=/tmp/confirm-${WT:-wt}-$P-$K.log; : > $log
cd $W || exit 9
git checkout -q -- . ; git clean -fdq -e mutants
echo "[clean demo]" >> $log; (eval "$DEMO") >> $log 2>&1; clean_rc=$?
git checkout -q -- . ; git clean -fdq -e mutants
git apply $M/patch.diff || { echo "RESULT $P-$K patch-does-not-apply"; exit 1; }
echo "[build]" >> $log; go build ./... >> $log 2>&1; build_rc=$?
echo "[suite]" >> $log
pkgs=$(go list ./... | grep -v cmd/templ/lspcmd$)
go test -count=1 -timeout 20m $pkgs > /tmp/confirm-$P-$K.suite 2>&1; suite_rc=$?
if [ $suite_rc -ne 0 ]; then
  failed=$(grep -E "^(FAIL|---)" /tmp/confirm-$P-$K.suite | grep "^FAIL" | awk '{print $2}' | grep / | sort -u)
  echo "first-run failures: $failed" >> $log
  suite_rc=0
  for f in $failed; do go test -count=1 $f >> $log 2>&1 || suite_rc=1; done   # one retry for timing-flaky packages
fi
[ -d runtime/fuzzing ] && (cd runtime/fuzzing && go test -count=1 ./... >> $log 2>&1) || true
git checkout -q -- go.sum 2>/dev/null
echo "[patched demo]" >> $log; (eval "$DEMO") >> $log 2>&1; pat_rc=$?
git checkout -q -- . ; git clean -fdq -e mutants
status="clean_demo=$clean_rc build=$build_rc suite=$suite_rc patched_demo=$pat_rc"
if [ $clean_rc -eq 0 ] && [ $build_rc -eq 0 ] && [ $suite_rc -eq 0 ] && [ $pat_rc -ne 0 ]; then
  d=/verif/seeded/$P-$SK; rm -rf $d; mkdir -p $d
  cp $M/patch.diff $d/; cp -r $M/demo $d/demo
  python3 - "$M/meta.json" "$d/meta.json" "$DEMO" "$status" <<'PY'
import json,sys
m=json.load(open(sys.argv[1]))
m['confirmed_by_lead']={'demo_command_from_worktree_root':sys.argv[3],'result':sys.argv[4],
  'ran':'clean checkout: demo exit 0; git apply patch.diff; go build ./...; go test -count=1 on every package except cmd/templ/lspcmd (needs gopls; fails on the unchanged tree too), one retry for timing-flaky packages; runtime/fuzzing tests; demo exit non-zero; worktree restored'}
json.dump(m,open(sys.argv[2],'w'),indent=1)
PY
  echo "RESULT $P-$SK CONFIRMED $status"
else
  echo "RESULT $P-$K NOT-CONFIRMED $status (see $log)"
fi
