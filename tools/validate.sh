#!/bin/bash
# validates MANIFEST.json and every evidence file against the schemas
cd "$(dirname "$0")/.."
python3-vt - <<'PY'
import json,jsonschema,glob,sys
ok=True
m=json.load(open('MANIFEST.json'))
jsonschema.validate(m,json.load(open('/root/.vp/MANIFEST.schema.json')))
es=json.load(open('/root/.vp/EVIDENCE.schema.json'))
claimed={c['property_id'] for c in m['checks']}
for pid in sorted(claimed):
    f=f'evidence/{pid}.json'
    try:
        e=json.load(open(f)); jsonschema.validate(e,es)
        lv=[c for c in m['checks'] if c['property_id']==pid][0]['level_claimed']['category']
        if e['level']!=lv: print('LEVEL MISMATCH',pid,e['level'],lv); ok=False
        print('ok',pid,e['tier'],'evals',e['coverage'].get('evaluations'),'distinct',e['coverage'].get('distinct_nontrivial'),'wall',round(e['wall_s'],1))
    except Exception as ex:
        print('BAD',pid,str(ex)[:200]); ok=False
na={x['property_id'] for x in m.get('not_applicable',[])}
allp={json.loads(l)['id'] for l in open('properties.jsonl')}
if claimed|na!=allp or claimed&na: print('COVERAGE MISMATCH',allp-claimed-na,claimed&na); ok=False
sys.exit(0 if ok else 1)
PY
