#!/bin/bash
# Re-confirms every seeded change under /verif/seeded against the CURRENT /repo HEAD in a fresh scratch
# worktree: demo passes on clean code, patch applies (exactly, or with fuzz, or patch.rebased.diff), builds,
# existing suite passes (minus cmd/templ/lspcmd), demo fails with the patch. Updates meta.json
# ("reconfirmed_at") and prints one RESULT line per change. usage: reconfirm_all.sh [pattern]
pat="${1:-*}"
export GOFLAGS=-mod=mod GOPROXY=off GOSUMDB=off GOTOOLCHAIN=local
head=$(git -C /repo rev-parse --short HEAD)
for d in /verif/seeded/$pat/; do
  id=$(basename $d); [ -f $d/meta.json ] || continue
  demo=$(python3 -c "import json;print(json.load(open('$d/meta.json'))['confirmed_by_lead']['demo_command_from_worktree_root'])")
  k=$(echo "$demo" | grep -o 'mutants/[0-9]*' | head -1 | cut -d/ -f2); [ -z "$k" ] && k=1
  W=/tmp/rc-$id; git -C /repo worktree remove --force $W 2>/dev/null; rm -rf $W
  git -C /repo worktree add -q --detach $W HEAD || { echo "RESULT $id worktree-failed"; continue; }
  mkdir -p $W/mutants/$k; cp -r $d/demo $W/mutants/$k/demo; cp $d/patch.diff $W/mutants/$k/patch.diff
  [ -f $W/mutants/go.mod ] || printf 'module mutants\n\ngo 1.23.0\n' > $W/mutants/go.mod
  cd $W
  log=/tmp/rc-$id.log; : > $log
  (eval "$demo") >> $log 2>&1; clean_rc=$?
  git checkout -q -- . ; git clean -fdq -e mutants
  how=exact
  if ! git apply mutants/$k/patch.diff 2>>$log; then
    if [ -f $d/patch.rebased.diff ] && git apply $d/patch.rebased.diff 2>>$log; then
      how=rebased
    elif patch -p1 -s --fuzz=3 < mutants/$k/patch.diff >>$log 2>&1; then
      how=fuzz
    else
      echo "RESULT $id DOES-NOT-APPLY at $head"; cd /; git -C /repo worktree remove --force $W; continue
    fi
    find . -name '*.rej' -o -name '*.orig' | xargs rm -f
  fi
  go build ./... >> $log 2>&1; build_rc=$?
  pkgs=$(go list ./... 2>/dev/null | grep -v cmd/templ/lspcmd$)
  go test -count=1 -timeout 20m $pkgs > /tmp/rc-$id.suite 2>&1; suite_rc=$?
  if [ $suite_rc -ne 0 ]; then
    failed=$(grep "^FAIL" /tmp/rc-$id.suite | awk '{print $2}' | grep / | sort -u); suite_rc=0
    for f in $failed; do go test -count=1 $f >> $log 2>&1 || suite_rc=1; done
  fi
  git checkout -q -- go.sum 2>/dev/null
  (eval "$demo") >> $log 2>&1; pat_rc=$?
  status="clean_demo=$clean_rc apply=$how build=$build_rc suite=$suite_rc patched_demo=$pat_rc"
  if [ $clean_rc -eq 0 ] && [ $build_rc -eq 0 ] && [ $suite_rc -eq 0 ] && [ $pat_rc -ne 0 ]; then
    if [ $how != exact ]; then git diff -- . ':!go.sum' > $d/patch.at-$head.diff; fi
    python3 - "$d/meta.json" "$head" "$status" <<'PY'
import json,sys
p=sys.argv[1]; m=json.load(open(p)); m['reconfirmed_at']={'repo_head':sys.argv[2],'result':sys.argv[3]}; json.dump(m,open(p,'w'),indent=1)
PY
    echo "RESULT $id RECONFIRMED at $head $status"
  else
    echo "RESULT $id NOT-RECONFIRMED at $head $status (see $log)"
  fi
  cd /; git -C /repo worktree remove --force $W 2>/dev/null; rm -rf $W
done
