#!/bin/bash
# usage: try_mutant.sh <patch.diff> <tier> <Cxx> [Cyy...]
# copies /repo to a scratch dir, applies the patch, runs the given checks with VERIF_REPO, removes the copy.
patch="$1"; tier="$2"; shift 2
d=$(mktemp -d /tmp/mut-XXXXXX)
cp -r /repo/. "$d"/ && rm -rf "$d/.git"
if ! (cd "$d" && patch -p1 -s < "$patch"); then echo "PATCH FAILED"; rm -rf "$d"; exit 3; fi
rc=0
for id in "$@"; do
  out=$(cd /verif && VERIF_OUT="$d/.verif-out" VERIF_REPO="$d" ./check "$id" "$tier" 2>&1); code=$?
  echo "== $id exit=$code $(echo "$out" | grep -c '^VIOLATION') violation line(s)"
  echo "$out" | grep -E "^(SUMMARY|INFRA|INCONCLUSIVE)" | head -3
  echo "$out" | grep -A1 "^VIOLATION" | grep "what:" | head -3
done
sfx=$(echo "$d" | md5sum | cut -c1-8)
rm -rf "$d" /verif/harness/.alt-$sfx /verif/harness/bin/*-$sfx 2>/dev/null
