#!/bin/bash
# usage: try_neutral_all.sh <dir-with-<ID>-k subdirs> [tier]
# Runs, for every neutral (property-preserving) change, the owning property's check and its neighbours
# against a scratch copy of /repo with the change applied. Expectation: exit 0 everywhere.
dir="$1"; tier="${2:-quick}"
declare -A NB=( [C01]="C02 C10" [C02]="C10 C13 C16 C07" [C03]="C12" [C04]="C01" [C05]="C12 C01" [C06]="C07 C08" [C07]="C06 C16" [C08]="C09" [C09]="C08" [C10]="C14 C11 C02" [C11]="C14 C10" [C12]="C02 C13" [C13]="C02 C12" [C14]="C10 C16" [C15]="C16" [C16]="C15 C14" [C17]="C09" [C18]="" [C19]="" [C20]="" )
for p in "$dir"/C*-*/ "$dir"/w2-C*-*/ "$dir"/w3-C*-*/; do
  [ -d "$p" ] || continue
  id=$(basename "$p"); bare=${id#w2-}; bare=${bare#w3-}; own=${bare%%-*}
  echo "##### $id"
  /verif/tools/try_mutant.sh "$p/patch.diff" "$tier" $own ${NB[$own]} 2>&1 | cut -c1-400
done
