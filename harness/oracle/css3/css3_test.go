package css3

import (
	"fmt"
	"strings"
	"testing"
)

func show(ts []Token) string {
	var parts []string
	for _, t := range ts {
		s := fmt.Sprintf("%s(%s)", t.Kind, t.Value)
		if t.Unterminated {
			s += "!"
		}
		parts = append(parts, s)
	}
	return strings.Join(parts, " ")
}

// Expectations follow the specification text: §4.1 railroad diagrams, the
// escape example of §4.1 ("&B" = \26 B = \000026B), §4.3.x algorithms.
func TestTokenizer(t *testing.T) {
	for _, tc := range []struct{ in, want string }{
		{`\26 B`, `ident(&B)`},
		{`\000026B`, `ident(&B)`},
		{`a/*x*/b`, `ident(a) ident(b)`},
		{`color: red;`, `ident(color) colon(:) whitespace( ) ident(red) semicolon(;)`},
		{`--x -a - -1 -->`, `ident(--x) whitespace( ) ident(-a) whitespace( ) delim(-) whitespace( ) number(-1) whitespace( ) CDC(-->)`},
		{`<!-- <a`, `CDO(<!--) whitespace( ) delim(<) ident(a)`},
		{`@media @ @-x @1`, `at-keyword(media) whitespace( ) delim(@) whitespace( ) at-keyword(-x) whitespace( ) delim(@) number(1)`},
		{`#id #1 # #-`, `hash(id) whitespace( ) hash(1) whitespace( ) delim(#) whitespace( ) hash(-)`},
		{`"a\"b" 'c"d'`, `string(a"b) whitespace( ) string(c"d)`},
		{"\"a\nb", `bad-string(a) whitespace( ) ident(b)`}, // newline ends a string: bad-string, newline not consumed
		{"\"a\\\nb\"", `string(ab)`}, // escaped newline is a continuation
		{`"abc`, `string(abc)!`},     // EOF in string: parse error, string returned
		{`"a\`, `string(a)!`},        // backslash EOF inside string: nothing
		{`url(foo)`, `url(foo)`},
		{`url(  foo  )`, `url(foo)`},
		{`URL(foo)`, `url(foo)`},
		{`url("foo")`, `function(url) string(foo) )())`},
		{`url(  'foo')`, `function(url) whitespace( ) string(foo) )())`},
		{`url(a b)`, `bad-url()`},
		{`url(a"b)c`, `bad-url() ident(c)`},
		{`url(a(b)c`, `bad-url() ident(c)`},
		{`url(a\)b)c`, `url(a)b) ident(c)`},
		{`url(a\` + "\n" + `b)c`, `bad-url() ident(c)`},
		{`url(abc`, `url(abc)!`},
		{`url(a b\)c)d`, `bad-url() ident(d)`}, // escaped ) inside bad-url remnants does not end it
		{`rgb(1,2%,3px)`, `function(rgb) number(1) comma(,) percentage(2%) comma(,) dimension(3px) )())`},
		{`1e3 1e+3 1e 1.5 .5 +.5 1.`, `number(1e3) whitespace( ) number(1e+3) whitespace( ) dimension(1e) whitespace( ) number(1.5) whitespace( ) number(.5) whitespace( ) number(+.5) whitespace( ) number(1) delim(.)`},
		{"a\r\nb\fc\rd", `ident(a) whitespace( ) ident(b) whitespace( ) ident(c) whitespace( ) ident(d)`},
		{"a\x00b", "ident(a�b)"},
		{`\0 \110000 \d800 x`, "ident(���x)"},
		{"\\\n", "delim(\\) whitespace( )"}, // backslash-newline is not a valid escape
		{`{[()]}`, `{({) [([) ((() )()) ](]) }(})`},
		{`a{b:c}`, `ident(a) {({) ident(b) colon(:) ident(c) }(})`},
		{`é_1`, `ident(é_1)`},
		{`/* open`, ``},
	} {
		r := Tokenize(tc.in)
		if got := show(r.Tokens); got != tc.want {
			t.Errorf("Tokenize(%q)\n got  %s\n want %s", tc.in, got, tc.want)
		}
	}
	if r := Tokenize(`a/*x*/b/* open`); r.Comments != 2 || !r.OpenEOF {
		t.Errorf("comment accounting: %+v", r)
	}
	if r := Tokenize(`"/*"`); r.Comments != 0 {
		t.Errorf("comment inside string counted")
	}
}

func cvs(in []CV) string {
	var parts []string
	for _, c := range in {
		switch {
		case c.Block != nil:
			parts = append(parts, fmt.Sprintf("%s[%s]%v", c.Block.Open, cvs(c.Block.Values), c.Block.Closed))
		case c.Func != nil:
			parts = append(parts, fmt.Sprintf("%s([%s])%v", c.Func.Name, cvs(c.Func.Values), c.Func.Closed))
		default:
			parts = append(parts, fmt.Sprintf("%s(%s)", c.Tok.Kind, c.Tok.Value))
		}
	}
	return strings.Join(parts, " ")
}

func items(it []Item) string {
	var parts []string
	for _, i := range it {
		if i.Decl != nil {
			imp := ""
			if i.Decl.Important {
				imp = "!"
			}
			parts = append(parts, fmt.Sprintf("%s=%s%s", i.Decl.Name, cvs(i.Decl.Value), imp))
		} else {
			parts = append(parts, "@"+i.Rule.Name)
		}
	}
	return strings.Join(parts, " | ")
}

// §5.4.5 / §5.4.6, and the error-recovery behaviour described in §2.2
// ("a declaration that is invalid is thrown away up to the next semicolon").
func TestDeclarations(t *testing.T) {
	for _, tc := range []struct{ in, want string }{
		{`color:red;width : 1px ; `, `color=ident(red) | width=dimension(1px)`},
		{`color:red !important`, `color=ident(red)!`},
		{`color red; width:1px`, `width=dimension(1px)`}, // no colon: dropped
		{`-:red; width:1px`, `width=dimension(1px)`},     // not an ident: skipped to ';'
		{`a:b;;;c:d`, `a=ident(b) | c=ident(d)`},
		{`a:(;);c:d`, `a=([semicolon(;)]true | c=ident(d)`},                 // ';' inside a block does not end the declaration
		{`a:f(;c:d`, `a=f([semicolon(;) ident(c) colon(:) ident(d)])false`}, // unclosed function swallows the rest
		{`a:{x;y}z;c:d`, `a={[ident(x) semicolon(;) ident(y)]true ident(z) | c=ident(d)`},
		{`@media x{a:b} c:d`, `@media | c=ident(d)`},
		{`@import "x"; c:d`, `@import | c=ident(d)`},
		{`a:"x;y";c:d`, `a=string(x;y) | c=ident(d)`},
		{`a:url(x;y);c:d`, `a=url(x;y) | c=ident(d)`},
		{`a:b}c:d`, `a=ident(b) }(}) ident(c) colon(:) ident(d)`}, // in a bare declaration list '}' is just a token
	} {
		got := items(ParseDeclarationList(ToCVs(Tokenize(tc.in).Tokens)))
		if got != tc.want {
			t.Errorf("decls(%q)\n got  %s\n want %s", tc.in, got, tc.want)
		}
	}
}

// §5.3.3 parse a stylesheet / §5.4.1–§5.4.3.
func TestStylesheet(t *testing.T) {
	rs := ParseStylesheet(Tokenize(`<!-- .x{a:b;c:d} --> @media print{.y{e:f}} @charset "x"; .z{g:h`).Tokens)
	if len(rs) != 4 {
		t.Fatalf("rules = %d", len(rs))
	}
	if rs[0].At || cvs(rs[0].Prelude) != "delim(.) ident(x)" || !rs[0].Block.Closed ||
		items(ParseDeclarationList(rs[0].Block.Values)) != "a=ident(b) | c=ident(d)" {
		t.Errorf("rule 0: %s {%s}", cvs(rs[0].Prelude), cvs(rs[0].Block.Values))
	}
	if !rs[1].At || rs[1].Name != "media" || rs[1].Block == nil {
		t.Errorf("rule 1: %+v", rs[1])
	}
	if !rs[2].At || rs[2].Name != "charset" || rs[2].Block != nil {
		t.Errorf("rule 2: %+v", rs[2])
	}
	if rs[3].Block == nil || rs[3].Block.Closed {
		t.Errorf("rule 3 should be an unclosed block")
	}
	// EOF before a block: the qualified rule is dropped
	if rs := ParseStylesheet(Tokenize(`.x{a:b} .y `).Tokens); len(rs) != 1 {
		t.Errorf("dangling prelude kept: %d", len(rs))
	}
	// a '}' inside a declaration value ends the rule; the rest becomes a new rule
	rs = ParseStylesheet(Tokenize(`.x{a:b}c{d:e}`).Tokens)
	if len(rs) != 2 || cvs(rs[1].Prelude) != "ident(c)" {
		t.Errorf("rule split: %d", len(rs))
	}
}
