// Package css3 is a from-scratch implementation of the tokenizer (§4) and of
// the rule / declaration-list parser (§5) of "CSS Syntax Module Level 3"
// (https://www.w3.org/TR/css-syntax-3/, CR 2021-12-24), written from the
// specification text. It shares no code with templ. Monitors use it to decide
// what a conforming CSS consumer makes of emitted style text.
package css3

import (
	"strings"
	"unicode/utf8"
)

type Kind int

const (
	EOF Kind = iota
	Ident
	Function // Value = name, the "(" is consumed
	AtKeyword
	Hash
	String
	BadString
	URL // unquoted url(...) ; Value = unescaped argument
	BadURL
	Delim
	Number
	Percentage
	Dimension
	Whitespace
	CDO
	CDC
	Colon
	Semicolon
	Comma
	LBracket
	RBracket
	LParen
	RParen
	LBrace
	RBrace
)

var kindNames = [...]string{"EOF", "ident", "function", "at-keyword", "hash", "string", "bad-string", "url", "bad-url",
	"delim", "number", "percentage", "dimension", "whitespace", "CDO", "CDC", "colon", "semicolon", "comma",
	"[", "]", "(", ")", "{", "}"}

func (k Kind) String() string { return kindNames[k] }

// Token is one CSS token. Value holds the unescaped name / string / url
// contents, the delimiter, or the source text of a numeric token.
type Token struct {
	Kind  Kind
	Value string
	// Unterminated: the token (string, url, or the function/blocks built from
	// it later) ran into the end of input — a parse error that makes the token
	// swallow everything that followed.
	Unterminated bool
}

// Result of tokenising.
type Result struct {
	Tokens   []Token
	Comments int  // number of /* comments consumed (terminated or not)
	OpenEOF  bool // a comment, string or url ran into the end of input
}

type tz struct {
	r   []rune
	pos int
	res Result
}

const eof = rune(-1)

// preprocess implements §3.3: CRLF, CR and FF become LF; NUL and surrogates
// become U+FFFD. Invalid UTF-8 bytes decode to U+FFFD (one per byte), which is
// what a decoder hands to the tokenizer.
func preprocess(s string) []rune {
	out := make([]rune, 0, len(s))
	for i := 0; i < len(s); {
		c, n := utf8.DecodeRuneInString(s[i:])
		i += n
		switch {
		case c == '\r':
			if i < len(s) && s[i] == '\n' {
				i++
			}
			c = '\n'
		case c == '\f':
			c = '\n'
		case c == 0:
			c = 0xFFFD
		}
		out = append(out, c)
	}
	return out
}

func (t *tz) peek(k int) rune {
	if t.pos+k < len(t.r) {
		return t.r[t.pos+k]
	}
	return eof
}

func isDigit(c rune) bool { return c >= '0' && c <= '9' }
func isHex(c rune) bool {
	return isDigit(c) || c >= 'a' && c <= 'f' || c >= 'A' && c <= 'F'
}
func isLetter(c rune) bool     { return c >= 'a' && c <= 'z' || c >= 'A' && c <= 'Z' }
func isIdentStart(c rune) bool { return isLetter(c) || c >= 0x80 || c == '_' }
func isIdent(c rune) bool      { return isIdentStart(c) || isDigit(c) || c == '-' }
func isWS(c rune) bool         { return c == '\n' || c == '\t' || c == ' ' }
func isNonPrintable(c rune) bool {
	return c >= 0 && c <= 8 || c == 0xB || c >= 0xE && c <= 0x1F || c == 0x7F
}

// §4.3.8 two code points are a valid escape
func validEscape(a, b rune) bool { return a == '\\' && b != '\n' }

// §4.3.9 three code points would start an ident sequence
func startsIdent(a, b, c rune) bool {
	switch {
	case a == '-':
		return isIdentStart(b) || b == '-' || validEscape(b, c)
	case isIdentStart(a):
		return true
	case a == '\\':
		return validEscape(a, b)
	}
	return false
}

// §4.3.10 three code points would start a number
func startsNumber(a, b, c rune) bool {
	switch {
	case a == '+' || a == '-':
		return isDigit(b) || b == '.' && isDigit(c)
	case a == '.':
		return isDigit(b)
	}
	return isDigit(a)
}

// §4.3.7 consume an escaped code point (the backslash is already consumed).
func (t *tz) escaped() rune {
	c := t.peek(0)
	if c == eof {
		return 0xFFFD
	}
	t.pos++
	if !isHex(c) {
		return c
	}
	v := hexVal(c)
	for n := 0; n < 5 && isHex(t.peek(0)); n++ {
		v = v*16 + hexVal(t.peek(0))
		t.pos++
	}
	if isWS(t.peek(0)) {
		t.pos++
	}
	if v == 0 || v >= 0xD800 && v <= 0xDFFF || v > 0x10FFFF {
		return 0xFFFD
	}
	return v
}

func hexVal(c rune) rune {
	switch {
	case isDigit(c):
		return c - '0'
	case c >= 'a':
		return c - 'a' + 10
	}
	return c - 'A' + 10
}

// §4.3.11 consume an ident sequence
func (t *tz) identSeq() string {
	var sb strings.Builder
	for {
		c := t.peek(0)
		switch {
		case c != eof && isIdent(c):
			t.pos++
			sb.WriteRune(c)
		case validEscape(c, t.peek(1)):
			t.pos++
			sb.WriteRune(t.escaped())
		default:
			return sb.String()
		}
	}
}

// §4.3.5 consume a string token (opening quote already consumed).
func (t *tz) stringTok(end rune) Token {
	var sb strings.Builder
	for {
		c := t.peek(0)
		switch {
		case c == end:
			t.pos++
			return Token{Kind: String, Value: sb.String()}
		case c == eof:
			t.res.OpenEOF = true
			return Token{Kind: String, Value: sb.String(), Unterminated: true}
		case c == '\n':
			return Token{Kind: BadString, Value: sb.String()} // newline not consumed
		case c == '\\':
			t.pos++
			if n := t.peek(0); n == eof {
				// do nothing
			} else if n == '\n' {
				t.pos++
			} else {
				sb.WriteRune(t.escaped())
			}
		default:
			t.pos++
			sb.WriteRune(c)
		}
	}
}

func (t *tz) skipWS() {
	for isWS(t.peek(0)) {
		t.pos++
	}
}

// §4.3.6 consume a url token ("url(" already consumed).
func (t *tz) urlTok() Token {
	var sb strings.Builder
	t.skipWS()
	for {
		c := t.peek(0)
		switch {
		case c == ')':
			t.pos++
			return Token{Kind: URL, Value: sb.String()}
		case c == eof:
			t.res.OpenEOF = true
			return Token{Kind: URL, Value: sb.String(), Unterminated: true}
		case isWS(c):
			t.skipWS()
			if n := t.peek(0); n == ')' {
				t.pos++
				return Token{Kind: URL, Value: sb.String()}
			} else if n == eof {
				t.res.OpenEOF = true
				return Token{Kind: URL, Value: sb.String(), Unterminated: true}
			}
			return t.badURL()
		case c == '"' || c == '\'' || c == '(' || isNonPrintable(c):
			t.pos++
			return t.badURL()
		case c == '\\':
			if validEscape(c, t.peek(1)) {
				t.pos++
				sb.WriteRune(t.escaped())
			} else {
				t.pos++
				return t.badURL()
			}
		default:
			t.pos++
			sb.WriteRune(c)
		}
	}
}

// §4.3.14 consume the remnants of a bad url
func (t *tz) badURL() Token {
	for {
		c := t.peek(0)
		switch {
		case c == ')':
			t.pos++
			return Token{Kind: BadURL}
		case c == eof:
			t.res.OpenEOF = true
			return Token{Kind: BadURL, Unterminated: true}
		case validEscape(c, t.peek(1)):
			t.pos++
			t.escaped()
		default:
			t.pos++
		}
	}
}

// §4.3.4 consume an ident-like token
func (t *tz) identLike() Token {
	name := t.identSeq()
	if strings.EqualFold(name, "url") && t.peek(0) == '(' {
		t.pos++
		for isWS(t.peek(0)) && isWS(t.peek(1)) {
			t.pos++
		}
		a, b := t.peek(0), t.peek(1)
		if a == '"' || a == '\'' || isWS(a) && (b == '"' || b == '\'') {
			return Token{Kind: Function, Value: name}
		}
		return t.urlTok()
	}
	if t.peek(0) == '(' {
		t.pos++
		return Token{Kind: Function, Value: name}
	}
	return Token{Kind: Ident, Value: name}
}

// §4.3.3 consume a numeric token (§4.3.12 consume a number inlined; only the
// source text is kept).
func (t *tz) numeric() Token {
	start := t.pos
	if c := t.peek(0); c == '+' || c == '-' {
		t.pos++
	}
	for isDigit(t.peek(0)) {
		t.pos++
	}
	if t.peek(0) == '.' && isDigit(t.peek(1)) {
		t.pos += 2
		for isDigit(t.peek(0)) {
			t.pos++
		}
	}
	if c := t.peek(0); c == 'e' || c == 'E' {
		n := t.peek(1)
		if isDigit(n) {
			t.pos += 2
		} else if (n == '+' || n == '-') && isDigit(t.peek(2)) {
			t.pos += 3
		}
		for isDigit(t.peek(0)) {
			t.pos++
		}
	}
	repr := string(t.r[start:t.pos])
	if startsIdent(t.peek(0), t.peek(1), t.peek(2)) {
		return Token{Kind: Dimension, Value: repr + t.identSeq()}
	}
	if t.peek(0) == '%' {
		t.pos++
		return Token{Kind: Percentage, Value: repr + "%"}
	}
	return Token{Kind: Number, Value: repr}
}

// §4.3.1 consume a token
func (t *tz) next() Token {
	// §4.3.2 consume comments
	for t.peek(0) == '/' && t.peek(1) == '*' {
		t.res.Comments++
		t.pos += 2
		for {
			if t.peek(0) == eof {
				t.res.OpenEOF = true
				break
			}
			if t.peek(0) == '*' && t.peek(1) == '/' {
				t.pos += 2
				break
			}
			t.pos++
		}
	}
	c := t.peek(0)
	if c == eof {
		return Token{Kind: EOF}
	}
	delim := func() Token { t.pos++; return Token{Kind: Delim, Value: string(c)} }
	simple := func(k Kind) Token { t.pos++; return Token{Kind: k, Value: string(c)} }
	switch {
	case isWS(c):
		t.skipWS()
		return Token{Kind: Whitespace, Value: " "}
	case c == '"' || c == '\'':
		t.pos++
		return t.stringTok(c)
	case c == '#':
		if n := t.peek(1); n != eof && isIdent(n) || validEscape(t.peek(1), t.peek(2)) {
			t.pos++
			return Token{Kind: Hash, Value: t.identSeq()}
		}
		return delim()
	case c == '(':
		return simple(LParen)
	case c == ')':
		return simple(RParen)
	case c == '+' || c == '.':
		if startsNumber(c, t.peek(1), t.peek(2)) {
			return t.numeric()
		}
		return delim()
	case c == ',':
		return simple(Comma)
	case c == '-':
		if startsNumber(c, t.peek(1), t.peek(2)) {
			return t.numeric()
		}
		if t.peek(1) == '-' && t.peek(2) == '>' {
			t.pos += 3
			return Token{Kind: CDC, Value: "-->"}
		}
		if startsIdent(c, t.peek(1), t.peek(2)) {
			return t.identLike()
		}
		return delim()
	case c == ':':
		return simple(Colon)
	case c == ';':
		return simple(Semicolon)
	case c == '<':
		if t.peek(1) == '!' && t.peek(2) == '-' && t.peek(3) == '-' {
			t.pos += 4
			return Token{Kind: CDO, Value: "<!--"}
		}
		return delim()
	case c == '@':
		if startsIdent(t.peek(1), t.peek(2), t.peek(3)) {
			t.pos++
			return Token{Kind: AtKeyword, Value: t.identSeq()}
		}
		return delim()
	case c == '[':
		return simple(LBracket)
	case c == '\\':
		if validEscape(c, t.peek(1)) {
			return t.identLike()
		}
		return delim()
	case c == ']':
		return simple(RBracket)
	case c == '{':
		return simple(LBrace)
	case c == '}':
		return simple(RBrace)
	case isDigit(c):
		return t.numeric()
	case isIdentStart(c):
		return t.identLike()
	}
	return delim()
}

// Tokenize tokenises s completely (the EOF token is not included).
func Tokenize(s string) Result {
	t := &tz{r: preprocess(s)}
	t.res.Tokens = make([]Token, 0, len(t.r)/2+8)
	for {
		tok := t.next()
		if tok.Kind == EOF {
			return t.res
		}
		t.res.Tokens = append(t.res.Tokens, tok)
	}
}

// ---------------------------------------------------------------- parser §5

// CV is a component value: a preserved token, a simple block or a function.
type CV struct {
	Tok   Token
	Block *Block
	Func  *Func
}

type Block struct {
	Open   Kind // LBrace, LBracket or LParen
	Values []CV
	Closed bool // false: ran into the end of input
}

type Func struct {
	Name   string
	Values []CV
	Closed bool
}

type Rule struct {
	At      bool
	Name    string // at-rule name
	Prelude []CV
	Block   *Block // nil for an at-rule ended by ';'
}

type Decl struct {
	Name      string
	Value     []CV
	Important bool
}

// Item of a declaration list: a declaration or an at-rule.
type Item struct {
	Decl *Decl
	Rule *Rule
}

type stream struct {
	in  []CV
	pos int
}

func (s *stream) peek() (CV, bool) {
	if s.pos < len(s.in) {
		return s.in[s.pos], true
	}
	return CV{}, false
}

func (c CV) is(k Kind) bool { return c.Block == nil && c.Func == nil && c.Tok.Kind == k }

// ToCVs wraps raw tokens as (ungrouped) component values.
func ToCVs(toks []Token) []CV {
	out := make([]CV, len(toks))
	for i, t := range toks {
		out[i] = CV{Tok: t}
	}
	return out
}

var mirror = map[Kind]Kind{LBrace: RBrace, LBracket: RBracket, LParen: RParen}

// §5.4.7 consume a component value
func (s *stream) component() CV {
	c := s.in[s.pos]
	s.pos++
	if c.Block != nil || c.Func != nil {
		return c
	}
	switch c.Tok.Kind {
	case LBrace, LBracket, LParen:
		return CV{Block: s.block(c.Tok.Kind)}
	case Function:
		return CV{Func: s.function(c.Tok.Value)}
	}
	return c
}

// §5.4.8 consume a simple block (opening token consumed)
func (s *stream) block(open Kind) *Block {
	b := &Block{Open: open}
	for {
		c, ok := s.peek()
		if !ok {
			return b
		}
		if c.is(mirror[open]) {
			s.pos++
			b.Closed = true
			return b
		}
		b.Values = append(b.Values, s.component())
	}
}

// §5.4.9 consume a function
func (s *stream) function(name string) *Func {
	f := &Func{Name: name}
	for {
		c, ok := s.peek()
		if !ok {
			return f
		}
		if c.is(RParen) {
			s.pos++
			f.Closed = true
			return f
		}
		f.Values = append(f.Values, s.component())
	}
}

// §5.4.1 consume a list of rules
func (s *stream) rules(top bool) []Rule {
	var out []Rule
	for {
		c, ok := s.peek()
		switch {
		case !ok:
			return out
		case c.is(Whitespace):
			s.pos++
		case c.is(CDO) || c.is(CDC):
			if top {
				s.pos++
				continue
			}
			if r := s.qualified(); r != nil {
				out = append(out, *r)
			}
		case c.is(AtKeyword):
			out = append(out, s.atRule())
		default:
			if r := s.qualified(); r != nil {
				out = append(out, *r)
			}
		}
	}
}

// §5.4.2 consume an at-rule
func (s *stream) atRule() Rule {
	r := Rule{At: true, Name: s.in[s.pos].Tok.Value}
	s.pos++
	for {
		c, ok := s.peek()
		switch {
		case !ok:
			return r
		case c.is(Semicolon):
			s.pos++
			return r
		case c.is(LBrace):
			s.pos++
			r.Block = s.block(LBrace)
			return r
		case c.Block != nil && c.Block.Open == LBrace:
			s.pos++
			r.Block = c.Block
			return r
		default:
			r.Prelude = append(r.Prelude, s.component())
		}
	}
}

// §5.4.3 consume a qualified rule; nil = parse error (EOF before a block)
func (s *stream) qualified() *Rule {
	r := &Rule{}
	for {
		c, ok := s.peek()
		switch {
		case !ok:
			return nil
		case c.is(LBrace):
			s.pos++
			r.Block = s.block(LBrace)
			return r
		case c.Block != nil && c.Block.Open == LBrace:
			s.pos++
			r.Block = c.Block
			return r
		default:
			r.Prelude = append(r.Prelude, s.component())
		}
	}
}

// §5.4.5 consume a list of declarations
func (s *stream) declarations() []Item {
	var out []Item
	for {
		c, ok := s.peek()
		switch {
		case !ok:
			return out
		case c.is(Whitespace) || c.is(Semicolon):
			s.pos++
		case c.is(AtKeyword):
			r := s.atRule()
			out = append(out, Item{Rule: &r})
		case c.is(Ident):
			tmp := []CV{s.component()}
			for {
				n, ok := s.peek()
				if !ok || n.is(Semicolon) {
					break
				}
				tmp = append(tmp, s.component())
			}
			if d := declaration(tmp); d != nil {
				out = append(out, Item{Decl: d})
			}
		default: // parse error: throw away up to the next semicolon
			for {
				n, ok := s.peek()
				if !ok || n.is(Semicolon) {
					break
				}
				s.component()
			}
		}
	}
}

// §5.4.6 consume a declaration from a list whose first item is an ident
func declaration(in []CV) *Decl {
	d := &Decl{Name: in[0].Tok.Value}
	i := 1
	for i < len(in) && in[i].is(Whitespace) {
		i++
	}
	if i >= len(in) || !in[i].is(Colon) {
		return nil
	}
	i++
	for i < len(in) && in[i].is(Whitespace) {
		i++
	}
	v := in[i:]
	// "!important": last two non-whitespace tokens are delim '!' and ident important
	nw := func(from int) int { // index of last non-whitespace component before from, or -1
		for j := from - 1; j >= 0; j-- {
			if !v[j].is(Whitespace) {
				return j
			}
		}
		return -1
	}
	if a := nw(len(v)); a >= 0 && v[a].is(Ident) && strings.EqualFold(v[a].Tok.Value, "important") {
		if b := nw(a); b >= 0 && v[b].is(Delim) && v[b].Tok.Value == "!" {
			d.Important = true
			v = v[:b]
		}
	}
	for len(v) > 0 && v[len(v)-1].is(Whitespace) {
		v = v[:len(v)-1]
	}
	d.Value = v
	return d
}

// ParseStylesheet: "parse a stylesheet" — consume a list of rules with the
// top-level flag set.
func ParseStylesheet(toks []Token) []Rule {
	s := &stream{in: ToCVs(toks)}
	return s.rules(true)
}

// ParseDeclarationList: "parse a list of declarations" over component values
// (a {}-block's contents, or the tokens of a style attribute).
func ParseDeclarationList(in []CV) []Item {
	s := &stream{in: in}
	return s.declarations()
}

// ParseComponentValues groups raw tokens into component values.
func ParseComponentValues(toks []Token) []CV {
	s := &stream{in: ToCVs(toks)}
	var out []CV
	for s.pos < len(s.in) {
		out = append(out, s.component())
	}
	return out
}
