// Package html5 wraps golang.org/x/net/html's tokenizer (an independent HTML5
// tokenizer; templ's escaper is the standard library's html.EscapeString) into
// a flat token list that monitors compare.
package html5

import (
	"bytes"
	"fmt"
	"io"
	"strings"

	"golang.org/x/net/html"
)

type Attr struct {
	Key string // lower-cased by the tokenizer
	Val string // character references decoded
}

// Tok is one HTML5 token.
type Tok struct {
	Kind  string // text | start | end | selfclose | comment | doctype
	Name  string // tag name (lower case) for start/end/selfclose
	Attrs []Attr
	Data  string // decoded text / comment / doctype data; for raw-text elements the raw bytes
	Raw   string // the exact source bytes of the token
}

func (t Tok) String() string {
	switch t.Kind {
	case "start", "selfclose":
		var sb strings.Builder
		fmt.Fprintf(&sb, "<%s", t.Name)
		for _, a := range t.Attrs {
			fmt.Fprintf(&sb, " %s=%q", a.Key, a.Val)
		}
		if t.Kind == "selfclose" {
			sb.WriteString("/")
		}
		sb.WriteString(">")
		return sb.String()
	case "end":
		return "</" + t.Name + ">"
	case "comment":
		return "<!--" + t.Data + "-->"
	case "doctype":
		return "<!doctype " + t.Data + ">"
	}
	return fmt.Sprintf("text(%q)", t.Data)
}

// Tokenize returns all tokens of b. Adjacent text tokens are merged so that a
// "text run" is one token whatever the tokenizer's internal chunking.
func Tokenize(b []byte) ([]Tok, error) {
	z := html.NewTokenizer(bytes.NewReader(b))
	var out []Tok
	for {
		tt := z.Next()
		if tt == html.ErrorToken {
			if z.Err() == io.EOF {
				return out, nil
			}
			return out, z.Err()
		}
		raw := string(z.Raw())
		tok := z.Token()
		var t Tok
		t.Raw = raw
		switch tt {
		case html.TextToken:
			t.Kind, t.Data = "text", tok.Data
			if n := len(out); n > 0 && out[n-1].Kind == "text" {
				out[n-1].Data += t.Data
				out[n-1].Raw += t.Raw
				continue
			}
		case html.StartTagToken, html.SelfClosingTagToken:
			t.Kind = "start"
			if tt == html.SelfClosingTagToken {
				t.Kind = "selfclose"
			}
			t.Name = tok.Data
			for _, a := range tok.Attr {
				t.Attrs = append(t.Attrs, Attr{a.Key, a.Val})
			}
		case html.EndTagToken:
			t.Kind, t.Name = "end", tok.Data
		case html.CommentToken:
			t.Kind, t.Data = "comment", tok.Data
		case html.DoctypeToken:
			t.Kind, t.Data = "doctype", tok.Data
		}
		out = append(out, t)
	}
}

// NormText applies the input-stream preprocessing every HTML5 consumer
// performs, so that values can be compared "verbatim": CRLF and CR become LF,
// NUL is equivalent to U+FFFD.
func NormText(s string) string {
	s = strings.ReplaceAll(s, "\r\n", "\n")
	s = strings.ReplaceAll(s, "\r", "\n")
	s = strings.ReplaceAll(s, "\x00", "�")
	return s
}

// Skeleton renders the structure of a token list with every text/attribute
// value elided: kinds, tag names, attribute names and order.
func Skeleton(ts []Tok) string {
	var sb strings.Builder
	for _, t := range ts {
		switch t.Kind {
		case "start", "selfclose":
			sb.WriteString("<" + t.Name)
			for _, a := range t.Attrs {
				sb.WriteString(" " + a.Key)
			}
			sb.WriteString(">")
		case "end":
			sb.WriteString("</" + t.Name + ">")
		case "text":
			sb.WriteString("T")
		case "comment":
			sb.WriteString("<!---->")
		case "doctype":
			sb.WriteString("<!D>")
		}
	}
	return sb.String()
}
