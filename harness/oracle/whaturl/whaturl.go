// Package whaturl is the front end of the WHATWG URL Standard's "basic URL
// parser" (https://url.spec.whatwg.org/#concept-basic-url-parser), written
// from the specification text and independent of templ and of net/url. It
// answers exactly one question: which scheme, if any, would a browser see in
// this string when it resolves it against a document base URL?
//
// Steps implemented (no state override, url not given):
//  1. remove any leading and trailing C0 control or space (U+0000..U+0020);
//  2. remove all ASCII tab or newline (U+0009, U+000A, U+000D) from the input;
//  3. scheme start state: an ASCII alpha starts a scheme (lower-cased),
//     anything else means "no scheme";
//  4. scheme state: ASCII alphanumeric, '+', '-', '.' extend the scheme
//     (lower-cased); ':' ends it -> the input is an absolute URL with that
//     scheme; anything else (including end of input) -> "no scheme": the
//     parser starts over and treats the whole input as a relative reference.
//
// All deciding code points are ASCII, and no byte >= 0x80 is a scheme code
// point or stripped, so working on bytes is exact for any (even invalid)
// UTF-8 input.
package whaturl

// Scheme returns the lower-cased scheme a WHATWG URL parser extracts from s,
// and ok=false when s has no scheme (it is a relative reference).
func Scheme(s string) (scheme string, ok bool) {
	// 1. strip leading/trailing C0 control or space
	i, j := 0, len(s)
	for i < j && s[i] <= 0x20 {
		i++
	}
	for j > i && s[j-1] <= 0x20 {
		j--
	}
	// 2.+3.+4. walk, skipping tab/newline
	var buf []byte
	for ; i < j; i++ {
		ch := s[i]
		if ch == '\t' || ch == '\n' || ch == '\r' {
			continue
		}
		switch {
		case ch >= 'A' && ch <= 'Z':
			buf = append(buf, ch+'a'-'A')
		case ch >= 'a' && ch <= 'z':
			buf = append(buf, ch)
		case len(buf) > 0 && (ch >= '0' && ch <= '9' || ch == '+' || ch == '-' || ch == '.'):
			buf = append(buf, ch)
		case len(buf) > 0 && ch == ':':
			return string(buf), true
		default:
			return "", false
		}
	}
	return "", false
}

// Strip returns s after steps 1 and 2 (what the state machine actually sees).
func Strip(s string) string {
	i, j := 0, len(s)
	for i < j && s[i] <= 0x20 {
		i++
	}
	for j > i && s[j-1] <= 0x20 {
		j--
	}
	out := make([]byte, 0, j-i)
	for ; i < j; i++ {
		if ch := s[i]; ch != '\t' && ch != '\n' && ch != '\r' {
			out = append(out, ch)
		}
	}
	return string(out)
}
