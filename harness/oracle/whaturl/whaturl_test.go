package whaturl

import "testing"

// Expectations are taken from the URL Standard's text and from the
// web-platform-tests urltestdata.json entries that exercise the scheme states.
func TestScheme(t *testing.T) {
	for _, tc := range []struct {
		in, scheme string
		ok         bool
	}{
		{"https://example.org/", "https", true},
		{"https:example.org", "https", true}, // spec §4.1 example table
		{"HTTP://x", "http", true},
		{"hTtPs://x", "https", true},
		{"javascript:alert(1)", "javascript", true},
		{"JaVaScRiPt:alert(1)", "javascript", true},
		{"  javascript:alert(1)", "javascript", true},           // leading space stripped
		{"\x00\x01\x1fjavascript:alert(1)", "javascript", true}, // leading C0 controls stripped
		{"java\tscript:alert(1)", "javascript", true},           // tab removed anywhere
		{"j\na\rv\tascript\n:alert(1)", "javascript", true},     // newline removed anywhere
		{"javascript\t:x", "javascript", true},
		{"a+b-c.d1:x", "a+b-c.d1", true},
		{"mailto:a@b", "mailto", true},
		{"", "", false},
		{"http", "", false},
		{"/javascript:x", "", false},
		{"./a:b", "", false},
		{"?a:b", "", false},
		{"#a:b", "", false},
		{":foo", "", false},
		{"1http://x", "", false}, // scheme must start with an ASCII alpha
		{"+http://x", "", false},
		{"ht tp://x", "", false},        // embedded space is not removed
		{"java\x00script:x", "", false}, // embedded NUL is not removed
		{"java\x0bscript:x", "", false}, // VT is not tab-or-newline
		{"java\x0cscript:x", "", false}, // FF neither
		{"javascript&colon;x", "", false},
		{"javascript%3Ax", "", false},
		{"httpſ:x", "", false},  // long s is not ASCII
		{"Kelvin:x", "", false}, // Kelvin sign
		{"é:x", "", false},
		{"a\\b:c", "", false},
		{"//host/x:y", "", false},
	} {
		s, ok := Scheme(tc.in)
		if s != tc.scheme || ok != tc.ok {
			t.Errorf("Scheme(%q) = %q,%v want %q,%v", tc.in, s, ok, tc.scheme, tc.ok)
		}
	}
	if got := Strip(" \tja\nva\r \x00"); got != "java" {
		t.Errorf("Strip = %q", got)
	}
}
