// Package childproc runs crash-prone / racy workloads of a check in child
// processes of the check's own binary (VERIF_SELF --child <name> ...) and
// turns what the sanitizer and the kernel report into observations:
//
//   - exit status + stderr tail (stderr goes to a file, never to a pipe that a
//     dying child could leave half-read): a crash is one attributed witness;
//   - Go race detector reports, written by the runtime to GORACE log_path
//     files (halt_on_error=0 so one run reports every race it meets), parsed
//     and de-duplicated by the function names of the racing stacks.
package childproc

import (
	"bufio"
	"fmt"
	"os"
	"os/exec"
	"path/filepath"
	"regexp"
	"sort"
	"strings"
	"syscall"
	"time"
)

// Spec describes one child run.
type Spec struct {
	Child   string        // name in the Children map
	Args    []string      // arguments after the name
	Dir     string        // absolute scratch dir (stderr + race logs are written here)
	Tag     string        // unique tag for file names inside Dir
	Timeout time.Duration // watchdog; the child is killed when it fires
	Env     []string      // extra environment
}

// Result is what was observed about the child process.
type Result struct {
	ExitCode   int
	Signal     string // non-empty when the child was killed by a signal
	TimedOut   bool
	StderrPath string
	StderrTail string // last ~6 KB of stderr
	Wall       time.Duration
	CPU        time.Duration // user+system CPU time of the child
}

// Crashed reports whether the child ended other than by a normal exit(0).
func (r Result) Crashed() bool { return r.TimedOut || r.ExitCode != 0 || r.Signal != "" }

// Run executes the child and waits for it.
func Run(s Spec) (Result, error) {
	self := os.Getenv("VERIF_SELF")
	if self == "" {
		var err error
		if self, err = os.Executable(); err != nil {
			return Result{}, err
		}
	}
	errPath := filepath.Join(s.Dir, s.Tag+".stderr")
	ef, err := os.Create(errPath)
	if err != nil {
		return Result{}, err
	}
	defer ef.Close()
	cmd := exec.Command(self, append([]string{"--child", s.Child}, s.Args...)...)
	cmd.Stdout = ef
	cmd.Stderr = ef
	cmd.Dir = s.Dir
	cmd.Env = append(os.Environ(),
		"GORACE=halt_on_error=0 exitcode=0 atexit_sleep_ms=0 log_path="+filepath.Join(s.Dir, "race-"+s.Tag),
		"GOTRACEBACK=all")
	cmd.Env = append(cmd.Env, s.Env...)
	cmd.SysProcAttr = &syscall.SysProcAttr{Setpgid: true}
	start := time.Now()
	if err := cmd.Start(); err != nil {
		return Result{}, err
	}
	done := make(chan error, 1)
	go func() { done <- cmd.Wait() }()
	res := Result{StderrPath: errPath}
	var werr error
	select {
	case werr = <-done:
	case <-time.After(s.Timeout):
		res.TimedOut = true
		// SIGQUIT first so the Go runtime dumps all goroutine stacks into stderr.
		_ = syscall.Kill(-cmd.Process.Pid, syscall.SIGQUIT)
		select {
		case werr = <-done:
		case <-time.After(5 * time.Second):
			_ = syscall.Kill(-cmd.Process.Pid, syscall.SIGKILL)
			werr = <-done
		}
	}
	res.Wall = time.Since(start)
	if ps := cmd.ProcessState; ps != nil {
		res.CPU = ps.UserTime() + ps.SystemTime()
		res.ExitCode = ps.ExitCode()
		if ws, ok := ps.Sys().(syscall.WaitStatus); ok && ws.Signaled() {
			res.Signal = ws.Signal().String()
		}
	} else if werr != nil {
		res.ExitCode = -1
	}
	res.StderrTail = Tail(errPath, 6000)
	return res, nil
}

// Tail returns the last n bytes of a file.
func Tail(path string, n int64) string {
	f, err := os.Open(path)
	if err != nil {
		return ""
	}
	defer f.Close()
	st, err := f.Stat()
	if err != nil {
		return ""
	}
	off := st.Size() - n
	if off < 0 {
		off = 0
	}
	b := make([]byte, st.Size()-off)
	_, _ = f.ReadAt(b, off)
	return string(b)
}

// Head returns the first n bytes of a file.
func Head(path string, n int) string {
	f, err := os.Open(path)
	if err != nil {
		return ""
	}
	defer f.Close()
	b := make([]byte, n)
	k, _ := f.Read(b)
	return string(b[:k])
}

// PanicLine extracts the first "panic: ..." / "fatal error: ..." line and the
// first stack frame function that belongs to the code under test.
func PanicLine(stderr string) (msg, templFrame string) {
	lines := strings.Split(stderr, "\n")
	for i, l := range lines {
		if strings.HasPrefix(l, "panic: ") || strings.HasPrefix(l, "fatal error: ") {
			msg = strings.TrimSpace(l)
			if k := strings.Index(msg, " [recovered]"); k > 0 {
				msg = msg[:k]
			}
			// only the panicking goroutine's stack (the first block) is attributed
			inStack := false
			for _, f := range lines[i+1:] {
				if strings.HasPrefix(f, "goroutine ") {
					if inStack {
						return
					}
					inStack = true
					continue
				}
				if inStack && strings.TrimSpace(f) == "" {
					return
				}
				if inStack && (strings.HasPrefix(f, "github.com/a-h/templ/") || strings.HasPrefix(f, "created by github.com/a-h/templ/")) {
					templFrame = funcName(strings.TrimPrefix(f, "created by "))
					if k := strings.Index(templFrame, " in goroutine"); k > 0 {
						templFrame = templFrame[:k]
					}
					return
				}
			}
			return
		}
	}
	return
}

var argsRe = regexp.MustCompile(`\([^()]*\)$`)

func funcName(l string) string {
	l = strings.TrimSpace(l)
	return argsRe.ReplaceAllString(l, "")
}

// Race is one de-duplicated race detector report.
type Race struct {
	Key   string // function names of the two racing accesses
	Templ bool   // a frame of github.com/a-h/templ is involved
	Count int
	Text  string // first full report with this key
}

// Races parses every race-*.<pid> log in dir.
func Races(dir string) []Race {
	files, _ := filepath.Glob(filepath.Join(dir, "race-*"))
	sort.Strings(files)
	byKey := map[string]*Race{}
	var order []string
	for _, fn := range files {
		f, err := os.Open(fn)
		if err != nil {
			continue
		}
		sc := bufio.NewScanner(f)
		sc.Buffer(make([]byte, 1<<20), 1<<24)
		var cur []string
		in := false
		flush := func() {
			if len(cur) == 0 {
				return
			}
			r := parseRace(cur)
			if p, ok := byKey[r.Key]; ok {
				p.Count++
			} else {
				r.Count = 1
				byKey[r.Key] = &r
				order = append(order, r.Key)
			}
			cur = nil
		}
		for sc.Scan() {
			l := sc.Text()
			if strings.HasPrefix(l, "WARNING: DATA RACE") {
				flush()
				in = true
			}
			if strings.HasPrefix(l, "==================") {
				if in && len(cur) > 0 {
					flush()
					in = false
				}
				continue
			}
			if in {
				cur = append(cur, l)
			}
		}
		flush()
		f.Close()
	}
	var out []Race
	for _, k := range order {
		out = append(out, *byKey[k])
	}
	return out
}

// parseRace builds the key from the function names of the first two stacks
// (the two conflicting accesses); addresses, goroutine numbers and line
// numbers are dropped so that one root cause has one key. A race is attributed
// to the code under test when the function performing either access (the first
// frame that is not runtime / sync plumbing) belongs to github.com/a-h/templ;
// a race between two harness functions that merely run on a goroutine started
// by templ is the harness's own.
func parseRace(lines []string) Race {
	var stacks [][]string
	var cur []string
	for _, l := range lines {
		if strings.HasPrefix(l, "  ") && !strings.HasPrefix(l, "   ") {
			cur = append(cur, funcName(l))
			continue
		}
		if strings.TrimSpace(l) == "" {
			if len(cur) > 0 {
				stacks = append(stacks, cur)
				cur = nil
			}
		}
	}
	if len(cur) > 0 {
		stacks = append(stacks, cur)
	}
	templ := false
	var parts []string
	for i, s := range stacks {
		if i >= 2 {
			break
		}
		for _, fn := range s {
			if strings.HasPrefix(fn, "runtime.") || strings.HasPrefix(fn, "sync.") || strings.HasPrefix(fn, "sync/atomic.") || strings.HasPrefix(fn, "internal/") {
				continue
			}
			if strings.Contains(fn, "github.com/a-h/templ/") {
				templ = true
			}
			break
		}
		// key: the frames down to the first one of the code under test (so that
		// harness frames, whose closure numbering changes with edits, stay out
		// of it); without such a frame, the two innermost frames
		cut := 2
		for j, fn := range s {
			if strings.Contains(fn, "github.com/a-h/templ/") {
				cut = j + 1
				break
			}
		}
		if cut > len(s) {
			cut = len(s)
		}
		parts = append(parts, strings.Join(s[:cut], "<"))
	}
	sort.Strings(parts)
	return Race{Key: strings.Join(parts, " || "), Templ: templ, Text: strings.Join(lines, "\n")}
}

// Describe renders a one-line crash description.
func (r Result) Describe() string {
	switch {
	case r.TimedOut:
		return fmt.Sprintf("watchdog fired after %v (cpu %v)", r.Wall.Round(time.Millisecond), r.CPU.Round(time.Millisecond))
	case r.Signal != "":
		return "killed by signal " + r.Signal
	default:
		return fmt.Sprintf("exit status %d", r.ExitCode)
	}
}
