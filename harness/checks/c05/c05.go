// Package c05 monitors property C05: a string used as a CSS property value or
// name (css component expression, style attribute map / key-value) can affect
// at most the one declaration it was written for.
package c05

import (
	"encoding/base64"
	"fmt"
	"regexp"
	"runtime"
	"sort"
	"strings"
	"sync"
	"sync/atomic"

	"github.com/a-h/templ"
	"github.com/a-h/templ/safehtml"
	"verif/core"
)

// Children: none needed (the sanitisers cannot die fatally; recovered panics are violations).
var Children map[string]func([]string) int

const (
	innocuousName  = "zTemplUnsafeCSSPropertyName"
	innocuousValue = "zTemplUnsafeCSSPropertyValue"
)

// Case is the replayable unit.
type Case struct {
	Kind string `json:"kind"` // "sanitiser" | "history" | "rendered"
	Sink string `json:"sink,omitempty"`
	P    string `json:"p"` // base64
	V    string `json:"v"` // base64
}

func enc(s string) string { return base64.StdEncoding.EncodeToString([]byte(s)) }
func dec(s string) string { b, _ := base64.StdEncoding.DecodeString(s); return string(b) }

// namePattern is the oracle's own idea of a name the sanitiser may keep: it
// is what CSS Syntax calls an ident made of ASCII letters and '-' only. Any
// other name must come out as the innocuous name — but that is decided by the
// css3 parse of the output, not by this pattern; the pattern only feeds the
// witness class used in violation keys.
var namePattern = regexp.MustCompile(`^[-a-zA-Z]+$`)

// classOf maps a property name to the sanitiser class it exercises; used for
// canonical violation keys only.
func classOf(p string) string {
	if !namePattern.MatchString(p) {
		return "invalid-name"
	}
	switch l := strings.ToLower(p); l {
	case "background-image", "font-family":
		return l
	case "display":
		return "enum(display)"
	}
	return "regular"
}

// representative is the canonical property name of a sanitiser class.
func representative(class, p string) string {
	switch class {
	case "regular":
		return "color"
	case "enum(display)":
		return "display"
	case "invalid-name":
		return p
	}
	return class
}

func namesFor(p string) []string { return []string{strings.ToLower(p), innocuousName} }

// ---- the code under test, wrapped so that a panic is an observation

func emitSafehtml(p, v string) (out string, panicked bool) {
	defer func() {
		if r := recover(); r != nil {
			out, panicked = fmt.Sprint(r), true
		}
	}()
	pp, vv := safehtml.SanitizeCSS(p, v)
	return pp + ":" + vv + ";", false
}

func emitTempl(p, v string) (out string, panicked bool) {
	defer func() {
		if r := recover(); r != nil {
			out, panicked = fmt.Sprint(r), true
		}
	}()
	return string(templ.SanitizeCSS(p, v)), false
}

// namedCSSValue is an application-defined string type: templ.SanitizeCSS is
// generic over ~string, and only templ.SafeCSSProperty is documented as trusted.
type namedCSSValue string

func emitTemplNamed(p, v string) (out string, panicked bool) {
	defer func() {
		if r := recover(); r != nil {
			out, panicked = fmt.Sprint(r), true
		}
	}()
	return string(templ.SanitizeCSS(p, namedCSSValue(v))), false
}

// verdictSanitiser applies the in-proc monitor to one (property, value).
func verdictSanitiser(p, v string) (cl Clause, evals int) {
	a, pa := emitSafehtml(p, v)
	b, pb := emitTempl(p, v)
	if pa || pb {
		return Rule | Declaration, 1
	}
	cl = checkMemo(a, p)
	evals = 1
	if b != a {
		cl |= checkMemo(b, p)
		evals = 2
	}
	// the same value as a named string type must be sanitised like a plain string
	if n, pn := emitTemplNamed(p, v); pn {
		cl |= Rule | Declaration
	} else if n != a {
		cl |= checkMemo(n, p)
		evals++
	}
	return cl, evals
}

// memo: the oracle is a pure function of (emitted text, admissible names), and
// almost every hostile input is emitted as the same innocuous text per
// property; those verdicts are looked up instead of recomputed.
var memo sync.Map

func checkMemo(emitted, p string) Clause {
	if !strings.HasSuffix(emitted, ":"+innocuousValue+";") {
		return checkEmitted(emitted, namesFor(p))
	}
	k := emitted + "\x00" + strings.ToLower(p)
	if v, ok := memo.Load(k); ok {
		return v.(Clause)
	}
	cl := checkEmitted(emitted, namesFor(p))
	memo.Store(k, cl)
	return cl
}

// ---- witness reduction

// shrinkStr: greedy byte-wise deletion to a fixed point, then replacement of
// letters by 'a' where the predicate keeps holding.
func shrinkStr(s string, bad func(string) bool) string {
	// long witnesses (long-value family): delete halves, quarters, … first
	for chunk := len(s) / 2; chunk >= 2 && len(s) > 64; chunk /= 2 {
		for i := 0; i+chunk <= len(s); {
			if t := s[:i] + s[i+chunk:]; bad(t) {
				s = t
			} else {
				i += chunk
			}
		}
	}
	for changed := true; changed; {
		changed = false
		for i := 0; i < len(s); i++ {
			t := s[:i] + s[i+1:]
			if bad(t) {
				s, changed = t, true
				i--
			}
		}
	}
	b := []byte(s)
	for i := range b {
		if (b[i] >= 'b' && b[i] <= 'z') || (b[i] >= 'A' && b[i] <= 'Z') || (b[i] >= '0' && b[i] <= '9') {
			old := b[i]
			b[i] = 'a'
			if !bad(string(b)) {
				b[i] = old
			}
		}
	}
	return string(b)
}

type witness struct {
	group, class string
	clause       Clause
	p, v         string
	sink         string
}

// rank: 0 when every byte of the value is in the enumerated alphabet, so that
// the smallest witness is one the exhaustive streams are guaranteed to
// contain (keys do not depend on what the random stream happens to find).
func rank(v string) int {
	for i := 0; i < len(v); i++ {
		if !strings.ContainsRune("; : { } ( ) \" ' \\ / * < > , @ a u r l - \n", rune(v[i])) {
			return 1
		}
	}
	return 0
}

func less(a, b witness) bool {
	sz := func(w witness) int {
		if w.class == "invalid-name" {
			return len(w.p) + len(w.v)
		}
		return len(w.v) // the name is the class representative
	}
	if sz(a) != sz(b) {
		return sz(a) < sz(b)
	}
	ugly := func(w witness) int {
		return rank(w.v) + strings.Count(w.v, "\n") + rank(w.p) + strings.Count(w.p, "\n")
	}
	if ua, ub := ugly(a), ugly(b); ua != ub {
		return ua < ub
	}
	if a.v != b.v {
		return a.v < b.v
	}
	return a.p < b.p
}

// bag keeps, per (group, class, clause), the smallest reduced witness: one
// root cause yields one key per clause of the statement it breaks.
type bag struct {
	mu    sync.Mutex
	min   map[string]witness
	seen  map[string]int
	raw   int64
	skips int64
}

// worth: reduce this raw violation? Always while the bucket is young, and
// always when the raw input is not longer than the bucket's current minimum
// (so the global minimum, which the exhaustive streams contain verbatim, is
// never skipped); a longer raw input can only matter for buckets whose
// minimum lies beyond the enumerated bounds.
func (b *bag) worth(group, class string, clause Clause, size int) bool {
	k := group + "|" + class + "|" + clause.String()
	b.mu.Lock()
	defer b.mu.Unlock()
	if b.seen == nil {
		b.seen = map[string]int{}
	}
	b.seen[k]++
	cur, ok := b.min[k]
	if !ok || b.seen[k] <= 64 || size <= len(cur.p)+len(cur.v) {
		return true
	}
	b.skips++
	return false
}

func (b *bag) add(w witness) {
	k := w.group + "|" + w.class + "|" + w.clause.String()
	b.mu.Lock()
	if cur, ok := b.min[k]; !ok || less(w, cur) {
		b.min[k] = w
	}
	b.mu.Unlock()
}

func (w witness) key() string {
	if w.class == "invalid-name" {
		return fmt.Sprintf("%s %s: name=%s value=%s", w.group, w.class, core.Q(w.p), core.Q(w.v))
	}
	return fmt.Sprintf("%s %s: %s", w.group, w.class, core.Q(w.v))
}

// recordSanitiser reduces a violating (p, v) once per broken clause.
func recordSanitiser(b *bag, p, v string, cl Clause) {
	atomic.AddInt64(&b.raw, 1)
	class := classOf(p)
	for bit := Clause(1); bit <= HTML; bit <<= 1 {
		if cl&bit == 0 || !b.worth("sanitiser", class, bit, len(p)+len(v)) {
			continue
		}
		mp := p
		if rep := representative(class, p); rep != p {
			if c2, _ := verdictSanitiser(rep, v); c2&bit != 0 {
				mp = rep // canonical property of the class
			}
		}
		if class == "invalid-name" {
			mp = shrinkStr(p, func(t string) bool {
				c, _ := verdictSanitiser(t, v)
				return c&bit != 0 && classOf(t) == class
			})
		}
		mv := shrinkStr(v, func(t string) bool { c, _ := verdictSanitiser(mp, t); return c&bit != 0 })
		b.add(witness{group: "sanitiser", class: class, clause: bit, p: mp, v: mv})
	}
}

// ---- generators

// alphabet: the CSS-adversarial alphabet of DESIGN §4/C05.
var alphabet = strings.Split(`; : { } ( ) " ' \ / * < > , @ a u r l -`, " ")

func init() { alphabet = append(alphabet, " ", "\n") }

// fragments: multi-byte building blocks for the structured generator.
var fragments = []string{";", ":", "{", "}", "{}", "(", ")", "a()", "a(", "url(a:)", `url("a:")`, "url(javascript:a)", "url(/a)", `url("/a")`, "url(",
	"/*", "*/", "/**/", "</style>", "</STYLE ", "<", "@a", "@import", "\\", "\"", "'", "\n", "\r", "\f", " ", ",", "a", "a:b", "a:b;", "!important",
	"-", "#a", "1px", "\\3b ", "\\22 ", "\\a ", "\x00", "é", "\xff", "expression(a)", "&", "&#34;", "&quot;", "&lt;/style&gt;"}

// wrappers: shapes a sanitiser that only looks at prefix and suffix accepts.
var wrappers = []string{"%s", `"%s"`, `""%s""`, `'%s'`, `''%s''`, "url(%s)", `url("%s")`, `url('%s')`, "url()%surl()", `url("")%surl("")`, `url('')%surl('')`,
	"a%sa", "a, %s", "%s, a", `"a", %s`, `%s, "a"`, `"a",%s,"a"`, "url(/a),%s", "%s,url(/a)", `"%s", a`, "a %s a"}

func wrap(w, x string) string { return strings.Replace(w, "%s", x, 1) }

// stream is a partitioned value generator: parts are independent so that
// workers can produce them without shared state.
type stream struct {
	name  string
	parts int
	gen   func(part int, emit func(string))
}

// seqs enumerates every sequence of 1..maxLen symbols whose first symbol is
// syms[first].
func seqs(syms []string, first, maxLen int, emit func(string)) {
	var rec func(p string, d int)
	rec = func(p string, d int) {
		emit(p)
		if d == maxLen {
			return
		}
		for _, s := range syms {
			rec(p+s, d+1)
		}
	}
	rec(syms[first], 1)
}

func exhaustive(maxLen int) stream {
	return stream{fmt.Sprintf("exhaustive<=%d", maxLen), len(alphabet), func(part int, emit func(string)) {
		if part == 0 {
			emit("")
		}
		seqs(alphabet, part, maxLen, emit)
	}}
}

// shapes1: one-hole shapes with X exhaustive to maxLen.
func shapes1(maxLen int) stream {
	sh := []string{"url(%s)", `url("%s")`, `url('%s')`, `"%s"`, `""%s""`, `'%s'`, "url()%surl()", `url("")%surl("")`, "a%sa"}
	return stream{fmt.Sprintf("shapes1(X<=%d)", maxLen), len(alphabet), func(part int, emit func(string)) {
		seqs(alphabet, part, maxLen, func(x string) {
			for _, w := range sh {
				emit(wrap(w, x))
			}
		})
	}}
}

// shapes2: two-hole shapes `"X", Y` and `X, Y`.
func shapes2(maxLen int) stream {
	return stream{fmt.Sprintf("shapes2(X,Y<=%d)", maxLen), len(alphabet), func(part int, emit func(string)) {
		var ys []string
		for i := range alphabet {
			seqs(alphabet, i, maxLen, func(y string) { ys = append(ys, y) })
		}
		seqs(alphabet, part, maxLen, func(x string) {
			for _, y := range ys {
				emit(`"` + x + `", ` + y)
				emit(x + ", " + y)
			}
		})
	}}
}

// structured: every sequence of <= maxLen fragments in every wrapper.
func structured(maxLen int) stream {
	return stream{fmt.Sprintf("fragments<=%d x wrappers", maxLen), len(fragments), func(part int, emit func(string)) {
		seqs(fragments, part, maxLen, func(x string) {
			for _, w := range wrappers {
				emit(wrap(w, x))
			}
		})
	}}
}

// random long values, deterministic per (seed, part).
func random(c *core.Ctx, n int) stream {
	parts := 64
	return stream{fmt.Sprintf("random(%d)", n), parts, func(part int, emit func(string)) {
		rnd := c.Rand(fmt.Sprintf("random/%d", part))
		for i := 0; i < n/parts; i++ {
			var sb strings.Builder
			k := 1 + rnd.Intn(8)
			if i%5 == 0 {
				k = 1 + rnd.Intn(30)
			}
			for j := 0; j < k; j++ {
				switch rnd.Intn(8) {
				case 0:
					sb.WriteByte(byte(rnd.Intn(256)))
				case 1, 2, 3:
					sb.WriteString(alphabet[rnd.Intn(len(alphabet))])
				default:
					sb.WriteString(fragments[rnd.Intn(len(fragments))])
				}
			}
			s := sb.String()
			if rnd.Intn(2) == 0 {
				s = wrap(wrappers[rnd.Intn(len(wrappers))], s)
			}
			emit(s)
		}
	}}
}

// longLengths: sizes around typical limits; a sanitiser that truncates,
// buffers or switches algorithm by length changes behaviour exactly there.
var longLengths = []int{255, 256, 257, 1023, 1024, 1025, 1026, 2047, 2048, 2049, 4095, 4096, 4097, 65535, 65536, 65537}

// longShapes are values the sanitisers accept (closed strings / url tokens,
// comma lists, plain words); %s is padded so that the whole value has exactly
// the target length. pad units include a multi-byte rune (cuts on or inside a
// UTF-8 sequence).
var longShapes = []string{`"%s"`, `"a", "%s"`, `serif, "%s"`, `"%s", serif`, `"%s", "b"`, `url("/%s")`, `url('/%s')`, `url(/%s)`, `url("http://x/%s")`,
	`url("/a"), url("/%s")`, `url("/%s"), url("/a")`, `a%s`, `a a%s`}

func longValue(shape, unit string, total int) string {
	n := total - (len(shape) - 2)
	if n < 0 {
		n = 0
	}
	pad := strings.Repeat(unit, n/len(unit)+1)[:n/len(unit)*len(unit)]
	for len(pad) < n { // fill the remainder with ASCII so the length is exact
		pad += "a"
	}
	return strings.Replace(shape, "%s", pad, 1)
}

func longValues() stream {
	units := []string{"a", "é", "中", "a b", "a/b-"}
	return stream{"long-values", len(longShapes), func(part int, emit func(string)) {
		for _, u := range units {
			if strings.Contains(longShapes[part], "url(") && strings.Contains(u, " ") {
				continue
			}
			for _, n := range longLengths {
				emit(longValue(longShapes[part], u, n))
			}
		}
	}}
}

// nontrivial: the value carries a CSS delimiter, function, quote, escape or
// newline — something the sanitiser must take a decision about.
func nontrivial(v string) bool { return strings.ContainsAny(v, ";:{}()\"'\\/*<>,@\n\r\f") }

var regularProps = []string{"background-color", "background-position", "background-repeat", "background-size", "color", "height", "width",
	"left", "right", "top", "bottom", "font-weight", "padding", "z-index"}

var unlistedProps = []string{"margin", "zzz-unlisted", "--custom", "COLOR", "Font-Family", "BACKGROUND-IMAGE", "Display"}

var invalidNames = []string{"", " ", "-", "color:red;x", "color;", "a;b", "a b", "a{", "a}", "a{}", "}", "a/**/", "/*", "@import", "a(", "a\\", "a\\;", "a\"", "a'", "a\n",
	"</style>", "col\\6fr", "color ", " color", "a_b", "a1", "é", "color:", ":", ";", "a<b", "font-family:x;color", "\x00", "a\x00", "&#58;", "a&b", "1a", "a,b", "a!b", "a.b", "a#b", "a%b"}

func parallel(n int, fn func(i int)) {
	var next int64 = -1
	var wg sync.WaitGroup
	for w := 0; w < runtime.NumCPU(); w++ {
		wg.Add(1)
		go func() {
			defer wg.Done()
			for {
				i := int(atomic.AddInt64(&next, 1))
				if i >= n {
					return
				}
				fn(i)
			}
		}()
	}
	wg.Wait()
}

// sweep runs every value of the streams against every property of props.
// Distinctness: each stream enumerates without repetition (random ones are
// hashed); values are counted as non-trivial once per property.
func sweep(c *core.Ctx, b *bag, props []string, streams []stream, hashed bool) {
	type job struct{ s, part int }
	var jobs []job
	for si, st := range streams {
		for p := 0; p < st.parts; p++ {
			jobs = append(jobs, job{si, p})
		}
	}
	counts := make([]int64, len(streams))
	var evals, nt int64
	parallel(len(jobs), func(i int) {
		j := jobs[i]
		var n, e, t int64
		streams[j.s].gen(j.part, func(v string) {
			n++
			isNT := nontrivial(v)
			for _, p := range props {
				cl, ev := verdictSanitiser(p, v)
				e += int64(ev)
				if cl != 0 {
					recordSanitiser(b, p, v, cl)
				}
				if isNT {
					if hashed {
						c.NontrivialStr(p, v)
					} else {
						t++
					}
				}
			}
		})
		atomic.AddInt64(&counts[j.s], n)
		atomic.AddInt64(&evals, e)
		atomic.AddInt64(&nt, t)
	})
	c.Eval(int(evals))
	c.NontrivialN(int(nt))
	for si, st := range streams {
		c.Add("values:"+st.name, int(counts[si])*len(props))
	}
}

func inProc(c *core.Ctx, b *bag) {
	main3 := []string{"background-image", "font-family", "color"}
	L := c.Pick(4, 6)
	history(c, b, main3) // first: a cache inside the code under test must still be cold
	sweep(c, b, main3, []stream{longValues()}, true)
	// full enumerations against the three sanitiser classes that look at the value's structure
	sweep(c, b, main3[:2], []stream{exhaustive(L)}, false)
	sweep(c, b, main3[2:], []stream{exhaustive(c.Pick(4, 5))}, false)
	sweep(c, b, main3, []stream{shapes1(c.Pick(3, 4)), shapes2(2), structured(c.Pick(2, 3))}, false)
	sweep(c, b, main3, []stream{random(c, c.Pick(200000, 4000000))}, true)
	// enum class and invalid names: exhaustive values (shorter for the names)
	sweep(c, b, []string{"display"}, []stream{exhaustive(c.Pick(4, 5)), structured(2)}, false)
	// every listed regular property, unlisted names and spellings: reduced enumeration
	rest := append(append([]string{}, regularProps...), unlistedProps...)
	sweep(c, b, rest, []stream{exhaustive(3), structured(1)}, false)
	sweep(c, b, invalidNames, []stream{exhaustive(2), structured(1)}, false)
	c.Set("property_names", len(main3)+1+len(rest)+len(invalidNames))
	c.Set("exhaustive", false)
	c.Set("exhaustive_subspace", fmt.Sprintf("every value of length <=%d over the %d-symbol alphabet %q, and the shapes url(X) url(\"X\") url('X') \"X\" \"\"X\"\" 'X' url()Xurl() url(\"\")Xurl(\"\") aXa with every X of length <=%d, and `\"X\", Y` / `X, Y` with every X,Y of length <=2, were enumerated completely for background-image, font-family and (plain values to length <=%d) color through safehtml.SanitizeCSS and templ.SanitizeCSS; length <=%d for display; <=3 for the other listed/unlisted names; <=2 for invalid names",
		L, len(alphabet), strings.Join(alphabet, ""), c.Pick(3, 4), c.Pick(4, 5), c.Pick(4, 5)))
}

// trusted calls templ.SanitizeCSS with the text marked as trusted by the
// application; the result is not judged (SafeCSSProperty is outside the statement).
func trusted(p, v string) {
	defer func() { _ = recover() }()
	_ = templ.SanitizeCSS(p, templ.SafeCSSProperty(v))
}

// verdictAfterTrusted: the same text first as templ.SafeCSSProperty, then as a
// plain and as a named string in the same process — the second and third
// calls are judged like any other.
func verdictAfterTrusted(p, v string) (cl Clause) {
	trusted(p, v)
	for _, f := range []func(string, string) (string, bool){emitTempl, emitTemplNamed} {
		if o, pn := f(p, v); pn {
			cl |= Rule | Declaration
		} else {
			cl |= checkMemo(o, p)
		}
	}
	return cl
}

// history: call sequences within one process. Forward (even positions):
// trusted(p,v) then the plain and named-string calls (judged). Control (odd
// positions): plain (judged), trusted, plain again (judged). Sequential and before every other
// call of templ.SanitizeCSS, shortest values first.
func history(c *core.Ctx, b *bag, props []string) {
	seen := map[string]bool{}
	var vals []string
	take := func(v string) {
		if !seen[v] && nontrivial(v) {
			seen[v] = true
			vals = append(vals, v)
		}
	}
	for _, st := range []stream{exhaustive(2), structured(1)} {
		for p := 0; p < st.parts; p++ {
			st.gen(p, take)
		}
	}
	sort.SliceStable(vals, func(i, j int) bool { return len(vals[i]) < len(vals[j]) })
	if n := c.Pick(1500, 6000); len(vals) > n {
		vals = vals[:n]
	}
	record := func(p, v string, cl Clause, again func(string) Clause) {
		for bit := Clause(1); bit <= HTML; bit <<= 1 {
			if cl&bit != 0 && b.worth("sanitiser-history", classOf(p), bit, len(v)) {
				mv := shrinkStr(v, func(t string) bool { return again(t)&bit != 0 })
				b.add(witness{group: "sanitiser-history", class: classOf(p), clause: bit, p: p, v: mv})
			}
		}
	}
	// base: what the stateless sanitiser underneath makes of the pair; only
	// what the call history adds on top of it is attributed to the history
	base := func(p, v string) Clause {
		o, pn := emitSafehtml(p, v)
		if pn {
			return Rule | Declaration
		}
		return checkMemo(o, p)
	}
	forward := func(p, v string) Clause { return verdictAfterTrusted(p, v) &^ base(p, v) }
	control := func(p, v string) Clause {
		b0, _ := verdictSanitiser(p, v)
		trusted(p, v)
		a0, _ := verdictSanitiser(p, v)
		return (a0 | b0) &^ base(p, v)
	}
	n := 0
	for i, v := range vals {
		for _, p := range props {
			seq := forward // even positions: trusted first; odd positions: the control order
			if i%2 == 1 {
				seq = control
			}
			if cl := seq(p, v); cl != 0 {
				record(p, v, cl, func(t string) Clause { return seq(p, t) })
			}
			n += 2
			c.NontrivialStr("history", p, v)
		}
	}
	c.Eval(n)
	c.Set("history_sequences(trusted_then_plain|control_order)", len(vals)*len(props))
}

// report turns the bag into violations, deterministically. One violation per
// (group, property class): the key is the smallest reduced witness of the
// class; the summary lists, per clause of the statement that the class can
// break, the smallest witness found for that clause.
func report(c *core.Ctx, b *bag) {
	type cls struct {
		best witness
		per  []witness
	}
	groups := map[string]*cls{}
	var ks []string
	for k := range b.min {
		ks = append(ks, k)
	}
	sort.Strings(ks)
	for _, k := range ks {
		w := b.min[k]
		gk := w.group + "|" + w.class
		g, ok := groups[gk]
		if !ok {
			g = &cls{best: w}
			groups[gk] = g
		} else if less(w, g.best) {
			g.best = w
		}
		g.per = append(g.per, w)
	}
	var gks []string
	for k := range groups {
		gks = append(gks, k)
	}
	sort.Strings(gks)
	for _, gk := range gks {
		g := groups[gk]
		w := g.best
		var what string
		if w.group == "sanitiser-history" {
			what = fmt.Sprintf("after templ.SanitizeCSS(%q, templ.SafeCSSProperty(%q)) (trusted, not judged), or around it, templ.SanitizeCSS(%q, %q) with the same text as an ordinary string %s in the same process, although the stateless sanitiser's output for the pair is clean (the result depends on the call history).",
				w.p, w.v, w.p, w.v, explain(w.clause))
		} else if w.group == "sanitiser" {
			a, _ := emitSafehtml(w.p, w.v)
			cl, _ := verdictSanitiser(w.p, w.v)
			what = fmt.Sprintf("SanitizeCSS(%q, %q) emits %q, which %s when placed in `.x{a:b;…c:d}.canary{color:green}` (expected: at most the one declaration %q, or the innocuous name/value).",
				w.p, w.v, a, explain(cl), strings.ToLower(w.p))
		} else {
			what = fmt.Sprintf("sink %s, property %q, value %q: the rendered CSS %s although the sanitiser's own output for this pair is clean (the rendering path damages it).", w.sink, w.p, w.v, explain(w.clause))
		}
		what += " Clauses of the statement this class breaks, with the smallest witness for each:"
		for _, x := range g.per {
			if x.class == "invalid-name" {
				what += fmt.Sprintf(" %s name=%q value=%q;", x.clause, x.p, x.v)
			} else {
				what += fmt.Sprintf(" %s %q;", x.clause, x.v)
			}
		}
		kind := "sanitiser"
		if w.group == "sanitiser-history" {
			kind = "history"
		} else if w.group != "sanitiser" {
			kind = "rendered"
		}
		c.Violate(w.key(), what, Case{Kind: kind, Sink: w.sink, P: enc(w.p), V: enc(w.v)})
	}
}

func explain(cl Clause) string {
	switch cl {
	case StyleEnd:
		return "contains `</style`, ending the style element"
	case Comment:
		return "opens a CSS comment"
	case Rule:
		return "ends or swallows the enclosing rule (the canary rule after it is no longer intact)"
	case Declaration:
		return "ends or swallows its declaration (the number of declarations changes or a neighbour is damaged)"
	case Name:
		return "yields a declaration for a different property"
	case Brace:
		return "puts a {}-block into the value (a nesting-aware parser re-reads the declaration as a nested rule)"
	case Func:
		return "calls a function other than url()"
	case URLScheme:
		return "references a url() whose scheme is not http, https or mailto"
	case HTML:
		return "changes the HTML token structure around the sink"
	}
	var parts []string
	for bit := Clause(1); bit <= HTML; bit <<= 1 {
		if cl&bit != 0 {
			parts = append(parts, explain(bit))
		}
	}
	if len(parts) == 0 {
		return "is clean"
	}
	return strings.Join(parts, " and ")
}

// Run is the C05 check.
func Run(c *core.Ctx) {
	c.Rule = "in-proc: (p,v) -> safehtml.SanitizeCSS / templ.SanitizeCSS output embedded as `.x{a:b;OUT c:d}.canary{color:green}` and parsed per CSS Syntax 3: two intact rules, three ';'-separated declarations with both sentinels intact, the middle one at most one declaration named p (or the innocuous name), no comment, no {}-block, no function but url(), url scheme in {none,http,https,mailto}, no `</style`; rendered: css components with expression properties and style attributes fed map/KV/slice/func values, HTML5-tokenised, <style> text / decoded style value checked the same way. non-trivial = value contains one of ; : { } ( ) \" ' \\ / * < > , @ or a newline; counted per (property, value); enumerations are repetition-free, random values deduplicated by hash"
	c.Assume("a CSS consumer tokenises and parses as CSS Syntax Module Level 3 describes (oracle/css3); a {}-block inside a declaration value counts as ending the declaration because nesting-aware parsers re-read such a declaration as a nested rule")
	c.Assume("url() arguments are resolved as the WHATWG URL parser does (oracle/whaturl)")
	c.Assume("bad-string / bad-url tokens that stay inside their declaration, a ':' or a newline inside a value, and balanced ()/[] blocks are not violations of the statement: they affect only the declaration they were written for")
	c.Assume("templ.SafeCSS / templ.SafeCSSProperty values and plain strings given to a style attribute are outside the statement (trusted / whole-declaration strings), only names given with them are checked")
	if c.ReplayFile != "" {
		replay(c)
		return
	}
	b := &bag{min: map[string]witness{}}
	inProc(c, b)
	c.Set("raw_sanitiser_violations_before_reduction", b.raw)
	c.Set("raw_violations_not_reduced(longer_than_bucket_minimum)", b.skips)
	for _, s := range [][2]string{{"font-family", `"a", serif`}, {"background-image", `url("/a;b")`}, {"color", "red;}"}, {"color:red;x", "a"}} {
		o, _ := emitSafehtml(s[0], s[1])
		cl, _ := verdictSanitiser(s[0], s[1])
		c.Sample(map[string]any{"property": s[0], "value": s[1], "emitted": o, "verdict": map[bool]string{true: "held", false: cl.String()}[cl == 0]})
	}
	rendered(c, b)
	report(c, b)
}

func replay(c *core.Ctx) {
	var cs Case
	c.LoadReplay(&cs)
	c.Eval(1)
	c.NontrivialN(2)
	p, v := dec(cs.P), dec(cs.V)
	b := &bag{min: map[string]witness{}}
	switch cs.Kind {
	case "sanitiser":
		if cl, _ := verdictSanitiser(p, v); cl != 0 {
			for bit := Clause(1); bit <= HTML; bit <<= 1 {
				if cl&bit != 0 {
					b.add(witness{group: "sanitiser", class: classOf(p), clause: bit, p: p, v: v})
				}
			}
		}
	case "history":
		bs, _ := emitSafehtml(p, v)
		cl := verdictAfterTrusted(p, v)
		again, _ := verdictSanitiser(p, v)
		cl = (cl | again) &^ checkMemo(bs, p)
		for bit := Clause(1); bit <= HTML; bit <<= 1 {
			if cl&bit != 0 {
				b.add(witness{group: "sanitiser-history", class: classOf(p), clause: bit, p: p, v: v})
			}
		}
	case "rendered":
		replayRendered(c, b, cs.Sink, p, v)
	default:
		core.Infra("unknown replay kind %q", cs.Kind)
	}
	report(c, b)
}
