package c05

import (
	"bufio"
	"bytes"
	"encoding/base64"
	"encoding/json"
	"fmt"
	"sort"
	"strings"
	"sync"
	"time"

	"github.com/a-h/templ/safehtml"
	"verif/core"
	"verif/corpus"
	"verif/oracle/html5"
)

// Every css component has a constant declaration before and after the
// expression property (sentinels) and is rendered together with a canary
// class, so the monitor sees ".c…{color:red;P:V;width:1px;}.canary…{color:green;}".
const rTempl = `package main

css cFont(v string) {
	color: red;
	font-family: { v };
	width: 1px;
}

css cBg(v string) {
	color: red;
	background-image: { v };
	width: 1px;
}

css cDisplay(v string) {
	color: red;
	display: { v };
	width: 1px;
}

css cColor(v string) {
	color: red;
	background-color: { v };
	width: 1px;
}

css cPadding(v string) {
	color: red;
	padding: { v };
	width: 1px;
}

css cMargin(v string) {
	color: red;
	margin: { v };
	width: 1px;
}

css cFontSafe(v templ.SafeCSSProperty) {
	color: red;
	font-family: { v };
	width: 1px;
}

css cBgSafe(v templ.SafeCSSProperty) {
	color: red;
	background-image: { v };
	width: 1px;
}

css cColorSafe(v templ.SafeCSSProperty) {
	color: red;
	background-color: { v };
	width: 1px;
}

css canary() {
	color: green;
}

templ CFont(v string) {
	<div data-a="1" class={ cFont(v), canary() } data-z="2">t</div>
}

templ CBg(v string) {
	<div data-a="1" class={ cBg(v), canary() } data-z="2">t</div>
}

templ CDisplay(v string) {
	<div data-a="1" class={ cDisplay(v), canary() } data-z="2">t</div>
}

templ CColor(v string) {
	<div data-a="1" class={ cColor(v), canary() } data-z="2">t</div>
}

templ CPadding(v string) {
	<div data-a="1" class={ cPadding(v), canary() } data-z="2">t</div>
}

templ CMargin(v string) {
	<div data-a="1" class={ cMargin(v), canary() } data-z="2">t</div>
}

templ Attr3(a, b, c any) {
	<div data-a="1" style={ a, b, c } data-z="2">t</div>
}

templ Attr1(a any) {
	<div data-a="1" style={ a } data-z="2">t</div>
}
`

const rDriver = `package main

import (
	"bufio"
	"bytes"
	"context"
	"encoding/base64"
	"encoding/json"
	"os"

	"github.com/a-h/templ"
)

type job struct {
	I int    ` + "`json:\"i\"`" + `
	K string ` + "`json:\"k\"`" + `
	P string ` + "`json:\"p\"`" + `
	V string ` + "`json:\"v\"`" + `
}
type res struct {
	I int    ` + "`json:\"i\"`" + `
	O string ` + "`json:\"o\"`" + `
	E string ` + "`json:\"e,omitempty\"`" + `
}

func build(k, p, v string) templ.Component {
	a, z := templ.KV("color", "red"), templ.KV("width", "1px")
	switch k {
	case "css:font-family":
		return CFont(v)
	case "css:background-image":
		return CBg(v)
	case "css:display":
		return CDisplay(v)
	case "css:background-color":
		return CColor(v)
	case "css:padding":
		return CPadding(v)
	case "css:margin":
		return CMargin(v)
	case "attr:map":
		return Attr3(a, map[string]string{p: v}, z)
	case "attr:kv":
		return Attr3(a, templ.KV(p, v), z)
	case "attr:slice":
		return Attr1([]any{a, map[string]string{p: v}, z})
	case "attr:kvslice":
		return Attr1([]templ.KeyValue[string, string]{a, templ.KV(p, v), z})
	case "attr:func":
		return Attr3(a, func() any { return templ.KV(p, v) }, z)
	case "attr:funcerr":
		return Attr3(a, func() (map[string]string, error) { return map[string]string{p: v}, nil }, z)
	case "attr:mapdirect":
		return Attr1(map[string]string{"a-a": "b", p: v, "z-z": "d"})
	case "attr:safemap":
		return Attr3(a, map[string]templ.SafeCSSProperty{p: "red"}, z)
	case "attr:kv-safeprop":
		return Attr3(a, templ.KV(p, templ.SafeCSSProperty("red")), z)
	case "attr:kvslice-safeprop":
		return Attr1([]any{a, templ.KV(p, templ.SafeCSSProperty("red")), z})
	// history sinks: the same text is first given to the css component as a
	// trusted templ.SafeCSSProperty (that class is built, not rendered), then
	// the ordinary string component is rendered and judged
	case "css-history:font-family":
		_ = cFontSafe(templ.SafeCSSProperty(v))
		return CFont(v)
	case "css-history:background-image":
		_ = cBgSafe(templ.SafeCSSProperty(v))
		return CBg(v)
	case "css-history:background-color":
		_ = cColorSafe(templ.SafeCSSProperty(v))
		return CColor(v)
	}
	return nil
}

func main() {
	in := bufio.NewScanner(os.Stdin)
	in.Buffer(make([]byte, 1<<20), 1<<26)
	out := bufio.NewWriter(os.Stdout)
	defer out.Flush()
	enc := json.NewEncoder(out)
	for in.Scan() {
		var j job
		if err := json.Unmarshal(in.Bytes(), &j); err != nil {
			continue
		}
		p, _ := base64.StdEncoding.DecodeString(j.P)
		v, _ := base64.StdEncoding.DecodeString(j.V)
		r := res{I: j.I}
		c := build(j.K, string(p), string(v))
		if c == nil {
			r.E = "unknown sink " + j.K
		} else {
			var buf bytes.Buffer
			if err := c.Render(context.Background(), &buf); err != nil {
				r.E = err.Error()
			}
			r.O = base64.StdEncoding.EncodeToString(buf.Bytes())
		}
		enc.Encode(r)
	}
}
`

type sink struct {
	name string
	prop string // css sinks: the constant property; attr sinks: ""
	cls  string // css sinks: class name prefix
}

var cssSinks = []sink{{"css:font-family", "font-family", "cFont_"}, {"css:background-image", "background-image", "cBg_"}, {"css:display", "display", "cDisplay_"},
	{"css:background-color", "background-color", "cColor_"}, {"css:padding", "padding", "cPadding_"}, {"css:margin", "margin", "cMargin_"}}

var attrSinks = []sink{{name: "attr:map"}, {name: "attr:kv"}, {name: "attr:slice"}, {name: "attr:kvslice"}, {name: "attr:func"}, {name: "attr:funcerr"}, {name: "attr:mapdirect"}, {name: "attr:safemap"},
	{name: "attr:kv-safeprop"}, {name: "attr:kvslice-safeprop"}}

// histSinks render in their own driver process (cold caches): see the driver.
var histSinks = []sink{{"css-history:font-family", "font-family", "cFont_"}, {"css-history:background-image", "background-image", "cBg_"}, {"css-history:background-color", "background-color", "cColor_"}}

// nameOnly: sinks whose value is a trusted templ.SafeCSSProperty (kept benign:
// "red"); only the property NAME is dynamic and untrusted.
func nameOnly(s sink) bool {
	return s.name == "attr:safemap" || s.name == "attr:kv-safeprop" || s.name == "attr:kvslice-safeprop"
}

// unsupportedMarker is what the runtime writes for a style value of a type it
// does not handle (templ.KeyValue[string, templ.SafeCSSProperty] on the pinned
// tree): a fixed declaration, which is as harmless as the innocuous name.
const unsupportedMarker = "zTemplUnsupportedStyleAttributeValue"

func sinkByName(n string) (sink, bool) {
	for _, s := range append(append(append([]sink{}, cssSinks...), attrSinks...), histSinks...) {
		if s.name == n {
			return s, true
		}
	}
	return sink{}, false
}

func sinkIndex(s sink) int {
	for i, x := range append(append([]sink{}, cssSinks...), attrSinks...) {
		if x.name == s.name {
			return i
		}
	}
	return -1
}

type rjob struct {
	sk   sink
	p, v string
}

type rpkg struct {
	p   *corpus.Pkg
	bin string
}

func buildRendered(c *core.Ctx) *rpkg {
	p := corpus.New(c, "c05")
	p.Write("t.templ", rTempl)
	p.Write("main.go", rDriver)
	if out, err := p.Generate(); err != nil {
		c.Inconclusive("templ generate failed on the C05 templates: " + corpus.Tail(out, 400))
		return nil
	}
	bin, out, err := p.Build(false, ".")
	if err != nil {
		c.Inconclusive("go build failed on the C05 package: " + corpus.Tail(out, 600))
		return nil
	}
	return &rpkg{p, bin}
}

func (e *rpkg) run(c *core.Ctx, jobs []rjob) map[int][]byte {
	var in bytes.Buffer
	for i, j := range jobs {
		fmt.Fprintf(&in, "{\"i\":%d,\"k\":%q,\"p\":%q,\"v\":%q}\n", i, j.sk.name, enc(j.p), enc(j.v))
	}
	r := corpus.Run(e.bin, nil, in.Bytes(), nil, e.p.Dir, 10*time.Minute)
	if r.TimedOut || r.Err != nil {
		c.Inconclusive(fmt.Sprintf("C05 driver failed: timeout=%v err=%v stderr=%s", r.TimedOut, r.Err, corpus.Tail(string(r.Stderr), 400)))
		return nil
	}
	res := map[int][]byte{}
	sc := bufio.NewScanner(bytes.NewReader(r.Stdout))
	sc.Buffer(make([]byte, 1<<20), 1<<26)
	for sc.Scan() {
		var x struct {
			I int
			O string
			E string
		}
		if json.Unmarshal(sc.Bytes(), &x) != nil {
			continue
		}
		if x.E != "" {
			c.Inconclusive("render error in driver: " + x.E)
			continue
		}
		b, _ := base64.StdEncoding.DecodeString(x.O)
		res[x.I] = b
	}
	return res
}

const (
	cssSkeleton  = "<style type>T</style><div data-a class data-z>T</div>"
	attrSkeleton = "<div data-a style data-z>T</div>"
)

// judgeRendered decides one rendered output.
//
// Rules: the HTML5 token stream must have the benign skeleton (style element
// then div for css sinks; one div with data-a, style, data-z for attribute
// sinks) with untouched neighbour values -> else HTML. The <style> text (raw
// text, as the tokenizer delivers it) is decided by checkSheet, the decoded
// style attribute value by checkAttr, with sentinels color:red / width:1px
// (a-a:b / z-z:d, in any order, for the direct three-entry map).
func judgeRendered(j rjob, out []byte) (cl Clause, css string) {
	toks, err := html5.Tokenize(out)
	if err != nil {
		return HTML, ""
	}
	sk := html5.Skeleton(toks)
	if j.sk.prop != "" { // css component
		if sk != cssSkeleton {
			cl |= HTML
		}
		for i, t := range toks {
			if t.Kind == "start" && t.Name == "style" && i+1 < len(toks) && toks[i+1].Kind == "text" {
				css += toks[i+1].Data
			}
		}
		if cl == 0 {
			d := toks[3]
			if d.Attrs[0].Val != "1" || d.Attrs[2].Val != "2" || toks[4].Data != "t" || toks[0].Attrs[0].Val != "text/css" {
				cl |= HTML
			}
		}
		return cl | checkSheet(css, j.sk.cls, "canary_", []Seg{sent("color", "red"), {Names: []string{j.sk.prop}}, sent("width", "1px")}), css
	}
	if sk != attrSkeleton {
		return HTML, ""
	}
	d := toks[0]
	if d.Attrs[0].Val != "1" || d.Attrs[2].Val != "2" || toks[1].Data != "t" {
		cl |= HTML
	}
	css = d.Attrs[1].Val
	names := namesFor(j.p)
	if nameOnly(j.sk) {
		names = append(names, unsupportedMarker)
	}
	segs := []Seg{sent("color", "red"), {Names: names}, sent("width", "1px")}
	unordered := false
	if j.sk.name == "attr:mapdirect" {
		// three entries of ONE map: the property does not speak about the order
		// in which a map's declarations appear, so only the multiset is demanded
		segs, unordered = []Seg{sent("a-a", "b"), {Names: namesFor(j.p)}, sent("z-z", "d")}, true
	}
	return cl | checkAttr(css, segs, unordered), css
}

// sanitiserClean: the sanitiser's own output for the pair the sink uses is
// clean, so a violation seen in the rendering is the rendering path's.
func sanitiserClean(j rjob) bool {
	p, v := j.p, j.v
	if j.sk.prop != "" {
		p = j.sk.prop
	}
	if nameOnly(j.sk) {
		v = "red"
	}
	cl, _ := verdictSanitiser(p, v)
	return cl == 0
}

func renderedGroup(s sink) string {
	if s.prop != "" {
		return "rendered:css-component"
	}
	return "rendered:style-attribute"
}

// renderValues selects, per property, the values worth rendering: mostly
// values the sanitiser lets through unchanged (a replaced value renders as
// the same constant every time), shortest first, plus a thin sample of
// replaced ones.
func renderValues(c *core.Ctx, prop string, n int) []string {
	var acc, rej []string
	seen := map[string]bool{}
	take := func(v string) {
		if seen[v] {
			return
		}
		seen[v] = true
		if _, out := safehtml.SanitizeCSS(prop, v); out == v {
			if nontrivial(v) || strings.ContainsAny(v, "&") {
				acc = append(acc, v)
			}
		} else if core.Hash64(prop, v)%97 == 0 {
			rej = append(rej, v)
		}
	}
	for _, st := range []stream{exhaustive(3), shapes1(2), structured(2), random(c, 20000)} {
		for p := 0; p < st.parts; p++ {
			st.gen(p, take)
		}
	}
	for _, v := range []string{`"a"`, `"a b", serif`, `url("/a")`, `url('/a')`, "url(/a?b=1&c=2)", `"a&b"`, `"a<b"`, `"a>b"`, `"'"`, "red", "#fff", "1px 2px", "a,b"} {
		take(v)
	}
	byLen := func(s []string) {
		sort.Slice(s, func(a, b int) bool {
			if len(s[a]) != len(s[b]) {
				return len(s[a]) < len(s[b])
			}
			return s[a] < s[b]
		})
	}
	byLen(acc)
	byLen(rej)
	if len(acc) > n {
		// half shortest-first, half spread over the rest
		out := append([]string{}, acc[:n/2]...)
		rest := acc[n/2:]
		step := len(rest) / (n - n/2)
		for i := 0; i < len(rest) && len(out) < n; i += step {
			out = append(out, rest[i])
		}
		acc = out
	}
	if len(rej) > n/8 {
		rej = rej[:n/8]
	}
	out := append(acc, rej...)
	// long accepted values (truncation, buffers), never thinned out
	for _, n := range []int{1023, 1024, 1025, 1026, 2048, 4097} {
		for _, sh := range longShapes {
			for _, u := range []string{"a", "é"} {
				if v := longValue(sh, u, n); !seen[v] {
					seen[v] = true
					if _, o := safehtml.SanitizeCSS(prop, v); o != innocuousValue {
						out = append(out, v)
					}
				}
			}
		}
	}
	return out
}

func rendered(c *core.Ctx, b *bag) {
	e := buildRendered(c)
	if e == nil {
		return
	}
	defer e.p.Close()
	n := c.Pick(3000, 30000)
	vals := map[string][]string{}
	valuesFor := func(prop string, n int) []string {
		k := fmt.Sprint(prop, "/", n)
		if _, ok := vals[k]; !ok {
			vals[k] = renderValues(c, prop, n)
		}
		return vals[k]
	}
	var jobs []rjob
	for _, sk := range cssSinks {
		for _, v := range valuesFor(sk.prop, n) {
			jobs = append(jobs, rjob{sk, sk.prop, v})
		}
	}
	hostileNames := append([]string{"COLOR", "Font-Family", "--x", "zzz-unlisted"}, invalidNames...)
	for _, sk := range attrSinks {
		if nameOnly(sk) { // only the name is dynamic and untrusted
			seen := map[string]bool{}
			add := func(p string) {
				if !seen[p] {
					seen[p] = true
					jobs = append(jobs, rjob{sk, p, "red"})
				}
			}
			for _, p := range append(append(append([]string{}, regularProps...), unlistedProps...), hostileNames...) {
				add(p)
			}
			for _, st := range []stream{exhaustive(2), structured(1)} { // the adversarial alphabet and fragments as names
				for part := 0; part < st.parts; part++ {
					st.gen(part, add)
				}
			}
			continue
		}
		for _, p := range []string{"font-family", "background-image"} {
			for _, v := range valuesFor(p, n) {
				jobs = append(jobs, rjob{sk, p, v})
			}
		}
		for _, p := range []string{"color", "display", "margin"} {
			for _, v := range valuesFor(p, n/4) {
				jobs = append(jobs, rjob{sk, p, v})
			}
		}
		for _, p := range hostileNames {
			for _, v := range []string{"red", `"a"`, "a;b:c", "url(/a)"} {
				jobs = append(jobs, rjob{sk, p, v})
			}
		}
	}
	// mapdirect cannot carry the sentinel names as hostile name
	res := e.run(c, jobs)
	if res == nil {
		return
	}
	// history sinks in a driver process of their own (anything the code under
	// test remembers between calls starts cold), shortest hostile values first
	{
		seen := map[string]bool{}
		var hv []string
		for _, st := range []stream{exhaustive(2), structured(1)} {
			for part := 0; part < st.parts; part++ {
				st.gen(part, func(v string) {
					if !seen[v] && nontrivial(v) {
						seen[v] = true
						hv = append(hv, v)
					}
				})
			}
		}
		sort.SliceStable(hv, func(a, b int) bool { return len(hv[a]) < len(hv[b]) })
		if m := c.Pick(1000, 3000); len(hv) > m {
			hv = hv[:m]
		}
		var hj []rjob
		for _, v := range hv {
			for _, sk := range histSinks {
				hj = append(hj, rjob{sk, sk.prop, v})
			}
		}
		hres := e.run(c, hj)
		for i := range hj {
			if o, ok := hres[i]; ok {
				res[len(jobs)+i] = o
			}
		}
		jobs = append(jobs, hj...)
		c.Set("rendered_history_sequences", len(hj))
	}
	if len(res) != len(jobs) {
		c.Inconclusive(fmt.Sprintf("C05 driver answered %d of %d jobs", len(res), len(jobs)))
	}
	type rawViol struct {
		j  rjob
		cl Clause
	}
	var mu sync.Mutex
	raws := map[string]rawViol{} // per (group, class, clause): smallest raw witness
	var attributed, seenStyle, seenAttr int64
	verd := make([]Clause, len(jobs))
	parallel(len(jobs), func(i int) {
		out, ok := res[i]
		if !ok {
			return
		}
		cl, css := judgeRendered(jobs[i], out)
		verd[i] = cl
		mu.Lock()
		defer mu.Unlock()
		if css != "" {
			if jobs[i].sk.prop != "" {
				seenStyle++
			} else {
				seenAttr++
			}
		}
		if cl == 0 {
			return
		}
		if !sanitiserClean(jobs[i]) {
			attributed++
			return
		}
		for bit := Clause(1); bit <= HTML; bit <<= 1 {
			if cl&bit == 0 {
				continue
			}
			p := jobs[i].p
			k := renderedGroup(jobs[i].sk) + "|" + classOf(p) + "|" + bit.String()
			w := witness{p: p, v: jobs[i].v}
			if cur, ok := raws[k]; !ok || less(w, witness{p: cur.j.p, v: cur.j.v}) || (!less(witness{p: cur.j.p, v: cur.j.v}, w) && sinkIndex(jobs[i].sk) < sinkIndex(cur.j.sk)) {
				raws[k] = rawViol{jobs[i], bit}
			}
		}
	})
	c.Eval(len(res))
	for _, j := range jobs {
		if nontrivial(j.v) || !namePattern.MatchString(j.p) {
			c.NontrivialStr("rendered", j.sk.name, j.p, j.v)
		}
	}
	c.Set("rendered_outputs", len(res))
	c.Set("rendered_sinks", len(cssSinks)+len(attrSinks)+len(histSinks))
	c.Set("rendered_style_elements_parsed", seenStyle)
	c.Set("rendered_style_attributes_parsed", seenAttr)
	c.Set("rendered_violations_attributed_to_the_sanitiser", attributed)
	if seenStyle == 0 || seenAttr == 0 {
		c.Inconclusive("the rendered monitor saw no <style> text or no style attribute")
	}
	for i, j := range jobs {
		if out, ok := res[i]; ok && (i == 0 || j.sk.name == "attr:map" && j.v == `"a"` && j.p == "font-family") {
			_, css := judgeRendered(j, out)
			c.Sample(map[string]any{"sink": j.sk.name, "property": j.p, "value": j.v, "rendered": string(out), "css_seen_by_monitor": css, "verdict": map[bool]string{true: "held", false: verd[i].String()}[verd[i] == 0]})
		}
	}
	// reduce each bucket's smallest raw witness through the driver
	var ks []string
	for k := range raws {
		ks = append(ks, k)
	}
	sort.Strings(ks)
	for _, k := range ks {
		rv := raws[k]
		j := rv.j
		j.v = e.shrink(c, j, rv.cl)
		b.add(witness{group: renderedGroup(j.sk), class: classOf(j.p), clause: rv.cl, p: j.p, v: j.v, sink: j.sk.name})
	}
}

// shrink by batched deletion rounds: all single-byte deletions of the value
// are rendered in one driver run; the first that still shows the clause while
// the sanitiser's own output stays clean is taken.
func (e *rpkg) shrink(c *core.Ctx, j rjob, bit Clause) string {
	if len(j.v) > 300 { // long-value witnesses are reported as found (a round renders len(v) candidates)
		return j.v
	}
	for round := 0; round < 300 && len(j.v) > 0; round++ {
		var jobs []rjob
		for i := 0; i < len(j.v); i++ {
			jobs = append(jobs, rjob{j.sk, j.p, j.v[:i] + j.v[i+1:]})
		}
		res := e.run(c, jobs)
		found := false
		for i := range jobs {
			if out, ok := res[i]; ok {
				if cl, _ := judgeRendered(jobs[i], out); cl&bit != 0 && sanitiserClean(jobs[i]) {
					j.v, found = jobs[i].v, true
					break
				}
			}
		}
		if !found {
			break
		}
	}
	return j.v
}

func replayRendered(c *core.Ctx, b *bag, sinkName, p, v string) {
	sk, ok := sinkByName(sinkName)
	if !ok {
		core.Infra("unknown sink %q in replay file", sinkName)
	}
	e := buildRendered(c)
	if e == nil {
		return
	}
	defer e.p.Close()
	j := rjob{sk, p, v}
	res := e.run(c, []rjob{j})
	out, ok := res[0]
	if !ok {
		return
	}
	cl, css := judgeRendered(j, out)
	fmt.Printf("rendered: %s\ncss seen: %q\nverdict: %s (sanitiser clean: %v)\n", out, css, cl, sanitiserClean(j))
	if cl != 0 && sanitiserClean(j) {
		for bit := Clause(1); bit <= HTML; bit <<= 1 {
			if cl&bit != 0 {
				b.add(witness{group: renderedGroup(sk), class: classOf(p), clause: bit, p: p, v: v, sink: sk.name})
			}
		}
	}
}
