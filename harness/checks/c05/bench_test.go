package c05

import "testing"

func BenchmarkVerdict(b *testing.B) {
	for i := 0; i < b.N; i++ {
		verdictSanitiser("color", "a;b{")
	}
}
func BenchmarkVerdictFont(b *testing.B) {
	for i := 0; i < b.N; i++ {
		verdictSanitiser("font-family", `"a", b`)
	}
}
func BenchmarkEmit(b *testing.B) {
	for i := 0; i < b.N; i++ {
		emitSafehtml("color", "a;b{")
		emitTempl("color", "a;b{")
	}
}
