package c05

import (
	"strings"

	"verif/oracle/css3"
	"verif/oracle/whaturl"
)

// Clause is a bit set of the clauses of the property statement that an
// emitted piece of CSS breaks.
type Clause uint16

const (
	StyleEnd    Clause = 1 << iota // contains "</style": ends the style element
	Comment                        // opens a comment
	Rule                           // ends / swallows the rule: canary rule or rule count damaged
	Declaration                    // ends / swallows the declaration: number of ';'-separated declarations changed, a neighbour declaration damaged, or an at-rule appeared
	Name                           // the declaration is not named as the property it was written for (nor the innocuous name)
	Brace                          // a {}-block inside the value (re-parsed as a nested rule by nesting-aware consumers: ends the declaration)
	Func                           // calls a function other than url()
	URLScheme                      // url() whose argument has a scheme other than http, https, mailto (or none)
	HTML                           // rendered only: the HTML token structure around the sink changed (style element / style attribute ended)
)

var clauseNames = []string{"ends-style-element", "opens-comment", "ends-rule", "ends-declaration", "wrong-name", "brace-block", "function-call", "url-scheme", "html-structure"}

func (c Clause) String() string {
	var out []string
	for i, n := range clauseNames {
		if c&(1<<i) != 0 {
			out = append(out, n)
		}
	}
	return strings.Join(out, "+")
}

// Seg describes one expected ';'-separated declaration of a declaration list.
type Seg struct {
	Sentinel  bool
	Name, Val string   // sentinel: exact name and single-token value
	Names     []string // hostile: admissible lower-case names (the property written for, the innocuous name)
}

func sent(n, v string) Seg { return Seg{Sentinel: true, Name: n, Val: v} }

var urlSchemes = map[string]bool{"http": true, "https": true, "mailto": true}

// scanValue walks component values of the hostile declaration and reports
// Brace / Func / URLScheme.
func scanValue(in []css3.CV) (v Clause) {
	for _, c := range in {
		switch {
		case c.Block != nil:
			if c.Block.Open == css3.LBrace {
				v |= Brace
			}
			v |= scanValue(c.Block.Values)
		case c.Func != nil:
			if !strings.EqualFold(c.Func.Name, "url") {
				v |= Func
			} else {
				// url( <string> ) — the quoted form; anything else inside is scanned too
				for _, a := range c.Func.Values {
					if a.Block == nil && a.Func == nil && (a.Tok.Kind == css3.String || a.Tok.Kind == css3.BadString) {
						if sch, ok := whaturl.Scheme(a.Tok.Value); ok && !urlSchemes[sch] {
							v |= URLScheme
						}
					}
				}
			}
			v |= scanValue(c.Func.Values)
		case c.Tok.Kind == css3.URL:
			if sch, ok := whaturl.Scheme(c.Tok.Value); ok && !urlSchemes[sch] {
				v |= URLScheme
			}
		}
	}
	return v
}

func isTok(c css3.CV, k css3.Kind) bool { return c.Block == nil && c.Func == nil && c.Tok.Kind == k }

// checkList decides a declaration list (component values of a {}-block or of
// a style attribute) against the expected segments.
//
// Rules (the trusted base):
//   - splitting the top-level component values at semicolon tokens must give
//     exactly len(segs) parts (one empty part after a trailing ';' is allowed):
//     a hostile value that contains a top-level ';', or that swallows a
//     following ';' (unterminated string / url / block / function, trailing
//     backslash) changes the count -> Declaration;
//   - a sentinel part must parse ("consume a list of declarations") to exactly
//     its declaration -> else Declaration;
//   - the hostile part must parse to at most one declaration and no at-rule
//     (-> Declaration); if it is a declaration its name must be admissible
//     (-> Name); zero declarations (dropped by error recovery) is fine;
//   - the hostile part is scanned for {}-blocks, functions and url schemes;
//   - segs gives the expected order for ordered sinks (css component, KV pairs,
//     slices, separate style arguments); with unordered=true (entries of one
//     map) only the multiset is demanded: the sentinels, each intact, plus
//     exactly one part for the pair under test, in any order.
func checkList(in []css3.CV, segs []Seg, unordered bool) (v Clause) {
	var parts [][]css3.CV
	cur := []css3.CV{}
	for _, c := range in {
		if isTok(c, css3.Semicolon) {
			parts = append(parts, cur)
			cur = []css3.CV{}
			continue
		}
		cur = append(cur, c)
	}
	blank := true
	for _, c := range cur {
		blank = blank && isTok(c, css3.Whitespace)
	}
	if !blank {
		parts = append(parts, cur)
	}
	if len(parts) != len(segs) {
		return Declaration
	}
	isSentinel := func(part []css3.CV, sg Seg) bool {
		items := css3.ParseDeclarationList(part)
		return len(items) == 1 && items[0].Decl != nil && items[0].Decl.Name == sg.Name && len(items[0].Decl.Value) == 1 &&
			items[0].Decl.Value[0].Block == nil && items[0].Decl.Value[0].Func == nil && items[0].Decl.Value[0].Tok.Value == sg.Val
	}
	if unordered {
		// The declarations of one Go map have no order the property could speak
		// about: every sentinel must be found intact among the parts (each part
		// used once), in any position; what remains is the hostile part. The
		// parts are then put into the order of segs and judged as below.
		used := make([]bool, len(parts))
		perm := make([][]css3.CV, len(segs))
		for i, sg := range segs {
			if !sg.Sentinel {
				continue
			}
			for k := range parts {
				if !used[k] && isSentinel(parts[k], sg) {
					used[k], perm[i] = true, parts[k]
					break
				}
			}
			if perm[i] == nil {
				return Declaration // a neighbour declaration is missing or damaged
			}
		}
		k := 0
		for i, sg := range segs {
			if sg.Sentinel {
				continue
			}
			for used[k] {
				k++
			}
			used[k], perm[i] = true, parts[k]
		}
		parts = perm
	}
	for i, sg := range segs {
		items := css3.ParseDeclarationList(parts[i])
		if sg.Sentinel {
			if !isSentinel(parts[i], sg) {
				v |= Declaration
			}
			continue
		}
		if len(items) > 1 {
			v |= Declaration
		}
		for _, it := range items {
			if it.Rule != nil {
				v |= Declaration
				continue
			}
			ok := false
			for _, n := range sg.Names {
				ok = ok || strings.EqualFold(it.Decl.Name, n)
			}
			if !ok {
				v |= Name
			}
		}
		v |= scanValue(parts[i])
	}
	return v
}

// checkSheet decides a style sheet that must consist of exactly two rules:
// ".<cls0…>{ <segs> }" and the canary ".<cls1…>{color:green}".
//
// Rules: "parse a stylesheet" yields exactly two qualified rules with closed
// blocks whose preludes are a '.' delimiter followed by one ident with the
// expected prefix, and the canary block holds exactly color:green -> else Rule
// (the hostile value ended the rule or swallowed what followed it). Any
// comment consumed by the tokenizer -> Comment (the fixed text has none).
func checkSheet(sheet, cls0, cls1 string, segs []Seg) (v Clause) {
	r := css3.Tokenize(sheet)
	if r.Comments > 0 {
		v |= Comment
	}
	rules := css3.ParseStylesheet(r.Tokens)
	okRule := func(ru css3.Rule, prefix string) bool {
		return !ru.At && ru.Block != nil && ru.Block.Closed && len(ru.Prelude) == 2 &&
			isTok(ru.Prelude[0], css3.Delim) && ru.Prelude[0].Tok.Value == "." &&
			isTok(ru.Prelude[1], css3.Ident) && strings.HasPrefix(ru.Prelude[1].Tok.Value, prefix)
	}
	if len(rules) != 2 || !okRule(rules[0], cls0) || !okRule(rules[1], cls1) ||
		checkList(rules[1].Block.Values, []Seg{sent("color", "green")}, false) != 0 {
		return v | Rule
	}
	return v | checkList(rules[0].Block.Values, segs, false)
}

// checkAttr decides the decoded value of a style attribute ("parse a list of
// declarations" over the whole value). There is no rule to end, so a '}' is an
// ordinary token here.
func checkAttr(text string, segs []Seg, unordered bool) (v Clause) {
	r := css3.Tokenize(text)
	if r.Comments > 0 {
		v |= Comment
	}
	return v | checkList(css3.ParseComponentValues(r.Tokens), segs, unordered)
}

func hasStyleEnd(s string) bool { return strings.Contains(strings.ToLower(s), "</style") }

// checkEmitted decides a "name:value;" text as produced by the sanitiser for
// property p, embedded between two sentinel declarations of a rule that is
// followed by a canary rule.
func checkEmitted(emitted string, names []string) (v Clause) {
	if hasStyleEnd(emitted) {
		v |= StyleEnd
	}
	return v | checkSheet(".x{a:b;"+emitted+"c:d}.canary{color:green}", "x", "canary",
		[]Seg{sent("a", "b"), {Names: names}, sent("c", "d")})
}
