// Package c14 checks "concurrent renders are isolated and race-free": the shared
// template set (checks/rcorpus) is built with -race and -tags verif, G
// goroutines render mixed components at the same time (half of them into
// faulting writers), and three monitors judge the run offline: the Go race
// detector's log, byte equality with the sequential reference, and the buffer
// pool live-set shadowed through hook H2. A second part repeats this in
// development mode against text files produced by the real FSEventHandler,
// including a goroutine that replaces a text file while others render.
package c14

import (
	"context"
	"encoding/base64"
	"fmt"
	"io"
	"log/slog"
	"os"
	"path/filepath"
	"sort"
	"strings"
	"sync"
	"time"

	"github.com/a-h/templ/cmd/templ/generatecmd"
	templruntime "github.com/a-h/templ/runtime"
	"github.com/fsnotify/fsnotify"

	"verif/checks/rcorpus"
	"verif/core"
	"verif/corpus"
)

// Case is the replayable description of one driver process.
type Case struct {
	Name    string        `json:"name"`
	DevMode bool          `json:"dev_mode"`
	Jobs    []rcorpus.Job `json:"jobs"`
	Rule    string        `json:"rule"`
	Detail  string        `json:"detail"`
}

type procResult struct {
	name         string
	renders      int64
	faulted      int64
	okRenders    int64
	goroutines   int
	pools        []*rcorpus.PoolEv
	races        []raceReport
	raceBlocks   int
	viols        []Case
	inconclusive []string
	rewrites     int
	mixed        int64 // dev renders that really contain bytes of two versions
	devRenders   int64
	samples      []any
	// handler phase
	hReq, hFail, hStream, hGoHTML, hOverlap int64
	bufioGroups, bufioGroupRenders          int64
	onceFirstUses                           int64
	mwRequests, mwRounds                    int64
	spans                                   [][2]int64
}

type raceReport struct {
	key, text string
}

// parseRaces splits a race-detector log into reports and derives a
// deduplication key from the top frame of the two conflicting accesses.
func parseRaces(log string) (reports []raceReport, blocks int) {
	seen := map[string]bool{}
	for _, blk := range strings.Split(log, "==================") {
		if !strings.Contains(blk, "WARNING: DATA RACE") {
			continue
		}
		blocks++
		var tops []string
		for _, sec := range strings.Split(strings.TrimSpace(blk), "\n\n") {
			lines := strings.Split(sec, "\n")
			head := ""
			for _, l := range lines {
				if t := strings.TrimSpace(l); t != "" && t != "WARNING: DATA RACE" {
					head = t
					break
				}
			}
			if !(strings.Contains(head, " at 0x") && strings.Contains(head, "by ")) {
				continue // goroutine-creation sections
			}
			// the access is named by its first frame inside templ or generated
			// code (falling back to the innermost frame)
			var fns []string
			for _, l := range lines {
				if strings.HasPrefix(l, "  ") && !strings.HasPrefix(l, "   ") {
					fn := strings.TrimSpace(l)
					if i := strings.LastIndex(fn, "("); i > 0 {
						fn = fn[:i]
					}
					fns = append(fns, fn)
				}
			}
			if len(fns) == 0 {
				continue
			}
			pick := fns[0]
			for _, fn := range fns {
				if strings.Contains(fn, "a-h/templ") || strings.HasPrefix(fn, "main.") {
					pick = fn
					break
				}
			}
			tops = append(tops, pick)
		}
		sort.Strings(tops)
		key := "race " + strings.Join(tops, " <-> ")
		if !seen[key] {
			seen[key] = true
			reports = append(reports, raceReport{key, strings.TrimSpace(blk)})
		}
	}
	return
}

// monotoneMix decides the development-mode rewrite oracle: while renders run,
// the text file is atomically replaced by versions 1, 2, … (same literal count
// and lengths, strictly increasing mtimes). A single render reads the shared
// cache once per literal, in document order, and the cache only moves forward,
// so its output must be, position by position, the bytes of SOME version with
// a version index that never decreases along the document. (A render that
// happens entirely under one version is the special case "equals that
// version's sequential reference".) Returns ok and whether ≥ 2 versions were
// really needed.
func monotoneMix(got []byte, refs [][]byte) (ok, mixed bool) {
	for _, r := range refs {
		if len(r) != len(got) {
			return false, false
		}
	}
	cur, first := 0, -1
	for i := range got {
		v := cur
		for v < len(refs) && refs[v][i] != got[i] {
			v++
		}
		if v == len(refs) {
			return false, false
		}
		if v != cur {
			// moving forward is only needed where the current version differs
			cur = v
		}
		if first < 0 {
			allSame := true
			for _, r := range refs {
				allSame = allSame && r[i] == refs[0][i]
			}
			if !allSame {
				first = cur
			}
		}
	}
	return true, first >= 0 && cur != first
}

// judgeProc decides one driver process from its event log and race log.
//
//	isolation  a render into a well-behaved writer returns nil and delivers exactly the
//	           sequential reference D of its component (same process, before the phase)
//	faulted    a render into a faulting writer / with a failing expression still obeys the
//	           single-render contract: received is a prefix of D; nil => whole D;
//	           failing expression => error wraps the sentinel
//	pool       hook H2 live-set: no buffer handed out while live, none released twice
//	           (gets - puts at quiescence is evidence only: dropping a buffer is allowed)
//	race       any "WARNING: DATA RACE" block in the GORACE log
//	dev-mix    see monotoneMix
//	handler    requests through templ.Handler / templ.ToGoHTML (the templ package's own
//	           bytes.Buffer pool): a successful request has the configured status (or 200),
//	           the configured Content-Type and exactly the sequential reference D as body; a
//	           failed BUFFERED request carries exactly the error path's response (default:
//	           500, text/plain, the fixed message; with WithErrorHandler: what that handler
//	           writes, with the configured Content-Type) and no document byte; a failed
//	           STREAMED request's body is a prefix of D followed by the error path's body;
//	           ToGoHTML returns D, or the sentinel error and an empty string
func judgeProc(c *core.Ctx, name string, dev bool, jobs []rcorpus.Job, run corpus.RunResult, raceLog string, timeout time.Duration) *procResult {
	res := &procResult{name: name}
	bad := func(rule, format string, a ...any) {
		res.viols = append(res.viols, Case{Name: name, DevMode: dev, Jobs: jobs, Rule: rule, Detail: fmt.Sprintf(format, a...)})
	}
	refs := map[string]map[int]*rcorpus.Ref{}
	devKeys := map[string]bool{}
	rewriting := map[string]bool{} // tag -> the phase rewrites the text file
	for _, j := range jobs {
		if j.Rewrite != nil {
			rewriting[j.Tag] = true
			for _, k := range j.Rewrite.Dev {
				devKeys[k] = true
			}
		}
		if j.Op == "conc" && j.G > res.goroutines {
			res.goroutines = j.G
		}
	}
	ended, derr := rcorpus.Decode(run.Stdout, func(ev *rcorpus.Event) {
		switch ev.Ev {
		case "ref":
			if ev.Out == nil || ev.Out.Err != nil || ev.Out.B == nil {
				res.inconclusive = append(res.inconclusive, fmt.Sprintf("%s: sequential reference render of %s failed: %+v", name, ev.Key, ev.Out))
				return
			}
			if refs[ev.Key] == nil {
				refs[ev.Key] = map[int]*rcorpus.Ref{}
			}
			refs[ev.Key][ev.Ver] = rcorpus.NewRef(ev.Out.Bytes(), ev.Trace)
		case "pool":
			res.pools = append(res.pools, ev.Pool)
			c.Eval(1)
			// a buffer that is never released (dropped instead of recycled) is no violation
			if p := ev.Pool; len(p.Anomalies) > 0 {
				bad("pool", "phase %s: buffer pool monitor: gets=%d puts=%d live=%d anomalies=%v", ev.Tag, p.Gets, p.Puts, p.Live, p.Anomalies)
			}
		case "concdone":
			res.rewrites += ev.K
		case "cb":
			// several renders into one caller-owned bufio.Writer, one Flush: the sink holds
			// exactly the concatenation of the sequential references
			c.Eval(1)
			res.bufioGroups++
			res.bufioGroupRenders += int64(len(ev.Keys))
			var want []byte
			for _, k := range ev.Keys {
				if r := refs[k][0]; r != nil {
					want = append(want, r.D...)
				} else {
					res.inconclusive = append(res.inconclusive, name+": bufio group without reference: "+k)
					return
				}
			}
			if o := ev.Out; o == nil || o.Err != nil || o.N != len(want) || o.H != rcorpus.Hash(want) {
				bad("bufio-group", "phase %s goroutine %d step %d: %v rendered one after another into the goroutine's own bufio.Writer #%d, then flushed: err=%s, sink holds %d bytes (hash %s); the sequential references add up to %d bytes (hash %s)",
					ev.Tag, ev.G, ev.I, ev.Keys, ev.K, errText(o.Err), o.N, o.H, len(want), rcorpus.Hash(want))
			}
		case "mr":
			// request through a CSSMiddleware shared by the requests of its round
			c.Eval(1)
			res.mwRequests++
			if ev.G == 0 {
				res.mwRounds++
			}
			ref := refs[ev.Key][0]
			o := ev.Out
			if ref == nil || o == nil {
				res.inconclusive = append(res.inconclusive, name+": middleware request without reference: "+ev.Key)
				return
			}
			where := fmt.Sprintf("phase %s round %d request %d page %s", ev.Tag, ev.I, ev.G, ev.Key)
			wantCT := "text/html; charset=utf-8"
			if strings.HasSuffix(ev.Key, ".css") {
				wantCT = "text/css"
			}
			switch {
			case o.Err != nil && o.Err.Panic:
				bad("middleware-panic", "%s panicked: %s", where, o.Err.Msg)
			case !ref.IsWhole(o):
				bad("middleware-body", "%s: body has %d bytes (hash %s); the same request alone through a middleware of its own gives %d bytes (hash %x)", where, o.N, o.H, ref.L(), ref.Prefix[ref.L()])
			case ev.Code != 200 || ev.CT != wantCT:
				bad("middleware-head", "%s: status %d Content-Type %q", where, ev.Code, ev.CT)
			}
		case "hr":
			c.Eval(1)
			res.hReq++
			res.spans = append(res.spans, [2]int64{ev.T0, ev.T1})
			ref := refs[ev.Key][0]
			if ref == nil || ev.Out == nil {
				res.inconclusive = append(res.inconclusive, name+": request without reference: "+ev.Key)
				return
			}
			for _, f := range judgeRequest(ev, ref) {
				bad("handler-"+f[0], "phase %s goroutine %d request %d component %s options %s fail=%q: %s", ev.Tag, ev.G, ev.I, ev.Key, ev.Opt, ev.Fail, f[1])
			}
			if ev.Fail != "" {
				res.hFail++
			}
			if strings.HasPrefix(ev.Opt, "stream") {
				res.hStream++
			} else if strings.HasPrefix(ev.Opt, "gohtml") {
				res.hGoHTML++
			}
			if len(res.samples) < 1 && ev.Fail != "" && strings.Contains(ev.Opt, "eh") && strings.HasPrefix(ev.Opt, "buf") {
				res.samples = append(res.samples, map[string]any{"process": name, "phase": ev.Tag, "goroutine": ev.G, "request": ev.I, "component": ev.Key,
					"options": ev.Opt, "failing_site": ev.Fail, "status": ev.Code, "content_type": ev.CT, "body": string(ev.Out.Bytes())})
			}
		case "cr":
			res.renders++
			if ev.Key == "OnceZero" {
				res.onceFirstUses++
			}
			c.Eval(1)
			ref := refs[ev.Key][0]
			o := ev.Out
			if ref == nil || o == nil {
				res.inconclusive = append(res.inconclusive, name+": render without reference: "+ev.Key)
				return
			}
			where := fmt.Sprintf("phase %s goroutine %d render %d component %s", ev.Tag, ev.G, ev.I, ev.Key)
			if rewriting[ev.Tag] && devKeys[ev.Key] {
				res.devRenders++
				var vs [][]byte
				for v := 0; refs[ev.Key][v] != nil; v++ {
					vs = append(vs, refs[ev.Key][v].D)
				}
				ok, mixed := monotoneMix(o.Bytes(), vs)
				if mixed {
					res.mixed++
				}
				if o.Err != nil || !ok {
					bad("dev-mix", "%s: err=%s; output is not a forward-only mix of the %d text-file versions: %q; version references: %q", where, errText(o.Err), len(vs), o.Bytes(), vs)
				}
				return
			}
			switch ev.Kind {
			case "":
				res.okRenders++
				if o.Err != nil || !ref.IsWhole(o) {
					bad("isolation", "%s: err=%s, writer received %d bytes (hash %s); sequential reference has %d bytes (hash %x)", where, errText(o.Err), o.N, o.H, ref.L(), ref.Prefix[ref.L()])
				}
			default:
				res.faulted++
				if !ref.IsPrefix(o) {
					bad("faulted-prefix", "%s fault %s k=%d fail=%s: received %d bytes that are not a prefix of the reference", where, ev.Kind, ev.K, ev.Fail, o.N)
				}
				if o.Err == nil && !ref.IsWhole(o) {
					bad("faulted-nil", "%s fault %s k=%d: Render returned nil but %d of %d bytes arrived", where, ev.Kind, ev.K, o.N, ref.L())
				}
				if ev.Kind == "xf" && (o.Err == nil || !o.Err.IsSentinel) {
					bad("faulted-xf", "%s failing %s: err=%s does not wrap the sentinel", where, ev.Fail, errText(o.Err))
				}
				if ev.Kind == "hard" && o.Fired && (o.Err == nil || !o.Err.IsInjected) {
					bad("faulted-hard", "%s hard fault k=%d: err=%s does not wrap the injected error", where, ev.K, errText(o.Err))
				}
			}
			if len(res.samples) < 1 && ev.G == 1 && ev.Kind != "" {
				res.samples = append(res.samples, map[string]any{"process": name, "phase": ev.Tag, "goroutine": ev.G, "render": ev.I, "component": ev.Key,
					"fault": ev.Kind, "k": ev.K, "received": o.N, "reference_len": ref.L(), "err": errText(o.Err)})
			}
		}
	})
	stderr := strings.TrimSpace(string(run.Stderr))
	switch {
	case run.TimedOut:
		res.inconclusive = append(res.inconclusive, fmt.Sprintf("%s: driver exceeded the %v watchdog", name, timeout))
	case derr != nil:
		res.inconclusive = append(res.inconclusive, name+": driver log unreadable: "+derr.Error())
	case !ended && (strings.Contains(stderr, "panic:") || strings.Contains(stderr, "fatal error:")):
		i := strings.Index(stderr, "panic:")
		if i < 0 {
			i = strings.Index(stderr, "fatal error:")
		}
		line := stderr[i:]
		if j := strings.IndexByte(line, '\n'); j > 0 {
			line = line[:j]
		}
		bad("crash", "driver died during concurrent rendering: %s", line)
	case !ended:
		res.inconclusive = append(res.inconclusive, fmt.Sprintf("%s: driver ended early (exit %d): %s", name, run.ExitCode, corpus.Tail(stderr, 400)))
	}
	res.hOverlap = overlappingPairs(res.spans)
	res.spans = nil
	res.races, res.raceBlocks = parseRaces(raceLog + "\n" + stderr)
	for _, r := range res.races {
		text := r.text
		if len(text) > 3000 {
			text = text[:3000] + "…"
		}
		res.viols = append(res.viols, Case{Name: name, DevMode: dev, Jobs: jobs, Rule: r.key, Detail: text})
	}
	return res
}

func errText(e *rcorpus.ErrFacts) string {
	if e == nil {
		return "nil"
	}
	return fmt.Sprintf("error{%q injected:%v short:%v canceled:%v sentinel:%v}", e.Msg, e.IsInjected, e.IsShort, e.IsCanceled, e.IsSentinel)
}

const (
	defaultErrBody = "templ: failed to render template\n"
	ehErrBody      = "EH: render failed, sentinel=true\n"
)

// judgeRequest applies the handler rules to one request; returns (rule, detail) pairs.
func judgeRequest(ev *rcorpus.Event, ref *rcorpus.Ref) (fs [][2]string) {
	add := func(rule, format string, a ...any) { fs = append(fs, [2]string{rule, fmt.Sprintf(format, a...)}) }
	opt := map[string]bool{}
	wantCode := 200
	for _, o := range strings.Split(ev.Opt, ",") {
		opt[o] = true
		if strings.HasPrefix(o, "s") && len(o) == 4 {
			fmt.Sscanf(o[1:], "%d", &wantCode)
		}
	}
	wantCT := "text/html; charset=utf-8"
	if opt["ct"] {
		wantCT = "text/x-verif; charset=utf-8"
	}
	o := ev.Out
	if o.Err != nil && o.Err.Panic {
		add("panic", "the request panicked: %s", o.Err.Msg)
		return fs
	}
	failed := ev.Fail != ""
	errBody, errCode, errCT := defaultErrBody, 500, "text/plain; charset=utf-8"
	if opt["eh"] {
		errBody, errCode, errCT = ehErrBody, 418, wantCT
	}
	switch {
	case opt["gohtml"]:
		if !failed && (o.Err != nil || !ref.IsWhole(o)) {
			add("gohtml", "ToGoHTML returned err=%s and %d bytes (hash %s); reference has %d bytes (hash %x)", errText(o.Err), o.N, o.H, ref.L(), ref.Prefix[ref.L()])
		}
		if failed && (o.Err == nil || !o.Err.IsSentinel || o.N != 0) {
			add("gohtml-fail", "ToGoHTML of a failing component returned err=%s and %d bytes", errText(o.Err), o.N)
		}
	case !failed:
		if !ref.IsWhole(o) {
			add("body", "response body has %d bytes (hash %s); sequential reference has %d bytes (hash %x)", o.N, o.H, ref.L(), ref.Prefix[ref.L()])
		}
		if ev.Code != wantCode || ev.CT != wantCT {
			add("head", "status %d Content-Type %q; configured %d %q", ev.Code, ev.CT, wantCode, wantCT)
		}
	case opt["buf"]:
		if body := string(o.Bytes()); body != errBody {
			add("error-body", "failed buffered request answered %q; the error path alone writes %q", body, errBody)
		}
		if ev.Code != errCode || ev.CT != errCT {
			add("error-head", "failed buffered request: status %d Content-Type %q; the error path sets %d %q", ev.Code, ev.CT, errCode, errCT)
		}
	default: // failed streamed request: partial document, then the error path's body
		body := o.Bytes()
		m := len(body) - len(errBody)
		if m < 0 || string(body[m:]) != errBody || m > ref.L() || string(body[:m]) != string(ref.D[:m]) {
			add("stream-body", "failed streamed request answered %q: not a prefix of the document followed by %q", body, errBody)
		}
	}
	return fs
}

// overlappingPairs counts pairs of requests whose [start, end] intervals
// intersect (evidence only; wall-clock stamps never decide a verdict).
func overlappingPairs(spans [][2]int64) int64 {
	type pt struct {
		t   int64
		end bool
	}
	pts := make([]pt, 0, 2*len(spans))
	for _, s := range spans {
		pts = append(pts, pt{s[0], false}, pt{s[1], true})
	}
	sort.Slice(pts, func(i, j int) bool {
		if pts[i].t != pts[j].t {
			return pts[i].t < pts[j].t
		}
		return !pts[i].end && pts[j].end
	})
	var active, pairs int64
	for _, p := range pts {
		if p.end {
			active--
		} else {
			pairs += active
			active++
		}
	}
	return pairs
}

func readRaceLogs(prefix string) string {
	var sb strings.Builder
	files, _ := filepath.Glob(prefix + ".*")
	sort.Strings(files)
	for _, f := range files {
		b, _ := os.ReadFile(f)
		sb.Write(b)
		sb.WriteString("\n")
	}
	return sb.String()
}

type proc struct {
	name string
	dev  bool
	env  []string
	jobs []rcorpus.Job
}

func runProc(c *core.Ctx, b *rcorpus.Built, scratch string, p proc) *procResult {
	racePath := filepath.Join(scratch, "race-"+p.name)
	env := append([]string{"GORACE=halt_on_error=0 log_path=" + racePath}, p.env...)
	timeout := time.Duration(c.Pick(15, 60)) * time.Minute
	t0 := time.Now()
	run := corpus.Run(b.Bin, nil, rcorpus.Encode(p.jobs), env, b.Pkg.Dir, timeout)
	t1 := time.Now()
	res := judgeProc(c, p.name, p.dev, p.jobs, run, readRaceLogs(racePath), timeout)
	c.Set("wall_s_driver+judge/"+p.name, fmt.Sprintf("%.1f+%.1f", t1.Sub(t0).Seconds(), time.Since(t1).Seconds()))
	return res
}

// mixComps is the concurrent workload: everything except the very long
// documents (kept: LongBoundary) so that the -race run stays in budget.
func mixComps(c *core.Ctx) []rcorpus.Comp {
	var out []rcorpus.Comp
	for _, cp := range rcorpus.StaticComps() {
		if cp.Name == "LongStatic" || cp.Name == "LongMixed" || cp.Unbuffered {
			continue
		}
		out = append(out, cp)
	}
	return append(out, rcorpus.RandomTrees(c.Rand("trees"), c.Pick(30, 200), 12)...)
}

// devSetup produces the development-mode text files with the real
// FSEventHandler: every .templ file of the package once, then dev.templ in its
// text-only versions VER1 … VER4 (and back to VER0). Returns the text-file
// path of dev.templ and its version contents.
func devSetup(c *core.Ctx, b *rcorpus.Built, root string) (string, []string) {
	os.Setenv("TEMPL_DEV_MODE_ROOT", root)
	log := slog.New(slog.NewTextHandler(io.Discard, nil))
	keepGo := func(string, []byte) error { return nil } // the compiled _templ.go files stay as built
	h := generatecmd.NewFSEventHandler(log, b.Pkg.Dir, true, nil, false, true, keepGo, false)
	seq := int64(0)
	handle := func(rel, content string) generatecmd.GenerateResult {
		p := filepath.Join(b.Pkg.Dir, rel)
		if content != "" {
			if err := os.WriteFile(p, []byte(content), 0o644); err != nil {
				core.Infra("write %s: %v", p, err)
			}
		}
		seq++
		t := time.Unix(900_000_000+seq*10, 0)
		_ = os.Chtimes(p, t, t)
		r, err := h.HandleEvent(context.Background(), fsnotify.Event{Name: p, Op: fsnotify.Write})
		if err != nil {
			core.Infra("FSEventHandler.HandleEvent(%s): %v", rel, err)
		}
		return r
	}
	files := rcorpus.Files()
	for _, rel := range rcorpus.SortedKeys(files) {
		if strings.HasSuffix(rel, ".templ") {
			handle(rel, "")
		}
	}
	txt := templruntime.GetDevModeTextFileName(filepath.Join(b.Pkg.Dir, "dev.templ"))
	var versions []string
	for v := 0; v < 5; v++ {
		src := strings.ReplaceAll(files["dev.templ"], "VER0", fmt.Sprintf("VER%d", v))
		if v > 0 {
			r := handle("dev.templ", src)
			if !r.TextUpdated || r.GoUpdated {
				core.Infra("dev.templ version %d was not classified as a text-only change: %+v", v, r)
			}
		}
		data, err := os.ReadFile(txt)
		if err != nil {
			core.Infra("text file of dev.templ missing: %v", err)
		}
		versions = append(versions, base64.StdEncoding.EncodeToString(data))
	}
	handle("dev.templ", files["dev.templ"])
	// every text file far in the past: the runtime's 100 ms shortcut never applies
	txts, _ := filepath.Glob(filepath.Join(root, "templ_*.txt"))
	for i, f := range txts {
		t := time.Unix(950_000_000+int64(i)*10, 0)
		_ = os.Chtimes(f, t, t)
	}
	c.Set("dev_text_files_written_by_FSEventHandler", len(txts))
	return txt, versions
}

// privateRoot copies the text files into a directory of their own for one
// driver process (mtimes far in the past, strictly increasing).
func privateRoot(devRoot, name string) string {
	root := filepath.Join(devRoot, name)
	if err := os.MkdirAll(root, 0o755); err != nil {
		core.Infra("mkdir %s: %v", root, err)
	}
	txts, _ := filepath.Glob(filepath.Join(devRoot, "templ_*.txt"))
	for i, f := range txts {
		data, err := os.ReadFile(f)
		if err != nil {
			core.Infra("read %s: %v", f, err)
		}
		dst := filepath.Join(root, filepath.Base(f))
		if err := os.WriteFile(dst, data, 0o644); err != nil {
			core.Infra("write %s: %v", dst, err)
		}
		t := time.Unix(950_000_000+int64(i)*10, 0)
		_ = os.Chtimes(dst, t, t)
	}
	return root
}

func Run(c *core.Ctx) {
	c.Rule = "cases = concurrent phases: G goroutines × M renders over the shared template set (hand-written components with package-level once handles, css classes and script values + seeded random Interp trees), " +
		"odd goroutines render into faulting writers (hard/short/zero at a random offset, failing expression), every 4th goroutine's writer yields per Write; DefaultBufferSize 8/16/64; with and without the H2 hook installed; " +
		"every goroutine also renders groups of 2-4 components into its own bufio.Writer (size 16 / default / 8192) with one Flush at the end, and starts each phase with the first ever use of package-level zero-value once handles (all goroutines together); " +
		"CSS middleware: rounds of G simultaneous requests (own request contexts) through one fresh NewCSSMiddleware with registered classes, held by a barrier behind the middleware, pages with registered / unregistered css classes and scripts; " +
		"handler phase: G goroutines × M requests through templ.Handler (buffered, streamed; WithStatus / WithContentType / WithErrorHandler; recorders whose Write yields or naps) and templ.ToGoHTML, a third failing at a failable site; " +
		"development mode: same, text files from the real FSEventHandler, plus a goroutine replacing dev.templ's text file (4 rewrites per phase). " +
		"non-trivial = phases in which the pool hook saw a buffer released by one goroutine and handed to another, and dev-mode renders that contain bytes of two text-file versions."
	c.Assume("the Go race detector reports only races it observes in these executions (no false positives, many false negatives)")
	c.Assume("sequential references are rendered in the same driver process before each concurrent phase")
	c.Assume("dev-mode rewrites are atomic (rename) with strictly increasing mtimes far in the past")
	b := rcorpus.Build(c, "c14", true)
	defer b.Pkg.Close()
	scratch := corpus.Scratch("c14run")
	devRoot := corpus.Scratch("c14dev")

	var procs []proc
	if c.ReplayFile != "" {
		var cs Case
		c.LoadReplay(&cs)
		p := proc{name: "replay", dev: cs.DevMode, jobs: cs.Jobs}
		if cs.DevMode {
			txt, versions := devSetup(c, b, devRoot)
			for i := range p.jobs {
				if p.jobs[i].Rewrite != nil {
					p.jobs[i].Rewrite.Path, p.jobs[i].Rewrite.Versions = txt, versions
				}
			}
			root := privateRoot(devRoot, "replay")
			for i := range p.jobs {
				if p.jobs[i].Rewrite != nil {
					p.jobs[i].Rewrite.Path = filepath.Join(root, filepath.Base(txt))
				}
			}
			p.env = []string{"TEMPL_DEV_MODE=true", "TEMPL_DEV_MODE_ROOT=" + root}
		}
		procs = []proc{p}
	} else {
		comps := mixComps(c)
		seeds := c.Rand("conc")
		scale := c.Pick(2, 40)
		type shape struct{ g, m, buf int }
		shapes := []shape{{4, 5000 * scale, 8}, {16, 2000 * scale, 64}, {64, 600 * scale, 16}}
		for _, s := range shapes {
			for _, hook := range []bool{true, false} {
				name := fmt.Sprintf("g%d-hook%v", s.g, hook)
				jobs := []rcorpus.Job{{Op: "config", BufSize: s.buf, Gid: true}}
				// 4 (thorough: 8) phases per process, alternating: all writers well-behaved / half of the goroutines faulting
				nph := c.Pick(4, 8)
				for ph := 0; ph < nph; ph++ {
					jobs = append(jobs, rcorpus.Job{Op: "conc", Tag: fmt.Sprintf("%s/ph%d", name, ph), G: s.g, M: s.m / nph, Seed: seeds.Int63n(1 << 40),
						Comps: comps, Hook: hook, Gid: true, Gosched: true, Fault: ph%2 == 1,
						Bufio: true, OnceFresh: 6, OnceComp: &rcorpus.Comp{Key: "OnceZero", Name: "OnceZero"}})
				}
				procs = append(procs, proc{name: name, jobs: jobs})
			}
		}
		// handler phase: templ.Handler (buffered / streamed) and templ.ToGoHTML, i.e. the
		// templ package's own bytes.Buffer pool, with a third of the requests failing
		for _, s := range []shape{{16, 1200 * scale, 64}, {64, 300 * scale, 4096}} {
			name := fmt.Sprintf("handler-g%d", s.g)
			jobs := []rcorpus.Job{{Op: "config", BufSize: s.buf, Gid: true}}
			for ph := 0; ph < 2; ph++ {
				jobs = append(jobs, rcorpus.Job{Op: "hconc", Tag: fmt.Sprintf("%s/ph%d", name, ph), G: s.g, M: s.m / 2, Seed: seeds.Int63n(1 << 40),
					Comps: comps, Hook: ph == 0, Gid: true})
			}
			procs = append(procs, proc{name: name, jobs: jobs})
		}
		// CSS middleware: rounds of G simultaneous requests through one fresh CSSMiddleware
		var pages []rcorpus.Comp
		for _, cp := range comps {
			switch cp.Name {
			case "ClassAttr", "Page", "Layout", "OnClick", "ScriptCall", "Oncey", "OnceZero", "Text", "UseWrap", "NonceScripts":
				pages = append(pages, cp)
			}
		}
		for _, s := range []shape{{8, 100 * scale, 64}, {32, 25 * scale, 16}} {
			name := fmt.Sprintf("mw-g%d", s.g)
			procs = append(procs, proc{name: name, jobs: []rcorpus.Job{{Op: "config", BufSize: s.buf, Gid: true},
				{Op: "mwconc", Tag: name + "/ph0", G: s.g, M: s.m, Seed: seeds.Int63n(1 << 40), Comps: pages}}})
		}
		// development mode
		txt, versions := devSetup(c, b, devRoot)
		var devComps []rcorpus.Comp
		var devKeys []string
		for _, cp := range comps {
			switch {
			case cp.Dev:
				devKeys = append(devKeys, cp.Key)
				for i := 0; i < 6; i++ { // dev components are drawn more often
					devComps = append(devComps, cp)
				}
			case cp.Tree == nil && len(devComps) < 40:
				devComps = append(devComps, cp)
			}
		}
		for _, g := range []int{4, 16} {
			name := fmt.Sprintf("dev-g%d", g)
			root := privateRoot(devRoot, name) // the processes must not see each other's rewrites
			m := 1200 * scale / g * 4
			jobs := []rcorpus.Job{{Op: "config", BufSize: 64, Gid: true},
				{Op: "conc", Tag: name + "/steady", G: g, M: m, Seed: seeds.Int63n(1 << 40), Comps: devComps, Hook: g == 4, Gid: true, Gosched: true, Fault: true},
				{Op: "conc", Tag: name + "/rewrite", G: g, M: m, Seed: seeds.Int63n(1 << 40), Comps: devComps, Hook: g == 4, Gid: true, Gosched: true,
					Rewrite: &rcorpus.Rewrite{Path: filepath.Join(root, filepath.Base(txt)), Versions: versions, Dev: devKeys}}}
			procs = append(procs, proc{name: name, dev: true, env: []string{"TEMPL_DEV_MODE=true", "TEMPL_DEV_MODE_ROOT=" + root}, jobs: jobs})
		}
	}

	results := make([]*procResult, len(procs))
	sem := make(chan struct{}, 6) // 6 race-instrumented processes at a time on 16 cores
	var wg sync.WaitGroup
	for i := range procs {
		wg.Add(1)
		go func(i int) {
			defer wg.Done()
			sem <- struct{}{}
			defer func() { <-sem }()
			results[i] = runProc(c, b, scratch, procs[i])
		}(i)
	}
	wg.Wait()

	sigs := map[string]bool{}
	var viols []Case
	var hookPhases, movedPhases int
	for _, r := range results {
		c.Add("renders", int(r.renders))
		c.Add("bufio_writer_groups_several_renders_one_flush", int(r.bufioGroups))
		c.Add("bufio_writer_group_renders", int(r.bufioGroupRenders))
		c.Add("first_ever_concurrent_uses_of_zero_value_once_handles", int(r.onceFirstUses))
		c.Add("css_middleware_requests", int(r.mwRequests))
		c.Add("css_middleware_rounds_with_fresh_middleware", int(r.mwRounds))
		c.Add("handler_requests", int(r.hReq))
		c.Add("handler_requests_failing_at_a_site", int(r.hFail))
		c.Add("handler_requests_streamed", int(r.hStream))
		c.Add("handler_phase_ToGoHTML_calls", int(r.hGoHTML))
		c.Add("handler_overlapping_request_pairs", int(r.hOverlap))
		c.Add("renders_into_well_behaved_writers_equal_to_reference", int(r.okRenders))
		c.Add("renders_with_injected_fault", int(r.faulted))
		c.Add("race_report_blocks", r.raceBlocks)
		c.Add("distinct_race_reports", len(r.races))
		c.Add("dev_mode_text_file_rewrites_during_phases", r.rewrites)
		c.Add("dev_mode_renders_during_rewrites", int(r.devRenders))
		c.Add("dev_mode_renders_mixing_two_versions", int(r.mixed))
		c.NontrivialN(int(r.mixed))
		for _, p := range r.pools {
			hookPhases++
			c.Add("pool_hook_gets", int(p.Gets))
			c.Add("pool_hook_buffers_never_released_not_judged", int(p.Gets-p.Puts))
			c.Add("pool_hook_recycled_gets", int(p.Recycled))
			c.Add("pool_hook_gets_of_a_buffer_released_by_another_goroutine", int(p.Moved))
			c.Add("pool_hook_distinct_buffers", p.Distinct)
			if p.Moved > 0 {
				movedPhases++
				c.NontrivialStr(r.name, p.First)
			}
			sigs[p.First] = true
		}
		for _, s := range r.inconclusive {
			c.Inconclusive(s)
		}
		for _, s := range r.samples {
			c.Sample(s)
		}
		viols = append(viols, r.viols...)
	}
	c.Set("driver_processes", len(procs))
	c.Set("goroutine_counts", []int{4, 16, 64})
	c.Set("phases_with_pool_hook", hookPhases)
	c.Set("phases_where_buffers_moved_between_goroutines", movedPhases)
	c.Set("distinct_interleaving_signatures_first_64_pool_events", len(sigs))
	if c.ReplayFile == "" && (hookPhases == 0 || movedPhases == 0) {
		c.Inconclusive("hook H2 never saw a buffer move between goroutines: pool sharing was not exercised")
	}
	if c.ReplayFile == "" && (c.Get("handler_requests_failing_at_a_site") == 0 || c.Get("handler_overlapping_request_pairs") == 0) {
		c.Inconclusive("handler phase: no failing request or no overlapping requests were observed")
	}
	if c.ReplayFile == "" && (c.Get("bufio_writer_groups_several_renders_one_flush") == 0 || c.Get("css_middleware_requests") == 0 || c.Get("first_ever_concurrent_uses_of_zero_value_once_handles") == 0) {
		c.Inconclusive("bufio groups, CSS middleware rounds or first uses of zero-value once handles were not exercised")
	}
	if c.ReplayFile == "" && c.Get("dev_mode_text_file_rewrites_during_phases") == 0 {
		c.Inconclusive("no text file was rewritten while renders were running")
	}
	// one canonical witness per rule: the smallest process that showed it
	groups := map[string][]Case{}
	for _, v := range viols {
		groups[v.Rule] = append(groups[v.Rule], v)
	}
	for _, rule := range rcorpus.SortedKeys(groups) {
		vs := groups[rule]
		size := func(cs Case) int { // normal mode before dev mode, few goroutines first
			n := 0
			for _, j := range cs.Jobs {
				if j.G > n {
					n = j.G
				}
			}
			if cs.DevMode {
				n += 1000
			}
			return n
		}
		sort.SliceStable(vs, func(i, j int) bool { return size(vs[i]) < size(vs[j]) })
		w := vs[0]
		key := w.Rule
		if !strings.HasPrefix(rule, "race ") {
			key = w.Rule + " in " + w.Name
		}
		c.Violate(key, fmt.Sprintf("[%s] process %s: %s (%d observations)", w.Rule, w.Name, w.Detail, len(vs)), w)
	}
}
