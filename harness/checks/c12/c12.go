// Package c12 checks property C12: scripts, CSS classes and once-blocks are
// emitted once per context, before use.
//
// Engine: corpus. One compiled "use interpreter" (tmpl.go) renders use
// histories given as data, in one or several contexts rendered alternately,
// or through templ.CSSMiddleware + templ.Handler. All verdicts are computed
// here, offline, from the rendered bytes (HTML5 token stream).
package c12

import (
	"bytes"
	"encoding/base64"
	"encoding/json"
	"fmt"
	"math/rand"
	"os"
	"os/exec"
	"path/filepath"
	"regexp"
	"sort"
	"strings"
	"sync"
	"time"

	"verif/core"
	"verif/corpus"
	"verif/oracle/html5"
)

// ---------------------------------------------------------------- data

type Ent struct {
	F string `json:"f"`
	I int    `json:"i"`
	V bool   `json:"v"`
}

type Op struct {
	ID  string `json:"id"`
	K   string `json:"k"`
	I   int    `json:"i"`
	J   int    `json:"j"`
	A   string `json:"a"`
	B   string `json:"b"`
	V   bool   `json:"v"`
	W   bool   `json:"w"`
	E   []Ent  `json:"e"`
	Sub []Op   `json:"sub"`
}

type Ctx struct {
	Nonce  string `json:"nonce"`
	Chunks [][]Op `json:"chunks"`
}

// Case is one job: contexts with their histories (in chunks), the order in
// which chunks of the contexts are rendered, and the mode.
type Case struct {
	ID     int    `json:"id"`
	Mode   string `json:"mode"` // direct | http
	Ctxs   []Ctx  `json:"ctxs"`
	Order  []int  `json:"order"`
	Pre    []int  `json:"pre"`
	Stream bool   `json:"stream"`
	Ctor   string `json:"ctor"` // new | handler | literal
	Mut    string `json:"mut"`  // none | append | replace | truncate
	Pre2   []int  `json:"pre2"`
	Path   string `json:"path"`
}

// finalClasses: the exported Classes list of the middleware when it serves
// (what the program registered), by the harness's own bookkeeping.
func finalClasses(cs Case) []int {
	switch cs.Mut {
	case "append":
		return append(append([]int{}, cs.Pre...), cs.Pre2...)
	case "replace":
		return append([]int{}, cs.Pre2...)
	case "truncate":
		return append([]int{}, cs.Pre[:len(cs.Pre)/2]...)
	}
	return cs.Pre
}

type result struct {
	ID      int      `json:"id"`
	Outs    []string `json:"outs"`
	Errs    []string `json:"errs"`
	CSS     string   `json:"css"`
	CSSType string   `json:"csstype"`
}

type hello struct {
	Scripts []string `json:"scripts"`
	Classes []string `json:"classes"`
	Rules   []string `json:"rules"`
}

const nScripts, nClasses = 3, 5

func hasSub(k string) bool {
	switch k {
	case "once", "box", "comp", "nsc", "wv", "wc":
		return true
	}
	return false
}

const nHandles = 8

var handleKinds = []string{"NewOnceHandle", "NewOnceHandle", "zero_value_literal", "zero_value_literal", "variable", "variable", "struct_field", "struct_field"}

func bs(b bool) string {
	if b {
		return "T"
	}
	return "F"
}

// opText is the canonical text of an op list.
func opText(ops []Op) string {
	var parts []string
	for _, o := range ops {
		var s string
		switch o.K {
		case "sc", "on", "hx", "onst", "onscr", "onimg", "oninp":
			s = fmt.Sprintf("%s(s%d,%s)", o.K, o.I, o.A)
		case "on2":
			s = fmt.Sprintf("on2(s%d,%s,s%d,%s)", o.I, o.A, o.J, o.B)
		case "onc":
			s = fmt.Sprintf("onc(s%d,%s,%s)", o.I, o.A, bs(o.V))
		case "onel", "hxel":
			s = fmt.Sprintf("%s(%s?s%d,%s:s%d,%s)", o.K, bs(o.V), o.I, o.A, o.J, o.B)
		case "onnest":
			s = fmt.Sprintf("onnest(%s&%s?s%d,%s:s%d,%s)", bs(o.V), bs(o.W), o.I, o.A, o.J, o.B)
		case "ccel":
			s = fmt.Sprintf("ccel(%s?c%d:c%d)", bs(o.V), o.I, o.J)
		case "cd", "cfn", "cimg", "cinp":
			s = fmt.Sprintf("%s(c%d)", o.K, o.I)
		case "cc", "csl", "cn", "cma":
			s = fmt.Sprintf("%s(c%d,c%d)", o.K, o.I, o.J)
		case "ckv", "ckvc", "ccond":
			s = fmt.Sprintf("%s(c%d,%s)", o.K, o.I, bs(o.V))
		case "ckvs":
			s = fmt.Sprintf("ckvs(c%d,%s,c%d,%s)", o.I, bs(o.V), o.J, bs(o.W))
		case "cmix":
			s = fmt.Sprintf("cmix(c%d,ks=%s,c%d,%s)", o.I, bs(o.V), o.J, bs(o.W))
		case "cdyn":
			var es []string
			for _, e := range o.E {
				es = append(es, fmt.Sprintf("%s:%d:%s", e.F, e.I, bs(e.V)))
			}
			s = "cdyn(" + strings.Join(es, ",") + ")"
		case "once":
			s = fmt.Sprintf("once(h%d){%s}", o.I, opText(o.Sub))
		case "oncec":
			s = "oncec"
		case "box", "comp", "nsc", "wv", "wc":
			s = o.K + "{" + opText(o.Sub) + "}"
		default:
			s = "?" + o.K
		}
		parts = append(parts, s)
	}
	return strings.Join(parts, " ")
}

func caseText(cs Case) string {
	var sb strings.Builder
	if cs.Mode == "http" {
		fmt.Fprintf(&sb, "http[pre=%v stream=%s", cs.Pre, bs(cs.Stream))
		if cs.Ctor != "new" {
			fmt.Fprintf(&sb, " ctor=%s", cs.Ctor)
		}
		if cs.Path != "" {
			fmt.Fprintf(&sb, " path=%s", cs.Path)
		}
		if cs.Mut != "none" {
			fmt.Fprintf(&sb, " %s=%v", cs.Mut, cs.Pre2)
		}
		sb.WriteString("] ")
	}
	for i, c := range cs.Ctxs {
		if i > 0 {
			sb.WriteString(" || ")
		}
		if c.Nonce != "" {
			sb.WriteString("nonce ")
		}
		for j, ch := range c.Chunks {
			if j > 0 {
				sb.WriteString(" | ")
			}
			sb.WriteString(opText(ch))
		}
	}
	if len(cs.Ctxs) > 1 {
		fmt.Fprintf(&sb, " order=%v", cs.Order)
	}
	return sb.String()
}

func cloneOps(ops []Op) []Op {
	if ops == nil {
		return nil
	}
	out := make([]Op, len(ops))
	for i, o := range ops {
		out[i] = o
		out[i].E = append([]Ent(nil), o.E...)
		out[i].Sub = cloneOps(o.Sub)
	}
	return out
}

func cloneCase(cs Case) Case {
	out := cs
	out.Ctxs = nil
	for _, c := range cs.Ctxs {
		nc := Ctx{Nonce: c.Nonce}
		for _, ch := range c.Chunks {
			nc.Chunks = append(nc.Chunks, cloneOps(ch))
		}
		out.Ctxs = append(out.Ctxs, nc)
	}
	out.Order = append([]int(nil), cs.Order...)
	out.Pre = append([]int(nil), cs.Pre...)
	out.Pre2 = append([]int(nil), cs.Pre2...)
	return out
}

// normalize assigns op ids (preorder within a context), reduces indices and
// makes the render order canonical.
func normalize(cs Case) Case {
	cs = cloneCase(cs)
	for ci := range cs.Ctxs {
		n := 0
		var walk func(ops []Op)
		walk = func(ops []Op) {
			for i := range ops {
				ops[i].ID = fmt.Sprint(n)
				n++
				ops[i].I %= 8
				ops[i].J %= 8
				if !usesI(ops[i].K) {
					ops[i].I = 0
				}
				if !usesJ(ops[i].K) {
					ops[i].J, ops[i].B = 0, ""
				}
				if !isScriptOp(ops[i].K) {
					ops[i].A, ops[i].B = "", ""
				}
				if !hasSub(ops[i].K) {
					ops[i].Sub = nil
				}
				if ops[i].K != "cdyn" {
					ops[i].E = nil
				}
				walk(ops[i].Sub)
			}
		}
		for j := range cs.Ctxs[ci].Chunks {
			walk(cs.Ctxs[ci].Chunks[j])
		}
	}
	if cs.Mode != "http" {
		cs.Mode = "direct"
		cs.Pre, cs.Stream = nil, false
		cs.Ctor, cs.Mut, cs.Pre2, cs.Path = "", "", nil, ""
	} else {
		if cs.Ctor != "handler" && cs.Ctor != "literal" {
			cs.Ctor = "new"
		}
		if cs.Ctor == "new" {
			cs.Path = ""
		}
		switch cs.Mut {
		case "append", "replace":
		case "truncate":
			cs.Pre2 = nil
		default:
			cs.Mut, cs.Pre2 = "none", nil
		}
	}
	// order: keep only as many occurrences of a context as it has chunks,
	// append what is missing
	left := make([]int, len(cs.Ctxs))
	for i, c := range cs.Ctxs {
		left[i] = len(c.Chunks)
	}
	var ord []int
	for _, ci := range cs.Order {
		if ci < len(left) && left[ci] > 0 {
			left[ci]--
			ord = append(ord, ci)
		}
	}
	for i := range left {
		for ; left[i] > 0; left[i]-- {
			ord = append(ord, i)
		}
	}
	cs.Order = ord
	return cs
}

// ---------------------------------------------------------------- oracle

// Viol is one rule violation found in a case; Tag names the rule (and item
// type), used to keep a reduction on the same failure.
type Viol struct {
	Tag string
	Msg string
	Ctx int      // context index the violation was seen in
	Ops []string // ids of the ops blamed (wrappers holding the use / definitions)
}

type names struct {
	scripts []string // function names of s0..s2
	classes []string // class ids of cls(0..4)
	rules   []string // rule text of cls(0..4)
}

var (
	reRule = regexp.MustCompile(`\.([A-Za-z0-9_\-]+)\{`)
	reFunc = regexp.MustCompile(`function ([A-Za-z0-9_$]+)\(`)
	reCall = regexp.MustCompile(`^([A-Za-z0-9_$]+)\(`)
)

// fact: something an executed op must have rendered directly inside its
// wrapper ("every use still gets its call or class name").
type fact struct {
	kind string // class | attr | scriptcall | once
	a, b string
}

func (nm *names) call(i int, arg string) string {
	j, _ := json.Marshal(arg)
	return nm.scripts[i%nScripts] + "(" + string(j) + ")"
}

// facts of one op, given that it is executed; first tells whether a once op
// is the first use of its handle in the context.
func (nm *names) facts(o Op, first bool) []fact {
	cl := func(i int) fact { return fact{"class", nm.classes[i%nClasses], ""} }
	switch o.K {
	case "sc":
		return []fact{{"scriptcall", nm.call(o.I, o.A), ""}}
	case "on":
		return []fact{{"attr", "onclick", nm.call(o.I, o.A)}}
	case "hx":
		return []fact{{"attr", "hx-on::click", nm.call(o.I, o.A)}}
	case "onst", "onscr", "onimg":
		return []fact{{"attr", "onload", nm.call(o.I, o.A)}}
	case "oninp":
		return []fact{{"attr", "onchange", nm.call(o.I, o.A)}}
	case "cimg", "cinp":
		return []fact{cl(o.I)}
	case "on2":
		return []fact{{"attr", "onclick", nm.call(o.I, o.A)}, {"attr", "onmouseover", nm.call(o.J, o.B)}}
	case "onc":
		if o.V {
			return []fact{{"attr", "onclick", nm.call(o.I, o.A)}}
		}
	case "onel":
		if o.V {
			return []fact{{"attr", "onclick", nm.call(o.I, o.A)}}
		}
		return []fact{{"attr", "onclick", nm.call(o.J, o.B)}}
	case "hxel":
		if o.V {
			return []fact{{"attr", "hx-on::click", nm.call(o.I, o.A)}}
		}
		return []fact{{"attr", "hx-on::click", nm.call(o.J, o.B)}}
	case "onnest":
		if o.V && o.W {
			return []fact{{"attr", "onclick", nm.call(o.I, o.A)}}
		}
		if o.V {
			return []fact{{"attr", "onmouseover", nm.call(o.J, o.B)}}
		}
	case "ccel":
		if o.V {
			return []fact{cl(o.I)}
		}
		return []fact{cl(o.J)}
	case "cd", "cfn":
		return []fact{cl(o.I)}
	case "cc", "csl", "cn", "cma":
		return []fact{cl(o.I), cl(o.J)}
	case "ckv", "ckvc", "ccond":
		if o.V {
			return []fact{cl(o.I)}
		}
	case "ckvs":
		var fs []fact
		if o.V {
			fs = append(fs, cl(o.I))
		}
		if o.W {
			fs = append(fs, cl(o.J))
		}
		return fs
	case "cmix":
		fs := []fact{cl(o.I)}
		if o.W {
			fs = append(fs, cl(o.J))
		}
		return fs
	case "cdyn":
		var fs []fact
		for _, e := range o.E {
			switch e.F {
			case "d", "sl", "n", "fn":
				fs = append(fs, cl(e.I))
			case "kv", "kvc", "kvs":
				if e.V {
					fs = append(fs, cl(e.I))
				}
			}
		}
		return fs
	case "once":
		if first {
			return []fact{{"once", fmt.Sprintf("h%d", o.I%nHandles), ""}}
		}
	case "oncec":
		if first {
			return []fact{{"once", "c", ""}, cl(2), {"attr", "onclick", nm.call(2, "f")}}
		}
	}
	return nil
}

// reference: which ops are executed, in document order (an op nested in the
// block of a once handle is executed only on the handle's first use).
type execOp struct {
	op    Op
	first bool
}

func reference(ops []Op) []execOp {
	done := map[string]bool{}
	var out []execOp
	var walk func(ops []Op)
	walk = func(ops []Op) {
		for _, o := range ops {
			switch o.K {
			case "once", "oncec":
				h := "c"
				if o.K == "once" {
					h = fmt.Sprintf("h%d", o.I%nHandles)
				}
				first := !done[h]
				done[h] = true
				out = append(out, execOp{o, first})
				if first && o.K == "once" {
					walk(o.Sub)
				}
			default:
				out = append(out, execOp{o, true})
				if hasSub(o.K) {
					walk(o.Sub)
				}
			}
		}
	}
	walk(ops)
	return out
}

// checkStream applies the history rules to one context's output.
//
//	R1 every script function / css rule / once content is defined at most once;
//	R2 every use (class name of a css component in a class attribute, call of a
//	   script function in an on* attribute or call script) is preceded in
//	   document order by the item's definition - unless the class is
//	   pre-registered with the middleware (then R5: never inlined);
//	R3 the ops executed are exactly those of the reference, and each rendered
//	   its call / class name / once content inside its own wrapper.
//
// scopeStats: script elements seen inside a templ.WithNonce scope, and how
// many of them carry the scope's nonce (counted only, during the main run).
var scopeStats struct {
	on                  bool
	scripts, withNonce  int
	scopesSeen, derived int
}

func checkStream(nm *names, out []byte, ops []Op, pre map[string]bool) []Viol {
	var vs []Viol
	kindOf := map[string]string{}
	var kw func(ops []Op)
	kw = func(ops []Op) {
		for _, o := range ops {
			kindOf[o.ID] = o.K
			kw(o.Sub)
		}
	}
	kw(ops)
	var blame []string
	add := func(tag, f string, a ...any) {
		vs = append(vs, Viol{Tag: tag, Msg: fmt.Sprintf(f, a...), Ops: blame})
		blame = nil
	}
	toks, err := html5.Tokenize(out)
	if err != nil {
		add("tokenizer", "tokenizer error %v", err)
	}
	isScript := map[string]bool{}
	for _, s := range nm.scripts {
		isScript[s] = true
	}
	isClass := map[string]bool{}
	for _, s := range nm.classes {
		isClass[s] = true
	}
	defAt := map[string]int{} // item -> index of first definition
	defN := map[string]int{}
	defOps := map[string][]string{} // item -> wrappers holding its definitions
	type use struct {
		item string
		at   int
		op   string
	}
	var uses []use
	got := map[string][]fact{} // op id -> what was rendered directly inside
	var order []string         // op ids in document order
	var stack []string         // open wrappers ("" for other divs)
	top := func() string {
		for i := len(stack) - 1; i >= 0; i-- {
			if stack[i] != "" {
				return stack[i]
			}
		}
		return ""
	}
	for i, t := range toks {
		switch t.Kind {
		case "start", "selfclose":
			attr := map[string]string{}
			for _, a := range t.Attrs {
				attr[a.Key] = a.Val
			}
			if t.Name == "div" && t.Kind == "start" {
				id, ok := attr["data-op"]
				if !ok {
					id = ""
				} else {
					order = append(order, id)
					if scopeStats.on {
						switch kindOf[id] {
						case "nsc":
							scopeStats.scopesSeen++
						case "wv", "wc":
							scopeStats.derived++
						}
					}
				}
				stack = append(stack, id)
			}
			if h, ok := attr["data-once"]; ok {
				defN["once "+h]++
				defOps["once "+h] = append(defOps["once "+h], top())
				got[top()] = append(got[top()], fact{"once", h, ""})
			}
			if bk, ok := attr["data-badkind"]; ok {
				add("harness", "interpreter does not know op kind %q", bk)
			}
			for _, a := range t.Attrs {
				if a.Key == "class" {
					for _, c := range strings.Fields(a.Val) {
						got[top()] = append(got[top()], fact{"class", c, ""})
						if isClass[c] {
							uses = append(uses, use{"class " + c, i, top()})
						}
					}
				}
				if strings.HasPrefix(a.Key, "on") || strings.HasPrefix(a.Key, "hx-on") {
					got[top()] = append(got[top()], fact{"attr", a.Key, a.Val})
					if m := reCall.FindStringSubmatch(a.Val); m != nil && isScript[m[1]] {
						uses = append(uses, use{"script " + m[1], i, top()})
					}
				}
			}
			if _, static := attr["src"]; scopeStats.on && t.Name == "script" && !static { // scripts emitted by templ
				for _, id := range stack {
					if kindOf[id] == "nsc" {
						scopeStats.scripts++
						if attr["nonce"] == "sc0pe" {
							scopeStats.withNonce++
						}
						break
					}
				}
			}
			if (t.Name == "style" || t.Name == "script") && i+1 < len(toks) && toks[i+1].Kind == "text" {
				body := toks[i+1].Data
				if t.Name == "style" {
					for _, m := range reRule.FindAllStringSubmatch(body, -1) {
						it := "class " + m[1]
						if _, ok := defAt[it]; !ok {
							defAt[it] = i
						}
						defN[it]++
						defOps[it] = append(defOps[it], top())
						if pre[m[1]] {
							blame = []string{top()}
							add("mw-inlined", "class %s is served by the middleware's stylesheet endpoint but its rule was also inlined", m[1])
						}
					}
				} else {
					fns := reFunc.FindAllStringSubmatch(body, -1)
					for _, m := range fns {
						it := "script " + m[1]
						if _, ok := defAt[it]; !ok {
							defAt[it] = i
						}
						defN[it]++
						defOps[it] = append(defOps[it], top())
					}
					if len(fns) == 0 {
						got[top()] = append(got[top()], fact{"scriptcall", body, ""})
						if m := reCall.FindStringSubmatch(body); m != nil && isScript[m[1]] {
							uses = append(uses, use{"script " + m[1], i, top()})
						}
					}
				}
			}
		case "end":
			if t.Name == "div" && len(stack) > 0 {
				stack = stack[:len(stack)-1]
			}
		}
	}
	// R1
	var items []string
	for it := range defN {
		items = append(items, it)
	}
	sort.Strings(items)
	for _, it := range items {
		if defN[it] > 1 {
			blame = defOps[it]
			add("dup-def:"+strings.Fields(it)[0], "%s is defined %d times in one context", it, defN[it])
		}
	}
	// R2
	reported := map[string]bool{}
	for _, u := range uses {
		if reported[u.item] {
			continue
		}
		typ := strings.Fields(u.item)[0]
		if typ == "class" && pre[strings.Fields(u.item)[1]] {
			continue
		}
		d, ok := defAt[u.item]
		if !ok {
			reported[u.item] = true
			blame = []string{u.op}
			add("use-not-preceded-by-def:"+typ, "%s is used (token %d: %s) but its definition is never emitted", u.item, u.at, toks[u.at])
		} else if d >= u.at {
			reported[u.item] = true
			blame = append([]string{u.op}, defOps[u.item]...)
			add("use-not-preceded-by-def:"+typ, "%s is used at token %d (%s) but defined only at token %d", u.item, u.at, toks[u.at], d)
		}
	}
	// R3
	ref := reference(ops)
	var want []string
	for _, e := range ref {
		want = append(want, e.op.ID)
	}
	if strings.Join(want, ",") != strings.Join(order, ",") {
		for i := 0; i < len(want) || i < len(order); i++ {
			if i >= len(want) || i >= len(order) || want[i] != order[i] {
				if i < len(want) {
					blame = append(blame, want[i])
				}
				if i < len(order) {
					blame = append(blame, order[i])
				}
				break
			}
		}
		add("ops-mismatch", "ops rendered %v, the history executes %v", order, want)
	} else {
		for _, e := range ref {
			for _, f := range nm.facts(e.op, e.first) {
				found := false
				for _, g := range got[e.op.ID] {
					if g == f {
						found = true
						break
					}
				}
				if !found {
					blame = []string{e.op.ID}
					add("missing-use:"+f.kind, "op %s (%s) did not render its %s %s %s; rendered there: %v", e.op.ID, opText([]Op{e.op}), f.kind, f.a, f.b, got[e.op.ID])
				}
			}
		}
	}
	return vs
}

func flat(c Ctx) []Op {
	var ops []Op
	for _, ch := range c.Chunks {
		ops = append(ops, ch...)
	}
	return ops
}

func isolated(c Ctx) Case {
	cs := Case{Mode: "direct", Ctxs: []Ctx{c}}
	for range c.Chunks {
		cs.Order = append(cs.Order, 0)
	}
	return cs
}

// repeated: some item is used at least twice in one context (non-trivial).
func repeated(cs Case) bool {
	for _, c := range cs.Ctxs {
		n := map[string]int{}
		for _, e := range reference(flat(c)) {
			o := e.op
			switch o.K {
			case "cimg", "cinp":
				n[fmt.Sprint("c", o.I%nClasses)]++
			case "sc", "on", "hx", "onc", "onst", "onscr", "onimg", "oninp":
				n[fmt.Sprint("s", o.I%nScripts)]++
			case "on2", "onel", "hxel", "onnest":
				n[fmt.Sprint("s", o.I%nScripts)]++
				n[fmt.Sprint("s", o.J%nScripts)]++
			case "ccel":
				n[fmt.Sprint("c", o.I%nClasses)]++
				n[fmt.Sprint("c", o.J%nClasses)]++
			case "cd", "cfn", "ckv", "ckvc", "ccond":
				n[fmt.Sprint("c", o.I%nClasses)]++
			case "cc", "csl", "cn", "cma", "ckvs", "cmix":
				n[fmt.Sprint("c", o.I%nClasses)]++
				n[fmt.Sprint("c", o.J%nClasses)]++
			case "cdyn":
				for _, e := range o.E {
					n[fmt.Sprint("c", e.I%nClasses)]++
				}
			case "once":
				n[fmt.Sprint("h", o.I%nHandles)]++
			case "oncec":
				n["hc"]++
				n["c2"]++
				n["s2"]++
			}
		}
		for _, k := range n {
			if k > 1 {
				return true
			}
		}
	}
	return false
}

// ---------------------------------------------------------------- engine

type engine struct {
	c     *core.Ctx
	p     *corpus.Pkg
	bin   string
	nm    *names
	mu    sync.Mutex
	cache map[string]*result // case JSON (without id) -> result
}

func build(c *core.Ctx) *engine {
	p := corpus.New(c, "c12")
	p.Write("t.templ", templSrc)
	p.Write("main.go", helperSrc)
	if out, err := p.Generate(); err != nil {
		core.Infra("templ generate failed for the C12 interpreter: %v\n%s", err, corpus.Tail(out, 2000))
	}
	// no inlining in the scratch main package only (nested block closures make
	// the inliner explode); templ itself is compiled as usual.
	bin := filepath.Join(p.Dir, "driver.bin")
	cmd := exec.Command("go", "build", "-tags", "verif", "-gcflags=-l", "-o", bin, ".")
	cmd.Dir = p.Dir
	cmd.Env = corpus.Env()
	if out, err := cmd.CombinedOutput(); err != nil {
		core.Infra("go build failed for the C12 interpreter: %v\n%s", err, corpus.Tail(string(out), 3000))
	}
	return &engine{c: c, p: p, bin: bin, cache: map[string]*result{}}
}

func caseJSON(cs Case) string {
	cs.ID = 0
	b, _ := json.Marshal(cs)
	return string(b)
}

// run renders cases (normalized) that are not cached yet.
func (e *engine) run(cases []Case) {
	var todo []Case
	seen := map[string]bool{}
	for _, cs := range cases {
		k := caseJSON(cs)
		if _, ok := e.cache[k]; !ok && !seen[k] {
			seen[k] = true
			todo = append(todo, cs)
		}
	}
	if len(todo) == 0 && e.nm != nil {
		return
	}
	const workers = 12
	chunk := (len(todo) + workers - 1) / workers
	if chunk < 1 {
		chunk = 1
	}
	var wg sync.WaitGroup
	for s := 0; s == 0 || s < len(todo); s += chunk {
		t := s + chunk
		if t > len(todo) {
			t = len(todo)
		}
		wg.Add(1)
		go func(part []Case) {
			defer wg.Done()
			e.runPart(part)
		}(todo[s:t])
	}
	wg.Wait()
}

func (e *engine) runPart(part []Case) {
	var in bytes.Buffer
	enc := json.NewEncoder(&in)
	for i, cs := range part {
		cs.ID = i
		_ = enc.Encode(cs)
	}
	rr := corpus.Run(e.bin, nil, in.Bytes(), nil, e.p.Dir, 10*time.Minute)
	dec := json.NewDecoder(bytes.NewReader(rr.Stdout))
	var h hello
	if err := dec.Decode(&h); err != nil || len(h.Scripts) != nScripts || len(h.Classes) != nClasses {
		core.Infra("C12 driver did not announce its item names: %v %s", err, corpus.Tail(string(rr.Stderr), 500))
	}
	e.mu.Lock()
	if e.nm == nil {
		e.nm = &names{h.Scripts, h.Classes, h.Rules}
	}
	e.mu.Unlock()
	n := 0
	for {
		var r result
		if err := dec.Decode(&r); err != nil {
			break
		}
		n++
		rc := r
		e.mu.Lock()
		e.cache[caseJSON(part[r.ID])] = &rc
		e.mu.Unlock()
	}
	if n != len(part) {
		e.mu.Lock()
		for _, cs := range part {
			if _, ok := e.cache[caseJSON(cs)]; !ok {
				e.cache[caseJSON(cs)] = &result{Errs: []string{"DRIVER-DIED " + corpus.Tail(string(rr.Stderr), 300)}}
			}
		}
		e.mu.Unlock()
	}
}

func unb64(s string) []byte { b, _ := base64.StdEncoding.DecodeString(s); return b }

// evaluate renders the cases (plus the isolated runs of the contexts of
// multi-context cases) and returns every rule violation per case.
func (e *engine) evaluate(cases []Case) [][]Viol {
	all := make([]Case, 0, len(cases))
	for _, cs := range cases {
		all = append(all, cs)
		if cs.Mode == "direct" && len(cs.Ctxs) > 1 {
			for _, c := range cs.Ctxs {
				all = append(all, normalize(isolated(c)))
			}
		}
	}
	e.run(all)
	out := make([][]Viol, len(cases))
	for i, cs := range cases {
		out[i] = e.judge(cs)
	}
	return out
}

func (e *engine) judge(cs Case) []Viol {
	r := e.cache[caseJSON(cs)]
	var vs []Viol
	for _, er := range r.Errs {
		if er != "" {
			vs = append(vs, Viol{Tag: "render-error", Msg: "render failed: " + er})
		}
	}
	if len(vs) > 0 {
		return vs
	}
	if cs.Mode == "http" {
		if len(r.Outs) != 2 {
			return []Viol{{Tag: "harness", Msg: "http job returned no bodies"}}
		}
		// "registered" is decided by asking the real stylesheet endpoint of the
		// same middleware: a class it serves must never be inlined, every other
		// class used on the page must be inlined (once, before its first use).
		css := string(unb64(r.CSS))
		served := map[string]bool{}
		for _, m := range reRule.FindAllStringSubmatch(css, -1) {
			served[m[1]] = true
		}
		body := unb64(r.Outs[0])
		if !bytes.Equal(body, unb64(r.Outs[1])) {
			vs = append(vs, Viol{Tag: "mw-requests-differ", Msg: fmt.Sprintf("two requests through the same middleware rendered differently: %q vs %q", body, unb64(r.Outs[1]))})
		}
		vs = append(vs, checkStream(e.nm, body, flat(cs.Ctxs[0]), served)...)
		// R5: what the program registered (exported Classes when serving) is
		// served by the stylesheet endpoint
		final := finalClasses(cs)
		for _, p := range final {
			if !strings.Contains(css, e.nm.rules[p%nClasses]) {
				vs = append(vs, Viol{Tag: "mw-not-served", Msg: fmt.Sprintf("registered class %s is not served by the stylesheet endpoint (body %q)", e.nm.classes[p%nClasses], css)})
				break
			}
		}
		if len(final) > 0 && !strings.HasPrefix(r.CSSType, "text/css") {
			vs = append(vs, Viol{Tag: "mw-not-served", Msg: fmt.Sprintf("stylesheet endpoint content type %q", r.CSSType)})
		}
		return vs
	}
	if len(r.Outs) != len(cs.Ctxs) {
		return []Viol{{Tag: "harness", Msg: "driver returned a wrong number of outputs"}}
	}
	for i, c := range cs.Ctxs {
		out := unb64(r.Outs[i])
		for _, v := range checkStream(e.nm, out, flat(c), nil) {
			v.Msg = fmt.Sprintf("context %d: %s", i, v.Msg)
			v.Ctx = i
			vs = append(vs, v)
		}
		// R4: contexts are independent: same bytes as the same history alone
		if len(cs.Ctxs) > 1 {
			iso := e.cache[caseJSON(normalize(isolated(c)))]
			if iso != nil && len(iso.Outs) == 1 && !bytes.Equal(unb64(iso.Outs[0]), out) {
				vs = append(vs, Viol{Tag: "isolation", Msg: fmt.Sprintf("context %d rendered %q next to other contexts but %q alone", i, out, unb64(iso.Outs[0]))})
			}
		}
	}
	return vs
}

// ---------------------------------------------------------------- generators

var classForms = []string{"cd", "cc", "ckv", "ckvc", "csl", "cn", "cfn", "ckvs", "cmix", "cma", "ccond", "ccel", "cdyn", "cimg", "cinp"}
var dynForms = []string{"d", "kv", "kvc", "sl", "n", "fn", "kvs", "s", "m", "ks"}

// atoms: the op instances used for exhaustive enumeration.
func atoms() []Op {
	var as []Op
	as = append(as,
		Op{K: "sc", I: 0, A: "a"}, Op{K: "sc", I: 1, A: "b"},
		Op{K: "on", I: 0, A: "a"}, Op{K: "on", I: 1, A: "b"},
		Op{K: "on2", I: 0, A: "a", J: 0, B: "b"}, Op{K: "on2", I: 0, A: "a", J: 1, B: "b"},
		Op{K: "onc", I: 0, A: "a", V: true}, Op{K: "onc", I: 0, A: "a", V: false},
		Op{K: "hx", I: 0, A: "a"},
		Op{K: "onel", I: 0, A: "a", J: 1, B: "b", V: true}, Op{K: "onel", I: 0, A: "a", J: 1, B: "b", V: false},
		Op{K: "hxel", I: 0, A: "a", J: 1, B: "b", V: false},
		Op{K: "onnest", I: 0, A: "a", J: 1, B: "b", V: true, W: true}, Op{K: "onnest", I: 0, A: "a", J: 1, B: "b", V: true, W: false},
		Op{K: "ccel", I: 0, J: 1, V: true}, Op{K: "ccel", I: 0, J: 1, V: false},
		Op{K: "cd", I: 0}, Op{K: "cd", I: 3}, Op{K: "cd", I: 4},
		Op{K: "cc", I: 0, J: 1}, Op{K: "cc", I: 0, J: 0},
		Op{K: "ckv", I: 0, V: true}, Op{K: "ckv", I: 0, V: false},
		Op{K: "ckvc", I: 0, V: true}, Op{K: "ckvc", I: 0, V: false},
		Op{K: "csl", I: 0, J: 1}, Op{K: "cn", I: 0, J: 1}, Op{K: "cfn", I: 0},
		Op{K: "ckvs", I: 0, V: true, J: 1, W: false}, Op{K: "ckvs", I: 1, V: false, J: 0, W: true},
		Op{K: "cmix", I: 0, V: true, J: 1, W: true}, Op{K: "cmix", I: 0, V: false, J: 1, W: false},
		Op{K: "cma", I: 0, J: 1},
		Op{K: "ccond", I: 0, V: true}, Op{K: "ccond", I: 0, V: false},
		Op{K: "onst", I: 0, A: "a"}, Op{K: "onscr", I: 0, A: "a"}, Op{K: "onimg", I: 0, A: "a"}, Op{K: "oninp", I: 0, A: "a"},
		Op{K: "cimg", I: 0}, Op{K: "cinp", I: 0},
		Op{K: "once", I: 0}, Op{K: "once", I: 1}, Op{K: "once", I: 2}, Op{K: "once", I: 3}, Op{K: "once", I: 4}, Op{K: "once", I: 5},
		Op{K: "once", I: 6}, Op{K: "once", I: 7}, Op{K: "oncec"},
		Op{K: "box"}, Op{K: "comp"}, Op{K: "nsc"}, Op{K: "wv"}, Op{K: "wc"},
	)
	for _, f := range dynForms {
		as = append(as, Op{K: "cdyn", E: []Ent{{F: f, I: 0, V: true}}})
	}
	return as
}

func randOp(r *rand.Rand, depth int, budget *int) Op {
	*budget--
	o := Op{I: r.Intn(3), J: r.Intn(3), A: string(rune('a' + r.Intn(3))), B: string(rune('a' + r.Intn(3))), V: r.Intn(3) > 0, W: r.Intn(3) > 0}
	switch p := r.Intn(20); {
	case p < 5:
		o.K = []string{"sc", "on", "on2", "onc", "hx", "onel", "onel", "onnest", "hxel", "onst", "onscr", "onimg", "oninp"}[r.Intn(13)]
		o.V, o.W = r.Intn(2) == 0, r.Intn(2) == 0
	case p < 13:
		o.K = classForms[r.Intn(len(classForms))]
		o.I, o.J = r.Intn(nClasses), r.Intn(nClasses)
		if o.K == "ccel" {
			o.V = r.Intn(2) == 0
		} else if o.I == o.J { // never the same class both enabled and disabled
			o.W = o.V || o.K == "cmix"
		}
		if o.K == "cdyn" {
			flag := map[int]bool{}
			for n := 1 + r.Intn(4); n > 0; n-- {
				e := Ent{F: dynForms[r.Intn(len(dynForms))], I: r.Intn(nClasses), V: r.Intn(2) == 0}
				switch e.F {
				case "d", "sl", "n", "fn":
					e.V = true
				}
				// the same class is never both enabled and disabled in one element
				if e.F != "s" && e.F != "m" && e.F != "ks" {
					if v, ok := flag[e.I]; ok {
						if e.F == "d" || e.F == "sl" || e.F == "n" || e.F == "fn" {
							if !v {
								continue
							}
						} else {
							e.V = v
						}
					}
					flag[e.I] = e.V
				}
				o.E = append(o.E, e)
			}
		}
	case p < 16:
		o.K = "once"
		o.I = r.Intn(nHandles)
	case p < 17:
		o.K = "oncec"
	case p < 18:
		o.K = "box"
	case p < 19:
		o.K = []string{"nsc", "nsc", "wv", "wc"}[r.Intn(4)]
	default:
		o.K = "comp"
	}
	if hasSub(o.K) && depth > 0 {
		for n := r.Intn(4); n > 0 && *budget > 0; n-- {
			o.Sub = append(o.Sub, randOp(r, depth-1, budget))
		}
	}
	return o
}

func randCtx(r *rand.Rand, maxOps int) Ctx {
	budget := 1 + r.Intn(maxOps)
	var ops []Op
	for budget > 0 {
		ops = append(ops, randOp(r, 3, &budget))
	}
	c := Ctx{}
	if r.Intn(4) == 0 {
		c.Nonce = "n0nce"
	}
	// split into 1..3 chunks
	for len(ops) > 0 {
		n := 1 + r.Intn(len(ops))
		if r.Intn(2) == 0 {
			n = len(ops)
		}
		c.Chunks = append(c.Chunks, ops[:n])
		ops = ops[n:]
	}
	return c
}

func randCase(r *rand.Rand) Case {
	switch p := r.Intn(8); {
	case p < 2: // middleware
		cs := Case{Mode: "http", Ctxs: []Ctx{randCtx(r, 30)}, Stream: r.Intn(2) == 0}
		for j := 0; j < nClasses; j++ {
			if r.Intn(3) == 0 {
				cs.Pre = append(cs.Pre, j)
			}
		}
		cs.Ctxs[0].Nonce = ""
		cs.Ctor = []string{"new", "new", "handler", "literal"}[r.Intn(4)]
		cs.Mut = []string{"none", "none", "append", "replace", "truncate"}[r.Intn(5)]
		for n := r.Intn(3); n > 0 && (cs.Mut == "append" || cs.Mut == "replace"); n-- {
			cs.Pre2 = append(cs.Pre2, r.Intn(nClasses))
		}
		if cs.Ctor != "new" && r.Intn(2) == 0 {
			cs.Path = "/x.css"
		}
		return cs
	case p < 4:
		return Case{Mode: "direct", Ctxs: []Ctx{randCtx(r, 30)}}
	default:
		cs := Case{Mode: "direct"}
		for n := 2 + r.Intn(2); n > 0; n-- {
			cs.Ctxs = append(cs.Ctxs, randCtx(r, 15))
		}
		for i, c := range cs.Ctxs {
			for range c.Chunks {
				cs.Order = append(cs.Order, i)
			}
		}
		r.Shuffle(len(cs.Order), func(a, b int) { cs.Order[a], cs.Order[b] = cs.Order[b], cs.Order[a] })
		return cs
	}
}

// ---------------------------------------------------------------- reduction

func size(cs Case) int {
	n := 2*len(cs.Pre) + 3*len(cs.Ctxs)
	for _, p := range cs.Pre {
		n += p
	}
	if cs.Mode == "http" {
		n += 5
	}
	if cs.Stream {
		n++
	}
	if cs.Ctor != "new" && cs.Ctor != "" {
		n++
	}
	if cs.Mut != "none" && cs.Mut != "" {
		n += 2
	}
	if cs.Path != "" {
		n++
	}
	n += 2 * len(cs.Pre2)
	for _, p := range cs.Pre2 {
		n += p
	}
	var walk func(ops []Op)
	walk = func(ops []Op) {
		for _, o := range ops {
			n += 10 + o.I + o.J + len(o.E)*3
			switch o.K {
			case "onc", "ckv", "ckvc", "ccond", "ckvs", "cmix", "onel", "hxel", "onnest", "ccel":
				if !o.V {
					n++
				}
			}
			switch o.K {
			case "ckvs", "cmix", "onnest":
				if !o.W {
					n++
				}
			}
			if o.A != "a" && o.A != "" {
				n++
			}
			if o.B != "a" && o.B != "" {
				n++
			}
			switch o.K {
			case "on2", "cc", "csl", "cn", "cma", "ckvs", "cmix", "cdyn", "onc", "ccond", "hx", "cfn", "ckv", "ckvc", "onst", "onscr", "onimg", "oninp", "cimg", "cinp", "nsc", "wv", "wc", "comp":
				n++ // these have a simpler sibling form
			case "onel", "onnest", "hxel", "ccel":
				n += 2
			}
			for _, e := range o.E {
				n += e.I
			}
			walk(o.Sub)
		}
	}
	for _, c := range cs.Ctxs {
		n += 2 * len(c.Chunks)
		if c.Nonce != "" {
			n++
		}
		for _, ch := range c.Chunks {
			walk(ch)
		}
	}
	return n
}

// opReductions: every one-step simplification of an op list.
func opReductions(ops []Op) [][]Op {
	var out [][]Op
	for i := range ops {
		with := func(repl ...Op) []Op {
			n := append([]Op{}, ops[:i]...)
			n = append(n, repl...)
			return append(n, ops[i+1:]...)
		}
		o := ops[i]
		out = append(out, with())
		if len(o.Sub) > 0 {
			out = append(out, with(o.Sub...))
		}
		mod := func(f func(o *Op)) {
			c := o
			c.E = append([]Ent(nil), o.E...)
			f(&c)
			out = append(out, with(c))
		}
		if o.I > 0 {
			mod(func(o *Op) { o.I = 0 })
		}
		if o.J > 0 {
			mod(func(o *Op) { o.J = 0 })
			mod(func(o *Op) { o.J = 1 })
		}
		if o.A != "a" && o.A != "" {
			mod(func(o *Op) { o.A = "a" })
		}
		if o.B != "a" && o.B != "" {
			mod(func(o *Op) { o.B = "a" })
		}
		switch o.K {
		case "onc", "ckv", "ckvc", "ccond", "ckvs", "cmix":
			if !o.V {
				mod(func(o *Op) { o.V = true })
			}
		}
		switch o.K {
		case "ckvs", "cmix":
			if !o.W {
				mod(func(o *Op) { o.W = true })
			}
			if !o.W && !o.V {
				mod(func(o *Op) { o.V, o.W = true, true })
			}
			if o.J != o.I {
				mod(func(o *Op) { o.J, o.W = o.I, o.V || o.K == "cmix" })
			}
		}
		if o.K == "cdyn" && len(o.E) == 1 {
			e := o.E[0]
			static := map[string]string{"d": "cd", "kv": "ckv", "kvc": "ckvc", "sl": "csl", "n": "cc", "fn": "cfn", "kvs": "ckvs"}
			if k, ok := static[e.F]; ok {
				mod(func(o *Op) { o.K, o.I, o.J, o.V, o.W, o.E = k, e.I, e.I, e.V, e.V, nil })
			}
		}
		switch o.K {
		case "onel", "hxel", "onnest", "ccel":
			if !o.V {
				mod(func(o *Op) { o.V = true })
			}
			if o.K == "onnest" && !o.W {
				mod(func(o *Op) { o.W = true })
			}
		}
		switch o.K {
		case "onnest", "hxel":
			mod(func(o *Op) { o.K = "onel" })
		case "onel":
			mod(func(o *Op) { o.K = "onc" })
		case "ccel":
			mod(func(o *Op) { o.K = "ccond" })
		}
		switch o.K {
		case "on2", "onc", "hx", "onst", "onscr", "onimg", "oninp":
			mod(func(o *Op) { o.K = "on" })
		case "cimg", "cinp":
			mod(func(o *Op) { o.K = "cd" })
		case "nsc", "wv", "wc", "comp":
			mod(func(o *Op) { o.K = "box" })
		case "cc", "csl", "cn", "cma", "ccond", "cfn", "cmix":
			mod(func(o *Op) { o.K = "cd" })
		case "ckv", "ckvc", "ckvs":
			if o.V {
				mod(func(o *Op) { o.K = "cd" })
			}
		case "cdyn":
			for k := range o.E {
				k := k
				if len(o.E) > 1 {
					mod(func(o *Op) { o.E = append(o.E[:k:k], o.E[k+1:]...) })
				}
				if o.E[k].I > 0 {
					mod(func(o *Op) { o.E[k].I = 0 })
				}
			}
		}
		for _, sub := range opReductions(o.Sub) {
			c := o
			c.Sub = sub
			out = append(out, with(c))
		}
	}
	return out
}

// valid: within one class expression a css component is never both enabled
// and disabled (see the assumption in Run).
func valid(cs Case) bool {
	ok := true
	var walk func(ops []Op)
	walk = func(ops []Op) {
		for _, o := range ops {
			switch o.K {
			case "ckvs":
				if o.I%nClasses == o.J%nClasses && o.V != o.W {
					ok = false
				}
			case "cmix":
				if o.I%nClasses == o.J%nClasses && !o.W {
					ok = false
				}
			case "cdyn":
				flag := map[int]bool{}
				for _, e := range o.E {
					v := e.V
					switch e.F {
					case "d", "sl", "n", "fn":
						v = true
					case "s", "m", "ks":
						continue
					}
					if old, seen := flag[e.I%nClasses]; seen && old != v {
						ok = false
					}
					flag[e.I%nClasses] = v
				}
			}
			walk(o.Sub)
		}
	}
	for _, c := range cs.Ctxs {
		for _, ch := range c.Chunks {
			walk(ch)
		}
	}
	return ok
}

// sliceCase keeps only the blamed context and, in it, the blamed ops with
// their ancestors (one chunk).
func sliceCase(cs Case, v Viol) (Case, bool) {
	if len(v.Ops) == 0 || v.Ctx >= len(cs.Ctxs) {
		return cs, false
	}
	keep := map[string]bool{}
	for _, id := range v.Ops {
		keep[id] = true
	}
	var prune func(ops []Op) []Op
	prune = func(ops []Op) []Op {
		var out []Op
		for _, o := range ops {
			o.Sub = prune(o.Sub)
			if keep[o.ID] || len(o.Sub) > 0 {
				out = append(out, o)
			}
		}
		return out
	}
	c := cloneCase(cs)
	ctx := c.Ctxs[v.Ctx]
	ctx.Chunks = [][]Op{prune(flat(ctx))}
	c.Ctxs = []Ctx{ctx}
	c.Order = []int{0}
	return normalize(c), true
}

func usesJ(k string) bool {
	switch k {
	case "on2", "onel", "hxel", "onnest", "cc", "csl", "cn", "cma", "ckvs", "cmix", "ccel":
		return true
	}
	return false
}

func usesI(k string) bool { return k != "cdyn" && k != "oncec" && !(hasSub(k) && k != "once") }

func isClassOp(k string) bool { return strings.HasPrefix(k, "c") && k != "comp" }
func isScriptOp(k string) bool {
	switch k {
	case "sc", "on", "on2", "onc", "hx", "onel", "hxel", "onnest", "onst", "onscr", "onimg", "oninp":
		return true
	}
	return false
}

// swapItem exchanges item x and item 0 (css classes or scripts) everywhere in
// the case: in the ops and, for classes, in the middleware's lists. Renaming
// an item consistently keeps a failure that couples a use with a registration.
func swapItem(cs Case, class bool, x int) Case {
	c := cloneCase(cs)
	sw := func(v int) int {
		switch v {
		case x:
			return 0
		case 0:
			return x
		}
		return v
	}
	var walk func(ops []Op)
	walk = func(ops []Op) {
		for i := range ops {
			if (class && isClassOp(ops[i].K)) || (!class && isScriptOp(ops[i].K)) {
				if usesI(ops[i].K) {
					ops[i].I = sw(ops[i].I)
				}
				if usesJ(ops[i].K) {
					ops[i].J = sw(ops[i].J)
				}
				for k := range ops[i].E {
					ops[i].E[k].I = sw(ops[i].E[k].I)
				}
			}
			walk(ops[i].Sub)
		}
	}
	for ci := range c.Ctxs {
		for j := range c.Ctxs[ci].Chunks {
			walk(c.Ctxs[ci].Chunks[j])
		}
	}
	if class {
		for i := range c.Pre {
			c.Pre[i] = sw(c.Pre[i])
		}
		for i := range c.Pre2 {
			c.Pre2[i] = sw(c.Pre2[i])
		}
	}
	return c
}

// swapHandle exchanges once handles x and y everywhere in the case.
func swapHandle(cs Case, x, y int) Case {
	c := cloneCase(cs)
	var walk func(ops []Op)
	walk = func(ops []Op) {
		for i := range ops {
			if ops[i].K == "once" {
				switch ops[i].I % nHandles {
				case x:
					ops[i].I = y
				case y:
					ops[i].I = x
				}
			}
			walk(ops[i].Sub)
		}
	}
	for ci := range c.Ctxs {
		for j := range c.Ctxs[ci].Chunks {
			walk(c.Ctxs[ci].Chunks[j])
		}
	}
	return c
}

func reductions(cs Case) []Case {
	var out []Case
	add := func(c Case) {
		c = normalize(c)
		if size(c) < size(cs) && valid(c) {
			out = append(out, c)
		}
	}
	// consistent renamings, only of items that occur
	usedH, usedC, usedS := map[int]bool{}, map[int]bool{}, map[int]bool{}
	var scan func(ops []Op)
	scan = func(ops []Op) {
		for _, o := range ops {
			switch {
			case o.K == "once":
				usedH[o.I%nHandles] = true
			case isClassOp(o.K):
				usedC[o.I], usedC[o.J] = true, true
				for _, e := range o.E {
					usedC[e.I] = true
				}
			case isScriptOp(o.K):
				usedS[o.I], usedS[o.J] = true, true
			}
			scan(o.Sub)
		}
	}
	for _, c := range cs.Ctxs {
		scan(flat(c))
	}
	for _, p := range append(append([]int{}, cs.Pre...), cs.Pre2...) {
		usedC[p] = true
	}
	for x := 1; x < nHandles; x++ {
		for y := 0; y < x && usedH[x]; y++ {
			add(swapHandle(cs, x, y))
		}
	}
	for x := 1; x < 8; x++ {
		if usedC[x] {
			add(swapItem(cs, true, x))
		}
		if usedS[x] {
			add(swapItem(cs, false, x))
		}
	}
	if cs.Mode == "http" {
		c := cloneCase(cs)
		c.Mode, c.Pre, c.Stream = "direct", nil, false
		c.Ctor, c.Mut, c.Pre2, c.Path = "", "", nil, ""
		add(c)
		for i := range cs.Pre {
			c := cloneCase(cs)
			c.Pre = append(c.Pre[:i:i], c.Pre[i+1:]...)
			add(c)
		}
		if cs.Stream {
			c := cloneCase(cs)
			c.Stream = false
			add(c)
		}
		for i, p := range cs.Pre {
			if p > 0 {
				c := cloneCase(cs)
				c.Pre[i] = 0
				add(c)
			}
		}
		if cs.Mut != "none" {
			c := cloneCase(cs)
			c.Mut, c.Pre2 = "none", nil
			add(c)
		}
		if cs.Ctor != "new" {
			c := cloneCase(cs)
			c.Ctor, c.Path = "new", ""
			add(c)
		}
		if cs.Path != "" {
			c := cloneCase(cs)
			c.Path = ""
			add(c)
		}
		for i, p := range cs.Pre2 {
			c := cloneCase(cs)
			c.Pre2 = append(c.Pre2[:i:i], c.Pre2[i+1:]...)
			add(c)
			if p > 0 {
				c := cloneCase(cs)
				c.Pre2[i] = 0
				add(c)
			}
		}
	}
	if len(cs.Ctxs) > 1 {
		for i := range cs.Ctxs {
			c := cloneCase(cs)
			c.Ctxs = append(c.Ctxs[:i:i], c.Ctxs[i+1:]...)
			var ord []int
			for _, x := range cs.Order {
				if x < i {
					ord = append(ord, x)
				} else if x > i {
					ord = append(ord, x-1)
				}
			}
			c.Order = ord
			add(c)
		}
	}
	for ci, ctx := range cs.Ctxs {
		if ctx.Nonce != "" {
			c := cloneCase(cs)
			c.Ctxs[ci].Nonce = ""
			add(c)
		}
		if len(ctx.Chunks) > 1 { // merge all chunks
			c := cloneCase(cs)
			c.Ctxs[ci].Chunks = [][]Op{flat(c.Ctxs[ci])}
			add(c)
		}
		for j, ch := range ctx.Chunks {
			for _, red := range opReductions(ch) {
				c := cloneCase(cs)
				if len(red) == 0 && len(ctx.Chunks) > 1 {
					c.Ctxs[ci].Chunks = append(c.Ctxs[ci].Chunks[:j:j], c.Ctxs[ci].Chunks[j+1:]...)
				} else {
					c.Ctxs[ci].Chunks[j] = red
				}
				add(c)
			}
		}
	}
	sort.SliceStable(out, func(a, b int) bool { return size(out[a]) < size(out[b]) })
	return out
}

func hasTag(vs []Viol, tag string) (Viol, bool) {
	for _, v := range vs {
		if v.Tag == tag {
			return v, true
		}
	}
	return Viol{}, false
}

type failure struct {
	cs  Case
	tag string
}

// Reduction of (case, rule tag) failures to canonical witnesses. sliceAndCap
// (after every batch): (1) blame slice (only the blamed context and ops), kept
// if it still violates the same rule, then at most perSignature failures per
// signature are kept. shrinkAll (at the end): (2) greedy one-step reductions (drop contexts/chunks/ops,
// hoist, leave the middleware, simpler op forms, canonical item names and
// flags) until none violates the rule any more. All failures advance in lock
// step (one driver batch per round); equal cases are merged.
func (e *engine) sliceAndCap(cur map[string]failure, fails []failure, viols []Viol) map[string]failure {
	if cur == nil {
		cur = map[string]failure{}
	}
	var slices []Case
	var sliced []bool
	for i, f := range fails {
		sc, ok := sliceCase(f.cs, viols[i])
		slices = append(slices, sc)
		sliced = append(sliced, ok)
	}
	got := e.evaluate(slices)
	kept := 0
	for i, f := range fails {
		if _, still := hasTag(got[i], f.tag); sliced[i] && still {
			f.cs = slices[i]
			kept++
		}
		cur[f.tag+" @ "+caseText(f.cs)] = f
	}
	dbg("blame slices that still fail: %d of %d; distinct so far %d", kept, len(fails), len(cur))
	cur = capBySignature(cur)
	dbg("after the per-signature cap: %d", len(cur))
	return cur
}

func (e *engine) shrinkAll(cur map[string]failure) []failure {
	const window = 60
	offset := map[string]int{}
	done := map[string]failure{}
	for round := 0; len(cur) > 0 && round < 5000; round++ {
		dbg("shrink round %d: %d cases", round, len(cur))
		keys := make([]string, 0, len(cur))
		for k := range cur {
			keys = append(keys, k)
		}
		sort.Strings(keys)
		var batch []Case
		var owner []string
		exhausted := map[string]bool{}
		for _, k := range keys {
			reds := reductions(cur[k].cs)
			lo := offset[k]
			hi := lo + window
			if hi >= len(reds) {
				hi = len(reds)
				exhausted[k] = true
			}
			for _, r := range reds[lo:hi] {
				batch = append(batch, r)
				owner = append(owner, k)
			}
		}
		got := e.evaluate(batch)
		next := map[string]failure{}
		moved := map[string]bool{}
		for i, r := range batch {
			if moved[owner[i]] {
				continue
			}
			tag := cur[owner[i]].tag
			if _, ok := hasTag(got[i], tag); ok {
				moved[owner[i]] = true
				nk := tag + " @ " + caseText(r)
				if _, isDone := done[nk]; !isDone {
					next[nk] = failure{r, tag}
				}
			}
		}
		for _, k := range keys {
			switch {
			case moved[k]:
			case exhausted[k]:
				done[k] = cur[k]
			default:
				offset[k] += window
				next[k] = cur[k]
			}
		}
		cur = next
	}
	for k, f := range cur {
		done[k] = f
	}
	keys := make([]string, 0, len(done))
	for k := range done {
		keys = append(keys, k)
	}
	sort.Slice(keys, func(a, b int) bool {
		if len(keys[a]) != len(keys[b]) {
			return len(keys[a]) < len(keys[b])
		}
		return keys[a] < keys[b]
	})
	var out []failure
	for _, k := range keys {
		out = append(out, done[k])
	}
	return out
}

// signature groups failures that look alike (same rule, same op kinds, same
// mode); only the perSignature smallest of a group are reduced, which bounds
// the work when a defect makes almost every case fail, while every distinct
// kind of failure is still reduced and reported.
const perSignature = 20

func signature(f failure) string {
	kinds := map[string]bool{}
	var walk func(ops []Op)
	walk = func(ops []Op) {
		for _, o := range ops {
			kinds[o.K] = true
			for _, e := range o.E {
				kinds["cdyn:"+e.F] = true
			}
			walk(o.Sub)
		}
	}
	for _, c := range f.cs.Ctxs {
		walk(flat(c))
	}
	var ks []string
	for k := range kinds {
		ks = append(ks, k)
	}
	sort.Strings(ks)
	nops := 0
	for _, c := range f.cs.Ctxs {
		nops += len(reference(flat(c)))
	}
	if nops > 6 { // big (unsliced) cases: their kind sets are all different
		ks = []string{"big"}
	}
	return fmt.Sprintf("%s/%s/%d/%v", f.tag, f.cs.Mode, len(f.cs.Ctxs), ks)
}

func capBySignature(cur map[string]failure) map[string]failure {
	groups := map[string][]string{}
	for k, f := range cur {
		sig := signature(f)
		groups[sig] = append(groups[sig], k)
	}
	out := map[string]failure{}
	for _, ks := range groups {
		sort.Slice(ks, func(a, b int) bool {
			sa, sb := size(cur[ks[a]].cs), size(cur[ks[b]].cs)
			if sa != sb {
				return sa < sb
			}
			return ks[a] < ks[b]
		})
		if len(ks) > perSignature {
			ks = ks[:perSignature]
		}
		for _, k := range ks {
			out[k] = cur[k]
		}
	}
	return out
}

func dbg(f string, a ...any) {
	if os.Getenv("VERIF_DEBUG") != "" {
		fmt.Fprintf(os.Stderr, "[c12 %s] "+f+"\n", append([]any{time.Now().Format("15:04:05")}, a...)...)
	}
}

// ---------------------------------------------------------------- check

// Run is the C12 check.
func Run(c *core.Ctx) {
	c.Rule = "cases = use histories (ops: render script component, on*/hx-on attribute with one or two scripts, on*/hx-on and class attributes in the then- and else-branch of attribute-level if (also nested), class expressions holding css components in every container form accepted by templ.Classes/RenderCSSItems incl. composed ones, once handles made by NewOnceHandle, &OnceHandle{}, address of a variable, address of a struct field, with block / WithComponent; script and class attributes on <style>/<script>/void elements; sub-histories rendered with a context derived inside the tree by templ.WithNonce, context.WithValue or context.WithCancel (same rendering context); nested in child blocks, child components and once blocks) over 3 scripts, 5 css classes (2 from one parametrised css template), 9 once handles, rendered by one compiled interpreter in 1..3 contexts whose chunks are rendered alternately, or through CSSMiddleware+Handler with a pre-registered subset (middleware built by NewCSSMiddleware, by struct literal around NewCSSHandler, or by struct literals only, optionally under another path; exported Classes then left alone / appended to / replaced / truncated before serving); oracle on the HTML5 token stream: <=1 definition per item and context, definition before first use, every executed op renders its call/class name/once content in its own wrapper, executed ops = reference, a class served by the real stylesheet endpoint of the same middleware is never inlined and every other used class is inlined once before use, classes in the exported list are served, every context byte-equal to the same history rendered alone; exhaustive part: all sequences of length<=2 over the op atoms, each also nested in once/box/comp (thorough: length<=3 over the flat atoms); non-trivial = some item used at least twice in one context; distinct by canonical case text"
	c.Assume("golang.org/x/net/html tokenizer; class ids and script function names are taken as opaque labels announced by the driver")
	c.Assume("within one class expression a css component is never both enabled and disabled (the winner would be a policy question outside C12)")
	e := build(c)
	defer e.p.Close()

	if c.ReplayFile != "" {
		var cs Case
		c.LoadReplay(&cs)
		cs = normalize(cs)
		vs := e.evaluate([]Case{cs})[0]
		c.Eval(1)
		c.NontrivialN(2)
		for _, v := range vs {
			c.Violate(v.Tag+" @ "+caseText(cs), v.Msg, cs)
		}
		return
	}

	var front map[string]failure // failures kept for reduction (sliced, capped per signature)
	nfail := 0
	tagHist := map[string]int{}
	nctx, nhttp, multi, maxOps, total := 0, 0, 0, 0, 0
	// process evaluates one batch of (normalized) cases and collects every
	// (case, violated rule) pair; the raw outputs of the batch are dropped.
	process := func(cases []Case) {
		e.cache = map[string]*result{}
		scopeStats.on = true
		got := e.evaluate(cases)
		scopeStats.on = false
		total += len(cases)
		dbg("evaluated %d", total)
		var fails []failure
		var failViols []Viol
		defer func() {
			if len(fails) > 0 {
				nfail += len(fails)
				front = e.sliceAndCap(front, fails, failViols)
			}
		}()
		for i, cs := range cases {
			c.Eval(1)
			nctx += len(cs.Ctxs)
			if cs.Mode == "http" {
				nhttp++
			}
			if len(cs.Ctxs) > 1 {
				multi++
			}
			if cs.Mode == "http" {
				c.Add("middleware_"+cs.Ctor+"_"+cs.Mut, 1)
			}
			for _, cx := range cs.Ctxs {
				ref := reference(flat(cx))
				if n := len(ref); n > maxOps {
					maxOps = n
				}
				for _, x := range ref { // conditional-attribute uses executed (= observed: R3)
					switch x.op.K {
					case "once":
						if x.first {
							c.Add("once_first_uses_"+handleKinds[x.op.I%nHandles], 1)
						}
					case "onst", "onscr", "onimg", "oninp", "cimg", "cinp":
						c.Add("uses_on_"+map[string]string{"onst": "style_element", "onscr": "script_element", "onimg": "void_img", "oninp": "void_input", "cimg": "void_img_class", "cinp": "void_input_class"}[x.op.K], 1)
					case "onc":
						if x.op.V {
							c.Add("cond_attr_script_uses_then", 1)
						}
					case "onel", "hxel":
						if x.op.V {
							c.Add("cond_attr_script_uses_then", 1)
						} else {
							c.Add("cond_attr_script_uses_else", 1)
						}
					case "onnest":
						if x.op.V && x.op.W {
							c.Add("cond_attr_script_uses_nested_then", 1)
						} else if x.op.V {
							c.Add("cond_attr_script_uses_nested_else", 1)
						}
					case "ccond", "ccel":
						if x.op.V {
							c.Add("cond_attr_class_uses_then", 1)
						} else if x.op.K == "ccel" {
							c.Add("cond_attr_class_uses_else", 1)
						}
					}
				}
			}
			if repeated(cs) {
				c.NontrivialStr(caseText(cs))
				if (total-len(cases)+i)%20000 == 7 {
					c.Sample(map[string]any{"history": caseText(cs), "violations": len(got[i])})
				}
			}
			tags := map[string]bool{}
			for _, v := range got[i] {
				if !tags[v.Tag] {
					tags[v.Tag] = true
					fails = append(fails, failure{cs, v.Tag})
					failViols = append(failViols, v)
					tagHist[v.Tag]++
				}
			}
		}
	}
	single := func(ops []Op) Case {
		return normalize(Case{Mode: "direct", Ctxs: []Ctx{{Chunks: [][]Op{ops}}}, Order: []int{0}})
	}
	as := atoms()
	var wrapped []Op
	for _, a := range as {
		wrapped = append(wrapped, a)
		if !hasSub(a.K) {
			wrapped = append(wrapped, Op{K: "once", I: 0, Sub: []Op{a}}, Op{K: "box", Sub: []Op{a}}, Op{K: "nsc", Sub: []Op{a}})
		}
	}
	var cases []Case
	for _, a := range wrapped {
		cases = append(cases, single([]Op{a}))
		for _, b := range wrapped {
			cases = append(cases, single([]Op{a, b}))
		}
	}
	if !c.Quick() {
		for _, a := range as {
			for _, b := range as {
				for _, d := range as {
					cases = append(cases, single([]Op{a, b, d}))
				}
			}
		}
	}
	// middleware: every construction x every later treatment of the exported
	// Classes field x small registered sets, on a page using c0 and c1
	page := []Op{{K: "cd", I: 0}, {K: "cd", I: 1}, {K: "cd", I: 0}}
	for _, ctor := range []string{"new", "handler", "literal"} {
		for _, mut := range []string{"none", "append", "replace", "truncate"} {
			for _, pre := range [][]int{nil, {0}, {1}, {0, 1}, {2, 0}} {
				for _, pre2 := range [][]int{{0}, {1}, {0, 1}} {
					if (mut == "none" || mut == "truncate") && len(pre2) != 1 {
						continue
					}
					for _, stream := range []bool{false, true} {
						cases = append(cases, normalize(Case{Mode: "http", Ctxs: []Ctx{{Chunks: [][]Op{page}}}, Pre: pre, Pre2: pre2, Ctor: ctor, Mut: mut, Stream: stream}))
					}
				}
			}
		}
	}
	exh := len(cases)
	process(cases)
	r := c.Rand("histories")
	nr := c.Pick(60000, 1000000)
	if os.Getenv("VERIF_C12_NORANDOM") != "" {
		nr = 0
	}
	const batchSize = 50000
	for done := 0; done < nr; {
		n := batchSize
		if nr-done < n {
			n = nr - done
		}
		batch := make([]Case, 0, n)
		for i := 0; i < n; i++ {
			batch = append(batch, normalize(randCase(r)))
		}
		process(batch)
		done += n
	}
	c.Set("exhaustive_histories", exh)
	c.Set("random_cases", nr)
	c.Set("op_atoms", len(as))
	c.Set("nonce_scopes_rendered", scopeStats.scopesSeen)
	c.Set("withvalue_withcancel_scopes_rendered", scopeStats.derived)
	c.Set("script_elements_inside_nonce_scope", scopeStats.scripts)
	c.Set("script_elements_inside_nonce_scope_carrying_the_nonce", scopeStats.withNonce)
	c.Set("contexts_rendered", nctx)
	c.Set("middleware_cases", nhttp)
	c.Set("multi_context_cases", multi)
	c.Set("max_executed_ops_in_a_context", maxOps)
	c.Set("failing_case_rule_pairs_before_reduction", nfail)
	dbg("failing %d %v", nfail, tagHist)
	seen := map[string]bool{}
	defer func() { // listed known findings (all part of the exhaustive set) that did not fail
		stale := []string{}
		for _, k := range c.KnownKeys() {
			if !seen[k] {
				stale = append(stale, k)
			}
		}
		c.Set("known_findings_not_reproduced", stale)
	}()
	if nfail == 0 {
		return
	}
	min := e.shrinkAll(front)
	c.Set("reduction_cap_per_signature", perSignature)
	c.Set("canonical_witnesses", len(min))
	for _, f := range min {
		vs := e.evaluate([]Case{f.cs})[0]
		v, ok := hasTag(vs, f.tag)
		if !ok {
			continue
		}
		seen[f.tag+" @ "+caseText(f.cs)] = true
		c.Violate(f.tag+" @ "+caseText(f.cs), v.Msg, f.cs)
	}
}
