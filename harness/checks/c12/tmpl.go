package c12

// The "use interpreter" package: `seq(ops)` loops over a history given as
// data and switches into STATIC uses of script templates, css templates (in
// every container form accepted by templ.Classes / templ.RenderCSSItems) and
// once handles, possibly nested in child blocks and child components. Every
// op is wrapped in <div data-op=ID> so the offline checker can attribute what
// was rendered to the op that asked for it.

const templSrc = `package main

script s0(a string) {
	console.log("s0", a);
}

script s1(a string) {
	console.log("s1", a);
}

script s2(a string) {
	console.log("s2", a);
}

css c0() {
	color: red;
}

css c1() {
	color: green;
}

css c2() {
	color: blue;
}

css cw(w string) {
	width: { w };
}

templ box() {
	<section>{ children... }</section>
}

templ comp(ops []Op) {
	<article>
		@seq(ops)
	</article>
}

// fixed is the component of the once handle made with templ.WithComponent.
templ fixed() {
	<p data-once="c" class={ c2() } onclick={ s2("f") }></p>
}

templ seq(ops []Op) {
	for _, o := range ops {
		<div data-op={ o.ID }>
			switch o.K {
				case "sc":
					@scr(o.I, o.A)
				case "on":
					<button onclick={ scr(o.I, o.A) }></button>
				case "on2":
					<button onclick={ scr(o.I, o.A) } onmouseover={ scr(o.J, o.B) }></button>
				case "onc":
					<button
						if o.V {
							onclick={ scr(o.I, o.A) }
						}
					></button>
				case "onel":
					<button
						if o.V {
							onclick={ scr(o.I, o.A) }
						} else {
							onclick={ scr(o.J, o.B) }
						}
					></button>
				case "onnest":
					<button
						if o.V {
							if o.W {
								onclick={ scr(o.I, o.A) }
							} else {
								onmouseover={ scr(o.J, o.B) }
							}
						}
					></button>
				case "hxel":
					<button
						if o.V {
							hx-on::click={ scr(o.I, o.A) }
						} else {
							hx-on::click={ scr(o.J, o.B) }
						}
					></button>
				case "hx":
					<button hx-on::click={ scr(o.I, o.A) }></button>
				case "onst":
					<style onload={ scr(o.I, o.A) }>/* s */</style>
				case "onscr":
					<script onload={ scr(o.I, o.A) } src="x.js"></script>
				case "onimg":
					<img onload={ scr(o.I, o.A) }/>
				case "oninp":
					<input onchange={ scr(o.I, o.A) }/>
				case "cimg":
					<img class={ cls(o.I) }/>
				case "cinp":
					<input class={ cls(o.I) }/>
				case "cd":
					<span class={ cls(o.I) }></span>
				case "cc":
					<span class={ templ.Classes(cls(o.I), cls(o.J)) }></span>
				case "ckv":
					<span class={ templ.KV(cls(o.I), o.V) }></span>
				case "ckvc":
					<span class={ templ.KV(ccls(o.I), o.V) }></span>
				case "csl":
					<span class={ []templ.CSSClass{ cls(o.I), cls(o.J) } }></span>
				case "cn":
					<span class={ templ.Classes(templ.Classes(cls(o.I)), "x", templ.CSSClasses{ cls(o.J) }) }></span>
				case "cfn":
					<span class={ clsFn(o.I) }></span>
				case "ckvs":
					<span class={ []templ.KeyValue[templ.CSSClass, bool]{ templ.KV(cls(o.I), o.V), templ.KV(cls(o.J), o.W) } }></span>
				case "cmix":
					<span class={ "plain", cls(o.I), map[string]bool{ "m1": true, "m2": false }, templ.KV("ks", o.V), templ.KV(cls(o.J), o.W) }></span>
				case "cma":
					<span class={ cls(o.I), cls(o.J) }></span>
				case "ccond":
					<span
						if o.V {
							class={ cls(o.I) }
						}
					></span>
				case "ccel":
					<span
						if o.V {
							class={ cls(o.I) }
						} else {
							class={ cls(o.J) }
						}
					></span>
				case "cdyn":
					<span class={ dyn(o.E) }></span>
				case "once":
					@oh(o.I).Once() {
						<p data-once={ hname(o.I) }>
							@seq(o.Sub)
						</p>
					}
				case "oncec":
					@ohc.Once()
				case "box":
					@box() {
						@seq(o.Sub)
					}
				case "comp":
					@comp(o.Sub)
				case "nsc", "wv", "wc":
					@scope(o.K, o.Sub)
				default:
					<b data-badkind={ o.K }></b>
			}
		</div>
	}
}
`

const helperSrc = `package main

import (
	"bufio"
	"bytes"
	"context"
	"encoding/base64"
	"encoding/json"
	"fmt"
	"io"
	"net/http"
	"net/http/httptest"
	"os"

	"github.com/a-h/templ"
)

type Ent struct {
	F string ` + "`json:\"f\"`" + `
	I int    ` + "`json:\"i\"`" + `
	V bool   ` + "`json:\"v\"`" + `
}

type Op struct {
	ID  string ` + "`json:\"id\"`" + `
	K   string ` + "`json:\"k\"`" + `
	I   int    ` + "`json:\"i\"`" + `
	J   int    ` + "`json:\"j\"`" + `
	A   string ` + "`json:\"a\"`" + `
	B   string ` + "`json:\"b\"`" + `
	V   bool   ` + "`json:\"v\"`" + `
	W   bool   ` + "`json:\"w\"`" + `
	E   []Ent  ` + "`json:\"e\"`" + `
	Sub []Op   ` + "`json:\"sub\"`" + `
}

const nScripts, nClasses = 3, 5

func scr(i int, a string) templ.ComponentScript {
	switch i % nScripts {
	case 0:
		return s0(a)
	case 1:
		return s1(a)
	}
	return s2(a)
}

func cls(j int) templ.CSSClass {
	switch j % nClasses {
	case 0:
		return c0()
	case 1:
		return c1()
	case 2:
		return c2()
	case 3:
		return cw("1px")
	}
	return cw("2px")
}

func ccls(j int) templ.ComponentCSSClass { return cls(j).(templ.ComponentCSSClass) }

func clsFn(j int) func() templ.CSSClass { return func() templ.CSSClass { return cls(j) } }

// dyn composes a class expression out of entries (container form, class, flag).
func dyn(es []Ent) templ.CSSClasses {
	var out templ.CSSClasses
	for _, e := range es {
		switch e.F {
		case "d":
			out = append(out, cls(e.I))
		case "kv":
			out = append(out, templ.KV(cls(e.I), e.V))
		case "kvc":
			out = append(out, templ.KV(ccls(e.I), e.V))
		case "sl":
			out = append(out, []templ.CSSClass{cls(e.I)})
		case "n":
			out = append(out, templ.Classes(cls(e.I)))
		case "fn":
			out = append(out, clsFn(e.I))
		case "kvs":
			out = append(out, []templ.KeyValue[templ.CSSClass, bool]{templ.KV(cls(e.I), e.V)})
		case "s":
			out = append(out, fmt.Sprintf("plain%d", e.I))
		case "m":
			out = append(out, map[string]bool{fmt.Sprintf("m%d", e.I): e.V})
		case "ks":
			out = append(out, templ.KV(fmt.Sprintf("ks%d", e.I), e.V))
		}
	}
	return out
}

// Once handles made in every way a program can make one; their identity is
// the pointer. 0,1: templ.NewOnceHandle(); 2,3: &templ.OnceHandle{}; 4,5:
// address of a variable; 6,7: address of a struct field.
var (
	hVarA, hVarB templ.OnceHandle
	hStruct      struct {
		Name string
		A, B templ.OnceHandle
	}
	onceHandles = []*templ.OnceHandle{
		templ.NewOnceHandle(), templ.NewOnceHandle(),
		&templ.OnceHandle{}, &templ.OnceHandle{},
		&hVarA, &hVarB,
		&hStruct.A, &hStruct.B,
	}
	ohc = templ.NewOnceHandle(templ.WithComponent(fixed()))
)

func oh(i int) *templ.OnceHandle { return onceHandles[i%8] }
func hname(i int) string         { return fmt.Sprintf("h%d", i%8) }

type scopeKey struct{}

// scope renders a sub-history with a context DERIVED from the current one
// inside the component tree: templ.WithNonce, context.WithValue or
// context.WithCancel. The derived context is the same rendering context.
func scope(kind string, ops []Op) templ.Component {
	return templ.ComponentFunc(func(ctx context.Context, w io.Writer) error {
		switch kind {
		case "nsc":
			ctx = templ.WithNonce(ctx, "sc0pe")
		case "wv":
			ctx = context.WithValue(ctx, scopeKey{}, 1)
		case "wc":
			c, cancel := context.WithCancel(ctx)
			defer cancel()
			ctx = c
		}
		return seq(ops).Render(ctx, w)
	})
}

type Ctx struct {
	Nonce  string ` + "`json:\"nonce\"`" + `
	Chunks [][]Op ` + "`json:\"chunks\"`" + `
}

type Job struct {
	ID     int    ` + "`json:\"id\"`" + `
	Mode   string ` + "`json:\"mode\"`" + ` // direct | http
	Ctxs   []Ctx  ` + "`json:\"ctxs\"`" + `
	Order  []int  ` + "`json:\"order\"`" + `
	Pre    []int  ` + "`json:\"pre\"`" + `
	Stream bool   ` + "`json:\"stream\"`" + `
	Ctor   string ` + "`json:\"ctor\"`" + `  // new | handler | literal: how the middleware is built
	Mut    string ` + "`json:\"mut\"`" + `   // none | append | replace | truncate: what happens to the exported Classes afterwards
	Pre2   []int  ` + "`json:\"pre2\"`" + `  // classes appended / replacing
	Path   string ` + "`json:\"path\"`" + `  // stylesheet path (struct-literal constructions)
}

type Result struct {
	ID      int      ` + "`json:\"id\"`" + `
	Outs    []string ` + "`json:\"outs\"`" + `
	Errs    []string ` + "`json:\"errs\"`" + `
	CSS     string   ` + "`json:\"css\"`" + `
	CSSType string   ` + "`json:\"csstype\"`" + `
}

type Hello struct {
	Scripts []string ` + "`json:\"scripts\"`" + `
	Classes []string ` + "`json:\"classes\"`" + `
	Rules   []string ` + "`json:\"rules\"`" + `
}

func b64(b []byte) string { return base64.StdEncoding.EncodeToString(b) }

func runDirect(j Job, r *Result) {
	n := len(j.Ctxs)
	ctxs := make([]context.Context, n)
	bufs := make([]bytes.Buffer, n)
	next := make([]int, n)
	r.Errs = make([]string, n)
	for i, c := range j.Ctxs {
		ctxs[i] = templ.InitializeContext(context.Background())
		if c.Nonce != "" {
			ctxs[i] = templ.WithNonce(ctxs[i], c.Nonce)
		}
	}
	for _, ci := range j.Order {
		if ci >= n || next[ci] >= len(j.Ctxs[ci].Chunks) {
			continue
		}
		chunk := j.Ctxs[ci].Chunks[next[ci]]
		next[ci]++
		if err := seq(chunk).Render(ctxs[ci], &bufs[ci]); err != nil && r.Errs[ci] == "" {
			r.Errs[ci] = err.Error()
		}
	}
	for i := range bufs {
		r.Outs = append(r.Outs, b64(bufs[i].Bytes()))
	}
}

func runHTTP(j Job, r *Result) {
	var ops []Op
	for _, ch := range j.Ctxs[0].Chunks {
		ops = append(ops, ch...)
	}
	var pre []templ.CSSClass
	for _, p := range j.Pre {
		pre = append(pre, cls(p))
	}
	var opts []func(*templ.ComponentHandler)
	if j.Stream {
		opts = append(opts, templ.WithStreaming())
	}
	next := templ.Handler(seq(ops), opts...)
	path := "/styles/templ.css"
	var mw templ.CSSMiddleware
	switch j.Ctor {
	case "handler": // struct literal around the handler constructor
		if j.Path != "" {
			path = j.Path
		}
		mw = templ.CSSMiddleware{Path: path, CSSHandler: templ.NewCSSHandler(pre...), Next: next}
	case "literal": // struct literals only
		if j.Path != "" {
			path = j.Path
		}
		var cs []templ.ComponentCSSClass
		for _, p := range j.Pre {
			cs = append(cs, ccls(p))
		}
		mw = templ.CSSMiddleware{Path: path, CSSHandler: templ.CSSHandler{Classes: cs}, Next: next}
	default:
		mw = templ.NewCSSMiddleware(next, pre...)
	}
	// what a program may do with the exported field before serving
	switch j.Mut {
	case "append":
		for _, p := range j.Pre2 {
			mw.CSSHandler.Classes = append(mw.CSSHandler.Classes, ccls(p))
		}
	case "replace":
		var cs []templ.ComponentCSSClass
		for _, p := range j.Pre2 {
			cs = append(cs, ccls(p))
		}
		mw.CSSHandler.Classes = cs
	case "truncate":
		mw.CSSHandler.Classes = mw.CSSHandler.Classes[:len(mw.CSSHandler.Classes)/2]
	}
	var h http.Handler = mw
	for k := 0; k < 2; k++ {
		rec := httptest.NewRecorder()
		h.ServeHTTP(rec, httptest.NewRequest("GET", "/", nil))
		body, _ := io.ReadAll(rec.Result().Body)
		r.Outs = append(r.Outs, b64(body))
		e := ""
		if rec.Code != 200 {
			e = fmt.Sprintf("status %d", rec.Code)
		}
		r.Errs = append(r.Errs, e)
	}
	rec := httptest.NewRecorder()
	h.ServeHTTP(rec, httptest.NewRequest("GET", path, nil))
	body, _ := io.ReadAll(rec.Result().Body)
	r.CSS = b64(body)
	r.CSSType = rec.Result().Header.Get("Content-Type")
}

func main() {
	in := bufio.NewReaderSize(os.Stdin, 1<<20)
	out := bufio.NewWriterSize(os.Stdout, 1<<20)
	defer out.Flush()
	enc := json.NewEncoder(out)
	var hello Hello
	for i := 0; i < nScripts; i++ {
		hello.Scripts = append(hello.Scripts, scr(i, "x").Name)
	}
	for i := 0; i < nClasses; i++ {
		hello.Classes = append(hello.Classes, cls(i).ClassName())
		hello.Rules = append(hello.Rules, string(ccls(i).Class))
	}
	_ = enc.Encode(hello)
	dec := json.NewDecoder(in)
	for {
		var j Job
		if err := dec.Decode(&j); err != nil {
			if err == io.EOF {
				return
			}
			fmt.Fprintln(os.Stderr, "bad job:", err)
			os.Exit(3)
		}
		r := Result{ID: j.ID}
		func() {
			defer func() {
				if p := recover(); p != nil {
					r.Errs = append(r.Errs, fmt.Sprintf("panic: %v", p))
				}
			}()
			if j.Mode == "http" {
				runHTTP(j, &r)
			} else {
				runDirect(j, &r)
			}
		}()
		_ = enc.Encode(r)
	}
}
`
