package c10

import (
	"fmt"
	"math/rand"
	"strings"
	"time"

	"verif/checks/rcorpus"
	"verif/core"
	"verif/corpus"
)

// Writer-kind sequences: renders on ONE goroutine into a few long-lived writer
// objects of different kinds (caller-owned *bufio.Writer of size 16 / 4096 /
// 8192 flushed by the caller after Render, *bytes.Buffer, *strings.Builder, a
// Write-only writer, an io.StringWriter, a func-typed writer (uncomparable
// dynamic type), an http.ResponseWriter-like writer with Flush), interleaved,
// repeatedly into the same object (fail -> succeed -> succeed), with the pools
// drained (two GCs) at some steps so that a fresh pooled Buffer meets each
// kind of writer as its first target.
//
// Oracle (judgeSeq): after every step, the sink of EVERY writer object holds
// exactly the concatenation of the documents rendered into it so far (for a
// step with an injected fault: a prefix of its document) and nothing else; a
// render without a fault returns nil; a faulted one obeys the C10 wrap rules.

var seqCompNames = []string{"Text", "TextExpr", "Attrs", "ClassAttr", "Oncey", "UseWrap", "Flushy", "ScriptCall", "ToGoHTML", "SideSmall", "LongBoundary", "Page"}

func seqComps(all map[string]rcorpus.Comp) []rcorpus.Comp {
	var out []rcorpus.Comp
	for _, n := range seqCompNames {
		out = append(out, all[n])
	}
	return out
}

func seqJobs(r *rand.Rand, all map[string]rcorpus.Comp, nRandom int) []rcorpus.Job {
	comps := seqComps(all)
	small := 8 // indices < small are short documents
	var jobs []rcorpus.Job
	add := func(name string, writers []string, steps []rcorpus.Step) {
		jobs = append(jobs, rcorpus.Job{Op: "seq", Tag: fmt.Sprintf("seq%03d-%s", len(jobs), name), Comps: comps, Writers: writers, Steps: steps})
	}
	R := func(w, c int) rcorpus.Step { return rcorpus.Step{W: w, C: c} }
	H := func(w, c int) rcorpus.Step { return rcorpus.Step{W: w, C: c, Hold: true} } // caller does not flush yet
	GC := rcorpus.Step{GC: true}
	// F1: a fresh pooled Buffer's first target is the caller's bufio.Writer; then the pooled
	// Buffer is reused for other sinks and the bufio.Writer is rendered into again
	for _, bk := range []string{"bufio16", "bufio4096", "bufio8192"} {
		add("fresh-"+bk, []string{bk, "fw", bk, "builder", "bytesbuf"}, []rcorpus.Step{
			GC, R(0, 0), R(1, 1), R(0, 2), R(1, 0), R(0, 1), R(3, 2), R(0, 10),
			GC, R(2, 3), R(4, 4), R(2, 5), R(0, 6), R(2, 7), R(1, 10), R(0, 0), R(2, 0), R(4, 11)})
		// head and body rendered separately into one bufio.Writer, ONE flush at the end,
		// other writers served in between
		add("held-"+bk, []string{bk, "fw", bk, "bytesbuf"}, []rcorpus.Step{
			GC, H(0, 0), H(0, 1), R(0, 2), H(0, 3), R(1, 4), H(0, 5), R(3, 6), R(0, 7),
			GC, H(2, 0), R(1, 1), H(0, 2), R(3, 3), H(2, 4), R(1, 10), R(2, 5), R(0, 6)})
	}
	// F2: fail -> succeed -> succeed on the SAME writer object, every fault-capable kind
	for _, wk := range rcorpus.WriterKinds {
		if !rcorpus.FaultCapable(wk) {
			// same object twice in a row, other kinds in between
			add("repeat-"+wk, []string{wk, "fw"}, []rcorpus.Step{R(0, 0), R(0, 0), R(1, 1), R(0, 2), GC, R(0, 3), R(0, 10), R(0, 4)})
			continue
		}
		var steps []rcorpus.Step
		for _, fk := range []string{"hard", "short", "zero"} {
			for _, k := range []int{0, 1, 9, 26} {
				ci := (k + len(steps)) % small
				steps = append(steps, rcorpus.Step{W: 0, C: ci, Kind: fk, K: k}, R(0, ci), R(0, (ci+1)%small), R(1, ci),
					rcorpus.Step{W: 0, C: 10, Kind: fk, K: 4000 + k}, R(0, 10))
			}
		}
		add("failthen-"+wk, []string{wk, "bytesbuf"}, steps)
	}
	// F3: seeded random interleavings
	faultKs := []int{0, 1, 2, 5, 17, 60, 200, 4095, 4100}
	for i := 0; i < nRandom; i++ {
		nw := 3 + r.Intn(4)
		writers := make([]string, nw)
		for w := range writers {
			writers[w] = rcorpus.WriterKinds[r.Intn(len(rcorpus.WriterKinds))]
		}
		var steps []rcorpus.Step
		for len(steps) < 16 {
			if r.Intn(10) == 0 {
				steps = append(steps, GC)
				continue
			}
			st := rcorpus.Step{W: r.Intn(nw), C: r.Intn(len(comps))}
			if r.Intn(5) != 0 {
				st.C = r.Intn(small)
			}
			if strings.HasPrefix(writers[st.W], "bufio") && r.Intn(3) == 0 {
				st.Hold = true
			}
			if rcorpus.FaultCapable(writers[st.W]) && r.Intn(3) == 0 {
				st.Kind = []string{"hard", "short", "zero"}[r.Intn(3)]
				st.K = faultKs[r.Intn(len(faultKs))]
			}
			steps = append(steps, st)
		}
		add("random", writers, steps)
	}
	return jobs
}

// seqState follows one sequence through its "sq" events.
type seqState struct {
	job    *rcorpus.Job
	exp    [][]byte // expected stream of every writer object's sink
	pend   [][]byte // caller-owned bufio.Writer: rendered but not yet flushed by the caller (a prefix may already be in the sink)
	broken bool     // a discrepancy was reported; later steps of this sequence are not judged
	next   int
}

func (st *seqState) step(ev *rcorpus.Event, refs map[string]*rcorpus.Ref) []finding {
	var fs []finding
	add := func(rule, format string, a ...any) {
		fs = append(fs, finding{rule, fmt.Sprintf("sequence %s writers %v step %d: ", st.job.Tag, st.job.Writers, ev.I) + fmt.Sprintf(format, a...)})
		st.broken = true
	}
	if st.broken {
		return nil
	}
	if ev.I != st.next || ev.I >= len(st.job.Steps) || len(ev.Sinks) != len(st.exp) {
		add("log", "unexpected event (want step %d)", st.next)
		return fs
	}
	st.next++
	s := st.job.Steps[ev.I]
	what := "pools drained"
	if !s.GC {
		comp := st.job.Comps[s.C]
		ref := refs[comp.Key]
		o := ev.Out
		if ref == nil || o == nil || s.W >= len(st.exp) {
			add("log", "no reference / output for %s", comp.Key)
			return fs
		}
		what = fmt.Sprintf("render of %s (%d bytes) into writer #%d (%s)", comp.Key, ref.L(), s.W, st.job.Writers[s.W])
		if s.Kind != "" {
			what += fmt.Sprintf(" with one %s fault after %d bytes", s.Kind, s.K)
		}
		if o.Err != nil && o.Err.Panic {
			add("panic", "%s panicked: %s", what, o.Err.Msg)
			return fs
		}
		if ev.Msg != "" {
			add("seq-flush", "%s: %s", what, ev.Msg)
		}
		if s.Kind == "" {
			// well-behaved writer: nil, and exactly D appended to its own sink
			if o.Err != nil {
				add("seq-err", "%s returned %v", what, errText(o.Err))
			}
			if s.Hold {
				what += ", not flushed by the caller yet"
				st.pend[s.W] = append(st.pend[s.W], ref.D...)
			} else {
				st.exp[s.W] = append(append(st.exp[s.W], st.pend[s.W]...), ref.D...)
				st.pend[s.W] = nil
			}
		} else {
			m := ev.Sinks[s.W].N - len(st.exp[s.W])
			if m < 0 || m > ref.L() {
				add("seq-prefix", "%s: its sink grew by %d bytes", what, m)
				return fs
			}
			st.exp[s.W] = append(st.exp[s.W], ref.D[:m]...)
			switch {
			case o.Err == nil && m != ref.L():
				add("nil-whole", "%s returned nil but only %d bytes arrived", what, m)
			case !o.Fired && o.Err != nil:
				add("no-fault", "%s: no fault fired but Render returned %v", what, errText(o.Err))
			case s.Kind == "hard" && o.Fired && (o.Err == nil || !o.Err.IsInjected):
				add("hard-wrap", "%s returned %v", what, errText(o.Err))
			case s.Kind != "hard" && o.Err != nil && !o.Err.IsShort:
				add("short-wrap", "%s returned %v", what, errText(o.Err))
			}
		}
	}
	// every sink holds exactly what was rendered into it, nothing else
	for w, sk := range ev.Sinks {
		if len(st.pend[w]) > 0 {
			// unflushed: the sink holds everything flushed so far plus some prefix of the pending bytes
			all := append(append([]byte(nil), st.exp[w]...), st.pend[w]...)
			if sk.N < len(st.exp[w]) || sk.N > len(all) || sk.H != rcorpus.Hash(all[:sk.N]) {
				add("seq-sink", "after %s the sink of writer #%d (%s) holds %d bytes (hash %s), which is not the %d flushed bytes plus a prefix of the %d pending ones",
					what, w, st.job.Writers[w], sk.N, sk.H, len(st.exp[w]), len(st.pend[w]))
				break
			}
			continue
		}
		if sk.N != len(st.exp[w]) || sk.H != rcorpus.Hash(st.exp[w]) {
			add("seq-sink", "after %s the sink of writer #%d (%s) holds %d bytes (hash %s); the documents rendered into it so far are %d bytes (hash %s)",
				what, w, st.job.Writers[w], sk.N, sk.H, len(st.exp[w]), rcorpus.Hash(st.exp[w]))
			break
		}
	}
	return fs
}

// runSeqProc runs all sequences of one buffer size in a process of their own
// (so the very first render of the process already is part of a sequence).
func runSeqProc(c *core.Ctx, b *rcorpus.Built, bufsize int, jobs []rcorpus.Job) *shardResult {
	res := &shardResult{bufsize: bufsize, positions: map[string]int{}, sampled: map[string]bool{}, seqKinds: map[string]int{}}
	all := append([]rcorpus.Job{{Op: "config", BufSize: bufsize, Hook: true}}, jobs...)
	all = append(all, rcorpus.Job{Op: "pool"})
	timeout := time.Duration(c.Pick(10, 30)) * time.Minute
	run := corpus.Run(b.Bin, nil, rcorpus.Encode(all), nil, b.Pkg.Dir, timeout)
	refs := map[string]*rcorpus.Ref{}
	states := map[string]*seqState{}
	for i := range jobs {
		j := &jobs[i]
		states[j.Tag] = &seqState{job: j, exp: make([][]byte, len(j.Writers)), pend: make([][]byte, len(j.Writers))}
		res.seqs++
		for _, k := range j.Writers {
			res.seqKinds[k]++
		}
	}
	ended, derr := rcorpus.Decode(run.Stdout, func(ev *rcorpus.Event) {
		switch ev.Ev {
		case "ref":
			if ev.Out != nil && ev.Out.Err == nil && ev.Out.B != nil {
				refs[ev.Key] = rcorpus.NewRef(ev.Out.Bytes(), ev.Trace)
			}
		case "pool":
			res.pool = ev.Pool
		case "sq":
			st := states[ev.Tag]
			if st == nil {
				res.inconclusive = append(res.inconclusive, "event of unknown sequence "+ev.Tag)
				return
			}
			c.Eval(1)
			c.NontrivialN(1)
			res.seqSteps++
			if ev.Kind == "gc" {
				res.seqGC++
			} else if ev.Kind != "" {
				res.seqFaults++
			}
			for _, f := range st.step(ev, refs) {
				res.viols = append(res.viols, viol{Case{BufSize: bufsize, Type: "seq", K: len(st.job.Steps), L: ev.I, Rule: f.rule, Detail: f.detail,
					Comp: rcorpus.Comp{Key: st.job.Tag}, Seq: st.job}})
			}
			if len(res.samples) < 1 && ev.I == 5 && strings.Contains(ev.Tag, "fresh-bufio4096") {
				res.samples = append(res.samples, map[string]any{"sequence": ev.Tag, "bufsize": bufsize, "writers": st.job.Writers, "step": ev.I,
					"rendered": ev.Key, "into_writer": ev.G, "sink_bytes_after_step": sinkLens(ev.Sinks)})
			}
		}
	})
	stderr := strings.TrimSpace(string(run.Stderr))
	switch {
	case run.TimedOut:
		res.inconclusive = append(res.inconclusive, fmt.Sprintf("sequence driver (bufsize %d) exceeded the %v watchdog", bufsize, timeout))
	case derr != nil:
		res.inconclusive = append(res.inconclusive, "sequence driver log unreadable: "+derr.Error())
	case !ended:
		res.inconclusive = append(res.inconclusive, fmt.Sprintf("sequence driver ended early (exit %d): %s", run.ExitCode, corpus.Tail(stderr, 400)))
	}
	if ended {
		for _, tag := range rcorpus.SortedKeys(states) {
			if st := states[tag]; !st.broken && st.next != len(st.job.Steps) {
				res.inconclusive = append(res.inconclusive, "sequence "+tag+" incomplete in the log")
			}
		}
	}
	return res
}

func sinkLens(sinks []*rcorpus.Out) []int {
	var out []int
	for _, s := range sinks {
		out = append(out, s.N)
	}
	return out
}
