// Package c10 checks "rendering is exact and fail-stop under writer,
// expression and context failures" by enumerating every single fault of every
// component of the shared template set (checks/rcorpus) inside a driver process
// built from the real generator + runtime, and judging the event log offline.
package c10

import (
	"fmt"
	"sort"
	"strings"
	"sync"
	"time"

	"verif/checks/rcorpus"
	"verif/core"
	"verif/corpus"
)

// Case is the replayable description of one faulted render.
type Case struct {
	BufSize int           `json:"bufsize"`
	Type    string        `json:"type"` // hard|short|zero (writer fault at K) | xf (Fail fails) | mc (cancel at Fail) | cc | fe
	K       int           `json:"k"`
	Fail    string        `json:"fail,omitempty"`
	Site    string        `json:"site,omitempty"`
	Comp    rcorpus.Comp  `json:"comp"`
	Other   *rcorpus.Comp `json:"other,omitempty"`
	Rule    string        `json:"rule"`
	Detail  string        `json:"detail"`
	L       int           `json:"doc_len"`
	Seq     *rcorpus.Job  `json:"seq,omitempty"` // Type "seq": the whole writer-kind sequence
}

type finding struct {
	rule, detail string
}

// judge applies the C10 oracle to one faulted render. These rules are the
// trusted base; D is the document of the fault-free render of the same
// component in the same process (ref), "received" is what the instrumented
// writer accepted.
//
//	prefix      received is a prefix of D                                   (every case)
//	nil-whole   Render returned nil  =>  received == D, exactly once         (every case)
//	no-fault    the armed fault never fired (k >= L) => Render returned nil
//	hard-wrap   the writer returned the injected error => err != nil and errors.Is(err, injected)
//	short-wrap  short / zero write: err != nil => errors.Is(err, io.ErrShortWrite)
//	            (the writer misbehaves in ONE call and is well-behaved afterwards, so bufio may
//	            legitimately re-send the remainder; then nil-whole is the whole claim)
//	xf          failing expression / nested component / child block: err != nil,
//	            errors.Is(err, sentinel); for a { } expression: errors.As templ.Error with
//	            FileName == path relative to the generate directory and Line inside the
//	            expression's 1-based line span
//	mc          context cancelled mid-render: err != nil => errors.Is(err, context.Canceled)
//	cc          context cancelled before the start: err != nil, errors.Is(Canceled), zero bytes
//	fe          the writer's Flush() error was called and failed => err != nil, errors.Is(sentinel)
//	carry       after the faulted render, same goroutine: the same component rendered into the
//	            SAME writer object (which has recovered; recording restarted) and another
//	            component rendered into a new writer both deliver exactly their D
//	inner-ctx   EVERY Render call is held to the cancelled-context clause, nested ones included: a
//	            hand-written middle component records each inner.Render(ctx, w) it makes (w = the
//	            parent's templ buffer); when that ctx had already ended, the (generated) inner
//	            component must return an error wrapping context.Canceled / DeadlineExceeded and add
//	            no byte of its own; type "ic" forces this at every middle site and, as the middle
//	            propagates the error, the root Render must return it too
//	panic       Render panicked
//	side        a code component rendered its child block into a writer of its own (side
//	            writer, block document Ds): side bytes are a prefix of Ds; Render nil => side
//	            received Ds exactly; side writer fault at offset k of Ds (types "hard@side",
//	            "short@side", "zero@side"): same wrap rules as for the main writer, and the main
//	            writer still holds a prefix of D
//
// Not demanded of the two unbuffered library roots (templ.Raw, ComponentScript rendered
// straight into the caller's writer): detection of contract-violating short writes
// (n < len, nil error) and a context check of their own; they are still held to
// hard-wrap, prefix (hard errors, failing sites) and carry.
func judge(typ string, ev *rcorpus.Event, comp *rcorpus.Comp, ref, other, sref *rcorpus.Ref, sites map[string]rcorpus.Site) []finding {
	var fs []finding
	add := func(rule, format string, a ...any) { fs = append(fs, finding{rule, fmt.Sprintf(format, a...)}) }
	o := ev.Out
	if o == nil {
		return []finding{{"log", "event without output"}}
	}
	L := ref.L()
	if o.Err != nil && o.Err.Panic {
		add("panic", "Render panicked: %s", o.Err.Msg)
	}
	for _, r := range ev.Inner {
		if r.Done == "" {
			continue
		}
		switch {
		case r.Err == nil:
			add("inner-ctx", "inner Render at %s was given a context that had already ended (%s) together with the parent's buffer and returned nil (added %d bytes)", r.ID, r.Done, r.Added)
		case r.Done == "canceled" && !r.Err.IsCanceled, r.Done == "deadline" && !r.Err.IsDeadline:
			add("inner-ctx-wrap", "inner Render at %s (context %s) returned %s, which does not wrap the cause", r.ID, r.Done, errText(r.Err))
		}
		if r.Added > 0 {
			add("inner-ctx-bytes", "inner Render at %s was given a context that had already ended (%s) and still wrote %d bytes", r.ID, r.Done, r.Added)
		}
	}
	if ev.Side != nil && sref != nil {
		if !sref.IsPrefix(ev.Side) {
			add("side-prefix", "side writer received %d bytes (hash %s) that are not Ds[:%d] (|Ds|=%d)", ev.Side.N, ev.Side.H, ev.Side.N, sref.L())
		}
		if o.Err == nil && !sref.IsWhole(ev.Side) {
			add("side-nil-whole", "Render returned nil but the side writer received %d of %d bytes of the child block", ev.Side.N, sref.L())
		}
	}
	// unbuffered library root + a writer that breaks the io.Writer contract
	// (n < len(p) with a nil error): nothing between the component and the
	// writer can notice; observed and counted, not judged
	blind := comp.Unbuffered && (typ == "short" || typ == "zero")
	lenient := blind || comp.Unbuffered && (typ == "cc" || typ == "mc")
	if !ref.IsPrefix(o) && !blind {
		add("prefix", "writer received %d bytes (hash %s) that are not D[:%d] (|D|=%d)", o.N, o.H, o.N, L)
	}
	if o.Err == nil && !ref.IsWhole(o) && !lenient {
		add("nil-whole", "Render returned nil but the writer received %d of %d bytes", o.N, L)
	}
	msg := ""
	if o.Err != nil {
		msg = o.Err.Msg
	}
	switch typ {
	case "hard", "short", "zero":
		if !o.Fired && o.Err != nil {
			add("no-fault", "no fault fired (k=%d, |D|=%d) but Render returned %q", ev.K, L, msg)
		}
		if typ == "hard" && o.Fired && (o.Err == nil || !o.Err.IsInjected) {
			add("hard-wrap", "writer failed after %d bytes; Render returned %v (errors.Is(err, injected) must hold)", ev.K, errText(o.Err))
		}
		if typ != "hard" && o.Err != nil && !o.Err.IsShort {
			add("short-wrap", "%s write after %d bytes; Render returned %v (errors.Is(err, io.ErrShortWrite) must hold)", typ, ev.K, errText(o.Err))
		}
	case "hard@side", "short@side", "zero@side":
		sd := ev.Side
		if sd == nil {
			add("log", "side fault event without side output")
			break
		}
		if !sd.Fired && o.Err != nil {
			add("no-fault", "no side fault fired (k=%d) but Render returned %q", ev.K, msg)
		}
		if typ == "hard@side" && sd.Fired && (o.Err == nil || !o.Err.IsInjected) {
			add("side-hard-wrap", "side writer failed after %d bytes of the child block; Render returned %v (errors.Is(err, injected) must hold)", ev.K, errText(o.Err))
		}
		if typ != "hard@side" && o.Err != nil && !o.Err.IsShort {
			add("side-short-wrap", "%s of the side writer after %d bytes; Render returned %v (errors.Is(err, io.ErrShortWrite) must hold)", typ, ev.K, errText(o.Err))
		}
	case "xf":
		s, ok := sites[ev.Site]
		if !ok {
			add("log", "unknown site %q", ev.Site)
			break
		}
		if o.Err == nil || !o.Err.IsSentinel {
			add("xf-wrap", "%s %s (id %s) failed; Render returned %v (errors.Is(err, sentinel) must hold)", s.Position, s.Name, ev.Fail, errText(o.Err))
		} else if s.Expr {
			e := o.Err
			if !e.AsTempl {
				add("xf-pos", "%s expression %s failed; error %q is not a templ.Error", s.Position, s.Name, msg)
			} else if e.File != s.File || e.Line < s.StartLine || e.Line > s.EndLine {
				add("xf-pos", "%s expression %s is at %s lines %d-%d; templ.Error says %s line %d col %d", s.Position, s.Name, s.File, s.StartLine, s.EndLine, e.File, e.Line, e.Col)
			}
		}
	case "ic":
		ended := false
		for _, r := range ev.Inner {
			ended = ended || r.Done != ""
		}
		if !ended {
			add("log", "middle site %s made no inner Render call with an ended context", ev.Fail)
		} else if o.Err == nil || !(o.Err.IsCanceled || o.Err.IsDeadline) {
			add("ic-wrap", "the inner Render at %s got an ended context; the root Render returned %v", ev.Fail, errText(o.Err))
		}
	case "mc":
		if o.Err != nil && !o.Err.IsCanceled {
			add("mc-wrap", "context cancelled at %s; Render returned %q (errors.Is(err, context.Canceled) must hold)", ev.Fail, msg)
		}
	case "cc":
		if comp.Unbuffered {
			break
		}
		if o.Err == nil || !o.Err.IsCanceled {
			add("cc-wrap", "context cancelled before start; Render returned %v", errText(o.Err))
		}
		if o.N != 0 {
			add("cc-bytes", "context cancelled before start; writer received %d bytes", o.N)
		}
	case "fe":
		if ev.Flush > 0 && (o.Err == nil || !o.Err.IsSentinel) {
			add("fe-wrap", "writer.Flush() failed; Render returned %v", errText(o.Err))
		}
	}
	if ev.C1 != nil && (ev.C1.Err != nil || !ref.IsWhole(ev.C1)) {
		add("carry-same", "render of the same component into the same writer object after the failure: err=%v, %d of %d bytes, whole=%v", errText(ev.C1.Err), ev.C1.N, L, ref.IsWhole(ev.C1))
	}
	if ev.C2 != nil && other != nil && (ev.C2.Err != nil || !other.IsWhole(ev.C2)) {
		add("carry-other", "render of another component into a new writer after the failure: err=%v, %d of %d bytes, whole=%v", errText(ev.C2.Err), ev.C2.N, other.L(), other.IsWhole(ev.C2))
	}
	return fs
}

func errText(e *rcorpus.ErrFacts) string {
	if e == nil {
		return "nil"
	}
	if e.Msg != "" {
		return fmt.Sprintf("%q", e.Msg)
	}
	return fmt.Sprintf("error{injected:%v short:%v canceled:%v deadline:%v sentinel:%v}", e.IsInjected, e.IsShort, e.IsCanceled, e.IsDeadline, e.IsSentinel)
}

type viol struct {
	cs Case
}

type shardResult struct {
	bufsize                     int
	comps                       int
	faultPoints, fired          int64
	sumL                        int64
	xf, mc, cc, fe, feCalled    int64
	carry                       int64
	lenientShortNil, lenientCtx int64
	recoveredShort              int64
	positions                   map[string]int
	pool                        *rcorpus.PoolEv
	flushSeen                   int
	viols                       []viol
	inconclusive                []string
	samples                     []any
	sampled                     map[string]bool
	expected, complete          int
	sidePoints, sideFired       int64
	sumLs                       int64
	seqs, seqSteps, seqFaults   int
	seqGC                       int
	seqKinds                    map[string]int
	ic, innerEnded              int64
}

var otherPool = []string{"Text", "Attrs", "ClassAttr", "Oncey", "UseWrap", "ScriptCall", "ToGoHTML", "OnClick"}

func pickOther(all map[string]rcorpus.Comp, key string, i int) *rcorpus.Comp {
	for d := 0; d < len(otherPool); d++ {
		n := otherPool[(i+d)%len(otherPool)]
		if n != key {
			o := all[n]
			return &o
		}
	}
	return nil
}

// runShard drives one process (one buffer size, a subset of the components)
// and judges its log.
func runShard(c *core.Ctx, b *rcorpus.Built, bufsize int, comps []rcorpus.Comp, all map[string]rcorpus.Comp) *shardResult {
	res := &shardResult{bufsize: bufsize, positions: map[string]int{}, expected: len(comps), sampled: map[string]bool{}}
	jobs := []rcorpus.Job{{Op: "config", BufSize: bufsize, Hook: true}}
	others := map[string]*rcorpus.Comp{}
	for i := range comps {
		o := pickOther(all, comps[i].Key, i)
		others[comps[i].Key] = o
		jobs = append(jobs, rcorpus.Job{Op: "all", Comp: &comps[i], Other: o})
	}
	jobs = append(jobs, rcorpus.Job{Op: "pool"})
	timeout := time.Duration(c.Pick(20, 90)) * time.Minute
	run := corpus.Run(b.Bin, nil, rcorpus.Encode(jobs), nil, b.Pkg.Dir, timeout)
	byKey := map[string]*rcorpus.Comp{}
	for i := range comps {
		byKey[comps[i].Key] = &comps[i]
	}
	refs := map[string]*rcorpus.Ref{}
	srefs := map[string]*rcorpus.Ref{} // documents of the side writers (child blocks rendered by code components)
	type cov struct {
		seen map[string][]bool
		side map[string][]bool
		xf   map[string]bool
	}
	covs := map[string]*cov{}
	var last *rcorpus.Event
	ended, derr := rcorpus.Decode(run.Stdout, func(ev *rcorpus.Event) {
		last = ev
		switch ev.Ev {
		case "config":
			if ev.K != bufsize {
				res.inconclusive = append(res.inconclusive, fmt.Sprintf("driver reports DefaultBufferSize %d, wanted %d", ev.K, bufsize))
			}
			return
		case "ref":
			if ev.Out == nil || ev.Out.Err != nil || ev.Out.B == nil {
				res.inconclusive = append(res.inconclusive, fmt.Sprintf("fault-free render of %s failed: %v", ev.Key, errText(ev.Out.Err)))
				return
			}
			refs[ev.Key] = rcorpus.NewRef(ev.Out.Bytes(), ev.Trace)
			res.flushSeen += ev.Flush
			if _, mine := byKey[ev.Key]; mine {
				L := len(refs[ev.Key].D)
				cv := &cov{seen: map[string][]bool{}, side: map[string][]bool{}, xf: map[string]bool{}}
				for _, k := range []string{"hard", "short", "zero"} {
					cv.seen[k] = make([]bool, L+1)
				}
				if ev.Side != nil && ev.Side.B != nil {
					srefs[ev.Key] = rcorpus.NewRef(ev.Side.Bytes(), nil)
					for _, k := range []string{"hard", "short", "zero"} {
						cv.side[k] = make([]bool, srefs[ev.Key].L()+1)
					}
					res.sumLs += int64(srefs[ev.Key].L())
				}
				covs[ev.Key] = cv
				res.sumL += int64(L)
			}
			return
		case "pool":
			res.pool = ev.Pool
			return
		}
		comp, ok := byKey[ev.Key]
		ref := refs[ev.Key]
		if !ok || ref == nil {
			res.inconclusive = append(res.inconclusive, "event for unknown component "+ev.Key)
			return
		}
		typ := ev.Ev
		if ev.Ev == "wf" {
			typ = ev.Kind
		} else if ev.Ev == "sf" {
			typ = ev.Kind + "@side"
		}
		sref := srefs[ev.Key]
		var oref *rcorpus.Ref
		if o := others[ev.Key]; o != nil {
			oref = refs[o.Key]
		}
		c.Eval(1)
		cv := covs[ev.Key]
		switch ev.Ev {
		case "wf":
			res.faultPoints++
			if ev.K >= 0 && ev.K <= ref.L() {
				if cv.seen[typ][ev.K] {
					res.inconclusive = append(res.inconclusive, fmt.Sprintf("offset %d of %s reported twice", ev.K, ev.Key))
				}
				cv.seen[typ][ev.K] = true
			}
			if ev.Out != nil && ev.Out.Fired {
				res.fired++
			}
			if ev.K < ref.L() {
				c.NontrivialN(1)
			}
			if comp.Unbuffered && typ != "hard" && ev.Out != nil && ev.Out.Err == nil && !ref.IsWhole(ev.Out) {
				res.lenientShortNil++
			}
			if typ != "hard" && ev.Out != nil && ev.Out.Fired && ev.Out.Err == nil && ref.IsWhole(ev.Out) {
				res.recoveredShort++
			}
		case "sf":
			res.sidePoints++
			if sref != nil && ev.K >= 0 && ev.K <= sref.L() && cv.side[ev.Kind] != nil {
				cv.side[ev.Kind][ev.K] = true
			}
			if ev.Side != nil && ev.Side.Fired {
				res.sideFired++
				c.NontrivialN(1)
			}
		case "xf":
			res.xf++
			cv.xf[ev.Fail] = true
			res.positions[sitePos(b.Sites, ev.Site)]++
			c.NontrivialN(1)
		case "ic":
			res.ic++
			c.NontrivialN(1)
		case "mc":
			res.mc++
		case "cc":
			res.cc++
			if comp.Unbuffered && ev.Out != nil && ev.Out.Err == nil {
				res.lenientCtx++
			}
		case "fe":
			res.fe++
			if ev.Flush > 0 {
				res.feCalled++
			}
		}
		for _, r := range ev.Inner {
			if r.Done != "" {
				res.innerEnded++
			}
		}
		if ev.C1 != nil {
			res.carry++
		}
		if ev.C2 != nil {
			res.carry++
		}
		for _, f := range judge(typ, ev, comp, ref, oref, sref, b.Sites) {
			cs := Case{BufSize: bufsize, Type: typ, K: ev.K, Fail: ev.Fail, Site: ev.Site, Comp: *comp, Other: others[ev.Key],
				Rule: f.rule, Detail: f.detail, L: ref.L()}
			res.viols = append(res.viols, viol{cs})
		}
		if ev.Ev == "wf" && ev.Out.Fired && ref.L() > 40 && ref.L() < 800 && ev.K == ref.L()/2 && !res.sampled[typ] && len(res.samples) < 3 {
			res.sampled[typ] = true
			res.samples = append(res.samples, map[string]any{"component": ev.Key, "bufsize": bufsize, "fault": typ, "offset": ev.K,
				"doc_len": ref.L(), "received": ev.Out.N, "write_calls": ev.Out.Calls, "err": errText(ev.Out.Err)})
		}
		if len(res.samples) < 5 && ev.Ev == "xf" && ev.Out.Err != nil && ev.Out.Err.AsTempl && (ev.Site == "t3" || ev.Site == "x2") {
			res.samples = append(res.samples, map[string]any{"component": ev.Key, "bufsize": bufsize, "failing_site": ev.Site, "err": ev.Out.Err.Msg,
				"templ_error_file": ev.Out.Err.File, "templ_error_line": ev.Out.Err.Line, "received": ev.Out.N, "doc_len": ref.L()})
		}
	})
	// the run itself
	stderr := strings.TrimSpace(string(run.Stderr))
	switch {
	case run.TimedOut:
		res.inconclusive = append(res.inconclusive, fmt.Sprintf("driver (bufsize %d) exceeded the %v watchdog; last event: %s", bufsize, timeout, lastText(last)))
	case derr != nil:
		res.inconclusive = append(res.inconclusive, "driver log unreadable: "+derr.Error())
	case !ended && strings.Contains(stderr, "panic:"):
		// a panic inside Render under a fault is not fail-stop behaviour
		line := stderr[strings.Index(stderr, "panic:"):]
		if i := strings.IndexByte(line, '\n'); i > 0 {
			line = line[:i]
		}
		cs := Case{BufSize: bufsize, Type: "panic", Rule: "panic", Detail: "driver died: " + line + "; last event: " + lastText(last)}
		if last != nil {
			if cp, ok := byKey[last.Key]; ok {
				cs.Comp = *cp
			}
		}
		res.viols = append(res.viols, viol{cs})
	case !ended:
		res.inconclusive = append(res.inconclusive, fmt.Sprintf("driver ended early (exit %d): %s", run.ExitCode, corpus.Tail(stderr, 400)))
	}
	// completeness of the enumeration: every offset 0..L × kind, every traced id
	if ended {
		for _, key := range rcorpus.SortedKeys(byKey) {
			cv, ref := covs[key], refs[key]
			if cv == nil || ref == nil {
				res.inconclusive = append(res.inconclusive, "no reference render for "+key)
				continue
			}
			ok := true
			for _, k := range []string{"hard", "short", "zero"} {
				for _, s := range cv.seen[k] {
					ok = ok && s
				}
				for _, s := range cv.side[k] {
					ok = ok && s
				}
			}
			ids, _ := ref.TraceIDs()
			for _, id := range ids {
				ok = ok && cv.xf[id]
			}
			if !ok || len(cv.xf) != len(ids) {
				res.inconclusive = append(res.inconclusive, "enumeration incomplete for "+key)
				continue
			}
			res.complete++
		}
	}
	res.comps = len(covs)
	return res
}

func sitePos(sites map[string]rcorpus.Site, name string) string {
	if s, ok := sites[name]; ok {
		if s.Expr {
			return s.Position
		}
		return "component"
	}
	return "unknown"
}

func lastText(ev *rcorpus.Event) string {
	if ev == nil {
		return "none"
	}
	return fmt.Sprintf("%s %s %s k=%d fail=%s", ev.Ev, ev.Key, ev.Kind, ev.K, ev.Fail)
}

func bufSizes(c *core.Ctx) []int {
	if c.Quick() {
		return []int{8, 64, 4096}
	}
	return []int{1, 8, 13, 64, 1000, 4096, 65536}
}

func components(c *core.Ctx) []rcorpus.Comp {
	comps := rcorpus.StaticComps()
	return append(comps, rcorpus.RandomTrees(c.Rand("trees"), c.Pick(190, 2500), 14)...)
}

func Run(c *core.Ctx) {
	c.Level = "fault_enumeration"
	c.Rule = "cases = (component, buffer size, single fault): writer fault at EVERY offset k in 0..|D| × {hard error with partial write, short write, zero write}, " +
		"every failable expression / nested component / child block reached by the fault-free render (failing, and cancelling the context there), " +
		"context cancelled before start, a hand-written middle component handing its inner generated component the parent's buffer with an already ended context (every middle site), failing writer.Flush(), and for components whose code component renders its child block into a side writer: faults of THAT writer at every offset of the block; " +
		"each followed by carry-over renders (same component into the same writer object, another component into a new writer). " +
		"Plus writer-kind sequences: one goroutine, long-lived writer objects of 9 kinds (caller-owned bufio.Writer 16/4096/8192, bytes.Buffer, strings.Builder, Write-only, StringWriter, func-typed, ResponseWriter-like), interleaved and repeated, pools drained at some steps; every sink must hold exactly the documents rendered into it. Components: hand-written template set (src/*.templ) + seeded random trees for the Interp template. " +
		"non-trivial = writer-fault triples with k < |D| (the fault really fires) + failing-site cases."
	c.Assume("D is the output of the fault-free render of the same component in the same driver process (its HTML correctness is C02's business)")
	c.Assume("a faulty writer misbehaves in exactly one Write call (single fault) and accepts everything afterwards")
	c.Assume("received bytes are compared through FNV-1a-64 of every prefix of D (full bytes on replay)")
	b := rcorpus.Build(c, "c10", false)
	defer b.Pkg.Close()

	if c.ReplayFile != "" {
		var cs Case
		c.LoadReplay(&cs)
		replay(c, b, cs)
		return
	}

	comps := components(c)
	all := map[string]rcorpus.Comp{}
	for _, cp := range comps {
		all[cp.Key] = cp
	}
	// long documents first, then round-robin into shards (one process each)
	weight := func(cp rcorpus.Comp) int {
		switch {
		case strings.HasPrefix(cp.Name, "Long"):
			return 3
		case cp.Name == "Funcy" || cp.Name == "BareJoin" || cp.Name == "BareFlush" || cp.Name == "Page":
			return 2
		}
		return 1
	}
	sort.SliceStable(comps, func(i, j int) bool { return weight(comps[i]) > weight(comps[j]) })
	sizes := bufSizes(c)
	nshard := c.Pick(5, 12)
	type task struct {
		bufsize int
		comps   []rcorpus.Comp
		seq     []rcorpus.Job // writer-kind sequences: a process of their own
	}
	var tasks []task
	for _, bs := range sizes {
		tasks = append(tasks, task{bufsize: bs, seq: seqJobs(c.Rand(fmt.Sprintf("seq/%d", bs)), all, c.Pick(60, 1500))})
		sh := make([][]rcorpus.Comp, nshard)
		for i, cp := range comps {
			sh[i%nshard] = append(sh[i%nshard], cp)
		}
		for _, s := range sh {
			tasks = append(tasks, task{bufsize: bs, comps: s})
		}
	}
	results := make([]*shardResult, len(tasks))
	sem := make(chan struct{}, 15)
	var wg sync.WaitGroup
	for i := range tasks {
		wg.Add(1)
		go func(i int) {
			defer wg.Done()
			sem <- struct{}{}
			defer func() { <-sem }()
			if tasks[i].seq != nil {
				results[i] = runSeqProc(c, b, tasks[i].bufsize, tasks[i].seq)
				return
			}
			results[i] = runShard(c, b, tasks[i].bufsize, tasks[i].comps, all)
		}(i)
	}
	wg.Wait()

	// evidence + verdicts
	perSize := map[int]*struct{ points, fired, sumL, comps, complete int64 }{}
	var viols []viol
	positions := map[string]int{}
	seqKinds := map[string]int{}
	var gets, puts, recycled, notReturned int64
	allComplete := true
	for _, r := range results {
		ps := perSize[r.bufsize]
		if ps == nil {
			ps = &struct{ points, fired, sumL, comps, complete int64 }{}
			perSize[r.bufsize] = ps
		}
		ps.points += r.faultPoints
		ps.fired += r.fired
		ps.sumL += r.sumL
		ps.comps += int64(r.comps)
		ps.complete += int64(r.complete)
		if r.complete != r.expected {
			allComplete = false
		}
		c.Add("side_writer_fault_points", int(r.sidePoints))
		c.Add("side_writer_faults_fired", int(r.sideFired))
		c.Add("side_writer_sum_block_len", int(r.sumLs))
		c.Add("writer_kind_sequences", r.seqs)
		c.Add("writer_kind_sequence_steps", r.seqSteps)
		c.Add("writer_kind_sequence_steps_with_fault", r.seqFaults)
		c.Add("writer_kind_sequence_pool_drains", r.seqGC)
		for k, v := range r.seqKinds {
			seqKinds[k] += v
		}
		if r.seqs > 0 && r.pool != nil {
			c.Add("writer_kind_sequences_distinct_pooled_buffers", r.pool.Distinct)
		}
		c.Add("inner_cancel_cases", int(r.ic))
		c.Add("inner_render_calls_given_an_ended_context_and_the_parent_buffer", int(r.innerEnded))
		c.Add("failing_site_cases", int(r.xf))
		c.Add("mid_render_cancel_cases", int(r.mc))
		c.Add("cancelled_before_start_cases", int(r.cc))
		c.Add("flush_error_cases", int(r.fe))
		c.Add("flush_error_cases_where_writer_flush_was_called", int(r.feCalled))
		c.Add("carry_over_renders", int(r.carry))
		c.Add("short_or_zero_write_recovered_by_bufio_retry", int(r.recoveredShort))
		c.Add("unbuffered_root_short_write_returned_nil_not_judged", int(r.lenientShortNil))
		c.Add("unbuffered_root_cancelled_ctx_returned_nil_not_judged", int(r.lenientCtx))
		c.Add("http_flusher_calls_seen_in_reference_renders", r.flushSeen)
		for k, v := range r.positions {
			positions[k] += v
		}
		for _, s := range r.inconclusive {
			c.Inconclusive(s)
		}
		for _, s := range r.samples {
			c.Sample(s)
		}
		viols = append(viols, r.viols...)
		// pool monitor (hook H2) at quiescence
		if r.pool == nil {
			if len(r.inconclusive) == 0 {
				c.Inconclusive(fmt.Sprintf("no pool report from driver (bufsize %d)", r.bufsize))
			}
			continue
		}
		gets += r.pool.Gets
		puts += r.pool.Puts
		recycled += r.pool.Recycled
		c.Eval(1)
		// Pool monitor rule: a buffer is never handed out while it is live and never released
		// twice. A buffer that is never released (e.g. dropped after a failed flush) is not a
		// violation of C10: gets - puts is reported as evidence only.
		notReturned += r.pool.Gets - r.pool.Puts
		if len(r.pool.Anomalies) > 0 {
			viols = append(viols, viol{Case{BufSize: r.bufsize, Type: "pool", Rule: "pool",
				Detail: fmt.Sprintf("buffer pool monitor: gets=%d puts=%d live=%d anomalies=%v", r.pool.Gets, r.pool.Puts, r.pool.Live, r.pool.Anomalies)}})
		}
	}
	fp := map[string]any{}
	for _, bs := range sizes {
		ps := perSize[bs]
		if ps == nil {
			continue
		}
		fp[fmt.Sprint(bs)] = map[string]any{"components": ps.comps, "components_fully_enumerated": ps.complete, "sum_doc_len": ps.sumL,
			"fault_points": ps.points, "expected_fault_points_3x_sum_L_plus_1": 3 * (ps.sumL + ps.comps), "faults_fired": ps.fired}
		if ps.points != 3*(ps.sumL+ps.comps) {
			allComplete = false
		}
	}
	c.Set("components", len(comps))
	c.Set("buffer_sizes", sizes)
	c.Set("per_buffer_size", fp)
	c.Set("failing_sites_by_position", positions)
	c.Set("writer_objects_in_sequences_by_kind", seqKinds)
	for _, k := range rcorpus.WriterKinds {
		if seqKinds[k] == 0 {
			c.Inconclusive("writer kind " + k + " was never used in a sequence")
		}
	}
	if c.Get("inner_render_calls_given_an_ended_context_and_the_parent_buffer") == 0 {
		c.Inconclusive("no inner Render call with an ended context and the parent's buffer was observed")
	}
	if c.Get("side_writer_faults_fired") == 0 {
		c.Inconclusive("no side-writer fault was exercised")
	}
	c.Set("pool_hook_gets", gets)
	c.Set("pool_hook_puts", puts)
	c.Set("pool_hook_recycled_gets", recycled)
	c.Set("pool_hook_buffers_never_released_not_judged", notReturned)
	c.Set("exhaustive", allComplete)
	c.Set("exhaustive_scope", "writer-fault offset dimension only: every k in 0..|D| × 3 fault kinds, per component and buffer size (verified from the log); components and buffer sizes are samples")
	if gets == 0 || recycled == 0 {
		c.Inconclusive("pool hook H2 saw no recycled buffer: carry-over through the pool was not exercised")
	}
	for _, pos := range []string{"text", "attribute", "style", "script", "component"} {
		if positions[pos] == 0 {
			c.Inconclusive("no failing site of position kind " + pos + " was exercised")
		}
	}
	report(c, viols)
}

// report reduces the violations to one canonical witness per (rule, fault
// type): the smallest document, then component key, buffer size and offset.
func report(c *core.Ctx, viols []viol) {
	groups := map[string][]viol{}
	for _, v := range viols {
		g := v.cs.Rule + "/" + v.cs.Type
		groups[g] = append(groups[g], v)
	}
	for _, g := range rcorpus.SortedKeys(groups) {
		vs := groups[g]
		sort.SliceStable(vs, func(i, j int) bool {
			a, b := vs[i].cs, vs[j].cs
			if a.L != b.L {
				return a.L < b.L
			}
			if a.Comp.Key != b.Comp.Key {
				return a.Comp.Key < b.Comp.Key
			}
			if a.BufSize != b.BufSize {
				return a.BufSize < b.BufSize
			}
			if a.K != b.K {
				return a.K < b.K
			}
			return a.Fail < b.Fail
		})
		w := vs[0].cs
		affected := map[string]bool{}
		for _, v := range vs {
			affected[v.cs.Comp.Key] = true
		}
		key := fmt.Sprintf("%s %s comp=%s buf=%d k=%d fail=%s", w.Rule, w.Type, w.Comp.Key, w.BufSize, w.K, w.Fail)
		c.Violate(key, fmt.Sprintf("[%s] component %s, DefaultBufferSize %d, fault %s k=%d fail=%q: %s (%d cases in %d components break this rule)",
			w.Rule, w.Comp.Key, w.BufSize, w.Type, w.K, w.Fail, w.Detail, len(vs), len(affected)), w)
	}
}

// replay re-runs exactly one stored case with full bytes logged.
func replay(c *core.Ctx, b *rcorpus.Built, cs Case) {
	if cs.Type == "pool" || cs.Type == "panic" {
		core.Infra("replay of %q cases needs the whole workload: run ./check C10 %s with VERIF_SEED=%d", cs.Type, c.Tier, c.Seed)
	}
	if cs.Type == "seq" {
		r := runSeqProc(c, b, cs.BufSize, []rcorpus.Job{*cs.Seq})
		for _, s := range r.inconclusive {
			c.Inconclusive(s)
		}
		c.NontrivialN(2)
		report(c, r.viols)
		return
	}
	kind := cs.Type
	jobs := []rcorpus.Job{{Op: "config", BufSize: cs.BufSize, Hook: true},
		{Op: "one", Comp: &cs.Comp, Other: cs.Other, Kind: kind, K: cs.K, Fail: cs.Fail}, {Op: "pool"}}
	run := corpus.Run(b.Bin, nil, rcorpus.Encode(jobs), nil, b.Pkg.Dir, 5*time.Minute)
	refs := map[string]*rcorpus.Ref{}
	srefs := map[string]*rcorpus.Ref{}
	var viols []viol
	_, err := rcorpus.Decode(run.Stdout, func(ev *rcorpus.Event) {
		switch ev.Ev {
		case "ref":
			refs[ev.Key] = rcorpus.NewRef(ev.Out.Bytes(), ev.Trace)
			if ev.Side != nil {
				srefs[ev.Key] = rcorpus.NewRef(ev.Side.Bytes(), nil)
			}
		case "one":
			ev.Site = cs.Site
			var oref *rcorpus.Ref
			if cs.Other != nil {
				oref = refs[cs.Other.Key]
			}
			c.Eval(1)
			c.NontrivialN(2)
			ref := refs[ev.Key]
			fmt.Printf("replay: D=%q\n        received=%q err=%v\n", ref.D, ev.Out.Bytes(), errText(ev.Out.Err))
			if ev.Side != nil && srefs[ev.Key] != nil {
				fmt.Printf("        side Ds=%q\n        side received=%q\n", srefs[ev.Key].D, ev.Side.Bytes())
			}
			for _, f := range judge(kind, ev, &cs.Comp, ref, oref, srefs[ev.Key], b.Sites) {
				n := cs
				n.Rule, n.Detail, n.L = f.rule, f.detail, ref.L()
				viols = append(viols, viol{n})
			}
		}
	})
	if err != nil || run.TimedOut {
		c.Inconclusive(fmt.Sprintf("replay driver failed: %v %s", err, corpus.Tail(string(run.Stderr), 300)))
	}
	report(c, viols)
}
