package c20

import (
	"bytes"
	"compress/gzip"
	"compress/lzw"
	"compress/zlib"
	"fmt"
	"math/rand"
	"strings"

	"github.com/andybalholm/brotli"
)

// ---------------------------------------------------------------- documents

// DocSpec names a document reproducibly: a fixed document by name, a generated
// one by (seed, target size), or - after reduction - its literal text.
type DocSpec struct {
	Name   string  `json:",omitempty"`
	Seed   int64   `json:",omitempty"`
	Size   int     `json:",omitempty"`
	Inline *string `json:",omitempty"`
}

func (d DocSpec) label() string {
	switch {
	case d.Inline != nil:
		if len(*d.Inline) <= 240 {
			return fmt.Sprintf("%q", *d.Inline)
		}
		return fmt.Sprintf("inline(%d bytes)", len(*d.Inline))
	case d.Name != "":
		return d.Name
	}
	return fmt.Sprintf("gen(seed=%d,size=%d)", d.Seed, d.Size)
}

// fixedDocs: well-formed HTML documents in the spellings the HTML standard
// allows (optional tags omitted, attribute quoting styles, character
// references, raw-text elements holding "</body>", non-ASCII text).
// Ordered from simplest to richest; the reducer tries them in this order.
var fixedDocs = []struct{ Name, Text string }{
	{"empty", ""},
	{"minimal", "<html><head></head><body></body></html>"},
	{"fragment-text", "hello"},
	{"fragment-div", "<div>fragment without body</div>"},
	{"simple", "<!DOCTYPE html><html><head><title>t</title></head><body><p>Hello</p></body></html>"},
	{"simple-newlines", "<!DOCTYPE html>\n<html>\n<head>\n<title>t</title>\n</head>\n<body>\n<p>Hello</p>\n</body>\n</html>\n"},
	{"no-doctype-quirks", "<html><head><title>q</title></head><body><p>a<table><tr><td>in quirks mode the table stays inside p</td></tr></table></p></body></html>"},
	{"optional-tags-omitted", "<!DOCTYPE html><title>t</title><p>one<p>two<ul><li>a<li>b</ul><table><tr><td>x<td>y<tr><td>z</table>"},
	{"body-attrs", "<!DOCTYPE html><html lang=\"en\"><head><meta charset=\"utf-8\"></head><body class=\"a b\" data-x='1' onload=\"init(&quot;x&quot;)\"><main id=m>content</main></body></html>"},
	{"head-scripts", "<!DOCTYPE html><html><head><script src=\"/a.js\" defer></script><script>var s = \"</body></html>\"; if (1 < 2 && 3 > 2) { document.title = '<b>'; }</script><style>body > p::before { content: \"</body>\"; }</style></head><body><p>x</p></body></html>"},
	{"body-scripts", "<!DOCTYPE html><html><head></head><body><p>before</p><script>document.write('<\\/body>'); var t = \"</body>\"; var c = '<!-- not a comment -->';</script><p>after</p><script type=\"module\" nonce=\"pagenonce\">import \"/x.js\";</script></body></html>"},
	{"comments", "<!-- before doctype --><!DOCTYPE html><!-- after doctype --><html><!-- in html --><head><!-- in head --></head><body><!-- in body --><p>x</p><!-- </body> --></body><!-- after body --></html><!-- after html -->"},
	{"entities", "<!DOCTYPE html><html><head><title>a &amp; b &lt; c</title></head><body><p title=\"&quot;q&quot; &amp; &lt;&gt;\">&amp; &lt; &gt; &quot; &#39; &nbsp; &copy; &#233; &#x1F600; &amp;amp; 5 &gt; 3</p><a href=\"/x?a=1&amp;b=2\">l</a></body></html>"},
	{"non-ascii", "<!DOCTYPE html><html lang=\"ja\"><head><meta charset=\"utf-8\"><title>日本語のタイトル</title></head><body><p class=\"größe\">Grüße, мир, 世界, 😀, café, naïve, ‮rtl</p><p title=\"ünïcödé\">  </p></body></html>"},
	{"pre-textarea", "<!DOCTYPE html><html><head></head><body><pre>\n\nleading newlines</pre><textarea name=t>\n<b>not bold</b> &amp; </textarea><pre>x\ny</pre><listing>\nold</listing></body></html>"},
	{"tables-forms", "<!DOCTYPE html><html><head></head><body><form action=\"/p\" method=post><table><caption>c</caption><thead><tr><th>h</th></tr></thead><tbody><tr><td><input type=text name=a value=\"v\" disabled><select name=s><option value=1 selected>one</option><option>two</option></select></td></tr></tbody><tfoot><tr><td>f</td></tr></tfoot></table><button type=submit>go</button></form></body></html>"},
	{"svg-math", "<!DOCTYPE html><html><head></head><body><svg viewBox=\"0 0 10 10\" xmlns=\"http://www.w3.org/2000/svg\"><g fill=\"none\"><circle cx=\"5\" cy=\"5\" r=\"4\"/><path d=\"M0 0L10 10\"></path><text x=\"1\" y=\"2\">svg &amp; text</text></g></svg><math><mi>x</mi><mo>=</mo><mn>1</mn></math><p>after</p></body></html>"},
	{"template-noscript", "<!DOCTYPE html><html><head><noscript><link rel=stylesheet href=/n.css></noscript></head><body><template id=t><tr><td>cell</td></tr></template><noscript><img src=\"/pixel.gif\" alt=\"\"></noscript><details open><summary>s</summary><p>d</p></details></body></html>"},
	{"uppercase-tags", "<!DOCTYPE HTML><HTML><HEAD><TITLE>T</TITLE></HEAD><BODY BGCOLOR=white><DIV CLASS=X>Upper</DIV><BR><IMG SRC=a.png ALT=a></BODY></HTML>"},
	{"void-selfclosing", "<!DOCTYPE html><html><head><meta charset=\"utf-8\"/><link rel=\"icon\" href=\"/f.ico\"/></head><body><br/><hr/><img src=\"a.png\" alt=\"\"/><input type=\"checkbox\" checked/><p>x<wbr/>y</p></body></html>"},
	{"trailing-text-after-body", "<!DOCTYPE html><html><head></head><body><p>x</p></body></html>\n\n<!-- trailing comment -->\n"},
	{"existing-end-script", "<!DOCTYPE html><html><head></head><body><div id=app></div><script src=\"/app.js\"></script><script>window.app.start()</script></body></html>"},
	{"htmx-like", "<!DOCTYPE html><html><head><script src=\"https://unpkg.com/htmx.org\"></script></head><body hx-boost=\"true\"><button hx-get=\"/clicked\" hx-swap=\"outerHTML\" hx-vals='{\"a\":\"</body>\"}'>Click</button></body></html>"},
	{"legacy-doctype", "<!DOCTYPE HTML PUBLIC \"-//W3C//DTD HTML 4.01//EN\" \"http://www.w3.org/TR/html4/strict.dtd\"><html><head><title>l</title></head><body><p>legacy</p></body></html>"},
	{"crlf-newlines", "<!DOCTYPE html>\r\n<html>\r\n<head><title>t</title></head>\r\n<body>\r\n<pre>a\r\nb</pre>\r\n</body>\r\n</html>\r\n"},
	{"latin1-bytes", "<!DOCTYPE html><html><head><title>t</title></head><body><p title=\"gr\xf6\xdfe\">caf\xe9 na\xefve \xfc\xff</p></body></html>"},
	{"iframe-inline", "<!DOCTYPE html><html><head></head><body><iframe src=\"/f\" title=f></iframe><p><a href=\"#\"><b><i>nested</i> inline</b></a> <code>x &lt; y</code></p></body></html>"},
	// A leading UTF-8 byte order mark belongs to the encoding layer (see rule M3).
	{"utf8-bom-only", "\xef\xbb\xbf"},
	{"utf8-bom", "\xef\xbb\xbf<!DOCTYPE html><html><head><title>t</title></head><body><p>x</p></body></html>"},
}

// specialDocs are documents outside the plain "has a body, UTF-8" class; the
// oracle treats them by their own stated rule (see judgeModified).
var specialDocs = []struct{ Name, Text string }{
	// no body element exists in the DOM of a frameset document: nothing to append to
	{"frameset", "<!DOCTYPE html><html><head><title>f</title></head><frameset cols=\"50%,50%\"><frame src=\"/a\"><frame src=\"/b\"></frameset></html>"},
}

func fixedDoc(name string) (string, bool) {
	for _, d := range fixedDocs {
		if d.Name == name {
			return d.Text, true
		}
	}
	for _, d := range specialDocs {
		if d.Name == name {
			return d.Text, true
		}
	}
	if strings.HasPrefix(name, "big-") {
		var n int
		if _, err := fmt.Sscanf(name, "big-%d", &n); err == nil {
			return bigDoc(n), true
		}
	}
	return "", false
}

// bigDoc is a regular document of about n bytes (non-ASCII rows, scripts).
func bigDoc(n int) string {
	var sb strings.Builder
	sb.WriteString("<!DOCTYPE html><html><head><meta charset=\"utf-8\"><title>big</title><script>var end = \"</body>\";</script></head><body><table><tbody>")
	for i := 0; sb.Len() < n-200; i++ {
		fmt.Fprintf(&sb, "<tr id=\"r%d\"><td>%d</td><td class=\"c&amp;d\">row %d — größe 世界 &lt;tag&gt; &amp; more text to fill the line with some compressible content</td></tr>\n", i, i, i)
	}
	sb.WriteString("</tbody></table><script>console.log('</body>')</script></body></html>\n")
	return sb.String()
}

// ---- generated documents: a small tree model, printed canonically

type node struct {
	Kind  byte // 'e' element, 't' text, 'c' comment, 'r' element with raw text content
	Tag   string
	Attrs [][2]string
	Text  string
	Kids  []*node
}

var voidTags = map[string]bool{"br": true, "hr": true, "img": true, "input": true, "meta": true, "link": true, "wbr": true}

func escText(s string) string {
	return strings.NewReplacer("&", "&amp;", "<", "&lt;", ">", "&gt;").Replace(s)
}
func escAttr(s string) string {
	return strings.NewReplacer("&", "&amp;", "\"", "&quot;").Replace(s)
}

func (n *node) print(sb *strings.Builder) {
	switch n.Kind {
	case 't':
		sb.WriteString(escText(n.Text))
		return
	case 'c':
		sb.WriteString("<!--" + n.Text + "-->")
		return
	}
	sb.WriteString("<" + n.Tag)
	for _, a := range n.Attrs {
		sb.WriteString(" " + a[0] + "=\"" + escAttr(a[1]) + "\"")
	}
	sb.WriteString(">")
	if voidTags[n.Tag] {
		return
	}
	if n.Kind == 'r' {
		sb.WriteString(n.Text)
	}
	for _, k := range n.Kids {
		k.print(sb)
	}
	sb.WriteString("</" + n.Tag + ">")
}

type genDoc struct {
	Doctype string
	Root    *node // html
}

func (g *genDoc) String() string {
	var sb strings.Builder
	sb.WriteString(g.Doctype)
	g.Root.print(&sb)
	return sb.String()
}

var (
	textPool = []string{"hello", " ", "a & b", "1 < 2 > 0", "\"quoted\" 'single'", "naïve café", "日本語", "😀 emoji", "\n  ", "line\nbreak", "tab\there",
		"</body> as text", "&amp; literal", "x", "Lorem ipsum dolor sit amet, consectetur adipiscing elit.", " nbsp", "мир", "a<b>c", "--", "<!-- text -->"}
	scriptPool = []string{"", "var s = \"</body>\";", "if (a < b && c > d) { x = '</html>'; }", "document.write('<scr' + 'ipt>');", "var c = '<!-- c -->';",
		"console.log(`</body>\n</html>`)", "/* </body> */ let é = \"ü\";"}
	stylePool   = []string{"", "body > p { color: red }", "p::after { content: \"</body>\" }", "a[href^=\"/x?a=1&b=2\"] { }", "/* <b> */ .größe { }"}
	commentPool = []string{"", " c ", " </body> ", " <script> ", "x-y", " ünï "}
	attrPool    = [][2]string{{"class", "a b"}, {"id", "i1"}, {"title", "\"q\" & <t>"}, {"data-x", "</body>"}, {"lang", "de"}, {"title", "größe 世界"},
		{"hidden", ""}, {"style", "color: red; background: url('x.png')"}, {"data-json", "{\"a\":[1,2],\"b\":\"c\"}"}, {"aria-label", "x\ny"}, {"onclick", "f('a', \"b\")"}}
	inlineTags = []string{"span", "b", "i", "em", "strong", "code", "small", "label", "abbr"}
	blockTags  = []string{"div", "section", "article", "blockquote", "main", "aside", "header", "footer", "nav"}
)

type gen struct {
	r      *rand.Rand
	budget int
}

func (g *gen) pick(p []string) string { return p[g.r.Intn(len(p))] }

func (g *gen) attrs() [][2]string {
	var out [][2]string
	seen := map[string]bool{}
	for n := g.r.Intn(3); n > 0; n-- {
		a := attrPool[g.r.Intn(len(attrPool))]
		if !seen[a[0]] {
			seen[a[0]] = true
			out = append(out, a)
		}
	}
	return out
}

func (g *gen) text() *node { g.budget--; return &node{Kind: 't', Text: g.pick(textPool)} }

func (g *gen) phrasing(depth int, inA bool) []*node {
	var out []*node
	for n := 1 + g.r.Intn(4); n > 0 && g.budget > 0; n-- {
		g.budget--
		switch k := g.r.Intn(10); {
		case k < 4 || depth <= 0:
			out = append(out, g.text())
		case k < 7:
			out = append(out, &node{Kind: 'e', Tag: g.pick(inlineTags), Attrs: g.attrs(), Kids: g.phrasing(depth-1, inA)})
		case k == 7 && !inA:
			out = append(out, &node{Kind: 'e', Tag: "a", Attrs: [][2]string{{"href", "/p?a=1&b=" + g.pick([]string{"2", "ü", "</body>"})}}, Kids: g.phrasing(depth-1, true)})
		case k == 8:
			out = append(out, &node{Kind: 'e', Tag: g.pick([]string{"br", "wbr", "img", "input"}), Attrs: g.attrs()})
		default:
			out = append(out, &node{Kind: 'c', Text: g.pick(commentPool)})
		}
	}
	return out
}

func (g *gen) flow(depth int) []*node {
	var out []*node
	for n := 1 + g.r.Intn(5); n > 0 && g.budget > 0; n-- {
		g.budget--
		if depth <= 0 {
			out = append(out, &node{Kind: 'e', Tag: "p", Kids: g.phrasing(1, false)})
			continue
		}
		switch g.r.Intn(16) {
		case 0, 1, 2:
			out = append(out, &node{Kind: 'e', Tag: g.pick(blockTags), Attrs: g.attrs(), Kids: g.flow(depth - 1)})
		case 3, 4:
			out = append(out, &node{Kind: 'e', Tag: g.pick([]string{"p", "h1", "h2", "h3"}), Attrs: g.attrs(), Kids: g.phrasing(2, false)})
		case 5:
			ul := &node{Kind: 'e', Tag: g.pick([]string{"ul", "ol"})}
			for i := 1 + g.r.Intn(3); i > 0; i-- {
				ul.Kids = append(ul.Kids, &node{Kind: 'e', Tag: "li", Kids: g.flow(depth - 1)})
			}
			out = append(out, ul)
		case 6:
			tb := &node{Kind: 'e', Tag: "tbody"}
			for i := 1 + g.r.Intn(3); i > 0; i-- {
				tr := &node{Kind: 'e', Tag: "tr"}
				for j := 1 + g.r.Intn(3); j > 0; j-- {
					tr.Kids = append(tr.Kids, &node{Kind: 'e', Tag: "td", Attrs: g.attrs(), Kids: g.flow(depth - 2)})
				}
				tb.Kids = append(tb.Kids, tr)
			}
			out = append(out, &node{Kind: 'e', Tag: "table", Kids: []*node{tb}})
		case 7:
			out = append(out, &node{Kind: 'e', Tag: "pre", Kids: []*node{{Kind: 't', Text: g.pick([]string{"\n", "\n\n", ""}) + g.pick(textPool)}}})
		case 8:
			out = append(out, &node{Kind: 'e', Tag: "textarea", Attrs: [][2]string{{"name", "t"}}, Kids: []*node{{Kind: 't', Text: g.pick([]string{"\n", ""}) + g.pick(textPool)}}})
		case 9:
			out = append(out, &node{Kind: 'r', Tag: "script", Attrs: g.scriptAttrs(), Text: g.pick(scriptPool)})
		case 10:
			out = append(out, &node{Kind: 'r', Tag: "style", Text: g.pick(stylePool)})
		case 11:
			out = append(out, &node{Kind: 'c', Text: g.pick(commentPool)})
		case 12:
			out = append(out, g.text())
		case 13:
			out = append(out, &node{Kind: 'e', Tag: "hr"})
		case 14:
			out = append(out, &node{Kind: 'e', Tag: "svg", Attrs: [][2]string{{"viewBox", "0 0 10 10"}}, Kids: []*node{
				{Kind: 'e', Tag: "g", Attrs: [][2]string{{"fill", "none"}}, Kids: []*node{{Kind: 'e', Tag: "circle", Attrs: [][2]string{{"cx", "5"}, {"r", "4"}}}}},
				{Kind: 'e', Tag: "path", Attrs: [][2]string{{"d", "M0 0L1 1"}}}}})
		default:
			out = append(out, &node{Kind: 'e', Tag: "details", Kids: append([]*node{{Kind: 'e', Tag: "summary", Kids: g.phrasing(1, false)}}, g.flow(depth-1)...)})
		}
	}
	return out
}

func (g *gen) scriptAttrs() [][2]string {
	switch g.r.Intn(4) {
	case 0:
		return [][2]string{{"type", "module"}}
	case 1:
		return [][2]string{{"nonce", "pagenonce"}}
	}
	return nil
}

// generate builds a well-formed document of roughly size bytes.
func generate(seed int64, size int) *genDoc {
	g := &gen{r: rand.New(rand.NewSource(seed))}
	head := &node{Kind: 'e', Tag: "head"}
	if g.r.Intn(4) > 0 {
		head.Kids = append(head.Kids, &node{Kind: 'e', Tag: "meta", Attrs: [][2]string{{"charset", "utf-8"}}})
	}
	if g.r.Intn(3) > 0 {
		head.Kids = append(head.Kids, &node{Kind: 'e', Tag: "title", Kids: []*node{{Kind: 't', Text: g.pick(textPool)}}})
	}
	if g.r.Intn(2) == 0 {
		head.Kids = append(head.Kids, &node{Kind: 'r', Tag: "script", Attrs: g.scriptAttrs(), Text: g.pick(scriptPool)})
	}
	if g.r.Intn(2) == 0 {
		head.Kids = append(head.Kids, &node{Kind: 'r', Tag: "style", Text: g.pick(stylePool)})
	}
	if g.r.Intn(3) == 0 {
		head.Kids = append(head.Kids, &node{Kind: 'e', Tag: "link", Attrs: [][2]string{{"rel", "stylesheet"}, {"href", "/s.css?a=1&b=2"}}})
	}
	body := &node{Kind: 'e', Tag: "body", Attrs: g.attrs()}
	d := &genDoc{Doctype: g.pick([]string{"<!DOCTYPE html>", "<!DOCTYPE html>\n", "", "<!doctype html>"}),
		Root: &node{Kind: 'e', Tag: "html", Attrs: g.attrs(), Kids: []*node{head, body}}}
	for cur := 0; cur < size; {
		g.budget = 40
		kids := g.flow(3)
		body.Kids = append(body.Kids, kids...)
		var sb strings.Builder
		for _, k := range kids {
			k.print(&sb)
		}
		cur += sb.Len() + 1
	}
	return d
}

// ---------------------------------------------------------------- encodings

// encodings the backend may use. The first three are the ones the statement
// says the proxy understands; the rest are "not understood".
var encodings = []string{"", "gzip", "br", "zstd", "deflate", "compress", "gzip, br"}

func supportedEncoding(e string) bool { return e == "" || e == "gzip" || e == "br" }

func encode(enc string, p []byte) []byte {
	var b bytes.Buffer
	switch enc {
	case "":
		return p
	case "gzip":
		w := gzip.NewWriter(&b)
		_, _ = w.Write(p)
		_ = w.Close()
	case "br":
		w := brotli.NewWriterLevel(&b, 4)
		_, _ = w.Write(p)
		_ = w.Close()
	case "deflate": // RFC 9110: "deflate" = zlib format
		w := zlib.NewWriter(&b)
		_, _ = w.Write(p)
		_ = w.Close()
	case "compress": // LZW; opaque to the proxy and to this monitor
		w := lzw.NewWriter(&b, lzw.MSB, 8)
		_, _ = w.Write(p)
		_ = w.Close()
	case "zstd":
		// A valid Zstandard frame made of raw (stored) blocks: magic, frame
		// header descriptor 0 (window descriptor follows, no content size, no
		// checksum), window descriptor, then 3-byte block headers.
		b.Write([]byte{0x28, 0xB5, 0x2F, 0xFD, 0x00, 0x58})
		const maxBlock = 1 << 17
		for first := true; first || len(p) > 0; first = false {
			n := len(p)
			if n > maxBlock {
				n = maxBlock
			}
			h := uint32(n) << 3 // type 0 = raw
			if n == len(p) {
				h |= 1 // last block
			}
			b.Write([]byte{byte(h), byte(h >> 8), byte(h >> 16)})
			b.Write(p[:n])
			p = p[n:]
		}
	case "gzip, br":
		return encode("br", encode("gzip", p))
	default:
		panic("unknown encoding " + enc)
	}
	return b.Bytes()
}
