// Package c20 monitors property C20: the live-reload proxy alters HTML
// responses only by appending the reload script.
//
// Set-up: an in-process backend (httptest.Server) that serves exactly the
// configured bytes and headers, the real proxy handler (proxy.New) in front of
// it on a second httptest.Server, and an HTTP client without transparent
// compression and with an explicit Accept-Encoding. Every case is fetched
// twice - directly from the backend and through the proxy - and the two
// observations are compared.
//
// Oracle (trusted base):
//
//	modified class  = Content-Type starts with text/html, Content-Encoding is
//	                  absent, "gzip" or "br", the request has no HX-Request:
//	                  true, the backend did not mark the response
//	                  templ-skip-modify.
//	   M1 status and Content-Type equal the backend's;
//	   M2 the body decodes with the encoding the *response* names
//	      (absent, gzip, br); when a Content-Length header is present it equals
//	      the number of body bytes received;
//	   M3 parse the backend document and the decoded proxied document with
//	      golang.org/x/net/html. If the backend DOM has a body element: the
//	      proxied DOM holds exactly one <script src="/_templ/reload/script.js">,
//	      it is the last child of body, it has no attributes besides src and
//	      nonce; after removing it both DOMs render to identical text. If the
//	      backend DOM has no body element (frameset document) the DOMs must be
//	      identical and hold no reload script. One leading UTF-8 byte order
//	      mark is removed from either byte string before parsing: a browser's
//	      decoder consumes it, it is not part of the document.
//	   M4 nonce: N = nonces of the script-src directive of the response's
//	      Content-Security-Policy header (CSP3 grammar: directives separated by
//	      ';', case-insensitive directive names, first occurrence wins,
//	      'nonce-<base64>' sources). N empty -> the script has no nonce
//	      attribute; otherwise its nonce is a member of N.
//	pass-through class = everything else: status, body bytes, Content-Type,
//	   Content-Encoding and Content-Length identical to what the same client
//	   receives from the backend directly (when the backend sent no
//	   Content-Length, one that equals the received byte count is accepted).
package c20

import (
	"bytes"
	"compress/gzip"
	"context"
	"crypto/sha256"
	"fmt"
	"io"
	"log/slog"
	"net"
	"net/http"
	"net/http/httptest"
	"net/url"
	"sort"
	"strconv"
	"strings"
	"sync"
	"sync/atomic"

	"github.com/a-h/templ/cmd/templ/generatecmd/proxy"
	"github.com/andybalholm/brotli"
	"golang.org/x/net/html"
	"verif/core"
)

// Case is one proxied request (replayable).
type Case struct {
	Doc     DocSpec
	Enc     string // backend Content-Encoding ("" = none)
	CT      string // backend Content-Type
	CSP     string // name of the CSP header shape
	HX      bool   // request carries HX-Request: true
	Marker  bool   // backend sets templ-skip-modify: true
	Chunked bool   // backend sends no Content-Length (chunked transfer)
	Status  int    // backend status
	// Late > 0: the backend comes up late - the proxy's first Late connection
	// attempts fail: a listener accepts and immediately closes exactly Late
	// connections, then serves (deterministic, counted; the proxy retries
	// after 100 ms, x1.5 per attempt, 20 tries).
	Late     int    `json:",omitempty"`
	LateMode string `json:",omitempty"`
}

var contentTypes = []string{"text/html", "text/html; charset=utf-8", "application/json", "text/plain", "text/css", "image/png", "application/xhtml+xml"}

// cspShapes: name -> header value.
var cspShapes = []struct{ Name, Value string }{
	{"none", ""},
	{"no-nonce", "default-src 'self'; script-src 'self' https://cdn.example.com"},
	{"nonce-among-directives", "default-src 'self'; img-src *; script-src 'self' 'nonce-r4nd0mABC+/_-x==' 'strict-dynamic'; style-src 'self' 'unsafe-inline'"},
	{"several-nonces", "script-src 'nonce-first1' 'nonce-second2'; object-src 'none'"},
	{"nonce-only-in-style-src", "script-src 'self'; style-src 'nonce-styl3'"},
	{"style-nonce-before-script-nonce", "style-src 'nonce-styl3'; script-src 'nonce-scr1pt'"},
	{"compact-no-spaces", "default-src 'none';script-src 'nonce-abc123';base-uri 'none'"},
	// script-src overrides default-src for scripts: the default-src nonce is not the page's script nonce
	{"default-src-nonce-before-script-src", "default-src 'self' 'nonce-dflt111'; img-src *; script-src 'self' 'nonce-scr222'"},
	{"default-src-nonce-after-script-src", "script-src 'nonce-scr222' 'self'; default-src 'nonce-dflt111'"},
}

func cspValue(name string) string {
	for _, s := range cspShapes {
		if s.Name == name {
			return s.Value
		}
	}
	return ""
}

func isModifiedClass(cs Case) bool {
	return strings.HasPrefix(cs.CT, "text/html") && supportedEncoding(cs.Enc) && !cs.HX && !cs.Marker
}

// scriptSrcNonces: independent CSP reader (rule M4).
func scriptSrcNonces(header string) []string {
	var out []string
	seen := map[string]bool{}
	for _, d := range strings.Split(header, ";") {
		f := strings.Fields(d) // ASCII whitespace separated tokens
		if len(f) == 0 {
			continue
		}
		name := strings.ToLower(f[0])
		if seen[name] {
			continue // CSP3: a repeated directive is ignored
		}
		seen[name] = true
		if name != "script-src" {
			continue
		}
		for _, src := range f[1:] {
			if len(src) > 8 && strings.EqualFold(src[:7], "'nonce-") && src[len(src)-1] == '\'' {
				out = append(out, src[7:len(src)-1])
			}
		}
	}
	return out
}

// ---------------------------------------------------------------- environment

type served struct {
	cs   Case
	body []byte // encoded bytes the backend sends
}

type env struct {
	backend, front *httptest.Server
	client         *http.Client
	store          sync.Map // id -> *served
	next           atomic.Int64
	warns          atomic.Int64 // "Unsupported content encoding…" log records of the proxy
	docMu          sync.Mutex
	docs           map[string][]byte // label|enc -> bytes
}

type countingHandler struct{ e *env }

func (h countingHandler) Enabled(_ context.Context, l slog.Level) bool { return l >= slog.LevelWarn }
func (h countingHandler) Handle(_ context.Context, r slog.Record) error {
	if strings.HasPrefix(r.Message, "Unsupported content encoding") {
		h.e.warns.Add(1)
	}
	return nil
}
func (h countingHandler) WithAttrs([]slog.Attr) slog.Handler { return h }
func (h countingHandler) WithGroup(string) slog.Handler      { return h }

func newEnv() *env {
	e := &env{docs: map[string][]byte{}}
	e.backend = httptest.NewServer(e.backendHandler(nil))
	u, _ := url.Parse(e.backend.URL)
	e.front = httptest.NewServer(proxy.New(slog.New(countingHandler{e}), "127.0.0.1", 0, u))
	e.client = &http.Client{Transport: &http.Transport{DisableCompression: true, MaxIdleConnsPerHost: 64}}
	return e
}

// backendHandler serves exactly the stored bytes and headers of a case.
func (e *env) backendHandler(hits *atomic.Int64) http.Handler {
	return http.HandlerFunc(func(w http.ResponseWriter, r *http.Request) {
		if hits != nil {
			hits.Add(1)
		}
		v, ok := e.store.Load(strings.TrimPrefix(r.URL.Path, "/d/"))
		if !ok {
			http.Error(w, "verif: unknown case", http.StatusTeapot)
			return
		}
		s := v.(*served)
		h := w.Header()
		h.Set("Content-Type", s.cs.CT)
		if s.cs.Enc != "" {
			h.Set("Content-Encoding", s.cs.Enc)
		}
		if v := cspValue(s.cs.CSP); v != "" {
			h.Set("Content-Security-Policy", v)
		}
		if s.cs.Marker {
			h.Set("templ-skip-modify", "true")
		}
		if !s.cs.Chunked {
			h.Set("Content-Length", strconv.Itoa(len(s.body)))
		}
		w.WriteHeader(s.cs.Status)
		if s.cs.Chunked {
			w.(http.Flusher).Flush()
		}
		_, _ = w.Write(s.body)
	})
}

// gateListener accepts and immediately closes its first `reject` connections
// (each one is a failed round trip for the proxy), then behaves normally.
type gateListener struct {
	net.Listener
	reject   int
	rejected atomic.Int64
}

func (g *gateListener) Accept() (net.Conn, error) {
	for {
		c, err := g.Listener.Accept()
		if err != nil {
			return nil, err
		}
		if int(g.rejected.Load()) < g.reject {
			g.rejected.Add(1)
			_ = c.Close()
			continue
		}
		return c, nil
	}
}

// runLate: a fresh backend that comes up late behind a fresh proxy.
func (e *env) runLate(cs Case, id string) verdict {
	var hits atomic.Int64
	srv := httptest.NewUnstartedServer(e.backendHandler(&hits))
	ln, err := net.Listen("tcp", "127.0.0.1:0")
	if err != nil {
		return verdict{undecided, "cannot reserve a port: " + err.Error()}
	}
	addr := ln.Addr().String()
	// Truly refused connections would need the port to stay free while nothing
	// listens on it - a race with every other socket of this process (tried:
	// foreign listeners answered, rebinding failed). The gate is deterministic.
	gate := &gateListener{Listener: ln, reject: cs.Late}
	srv.Listener = gate
	srv.Start()
	u, _ := url.Parse("http://" + addr)
	front := httptest.NewServer(proxy.New(slog.New(countingHandler{e}), "127.0.0.1", 0, u))
	defer front.Close()
	got, ferr := e.fetch(front.URL, id, cs.HX)
	defer srv.Close()
	if hits.Load() == 0 {
		return verdict{undecided, fmt.Sprintf("the proxy never reached the late backend (status %d, error %v)", got.Status, ferr)}
	}
	if int(gate.rejected.Load()) != cs.Late {
		return verdict{undecided, fmt.Sprintf("%d connection attempts were refused, wanted %d", gate.rejected.Load(), cs.Late)}
	}
	if ferr != nil {
		return verdict{What: "proxy-request-failed", Detail: ferr.Error()}
	}
	direct, err := e.fetch("http://"+addr, id, cs.HX)
	if err != nil || direct.ReadErr != "" {
		core.Infra("direct fetch from the late backend failed: %v %s", err, direct.ReadErr)
	}
	if isModifiedClass(cs) {
		return judgeModified(direct, got)
	}
	return judgePassThrough(direct, got)
}

func (e *env) close() { e.front.Close(); e.backend.Close() }

// docBytes materialises a DocSpec (cached for named / generated documents).
func (e *env) docBytes(d DocSpec) []byte {
	if d.Inline != nil {
		return []byte(*d.Inline)
	}
	k := d.label()
	e.docMu.Lock()
	defer e.docMu.Unlock()
	if b, ok := e.docs[k]; ok {
		return b
	}
	var b []byte
	if d.Name != "" {
		t, ok := fixedDoc(d.Name)
		if !ok {
			core.Infra("unknown document %q", d.Name)
		}
		b = []byte(t)
	} else {
		b = []byte(generate(d.Seed, d.Size).String())
	}
	e.docs[k] = b
	return b
}

func (e *env) encoded(d DocSpec, enc string) []byte {
	raw := e.docBytes(d)
	if enc == "" {
		return raw
	}
	if d.Inline != nil {
		return encode(enc, raw)
	}
	k := d.label() + "|" + enc
	e.docMu.Lock()
	b, ok := e.docs[k]
	e.docMu.Unlock()
	if ok {
		return b
	}
	b = encode(enc, raw)
	e.docMu.Lock()
	e.docs[k] = b
	e.docMu.Unlock()
	return b
}

type observation struct {
	Status  int
	Header  http.Header
	Body    []byte
	ReadErr string
}

func (e *env) fetch(base, id string, hx bool) (observation, error) {
	req, _ := http.NewRequest(http.MethodGet, base+"/d/"+id, nil)
	req.Header.Set("Accept-Encoding", "gzip, br, zstd, deflate, compress")
	if hx {
		req.Header.Set("HX-Request", "true")
	}
	res, err := e.client.Do(req)
	if err != nil {
		return observation{}, err
	}
	defer res.Body.Close()
	b, rerr := io.ReadAll(res.Body)
	o := observation{Status: res.StatusCode, Header: res.Header, Body: b}
	if rerr != nil {
		o.ReadErr = rerr.Error()
	}
	return o, nil
}

// ---------------------------------------------------------------- oracle

type verdict struct {
	What   string // canonical category, "" = held; undecided = the case could not be judged
	Detail string
}

// undecided marks a case that could not be judged (late backend never contacted).
const undecided = "undecided"

const reloadSrc = "/_templ/reload/script.js"

func decodeBody(enc string, b []byte) ([]byte, error) {
	switch enc {
	case "":
		return b, nil
	case "gzip":
		r, err := gzip.NewReader(bytes.NewReader(b))
		if err != nil {
			return nil, err
		}
		return io.ReadAll(r)
	case "br":
		return io.ReadAll(brotli.NewReader(bytes.NewReader(b)))
	}
	return nil, fmt.Errorf("response names a content encoding the modified class never has: %q", enc)
}

func findAll(n *html.Node, f func(*html.Node) bool, out *[]*html.Node) {
	if f(n) {
		*out = append(*out, n)
	}
	for c := n.FirstChild; c != nil; c = c.NextSibling {
		findAll(c, f, out)
	}
}

func isHTMLElement(n *html.Node, name string) bool {
	return n.Type == html.ElementNode && n.Namespace == "" && n.Data == name
}

func isReloadScript(n *html.Node) bool {
	if !isHTMLElement(n, "script") {
		return false
	}
	for _, a := range n.Attr {
		if a.Key == "src" && a.Val == reloadSrc {
			return true
		}
	}
	return false
}

func render(n *html.Node) (string, error) {
	var b bytes.Buffer
	err := html.Render(&b, n)
	return b.String(), err
}

func firstDiff(a, b string) string {
	i := 0
	for i < len(a) && i < len(b) && a[i] == b[i] {
		i++
	}
	cut := func(s string) string {
		lo, hi := i-30, i+50
		if lo < 0 {
			lo = 0
		}
		if hi > len(s) {
			hi = len(s)
		}
		return strconv.Quote(s[lo:hi])
	}
	return fmt.Sprintf("first difference at byte %d: backend DOM …%s… vs proxied DOM …%s…", i, cut(a), cut(b))
}

// judgeModified applies M1–M4.
func judgeModified(direct, got observation) verdict {
	if got.Status != direct.Status {
		return verdict{"status-changed", fmt.Sprintf("status %d, backend sent %d", got.Status, direct.Status)}
	}
	if g, w := got.Header.Get("Content-Type"), direct.Header.Get("Content-Type"); g != w {
		return verdict{"content-type-changed", fmt.Sprintf("Content-Type %q, backend sent %q", g, w)}
	}
	if got.ReadErr != "" {
		return verdict{"content-length-mismatch", "reading the proxied body failed: " + got.ReadErr + " (Content-Length " + got.Header.Get("Content-Length") + ", received " + strconv.Itoa(len(got.Body)) + ")"}
	}
	if cl := got.Header.Get("Content-Length"); cl != "" && cl != strconv.Itoa(len(got.Body)) {
		return verdict{"content-length-mismatch", fmt.Sprintf("Content-Length %s but %d body bytes received", cl, len(got.Body))}
	}
	orig, err := decodeBody(direct.Header.Get("Content-Encoding"), direct.Body)
	if err != nil {
		core.Infra("backend body does not decode: %v", err)
	}
	dec, err := decodeBody(got.Header.Get("Content-Encoding"), got.Body)
	if err != nil {
		return verdict{"encoding-header-does-not-describe-body", fmt.Sprintf("Content-Encoding %q: %v", got.Header.Get("Content-Encoding"), err)}
	}
	bom := []byte("\xef\xbb\xbf")
	orig, dec = bytes.TrimPrefix(orig, bom), bytes.TrimPrefix(dec, bom)
	po, err := html.Parse(bytes.NewReader(orig))
	if err != nil {
		core.Infra("backend document does not parse: %v", err)
	}
	pp, err := html.Parse(bytes.NewReader(dec))
	if err != nil {
		return verdict{"proxied-document-unparseable", err.Error()}
	}
	var bodiesO, bodiesP, scripts []*html.Node
	findAll(po, func(n *html.Node) bool { return isHTMLElement(n, "body") }, &bodiesO)
	findAll(pp, func(n *html.Node) bool { return isHTMLElement(n, "body") }, &bodiesP)
	findAll(pp, isReloadScript, &scripts)
	if len(bodiesO) == 0 {
		if len(scripts) != 0 {
			return verdict{"script-without-body", "the backend document has no body element but a reload script was added"}
		}
	} else {
		if len(scripts) != 1 {
			return verdict{"reload-script-count", fmt.Sprintf("%d reload scripts in the proxied document, want exactly 1", len(scripts))}
		}
		s := scripts[0]
		if len(bodiesP) == 0 || s.Parent != bodiesP[0] || s.NextSibling != nil {
			return verdict{"reload-script-not-last-child-of-body", "the reload script is not the last child of body"}
		}
		nonce, hasNonce := "", false
		for _, a := range s.Attr {
			switch a.Key {
			case "src":
			case "nonce":
				nonce, hasNonce = a.Val, true
			default:
				return verdict{"reload-script-extra-attribute", "reload script carries attribute " + a.Key}
			}
		}
		if s.FirstChild != nil {
			return verdict{"reload-script-extra-attribute", "reload script has content"}
		}
		allowed := scriptSrcNonces(got.Header.Get("Content-Security-Policy"))
		if got.Header.Get("Content-Security-Policy") != direct.Header.Get("Content-Security-Policy") {
			return verdict{"csp-header-changed", "Content-Security-Policy header differs from the backend's"}
		}
		switch {
		case len(allowed) == 0 && hasNonce:
			return verdict{"nonce-without-script-src-nonce", fmt.Sprintf("reload script has nonce %q but script-src names no nonce", nonce)}
		case len(allowed) > 0:
			ok := false
			for _, a := range allowed {
				ok = ok || (hasNonce && a == nonce)
			}
			if !ok {
				return verdict{"nonce-not-in-script-src", fmt.Sprintf("reload script nonce %q (present=%v), script-src allows %q", nonce, hasNonce, allowed)}
			}
		}
		s.Parent.RemoveChild(s)
	}
	ro, err1 := render(po)
	rp, err2 := render(pp)
	if err1 != nil || err2 != nil {
		core.Infra("oracle cannot render a DOM: %v %v", err1, err2)
	}
	if ro != rp {
		return verdict{"document-changed", firstDiff(ro, rp)}
	}
	return verdict{}
}

// judgePassThrough: byte identity with the backend's own response.
func judgePassThrough(direct, got observation) verdict {
	if got.Status != direct.Status {
		return verdict{"status-changed", fmt.Sprintf("status %d, backend sent %d", got.Status, direct.Status)}
	}
	if got.ReadErr != "" && len(got.Body) == len(direct.Body) {
		return verdict{"passthrough-body-changed", "reading the proxied body failed: " + got.ReadErr}
	}
	if !bytes.Equal(got.Body, direct.Body) {
		i := 0
		for i < len(got.Body) && i < len(direct.Body) && got.Body[i] == direct.Body[i] {
			i++
		}
		p := got.Body
		if len(p) > 120 {
			p = p[:120]
		}
		return verdict{"passthrough-body-changed", fmt.Sprintf("body differs from the backend's at byte %d (%d bytes received, backend sent %d; Content-Encoding %q, Content-Length %q); received body starts %q",
			i, len(got.Body), len(direct.Body), got.Header.Get("Content-Encoding"), got.Header.Get("Content-Length"), p)}
	}
	for _, h := range []string{"Content-Type", "Content-Encoding", "Content-Length"} {
		g, w := got.Header.Values(h), direct.Header.Values(h)
		if h == "Content-Length" && len(w) == 0 && len(g) == 1 && g[0] == strconv.Itoa(len(got.Body)) {
			// The backend sent no length (chunked). net/http on the proxy's
			// server side may add a correct Content-Length for a body it has
			// completely in hand (seen for empty bodies): still "equals the
			// bytes sent", and not the proxy's doing.
			continue
		}
		if strings.Join(g, "\x00") != strings.Join(w, "\x00") {
			return verdict{"passthrough-" + strings.ToLower(h) + "-changed", fmt.Sprintf("%s %q, backend sent %q", h, g, w)}
		}
	}
	return verdict{}
}

// runCase performs both fetches and applies the oracle of the case's class.
func (e *env) runCase(cs Case) verdict {
	id := strconv.FormatInt(e.next.Add(1), 10)
	e.store.Store(id, &served{cs: cs, body: e.encoded(cs.Doc, cs.Enc)})
	defer e.store.Delete(id)
	if cs.Late > 0 {
		return e.runLate(cs, id)
	}
	direct, err := e.fetch(e.backend.URL, id, cs.HX)
	if err != nil || direct.ReadErr != "" {
		core.Infra("direct fetch from the backend failed: %v %s", err, direct.ReadErr)
	}
	got, err := e.fetch(e.front.URL, id, cs.HX)
	if err != nil {
		return verdict{"proxy-request-failed", err.Error()}
	}
	if isModifiedClass(cs) {
		return judgeModified(direct, got)
	}
	return judgePassThrough(direct, got)
}

// ---------------------------------------------------------------- reduction

func key(cs Case, what string) string {
	class := "pass-through"
	if isModifiedClass(cs) {
		class = "modified"
	}
	k := fmt.Sprintf("%s: class=%s doc=%s enc=%q ct=%q csp=%s hx=%v marker=%v chunked=%v status=%d",
		what, class, cs.Doc.label(), cs.Enc, cs.CT, cs.CSP, cs.HX, cs.Marker, cs.Chunked, cs.Status)
	if cs.Late > 0 {
		k += fmt.Sprintf(" backend-up-after-%d-failed-attempts(%s)", cs.Late, cs.LateMode)
	}
	return k
}

// reduce moves each dimension to its canonical representative while the same
// category of deviation remains, then shrinks the document.
func (e *env) reduce(cs Case, what string) Case {
	still := func(t Case) bool { return e.runCase(t).What == what }
	try := func(f func(t *Case)) bool {
		t := cs
		f(&t)
		if t != cs && still(t) {
			cs = t
			return true
		}
		return false
	}
	try(func(t *Case) { t.Late, t.LateMode = 0, "" })
	if cs.Late > 0 {
		try(func(t *Case) { t.Late, t.LateMode = 1, "reset" })
	}
	try(func(t *Case) { t.Status = 200 })
	try(func(t *Case) { t.Chunked = false })
	try(func(t *Case) { t.Marker = false })
	try(func(t *Case) { t.HX = false })
	try(func(t *Case) { t.CSP = "none" })
	if !try(func(t *Case) { t.CT = "text/html" }) {
		try(func(t *Case) { t.CT = "text/plain" })
	}
	if supportedEncoding(cs.Enc) {
		try(func(t *Case) { t.Enc = "" })
	} else {
		try(func(t *Case) { t.Enc = "zstd" }) // representative of "not understood"
	}
	// document: simplest fixed document that still shows it
	for _, d := range fixedDocs {
		if d.Name == cs.Doc.Name {
			break
		}
		if try(func(t *Case) { t.Doc = DocSpec{Name: d.Name} }) {
			return cs
		}
	}
	if cs.Doc.Name == "" && cs.Doc.Inline == nil && cs.Doc.Size <= 1<<16 {
		g := generate(cs.Doc.Seed, cs.Doc.Size)
		with := func() Case { s := g.String(); t := cs; t.Doc = DocSpec{Inline: &s}; return t }
		var shrink func(n *node) bool
		shrink = func(n *node) bool {
			changed := false
			for i := 0; i < len(n.Kids); {
				k := n.Kids[i]
				if k.Tag == "head" || k.Tag == "body" {
					i++
					continue
				}
				saved := n.Kids
				n.Kids = append(append([]*node{}, saved[:i]...), saved[i+1:]...)
				if still(with()) {
					changed = true
					continue
				}
				// hoist the children in place of the element
				n.Kids = append(append(append([]*node{}, saved[:i]...), k.Kids...), saved[i+1:]...)
				if len(k.Kids) > 0 && k.Kind == 'e' && still(with()) {
					changed = true
					continue
				}
				n.Kids = saved
				i++
			}
			for _, k := range n.Kids {
				if shrink(k) {
					changed = true
				}
			}
			if len(n.Attrs) > 0 {
				saved := n.Attrs
				n.Attrs = nil
				if still(with()) {
					changed = true
				} else {
					n.Attrs = saved
				}
			}
			return changed
		}
		for i := 0; i < 6 && shrink(g.Root); i++ {
		}
		if g.Doctype != "" {
			d := g.Doctype
			g.Doctype = ""
			if !still(with()) {
				g.Doctype = d
			}
		}
		if t := with(); still(t) {
			cs = t
		}
	}
	return cs
}

// ---------------------------------------------------------------- workload

type counters struct {
	modified, passthrough, scripts, noBody atomic.Int64
	maxDoc                                 atomic.Int64
	mu                                     sync.Mutex
	byEnc, byCT, byCSP, byReason           map[string]int
}

func (k *counters) note(cs Case, n int) {
	k.mu.Lock()
	k.byEnc[strconv.Quote(cs.Enc)]++
	k.byCT[cs.CT]++
	k.byCSP[cs.CSP]++
	switch {
	case isModifiedClass(cs):
		k.byReason["modified"]++
	case cs.Marker:
		k.byReason["pass-through:marker"]++
	case cs.HX:
		k.byReason["pass-through:hx-request"]++
	case !strings.HasPrefix(cs.CT, "text/html"):
		k.byReason["pass-through:not-html"]++
	default:
		k.byReason["pass-through:encoding-not-understood"]++
	}
	k.mu.Unlock()
	for {
		m := k.maxDoc.Load()
		if int64(n) <= m || k.maxDoc.CompareAndSwap(m, int64(n)) {
			break
		}
	}
}

// Run is the C20 check.
func Run(c *core.Ctx) {
	c.Rule = "case = document (29 fixed well-formed documents in varied spellings incl. CRLF, Latin-1 bytes and a UTF-8 BOM, a frameset document, seeded generated documents, 64 KB and 1 MB documents; 4 MB in thorough) x backend Content-Encoding {none,gzip,br,zstd,deflate,compress,'gzip, br'} x Content-Type (7) x CSP header shape (9) x request {plain, HX-Request} x backend skip marker x {Content-Length, chunked} x status {200,404,500}; plus backend-comes-up-late cases (3 documents x 6 classes x {1, 2 or 3 first connection attempts reset}) behind a fresh proxy; every document meets every (encoding, content type) pair and, in the modified class, every CSP shape; the remaining dimensions are drawn per case from the seed; three canonical documents get the full cross product; non-trivial = case in the modified class (html, understood encoding, not skipped) - distinct by (document, configuration) hash"
	c.Assume("golang.org/x/net/html is the reference HTML5 parser/serialiser for deciding that two byte strings are the same document (the proxy uses the same library, so a parser defect shared by both sides is invisible)")
	c.Assume("the harness's zstd / deflate / compress bodies are valid streams of those formats (zstd: stored blocks); only their opacity to the proxy matters")
	c.Assume("the client sends an explicit Accept-Encoding, so Go's transport performs no transparent decompression on either hop")
	e := newEnv()
	defer e.close()

	if c.ReplayFile != "" {
		var cs Case
		c.LoadReplay(&cs)
		c.Eval(1)
		c.NontrivialN(2)
		if v := e.runCase(cs); v.What != "" {
			c.Violate(key(cs, v.What), v.Detail, cs)
		}
		return
	}

	rnd := c.Rand("matrix")
	var docs []DocSpec
	for _, d := range fixedDocs {
		docs = append(docs, DocSpec{Name: d.Name})
	}
	for _, d := range specialDocs {
		docs = append(docs, DocSpec{Name: d.Name})
	}
	for i, n := 0, c.Pick(40, 700); i < n; i++ {
		docs = append(docs, DocSpec{Seed: rnd.Int63(), Size: []int{200, 1000, 4000, 16000}[i%4]})
	}
	docs = append(docs, DocSpec{Seed: rnd.Int63(), Size: 65536}, DocSpec{Name: "big-65536"}, DocSpec{Name: "big-1048576"})
	if !c.Quick() {
		docs = append(docs, DocSpec{Seed: rnd.Int63(), Size: 1 << 20}, DocSpec{Name: "big-4194304"})
	}
	var cases []Case
	pickCase := func(d DocSpec, enc, ct string) Case {
		cs := Case{Doc: d, Enc: enc, CT: ct, CSP: cspShapes[rnd.Intn(len(cspShapes))].Name, Status: 200}
		cs.HX = rnd.Intn(6) == 0
		cs.Marker = rnd.Intn(8) == 0
		cs.Chunked = rnd.Intn(4) == 0
		if rnd.Intn(6) == 0 {
			cs.Status = []int{404, 500}[rnd.Intn(2)]
		}
		return cs
	}
	// every document meets every (encoding, content type) pair; pairs of the
	// modified class additionally meet every CSP shape with the skip
	// dimensions off (that is where the proxy does its work)
	rounds := c.Pick(1, 2)
	for _, d := range docs {
		for _, enc := range encodings {
			for _, ct := range contentTypes {
				for r := 0; r < rounds; r++ {
					cases = append(cases, pickCase(d, enc, ct))
				}
				if strings.HasPrefix(ct, "text/html") && supportedEncoding(enc) {
					for _, csp := range cspShapes {
						cs := pickCase(d, enc, ct)
						cs.CSP, cs.HX, cs.Marker = csp.Name, false, false
						cases = append(cases, cs)
					}
				}
			}
		}
	}
	for _, name := range []string{"empty", "simple", "head-scripts"} {
		for _, enc := range encodings {
			for _, ct := range contentTypes {
				for _, csp := range cspShapes {
					for _, hx := range []bool{false, true} {
						for _, mk := range []bool{false, true} {
							for _, ch := range []bool{false, true} {
								cases = append(cases, Case{Doc: DocSpec{Name: name}, Enc: enc, CT: ct, CSP: csp.Name, HX: hx, Marker: mk, Chunked: ch, Status: 200})
							}
						}
					}
				}
			}
		}
	}

	// ---- backend comes up late (restart during a reload): every class once per
	// document, first attempts failing by reset (counted) or refusal (timed)
	nLate := 0
	for _, doc := range []string{"fragment-div", "simple", "head-scripts"} {
		for _, late := range []struct {
			n    int
			mode string
		}{{1, "reset"}, {2, "reset"}, {3, "reset"}} {
			base := Case{Doc: DocSpec{Name: doc}, CT: "text/html; charset=utf-8", CSP: "none", Status: 200, Late: late.n, LateMode: late.mode}
			hx, mk, js, zs, pg, gz := base, base, base, base, base, base
			hx.HX = true
			mk.Marker = true
			js.CT = "application/json"
			zs.Enc = "zstd"
			pg.CSP = "nonce-among-directives"
			gz.Enc = "gzip"
			cases = append(cases, hx, mk, js, zs, pg, gz)
			nLate += 6
		}
	}

	k := &counters{byEnc: map[string]int{}, byCT: map[string]int{}, byCSP: map[string]int{}, byReason: map[string]int{}}
	type vio struct {
		i  int
		cs Case
		v  verdict
	}
	var vioMu sync.Mutex
	var vios []vio
	var lateDecided atomic.Int64
	work := make(chan int)
	var wg sync.WaitGroup
	for w := 0; w < 16; w++ {
		wg.Add(1)
		go func() {
			defer wg.Done()
			for i := range work {
				cs := cases[i]
				v := e.runCase(cs)
				if v.What == undecided {
					c.Inconclusive(key(cs, undecided) + ": " + v.Detail)
					continue
				}
				if cs.Late > 0 {
					lateDecided.Add(1)
				}
				c.Eval(1)
				k.note(cs, len(e.docBytes(cs.Doc)))
				if isModifiedClass(cs) {
					k.modified.Add(1)
					c.NontrivialStr(key(cs, ""))
					if v.What == "" {
						if cs.Doc.Name == "frameset" {
							k.noBody.Add(1)
						} else {
							k.scripts.Add(1)
						}
					}
				} else {
					k.passthrough.Add(1)
				}
				if v.What != "" {
					vioMu.Lock()
					vios = append(vios, vio{i, cs, v})
					vioMu.Unlock()
				}
			}
		}()
	}
	for i := range cases {
		work <- i
	}
	close(work)
	wg.Wait()

	// reduce (bounded work per category) and report in deterministic order
	sort.Slice(vios, func(a, b int) bool { return vios[a].i < vios[b].i })
	perSig := map[string]int{}
	rawByWhat := map[string]int{}
	for _, x := range vios {
		rawByWhat[x.v.What]++
		sig := x.v.What + "|" + strconv.FormatBool(isModifiedClass(x.cs)) + "|" + x.cs.CSP
		if !isModifiedClass(x.cs) {
			sig = x.v.What + "|" + x.cs.Enc + "|" + x.cs.CT
		}
		if perSig[sig] >= 2 {
			continue
		}
		perSig[sig]++
		r := e.reduce(x.cs, x.v.What)
		rv := e.runCase(r)
		if rv.What != x.v.What {
			r, rv = x.cs, x.v
		}
		c.Violate(key(r, rv.What), "live-reload proxy: "+rv.Detail, r)
	}
	if len(rawByWhat) > 0 {
		c.Set("raw_alarms_by_category", rawByWhat)
	}

	c.Sample(map[string]any{"case": cases[0], "class": "modified", "document": string(e.docBytes(cases[0].Doc))})
	c.Sample(map[string]any{"case": cases[len(cases)/3], "modified_class": isModifiedClass(cases[len(cases)/3])})
	c.Sample(map[string]any{"case": cases[len(cases)/2], "modified_class": isModifiedClass(cases[len(cases)/2])})
	for _, d := range docs {
		if d.Name == "" && d.Size == 1000 {
			s := string(e.docBytes(d))
			c.Sample(map[string]any{"generated_document": d, "sha256": fmt.Sprintf("%x", sha256.Sum256([]byte(s)))[:16], "text_prefix": s[:min(len(s), 400)]})
			break
		}
	}
	c.Set("late_backend_cases", nLate)
	c.Set("late_backend_cases_decided", lateDecided.Load())
	c.Set("documents", len(docs))
	c.Set("cases_modified_class", k.modified.Load())
	c.Set("cases_pass_through_class", k.passthrough.Load())
	c.Set("modified_cases_with_reload_script_verified", k.scripts.Load())
	c.Set("modified_cases_without_body_element", k.noBody.Load())
	c.Set("largest_document_bytes", k.maxDoc.Load())
	c.Set("cases_by_backend_encoding", k.byEnc)
	c.Set("cases_by_content_type", k.byCT)
	c.Set("cases_by_csp_shape", k.byCSP)
	c.Set("cases_by_class_reason", k.byReason)
	c.Set("proxy_warned_unsupported_encoding", e.warns.Load())
	c.Set("exhaustive", false)
	if k.modified.Load() > 0 && k.scripts.Load() == 0 && len(vios) == 0 {
		c.Inconclusive("no inserted reload script was ever observed")
	}
}
