// Package rcorpus is the template set + driver shared by the C10 (fail-stop
// rendering) and C14 (concurrent rendering) checks: hand-written .templ files
// (src/), a generated long.templ, helper Go code and a JSONL driver. The
// package also holds the harness-side mirror of the driver's event log, the
// scanner that records the source line span of every failable expression and
// the generator of random trees for the Interp template.
package rcorpus

import (
	"bytes"
	_ "embed"
	"encoding/base64"
	"encoding/json"
	"fmt"
	"math/rand"
	"regexp"
	"sort"
	"strings"

	"verif/core"
	"verif/corpus"
)

//go:embed src/t.templ
var srcT string

//go:embed src/dev.templ
var srcDev string

//go:embed src/sub.templ
var srcSub string

//go:embed src/helpers.go.src
var srcHelpers string

//go:embed src/main.go.src
var srcMain string

// ---------------------------------------------------------------- sources

func filler(tag string, n int) string {
	var sb strings.Builder
	for i := 0; sb.Len() < n; i++ {
		fmt.Fprintf(&sb, "%s%04d lorem ipsum dolor sit amet consectetur ", tag, i)
	}
	return sb.String()[:n]
}

// longTempl prints the components with long static runs (> 4 KB, i.e. longer
// than the default buffer) and with expressions around the 4096 boundary.
func longTempl() string {
	var sb strings.Builder
	sb.WriteString("package main\n\n")
	sb.WriteString("templ LongStatic(c *Cfg) {\n\t<div>\n")
	for i := 0; i < 5; i++ {
		fmt.Fprintf(&sb, "\t\t<p>%s</p>\n", filler(fmt.Sprintf("s%d-", i), 1000))
	}
	sb.WriteString("\t</div>\n}\n\n")
	sb.WriteString("templ LongMixed(c *Cfg) {\n")
	fmt.Fprintf(&sb, "\t<p>%s</p>\n\t{ se(c, \"l1\") }\n", filler("a-", 3000))
	fmt.Fprintf(&sb, "\t<p>%s</p>\n\t{ c.S }\n", filler("b-", 3000))
	fmt.Fprintf(&sb, "\t<p>%s</p>\n\t<i title={ se(c,\n\t\t\"l2\") }>end</i>\n", filler("c-", 2500))
	sb.WriteString("}\n\n")
	sb.WriteString("templ LongBoundary(c *Cfg) {\n")
	fmt.Fprintf(&sb, "\t<p>%s</p>{ se(c, \"l3\") }<b>tail</b>\n", filler("x-", 4096-3-4-2))
	sb.WriteString("\t@templ.Flush()\n\t<u>z</u>\n}\n")
	return sb.String()
}

// Files returns the scratch package: path -> content.
func Files() map[string]string {
	return map[string]string{
		"t.templ":       srcT,
		"dev.templ":     srcDev,
		"long.templ":    longTempl(),
		"sub/sub.templ": srcSub,
		"helpers.go":    srcHelpers,
		"main.go":       srcMain,
	}
}

// ---------------------------------------------------------------- sites

// Site is one failable helper call in a .templ file.
type Site struct {
	Name      string
	File      string // path relative to the directory given to `templ generate`
	Expr      bool   // the call is the whole { … } / {{ … }} / ={ … } expression => templ.Error expected
	StartLine int    // 1-based line of the opening brace (or of the call)
	EndLine   int    // 1-based line of the closing brace (or of the call's ")")
	Position  string // text | attribute | style | script | component
}

var siteRe = regexp.MustCompile(`"([a-z][0-9])"`)

func isSpace(b byte) bool { return b == ' ' || b == '\t' || b == '\n' || b == '\r' }

// ScanSites records, for every site label literal in src, the line span of the
// enclosing expression. It is a plain text scan (no templ parser involved).
func ScanSites(file, src string) []Site {
	var out []Site
	line := func(off int) int { return 1 + strings.Count(src[:off], "\n") }
	for _, m := range siteRe.FindAllStringSubmatchIndex(src, -1) {
		qs, qe, name := m[0], m[1], src[m[2]:m[3]]
		open, depth := -1, 0
		for i := qs - 1; i >= 0 && open < 0; i-- {
			switch src[i] {
			case ')':
				depth++
			case '(':
				if depth == 0 {
					open = i
				} else {
					depth--
				}
			}
		}
		if open < 0 {
			continue
		}
		hs := open
		for hs > 0 && (src[hs-1] == '_' || src[hs-1] == '.' || src[hs-1] >= '0' && src[hs-1] <= '9' ||
			src[hs-1] >= 'a' && src[hs-1] <= 'z' || src[hs-1] >= 'A' && src[hs-1] <= 'Z') {
			hs--
		}
		closeAt, depth := -1, 0
		for i := qe; i < len(src) && closeAt < 0; i++ {
			switch src[i] {
			case '(':
				depth++
			case ')':
				if depth == 0 {
					closeAt = i
				} else {
					depth--
				}
			}
		}
		if closeAt < 0 {
			continue
		}
		s := Site{Name: name, File: file, StartLine: line(hs), EndLine: line(closeAt), Position: "component"}
		p := hs - 1
		for p >= 0 && isSpace(src[p]) {
			p--
		}
		a := closeAt + 1
		for a < len(src) && isSpace(src[a]) {
			a++
		}
		if p >= 0 && src[p] == '{' && a < len(src) && src[a] == '}' {
			s.Expr, s.StartLine, s.EndLine = true, line(p), line(a)
			switch {
			case p > 0 && src[p-1] == '{':
				s.Position = "script"
			case p > 0 && src[p-1] == '=':
				s.Position = "attribute"
				if strings.HasSuffix(src[:p-1], "style") {
					s.Position = "style"
				}
			default:
				s.Position = "text"
			}
		}
		out = append(out, s)
	}
	return out
}

// Sites scans every .templ file of the set.
func Sites() map[string]Site {
	m := map[string]Site{}
	for f, src := range Files() {
		if !strings.HasSuffix(f, ".templ") {
			continue
		}
		for _, s := range ScanSites(f, src) {
			if _, dup := m[s.Name]; dup {
				core.Infra("rcorpus: duplicate site label %s", s.Name)
			}
			m[s.Name] = s
		}
	}
	return m
}

// ---------------------------------------------------------------- components

// Node mirrors the driver's tree node.
type Node struct {
	K    string  `json:"k"`
	ID   string  `json:"id,omitempty"`
	S    string  `json:"s,omitempty"`
	Kids []*Node `json:"kids,omitempty"`
}

// Comp names one root component of the driver's registry.
type Comp struct {
	Key  string `json:"key"`
	Name string `json:"name"`
	AV   int    `json:"av,omitempty"`
	Tree *Node  `json:"tree,omitempty"`
	H    int    `json:"h,omitempty"`
	// Unbuffered: a library component that writes straight to the caller's
	// writer (no templ buffer, no context check of its own).
	Unbuffered bool `json:"-"`
	Dev        bool `json:"-"` // lives in dev.templ (rewritten in the dev-mode part of C14)
}

var staticNames = []string{"Empty", "Text", "TextExpr", "MultiLineExpr", "EscText", "Attrs", "ClassAttr", "StyleAttr", "StyleForms", "Href",
	"OnClick", "ScriptCall", "ScriptElem", "RawElems", "Nav", "Layout", "Page", "IfElse", "ForLoop", "Switch", "Wrap", "UseWrap",
	"NestedFail", "ManyTiny", "Flushy", "Joiny", "Oncey", "Rawy", "Funcy", "GoHTML", "ToGoHTML", "JSONy", "SubBox", "UseMethod",
	"Deep", "ScriptStrings", "ScriptStringLast", "OnceZero", "LegacyBody", "LegacyNested", "LegacyLast", "CancelMiddle", "ManualSeq", "BareManual", "SideSmall", "SideLarge", "SideTwice", "LongStatic", "LongMixed", "LongBoundary", "DevA", "DevB",
	"BareJoin", "BareOnce", "BareFlush", "SlotRoot", "NonceScripts", "NonceOnClick", "BareRaw", "BareScript"}

var variedNames = []string{"LegacyNested", "EscText", "Attrs", "ClassAttr", "Href", "Nav", "Page", "IfElse", "ForLoop", "Switch", "OnClick", "BareJoin"}

// StaticComps lists the hand-written roots (with their argument vectors).
func StaticComps() []Comp {
	var out []Comp
	for _, n := range staticNames {
		out = append(out, Comp{Key: n, Name: n, Unbuffered: n == "BareRaw" || n == "BareScript", Dev: n == "DevA" || n == "DevB"})
	}
	for _, n := range variedNames {
		for av := 1; av <= 2; av++ {
			out = append(out, Comp{Key: fmt.Sprintf("%s/av%d", n, av), Name: n, AV: av})
		}
	}
	return out
}

var innerKinds = []string{"elem", "wrap", "twice", "ignore", "flush", "once", "attr", "style", "class", "join", "if"}
var leafKinds = []string{"text", "lit", "fail", "script", "raw", "failc", "onclick", "long", "fail", "failc"}
var nodeStrings = []string{"", "a", "xy", "<b>", "&amp;\"'", "ünï", "0123456789", "</script>", "a b c"}

// RandomTrees makes n data trees for the Interp template (each is one more
// "component": nesting, child blocks, flush, once, join, failable sites).
func RandomTrees(r *rand.Rand, n, maxNodes int) []Comp {
	var out []Comp
	for i := 0; i < n; i++ {
		budget := 2 + r.Intn(maxNodes-1)
		id := 0
		var mk func(depth int) *Node
		mk = func(depth int) *Node {
			budget--
			id++
			nd := &Node{ID: fmt.Sprintf("N%d", id), S: nodeStrings[r.Intn(len(nodeStrings))]}
			if depth < 4 && budget > 0 && r.Intn(3) != 0 {
				nd.K = innerKinds[r.Intn(len(innerKinds))]
				for k := 1 + r.Intn(3); k > 0 && budget > 0; k-- {
					nd.Kids = append(nd.Kids, mk(depth+1))
				}
			} else {
				nd.K = leafKinds[r.Intn(len(leafKinds))]
			}
			return nd
		}
		root := &Node{K: "elem", ID: "N0"}
		for budget > 0 {
			root.Kids = append(root.Kids, mk(1))
		}
		out = append(out, Comp{Key: fmt.Sprintf("tree%03d", i), Name: "Interp", Tree: root})
	}
	return out
}

// ---------------------------------------------------------------- build

type Built struct {
	Pkg   *corpus.Pkg
	Bin   string
	Sites map[string]Site
}

// Build writes the set into a scratch package, runs the real `templ generate`
// and compiles the driver (with -race for C14).
func Build(c *core.Ctx, name string, race bool) *Built {
	p := corpus.New(c, name)
	for f, src := range Files() {
		p.Write(f, src)
	}
	if out, err := p.Generate(); err != nil {
		core.Infra("templ generate failed on the C10/C14 template set: %v\n%s", err, corpus.Tail(out, 3000))
	}
	bin, out, err := p.Build(race, ".")
	if err != nil {
		core.Infra("go build of the C10/C14 driver failed: %v\n%s", err, corpus.Tail(out, 3000))
	}
	return &Built{Pkg: p, Bin: bin, Sites: Sites()}
}

// ---------------------------------------------------------------- log mirror

type ErrFacts struct {
	Msg        string `json:"msg,omitempty"`
	IsInjected bool   `json:"inj,omitempty"`
	IsShort    bool   `json:"short,omitempty"`
	IsCanceled bool   `json:"canc,omitempty"`
	IsSentinel bool   `json:"sent,omitempty"`
	IsDeadline bool   `json:"deadline,omitempty"`
	Panic      bool   `json:"panic,omitempty"`
	AsTempl    bool   `json:"astempl,omitempty"`
	File       string `json:"file,omitempty"`
	Line       int    `json:"line,omitempty"`
	Col        int    `json:"col,omitempty"`
}

type Out struct {
	N     int       `json:"n"`
	H     string    `json:"h"`
	B     *string   `json:"b,omitempty"`
	Err   *ErrFacts `json:"e,omitempty"`
	Fired bool      `json:"fired,omitempty"`
	Calls int       `json:"calls,omitempty"`
}

// Bytes decodes the received bytes when the driver logged them.
func (o *Out) Bytes() []byte {
	if o == nil || o.B == nil {
		return nil
	}
	b, _ := base64.StdEncoding.DecodeString(*o.B)
	return b
}

// InnerRec mirrors the driver's record of one inner Render call made by a
// hand-written middle component.
type InnerRec struct {
	ID    string    `json:"id"`
	Done  string    `json:"done,omitempty"`
	Err   *ErrFacts `json:"e,omitempty"`
	Added int       `json:"added"`
}

type PoolEv struct {
	Gets      int64    `json:"gets"`
	Puts      int64    `json:"puts"`
	Live      int      `json:"live"`
	Distinct  int      `json:"distinct"`
	Recycled  int64    `json:"recycled"`
	Moved     int64    `json:"moved"`
	Anomalies []string `json:"anomalies,omitempty"`
	First     string   `json:"first,omitempty"`
}

type Event struct {
	Ev    string     `json:"ev"`
	Tag   string     `json:"tag,omitempty"`
	Key   string     `json:"key,omitempty"`
	Keys  []string   `json:"keys,omitempty"`
	Ver   int        `json:"ver,omitempty"`
	Kind  string     `json:"kind,omitempty"`
	K     int        `json:"k,omitempty"`
	Fail  string     `json:"fail,omitempty"`
	Site  string     `json:"site,omitempty"`
	Out   *Out       `json:"out,omitempty"`
	C1    *Out       `json:"c1,omitempty"`
	C2    *Out       `json:"c2,omitempty"`
	Trace []string   `json:"trace,omitempty"`
	G     int        `json:"g,omitempty"`
	I     int        `json:"i,omitempty"`
	Flush int        `json:"flush,omitempty"`
	Pool  *PoolEv    `json:"pool,omitempty"`
	Msg   string     `json:"msg,omitempty"`
	Code  int        `json:"code,omitempty"`
	CT    string     `json:"ct,omitempty"`
	Opt   string     `json:"opt,omitempty"`
	T0    int64      `json:"t0,omitempty"`
	T1    int64      `json:"t1,omitempty"`
	Inner []InnerRec `json:"inner,omitempty"`
	Side  *Out       `json:"side,omitempty"`
	Sinks []*Out     `json:"sinks,omitempty"`
}

// Job mirrors the driver's job line.
type Job struct {
	Op        string   `json:"op"`
	BufSize   int      `json:"bufsize,omitempty"`
	Gid       bool     `json:"gid,omitempty"`
	Hook      bool     `json:"hook,omitempty"`
	Comp      *Comp    `json:"comp,omitempty"`
	Other     *Comp    `json:"other,omitempty"`
	Kinds     []string `json:"kinds,omitempty"`
	Full      bool     `json:"full,omitempty"`
	K         int      `json:"k,omitempty"`
	Kind      string   `json:"kind,omitempty"`
	Fail      string   `json:"fail,omitempty"`
	G         int      `json:"g,omitempty"`
	M         int      `json:"m,omitempty"`
	Seed      int64    `json:"seed,omitempty"`
	Comps     []Comp   `json:"comps,omitempty"`
	Fault     bool     `json:"fault,omitempty"`
	Gosched   bool     `json:"gosched,omitempty"`
	Rewrite   *Rewrite `json:"rewrite,omitempty"`
	Tag       string   `json:"tag,omitempty"`
	Writers   []string `json:"writers,omitempty"`
	Steps     []Step   `json:"steps,omitempty"`
	Bufio     bool     `json:"bufio,omitempty"`
	OnceFresh int      `json:"oncefresh,omitempty"`
	OnceComp  *Comp    `json:"oncecomp,omitempty"`
}

// Step of a writer-kind sequence (see the driver).
type Step struct {
	W    int    `json:"w"`
	C    int    `json:"c"`
	Kind string `json:"kind,omitempty"`
	K    int    `json:"k,omitempty"`
	GC   bool   `json:"gc,omitempty"`
	Hold bool   `json:"hold,omitempty"`
}

// WriterKinds are the writer objects the driver can build for sequences; the
// first four wrap a recording sink that can be armed with one faulty Write.
var WriterKinds = []string{"fw", "sw", "func", "http", "bytesbuf", "builder", "bufio16", "bufio4096", "bufio8192"}

// FaultCapable reports whether a sequence writer kind can be given a fault.
func FaultCapable(kind string) bool {
	return kind == "fw" || kind == "sw" || kind == "func" || kind == "http"
}

// Hash is the driver's stream hash (FNV-1a 64, hex).
func Hash(b []byte) string {
	h := uint64(14695981039346656037)
	for _, c := range b {
		h = (h ^ uint64(c)) * 1099511628211
	}
	return fmt.Sprintf("%x", h)
}

type Rewrite struct {
	Path     string   `json:"path"`
	Versions []string `json:"versions"`
	Dev      []string `json:"dev"`
}

// Encode turns jobs into the driver's stdin.
func Encode(jobs []Job) []byte {
	var b bytes.Buffer
	enc := json.NewEncoder(&b)
	enc.SetEscapeHTML(false)
	for i := range jobs {
		if err := enc.Encode(&jobs[i]); err != nil {
			core.Infra("encode job: %v", err)
		}
	}
	return b.Bytes()
}

// Decode streams the event log to f; it reports whether the "end" event was
// seen (i.e. the driver finished all jobs) and any syntax error.
func Decode(log []byte, f func(*Event)) (ended bool, err error) {
	dec := json.NewDecoder(bytes.NewReader(log))
	for dec.More() {
		var ev Event
		if err := dec.Decode(&ev); err != nil {
			return ended, err
		}
		if ev.Ev == "end" {
			ended = true
			continue
		}
		f(&ev)
	}
	return ended, nil
}

// ---------------------------------------------------------------- reference documents

// Ref is a fault-free document D with the FNV-1a hash of each of its prefixes.
type Ref struct {
	D      []byte
	Prefix []uint64 // Prefix[i] = fnv1a64(D[:i]), len = len(D)+1
	Trace  []string
}

func NewRef(d []byte, trace []string) *Ref {
	r := &Ref{D: d, Prefix: make([]uint64, len(d)+1), Trace: trace}
	h := uint64(14695981039346656037)
	r.Prefix[0] = h
	for i, c := range d {
		h = (h ^ uint64(c)) * 1099511628211
		r.Prefix[i+1] = h
	}
	return r
}

func (r *Ref) L() int { return len(r.D) }

// IsPrefix: the writer received exactly D[:o.N].
func (r *Ref) IsPrefix(o *Out) bool {
	return o.N >= 0 && o.N <= len(r.D) && fmt.Sprintf("%x", r.Prefix[o.N]) == o.H
}

// IsWhole: the writer received exactly D, once.
func (r *Ref) IsWhole(o *Out) bool { return o.N == len(r.D) && r.IsPrefix(o) }

// TraceIDs returns the distinct failable ids of the reference trace, in
// evaluation order, with their site labels.
func (r *Ref) TraceIDs() (ids, sites []string) {
	seen := map[string]bool{}
	for _, t := range r.Trace {
		id, site, _ := strings.Cut(t, "@")
		if !seen[id] {
			seen[id] = true
			ids, sites = append(ids, id), append(sites, site)
		}
	}
	return
}

// SortedKeys is a small helper for deterministic iteration.
func SortedKeys[V any](m map[string]V) []string {
	ks := make([]string, 0, len(m))
	for k := range m {
		ks = append(ks, k)
	}
	sort.Strings(ks)
	return ks
}
