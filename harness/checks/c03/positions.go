package c03

import (
	_ "embed"
	"fmt"
	"strings"
)

//go:embed valspec.go
var valspecSrc string

// Sentinel is the benign string every position is rendered with once.
const Sentinel = "zQsentinel9"

// pos is one JavaScript position. Frags lists, in document order, the kind of
// every dynamic fragment (bare = JSON text as an expression, sq/dq/bt = inside
// a '…' / "…" / `…` literal, json = body of the JSON script element, fn = the
// function name of JSFuncCall, jsonattr = a data-j attribute fed
// templ.JSONString(v)). Want is, per dynamic unit (script element, on*/hx-on
// or data-j attribute containing a fragment), the calls the sink functions must
// have recorded: a JSON template where $V is the value's JSON encoding, $L the
// JSON string of the literal's expected content and $S that string's content
// without the quotes (to splice it between static literal text).
//
// jsonstring_attr is deliberately FIRST: the driver renders the positions in
// this order inside one process, so every other position is rendered after a
// templ.JSONString call (state carried between API calls would show).
type pos struct {
	Name  string
	Body  string
	Frags []string
	Want  []string
}

var positions = []pos{
	{"jsonstring_attr", `<div id="a" data-j={ templ.JSONString(v) }>x</div>`, []string{"jsonattr"}, []string{`[[$V]]`}},
	{"bare", `<script>sink({{ v }});</script><p>after</p>`, []string{"bare"}, []string{`[[$V]]`}},
	{"sq", `<script>sink('{{ v }}');</script><p>after</p>`, []string{"sq"}, []string{`[[$L]]`}},
	{"dq", `<script>sink("{{ v }}");</script><p>after</p>`, []string{"dq"}, []string{`[[$L]]`}},
	{"bt", "<script>sink(`{{ v }}`);</script><p>after</p>", []string{"bt"}, []string{`[[$L]]`}},
	{"combo", "<script>\n\t\tvar a = {{ v }};\n\t\tsink(a, '{{ v }}', \"{{ v }}\", `{{ v }}`);\n\t</script><p>after</p>", []string{"bare", "sq", "dq", "bt"}, []string{`[[$V,$L,$L,$L]]`}},
	{"quote_state", `<script>sink("it's", {{ v }}, 'say "hi"', "{{ v }}", 'a\'b', {{ v }}, "a\"b", '{{ v }}');</script><p>after</p>`, []string{"bare", "dq", "bare", "sq"}, []string{`[["it's",$V,"say \"hi\"",$L,"a'b",$V,"a\"b",$L]]`}},
	{"after_comments", "<script>\n\t\t// it's a comment\n\t\t/* don't \"quote\" */ sink({{ v }}, '{{ v }}');\n\t</script><p>after</p>", []string{"bare", "sq"}, []string{`[[$V,$L]]`}},
	{"two_scripts", `<script>sink(1, {{ v }});</script><div>x</div><script type="module">sink(2, "{{ v }}");</script>`, []string{"bare", "dq"}, []string{`[[1,$V]]`, `[[2,$L]]`}},
	{"script_component", "@c03scr(v)\n<p>after</p>", []string{"bare"}, []string{`[[$V]]`}},
	{"script_attr", `<button type="button" onclick={ c03scr(v) } id="b">x</button>`, []string{"bare"}, []string{`[[$V]]`}},
	{"script3_component", "@c03scr3(v, \"k\", v)\n<p>after</p>", []string{"bare", "bare"}, []string{`[[$V,"k",$V]]`}},
	{"script3_attr", `<a onmouseover={ c03scr3(v, "k", v) }>x</a>`, []string{"bare", "bare"}, []string{`[[$V,"k",$V]]`}},
	{"funccall_component", "@templ.JSFuncCall(\"sink\", v, \"k\")\n<p>after</p>", []string{"bare"}, []string{`[[$V,"k"]]`}},
	{"funccall_attr", `<button onclick={ templ.JSFuncCall("sink", v) } id="b">x</button>`, []string{"bare"}, []string{`[[$V]]`}},
	{"funccall_dotted_hxon", `<div hx-on:click={ templ.JSFuncCall("ns.sink", 7, v) }>x</div>`, []string{"bare"}, []string{`[[7,$V]]`}},
	{"funccall_cond_attr", "<input type=\"text\"\n\t\tif v != nil || true {\n\t\t\tonchange={ templ.JSFuncCall(\"sink\", v) }\n\t\t}\n\t/><p>after</p>", []string{"bare"}, []string{`[[$V]]`}},
	{"jsonscript", "@templ.JSONScript(\"id\", v)\n<p>after</p>", []string{"json"}, []string{`[[$V]]`}},
	// --- static JavaScript around the expression stresses the parser's quote-state tracking
	{"qs_sq_escaped", `<script>sink('it\'s {{ v }}', 'a\'{{ v }}\'b');</script><p>after</p>`, []string{"sq", "sq"}, []string{`[["it's $S","a'$S'b"]]`}},
	{"qs_dq_escaped", `<script>sink("say \"{{ v }}\" now", "\"{{ v }}");</script><p>after</p>`, []string{"dq", "dq"}, []string{`[["say \"$S\" now","\"$S"]]`}},
	{"qs_bt_escaped", "<script>\n\t\tconst hint = `Run \\`{{ v }}\\` to continue`;\n\t\tsink(hint);\n\t</script><p>after</p>", []string{"bt"}, []string{"[[\"Run `$S` to continue\"]]"}},
	{"qs_bt_escaped_odd", "<script>sink(`\\`{{ v }}`, `a\\`b\\`c\\`{{ v }}`);</script><p>after</p>", []string{"bt", "bt"}, []string{"[[\"`$S\",\"a`b`c`$S\"]]"}},
	{"qs_escaped_backslash", "<script>sink('a\\\\' + '{{ v }}', \"b\\\\\" + \"{{ v }}\", `c\\\\` + `{{ v }}`);</script><p>after</p>", []string{"sq", "dq", "bt"}, []string{`[["a\\$S","b\\$S","c\\$S"]]`}},
	{"qs_other_kinds_inside", "<script>sink(\"it's `x` {{ v }}\", 'say \"hi\" `y` {{ v }}', `it's \"z\" {{ v }}`);</script><p>after</p>", []string{"dq", "sq", "bt"}, []string{"[[\"it's `x` $S\",\"say \\\"hi\\\" `y` $S\",\"it's \\\"z\\\" $S\"]]"}},
	{"qs_comments", "<script>\n\t\tvar a = 1; // don't \"do\" `this`\n\t\t/* it's \"x\" ` */ sink('{{ v }}', {{ v }}, /* ' */ \"{{ v }}\", `{{ v }}`); // it's \"done\"\n\t</script><p>after</p>", []string{"sq", "bare", "dq", "bt"}, []string{`[[$L,$V,$L,$L]]`}},
	{"qs_bt_holes", "<script>sink(`a${1+1}b {{ v }}`, `x${`in${2}ner`}y {{ v }}`, `${\"q\"}{{ v }}${'r'}`);</script><p>after</p>", []string{"bt", "bt", "bt"}, []string{`[["a2b $S","xin2nery $S","q$Sr"]]`}},
	{"qs_bare_after_literals", "<script>sink('a\\\\', {{ v }}, \"b\\\\\", {{ v }}, `c\\`d\\`e`, {{ v }}, `e\\\\`, {{ v }}, 'f\\'', {{ v }});</script><p>after</p>", []string{"bare", "bare", "bare", "bare", "bare"}, []string{"[[\"a\\\\\",$V,\"b\\\\\",$V,\"c`d`e\",$V,\"e\\\\\",$V,\"f'\",$V]]"}},
	{"qs_bare_after_bt_escaped", "<script>sink(`c\\`d`, {{ v }});</script><p>after</p>", []string{"bare"}, []string{"[[\"c`d\",$V]]"}},
	// --- several APIs in one render (state carried between calls); data-j holds templ.JSONString(v)
	{"js_then_funccall", "<div data-j={ templ.JSONString(v) }></div>\n@templ.JSFuncCall(\"sink\", v)", []string{"jsonattr", "bare"}, []string{`[[$V]]`, `[[$V]]`}},
	{"js_then_funccall_attr", `<div data-j={ templ.JSONString(v) }></div><button onclick={ templ.JSFuncCall("sink", v) }>x</button>`, []string{"jsonattr", "bare"}, []string{`[[$V]]`, `[[$V]]`}},
	{"js_then_script_component", "<div data-j={ templ.JSONString(v) }></div>\n@c03scr(v)", []string{"jsonattr", "bare"}, []string{`[[$V]]`, `[[$V]]`}},
	{"js_then_script_attr", `<div data-j={ templ.JSONString(v) }></div><button onclick={ c03scr(v) }>x</button>`, []string{"jsonattr", "bare"}, []string{`[[$V]]`, `[[$V]]`}},
	{"js_then_jsonscript", "<div data-j={ templ.JSONString(v) }></div>\n@templ.JSONScript(\"id\", v)", []string{"jsonattr", "json"}, []string{`[[$V]]`, `[[$V]]`}},
	{"js_then_bare", `<div data-j={ templ.JSONString(v) }></div><script>sink({{ v }}, "{{ v }}")</script>`, []string{"jsonattr", "bare", "dq"}, []string{`[[$V]]`, `[[$V,$L]]`}},
	{"funccall_then_js", "@templ.JSFuncCall(\"sink\", v)\n<div data-j={ templ.JSONString(v) }></div>", []string{"bare", "jsonattr"}, []string{`[[$V]]`, `[[$V]]`}},
	{"script_component_then_js", "@c03scr(v)\n<div data-j={ templ.JSONString(v) }></div>", []string{"bare", "jsonattr"}, []string{`[[$V]]`, `[[$V]]`}},
	{"jsonscript_then_js", "@templ.JSONScript(\"id\", v)\n<div data-j={ templ.JSONString(v) }></div>", []string{"json", "jsonattr"}, []string{`[[$V]]`, `[[$V]]`}},
	{"bare_then_js", `<script>sink({{ v }})</script><div data-j={ templ.JSONString(v) }></div>`, []string{"bare", "jsonattr"}, []string{`[[$V]]`, `[[$V]]`}},
	{"js_sandwich", "@templ.JSFuncCall(\"sink\", 1, v)\n<div data-j={ templ.JSONString(v) }></div>\n@templ.JSFuncCall(\"sink\", 2, v)\n<div data-j={ templ.JSONString(v) }></div>\n@c03scr(v)", []string{"bare", "jsonattr", "bare", "jsonattr", "bare"}, []string{`[[1,$V]]`, `[[$V]]`, `[[2,$V]]`, `[[$V]]`, `[[$V]]`}},
	// --- adjacent interpolations: the value is ONE string cut into the pieces a, b (, c); the
	// literal must hold the whole string (an escaper that looks ahead cannot see past its piece)
	{"split2_all", "<script>sink('{{ a }}{{ b }}', \"{{ a }}{{ b }}\", `{{ a }}{{ b }}`, {{ a }}+{{ b }});</script><p>after</p>", []string{"sq", "dq", "bt", "bare", "bare"}, []string{`[[$L,$L,$L,$J]]`}},
	{"split3_all", "<script>sink('{{ a }}{{ b }}{{ c }}', \"{{ a }}{{ b }}{{ c }}\", `{{ a }}{{ b }}{{ c }}`);</script><p>after</p>", []string{"sq", "dq", "bt"}, []string{`[[$L,$L,$L]]`}},
	{"split_sq2", `<script>sink('{{ a }}{{ b }}');</script><p>after</p>`, []string{"sq"}, []string{`[[$L]]`}},
	{"split_dq2", `<script>sink("{{ a }}{{ b }}");</script><p>after</p>`, []string{"dq"}, []string{`[[$L]]`}},
	{"split_bt2", "<script>sink(`{{ a }}{{ b }}`);</script><p>after</p>", []string{"bt"}, []string{`[[$L]]`}},
	{"split_bare2", `<script>sink({{ a }}+{{ b }});</script><p>after</p>`, []string{"bare", "bare"}, []string{`[[$J]]`}},
	{"split_sq3", `<script>sink('{{ a }}{{ b }}{{ c }}');</script><p>after</p>`, []string{"sq"}, []string{`[[$L]]`}},
	{"split_dq3", `<script>sink("{{ a }}{{ b }}{{ c }}");</script><p>after</p>`, []string{"dq"}, []string{`[[$L]]`}},
	{"split_bt3", "<script>sink(`{{ a }}{{ b }}{{ c }}`);</script><p>after</p>", []string{"bt"}, []string{`[[$L]]`}},
	// --- static text directly before / after the value that would complete a dangerous sequence with it
	{"adj_bt_brace_after", "<script>sink(`{{ v }}{x}`, `{{ v }}{`);</script><p>after</p>", []string{"bt", "bt"}, []string{`[["$S{x}","$S{"]]`}},
	{"adj_bt_dollar_before", "<script>sink(`Total: ${{ v }}`, `$${{ v }}`);</script><p>after</p>", []string{"bt", "bt"}, []string{`[["Total: $$S","$$$S"]]`}},
	{"adj_sq", `<script>sink('a\\{{ v }}', '<{{ v }}', '<!-{{ v }}', '{{ v }}/script>', '{{ v }}!-- x', '</{{ v }}');</script><p>after</p>`, []string{"sq", "sq", "sq", "sq", "sq", "sq"}, []string{`[["a\\$S","<$S","<!-$S","$S/script>","$S!-- x","</$S"]]`}},
	{"adj_dq", `<script>sink("a\\{{ v }}", "<{{ v }}", "<!-{{ v }}", "{{ v }}/script>", "{{ v }}!-- x", "</{{ v }}");</script><p>after</p>`, []string{"dq", "dq", "dq", "dq", "dq", "dq"}, []string{`[["a\\$S","<$S","<!-$S","$S/script>","$S!-- x","</$S"]]`}},
	{"adj_bt", "<script>sink(`a\\\\{{ v }}`, `<{{ v }}`, `<!-{{ v }}`, `{{ v }}/script>`, `{{ v }}!-- x`, `</{{ v }}`);</script><p>after</p>", []string{"bt", "bt", "bt", "bt", "bt", "bt"}, []string{`[["a\\$S","<$S","<!-$S","$S/script>","$S!-- x","</$S"]]`}},
	// --- JavaScript line continuations and multi-line template literals before the expression
	// (each also compiled from a CRLF file, see crlfVariants)
	{"lc_sq", "<script>sink('first \\\nsecond {{ v }}', {{ v }});</script><p>after</p>", []string{"sq", "bare"}, []string{`[["first second $S",$V]]`}},
	{"lc_dq", "<script>sink(\"first \\\nsecond \\\nthird {{ v }}\", {{ v }});</script><p>after</p>", []string{"dq", "bare"}, []string{`[["first second third $S",$V]]`}},
	{"lc_sq_parity", "<script>sink('first \\\nsecond {{ v }}'); // it's done\n</script><p>after</p>", []string{"sq"}, []string{`[["first second $S"]]`}},
	{"lc_dq_parity", "<script>sink(\"first \\\nsecond {{ v }}\"); /* say \"hi */\n</script><p>after</p>", []string{"dq"}, []string{`[["first second $S"]]`}},
	{"ml_bt", "<script>sink(`line1\nline2 {{ v }}\nline3`, {{ v }});</script><p>after</p>", []string{"bt", "bare"}, []string{`[["line1\nline2 $S\nline3",$V]]`}},
	{"scriptw_component", "@c03scrw(v)\n<p>after</p>", []string{"bare"}, []string{`[[$V]]`}},
	// function name of JSFuncCall (strings only; lexical oracle, see fnNameFault)
	{"funccall_name_component", "@templ.JSFuncCall(fnName(v), 1)\n<p>after</p>", []string{"fn"}, nil},
	{"funccall_name_attr", `<button onclick={ templ.JSFuncCall(fnName(v), 1) }>x</button>`, []string{"fn"}, nil},
}

// pieces: positions whose component takes the pieces of one cut string.
func nPieces(name string) int {
	switch {
	case !strings.HasPrefix(name, "split"):
		return 0
	case strings.HasPrefix(name, "split3") || strings.HasSuffix(name, "3"):
		return 3
	}
	return 2
}

// crlfFile: positions whose .templ file is written with CRLF line endings.
func crlfFile(name string) bool {
	return strings.HasSuffix(name, "_crlf") || name == "scriptw_component"
}

// crlfVariants: the positions that are compiled a second time from a file with
// CRLF line endings (name + "_crlf"): every literal / quote-state position and
// every position with a line break inside its script element.
func crlfVariants() []pos {
	var out []pos
	for _, p := range positions {
		inScript := strings.Contains(p.Body, "<script") && strings.Contains(p.Body, "\n")
		if inScript || strings.HasPrefix(p.Name, "qs_") || p.Name == "sq" || p.Name == "dq" || p.Name == "bt" || p.Name == "quote_state" {
			q := p
			q.Name += "_crlf"
			out = append(out, q)
		}
	}
	return out
}

// crlfList is computed from the LF positions only (before they are appended).
var crlfList = crlfVariants()

func init() {
	positions = append(positions, crlfList...)
	for _, p := range crlfList {
		basePositions[p.Name] = []string{strings.TrimSuffix(p.Name, "_crlf")} // a CRLF spelling reduces to its LF original
	}
}

// rate is the sampling class of a position: 1 = every value; 4 = composite
// positions (same encoders as an elementary position, different static context):
// vectors, shaped vectors, non-strings and every 4th other value (API
// combinations: every 8th); 8 / 16 = CRLF
// spellings with / without a line break inside the script element: vectors and
// every 8th / 16th other value. Split positions: the combined ones take every cut
// string, the elementary ones (used to name a failure) the vector-derived cuts.
func rate(name string) int {
	_, composite := basePositions[name]
	switch {
	case nPieces(name) > 0 && strings.HasSuffix(name, "_all"):
		return 1
	case nPieces(name) > 0:
		return 16
	case strings.HasSuffix(name, "_crlf") && strings.Contains(positions[posIndex(name)].Body, "\n") && strings.Contains(positions[posIndex(name)].Body, "<script"):
		return 8
	case strings.HasSuffix(name, "_crlf"):
		return 16
	case strings.HasPrefix(name, "js_") || strings.HasSuffix(name, "_then_js"):
		return 8 // API combinations: the encoders are those of the elementary positions
	case composite:
		return 4
	}
	return 1
}

// templFiles prints the corpus package: the shared script templates plus one
// file per position, so that a template the parser mis-reads cannot swallow the
// others.
func templFiles() map[string]string {
	fs := map[string]string{"scripts.templ": "package main\n\nscript c03scr(v any) {\n\tsink(v);\n}\n\nscript c03scr3(a any, b string, c any) {\n\tsink(a, b, c);\n}\n",
		"scriptsw.templ": strings.ReplaceAll("package main\n\nscript c03scrw(v any) {\n\tsink(v);\n}\n", "\n", "\r\n")}
	for _, p := range positions {
		params := "v any"
		if n := nPieces(p.Name); n > 0 {
			params = []string{"a any, b any", "a any, b any, c any"}[n-2]
		}
		src := "package main\n\ntempl P_" + p.Name + "(" + params + ") {\n\t" + p.Body + "\n}\n"
		if crlfFile(p.Name) {
			src = strings.ReplaceAll(src, "\n", "\r\n")
		}
		fs["p_"+p.Name+".templ"] = src
	}
	return fs
}

const helperSrc = `package main

func fnName(v any) string { s, _ := v.(string); return s }
`

// driver: JSONL {"i":n,"v":Spec[,"k":position]} -> {"i":n,"o":[base64 per position],"e":[per-position error or ""]}.
func driverSrc(available map[string]bool) string {
	var sb strings.Builder
	sb.WriteString(`package main

import (
	"bufio"
	"bytes"
	"context"
	"encoding/base64"
	"encoding/json"
	"io"
	"os"

	"github.com/a-h/templ"
)

var registry = []struct {
	name   string
	pieces int
	rate   int
	f      func(Spec) templ.Component
}{
`)
	for _, p := range positions {
		n, r := nPieces(p.Name), rate(p.Name)
		switch {
		case !available[p.Name]:
			sb.WriteString(fmt.Sprintf("\t{%q, %d, %d, nil},\n", p.Name, n, r))
		case n == 0:
			sb.WriteString(fmt.Sprintf("\t{%q, 0, %d, func(sp Spec) templ.Component { return P_%s(sp.Go()) }},\n", p.Name, r, p.Name))
		case n == 2:
			sb.WriteString(fmt.Sprintf("\t{%q, 2, %d, func(sp Spec) templ.Component { p := sp.Pieces(2); return P_%s(p[0], p[1]) }},\n", p.Name, r, p.Name))
		default:
			sb.WriteString(fmt.Sprintf("\t{%q, 3, %d, func(sp Spec) templ.Component { p := sp.Pieces(3); return P_%s(p[0], p[1], p[2]) }},\n", p.Name, r, p.Name))
		}
	}
	sb.WriteString(`}

type job struct {
	I int    ` + "`json:\"i\"`" + `
	V Spec   ` + "`json:\"v\"`" + `
	K string ` + "`json:\"k\"`" + `
	L int    ` + "`json:\"l\"`" + `
}

type out struct {
	I int      ` + "`json:\"i\"`" + `
	O []string ` + "`json:\"o\"`" + `
	E []string ` + "`json:\"e\"`" + `
}

func main() {
	in := bufio.NewReaderSize(os.Stdin, 1<<20)
	w := bufio.NewWriterSize(os.Stdout, 1<<20)
	defer w.Flush()
	enc := json.NewEncoder(w)
	var buf bytes.Buffer
	for {
		line, err := in.ReadBytes('\n')
		if len(line) > 1 {
			var j job
			if e := json.Unmarshal(line, &j); e != nil {
				panic(e)
			}
			o := out{I: j.I}
			// a single-position job (shrinking, replay) is preceded by the first
			// position (templ.JSONString) like in a full job, so that a failure
			// that needs the earlier API call reproduces
			if j.K != "" && j.K != registry[0].name && registry[0].f != nil {
				_ = registry[0].f(j.V).Render(context.Background(), io.Discard)
			}
			for _, r := range registry {
				// a full job renders the positions that fit the value: cut strings go to
				// the split positions with as many pieces, everything else to the others
				// and only those whose sampling class the value reaches
				fits := ((r.pieces == 0 && len(j.V.Cuts) == 0) || (r.pieces > 0 && len(j.V.Cuts) == r.pieces-1)) && r.rate <= j.L
				if (j.K != "" && j.K != r.name) || (j.K == "" && !fits) {
					o.O, o.E = append(o.O, ""), append(o.E, "")
					continue
				}
				buf.Reset()
				msg := ""
				if r.f == nil {
					msg = "position not compiled"
				} else if e := r.f(j.V).Render(context.Background(), &buf); e != nil {
					msg = e.Error()
				}
				o.O, o.E = append(o.O, base64.StdEncoding.EncodeToString(buf.Bytes())), append(o.E, msg)
			}
			if e := enc.Encode(o); e != nil {
				panic(e)
			}
		}
		if err != nil {
			return
		}
	}
}
`)
	return sb.String()
}
