package c03

import (
	_ "embed"
	"strings"
)

//go:embed valspec.go
var valspecSrc string

// Sentinel is the benign string every position is rendered with once.
const Sentinel = "zQsentinel9"

// pos is one JavaScript position. Frags lists, in document order, the kind of
// every dynamic fragment (bare = JSON text as an expression, sq/dq/bt = inside
// a '…' / "…" / `…` literal, json = body of the JSON script element, fn = the
// function name of JSFuncCall, jsonattr = a data-j attribute fed
// templ.JSONString(v)). Want is, per dynamic unit (script element, on*/hx-on
// or data-j attribute containing a fragment), the calls the sink functions must
// have recorded: a JSON template where $V is the value's JSON encoding, $L the
// JSON string of the literal's expected content and $S that string's content
// without the quotes (to splice it between static literal text).
//
// jsonstring_attr is deliberately FIRST: the driver renders the positions in
// this order inside one process, so every other position is rendered after a
// templ.JSONString call (state carried between API calls would show).
type pos struct {
	Name  string
	Body  string
	Frags []string
	Want  []string
}

var positions = []pos{
	{"jsonstring_attr", `<div id="a" data-j={ templ.JSONString(v) }>x</div>`, []string{"jsonattr"}, []string{`[[$V]]`}},
	{"bare", `<script>sink({{ v }});</script><p>after</p>`, []string{"bare"}, []string{`[[$V]]`}},
	{"sq", `<script>sink('{{ v }}');</script><p>after</p>`, []string{"sq"}, []string{`[[$L]]`}},
	{"dq", `<script>sink("{{ v }}");</script><p>after</p>`, []string{"dq"}, []string{`[[$L]]`}},
	{"bt", "<script>sink(`{{ v }}`);</script><p>after</p>", []string{"bt"}, []string{`[[$L]]`}},
	{"combo", "<script>\n\t\tvar a = {{ v }};\n\t\tsink(a, '{{ v }}', \"{{ v }}\", `{{ v }}`);\n\t</script><p>after</p>", []string{"bare", "sq", "dq", "bt"}, []string{`[[$V,$L,$L,$L]]`}},
	{"quote_state", `<script>sink("it's", {{ v }}, 'say "hi"', "{{ v }}", 'a\'b', {{ v }}, "a\"b", '{{ v }}');</script><p>after</p>`, []string{"bare", "dq", "bare", "sq"}, []string{`[["it's",$V,"say \"hi\"",$L,"a'b",$V,"a\"b",$L]]`}},
	{"after_comments", "<script>\n\t\t// it's a comment\n\t\t/* don't \"quote\" */ sink({{ v }}, '{{ v }}');\n\t</script><p>after</p>", []string{"bare", "sq"}, []string{`[[$V,$L]]`}},
	{"two_scripts", `<script>sink(1, {{ v }});</script><div>x</div><script type="module">sink(2, "{{ v }}");</script>`, []string{"bare", "dq"}, []string{`[[1,$V]]`, `[[2,$L]]`}},
	{"script_component", "@c03scr(v)\n<p>after</p>", []string{"bare"}, []string{`[[$V]]`}},
	{"script_attr", `<button type="button" onclick={ c03scr(v) } id="b">x</button>`, []string{"bare"}, []string{`[[$V]]`}},
	{"script3_component", "@c03scr3(v, \"k\", v)\n<p>after</p>", []string{"bare", "bare"}, []string{`[[$V,"k",$V]]`}},
	{"script3_attr", `<a onmouseover={ c03scr3(v, "k", v) }>x</a>`, []string{"bare", "bare"}, []string{`[[$V,"k",$V]]`}},
	{"funccall_component", "@templ.JSFuncCall(\"sink\", v, \"k\")\n<p>after</p>", []string{"bare"}, []string{`[[$V,"k"]]`}},
	{"funccall_attr", `<button onclick={ templ.JSFuncCall("sink", v) } id="b">x</button>`, []string{"bare"}, []string{`[[$V]]`}},
	{"funccall_dotted_hxon", `<div hx-on:click={ templ.JSFuncCall("ns.sink", 7, v) }>x</div>`, []string{"bare"}, []string{`[[7,$V]]`}},
	{"funccall_cond_attr", "<input type=\"text\"\n\t\tif v != nil || true {\n\t\t\tonchange={ templ.JSFuncCall(\"sink\", v) }\n\t\t}\n\t/><p>after</p>", []string{"bare"}, []string{`[[$V]]`}},
	{"jsonscript", "@templ.JSONScript(\"id\", v)\n<p>after</p>", []string{"json"}, []string{`[[$V]]`}},
	// --- static JavaScript around the expression stresses the parser's quote-state tracking
	{"qs_sq_escaped", `<script>sink('it\'s {{ v }}', 'a\'{{ v }}\'b');</script><p>after</p>`, []string{"sq", "sq"}, []string{`[["it's $S","a'$S'b"]]`}},
	{"qs_dq_escaped", `<script>sink("say \"{{ v }}\" now", "\"{{ v }}");</script><p>after</p>`, []string{"dq", "dq"}, []string{`[["say \"$S\" now","\"$S"]]`}},
	{"qs_bt_escaped", "<script>\n\t\tconst hint = `Run \\`{{ v }}\\` to continue`;\n\t\tsink(hint);\n\t</script><p>after</p>", []string{"bt"}, []string{"[[\"Run `$S` to continue\"]]"}},
	{"qs_bt_escaped_odd", "<script>sink(`\\`{{ v }}`, `a\\`b\\`c\\`{{ v }}`);</script><p>after</p>", []string{"bt", "bt"}, []string{"[[\"`$S\",\"a`b`c`$S\"]]"}},
	{"qs_escaped_backslash", "<script>sink('a\\\\' + '{{ v }}', \"b\\\\\" + \"{{ v }}\", `c\\\\` + `{{ v }}`);</script><p>after</p>", []string{"sq", "dq", "bt"}, []string{`[["a\\$S","b\\$S","c\\$S"]]`}},
	{"qs_other_kinds_inside", "<script>sink(\"it's `x` {{ v }}\", 'say \"hi\" `y` {{ v }}', `it's \"z\" {{ v }}`);</script><p>after</p>", []string{"dq", "sq", "bt"}, []string{"[[\"it's `x` $S\",\"say \\\"hi\\\" `y` $S\",\"it's \\\"z\\\" $S\"]]"}},
	{"qs_comments", "<script>\n\t\tvar a = 1; // don't \"do\" `this`\n\t\t/* it's \"x\" ` */ sink('{{ v }}', {{ v }}, /* ' */ \"{{ v }}\", `{{ v }}`); // it's \"done\"\n\t</script><p>after</p>", []string{"sq", "bare", "dq", "bt"}, []string{`[[$L,$V,$L,$L]]`}},
	{"qs_bt_holes", "<script>sink(`a${1+1}b {{ v }}`, `x${`in${2}ner`}y {{ v }}`, `${\"q\"}{{ v }}${'r'}`);</script><p>after</p>", []string{"bt", "bt", "bt"}, []string{`[["a2b $S","xin2nery $S","q$Sr"]]`}},
	{"qs_bare_after_literals", "<script>sink('a\\\\', {{ v }}, \"b\\\\\", {{ v }}, `c\\`d\\`e`, {{ v }}, `e\\\\`, {{ v }}, 'f\\'', {{ v }});</script><p>after</p>", []string{"bare", "bare", "bare", "bare", "bare"}, []string{"[[\"a\\\\\",$V,\"b\\\\\",$V,\"c`d`e\",$V,\"e\\\\\",$V,\"f'\",$V]]"}},
	{"qs_bare_after_bt_escaped", "<script>sink(`c\\`d`, {{ v }});</script><p>after</p>", []string{"bare"}, []string{"[[\"c`d\",$V]]"}},
	// --- several APIs in one render (state carried between calls); data-j holds templ.JSONString(v)
	{"js_then_funccall", "<div data-j={ templ.JSONString(v) }></div>\n@templ.JSFuncCall(\"sink\", v)", []string{"jsonattr", "bare"}, []string{`[[$V]]`, `[[$V]]`}},
	{"js_then_funccall_attr", `<div data-j={ templ.JSONString(v) }></div><button onclick={ templ.JSFuncCall("sink", v) }>x</button>`, []string{"jsonattr", "bare"}, []string{`[[$V]]`, `[[$V]]`}},
	{"js_then_script_component", "<div data-j={ templ.JSONString(v) }></div>\n@c03scr(v)", []string{"jsonattr", "bare"}, []string{`[[$V]]`, `[[$V]]`}},
	{"js_then_script_attr", `<div data-j={ templ.JSONString(v) }></div><button onclick={ c03scr(v) }>x</button>`, []string{"jsonattr", "bare"}, []string{`[[$V]]`, `[[$V]]`}},
	{"js_then_jsonscript", "<div data-j={ templ.JSONString(v) }></div>\n@templ.JSONScript(\"id\", v)", []string{"jsonattr", "json"}, []string{`[[$V]]`, `[[$V]]`}},
	{"js_then_bare", `<div data-j={ templ.JSONString(v) }></div><script>sink({{ v }}, "{{ v }}")</script>`, []string{"jsonattr", "bare", "dq"}, []string{`[[$V]]`, `[[$V,$L]]`}},
	{"funccall_then_js", "@templ.JSFuncCall(\"sink\", v)\n<div data-j={ templ.JSONString(v) }></div>", []string{"bare", "jsonattr"}, []string{`[[$V]]`, `[[$V]]`}},
	{"script_component_then_js", "@c03scr(v)\n<div data-j={ templ.JSONString(v) }></div>", []string{"bare", "jsonattr"}, []string{`[[$V]]`, `[[$V]]`}},
	{"jsonscript_then_js", "@templ.JSONScript(\"id\", v)\n<div data-j={ templ.JSONString(v) }></div>", []string{"json", "jsonattr"}, []string{`[[$V]]`, `[[$V]]`}},
	{"bare_then_js", `<script>sink({{ v }})</script><div data-j={ templ.JSONString(v) }></div>`, []string{"bare", "jsonattr"}, []string{`[[$V]]`, `[[$V]]`}},
	{"js_sandwich", "@templ.JSFuncCall(\"sink\", 1, v)\n<div data-j={ templ.JSONString(v) }></div>\n@templ.JSFuncCall(\"sink\", 2, v)\n<div data-j={ templ.JSONString(v) }></div>\n@c03scr(v)", []string{"bare", "jsonattr", "bare", "jsonattr", "bare"}, []string{`[[1,$V]]`, `[[$V]]`, `[[2,$V]]`, `[[$V]]`, `[[$V]]`}},
	// function name of JSFuncCall (strings only; lexical oracle, see fnNameFault)
	{"funccall_name_component", "@templ.JSFuncCall(fnName(v), 1)\n<p>after</p>", []string{"fn"}, nil},
	{"funccall_name_attr", `<button onclick={ templ.JSFuncCall(fnName(v), 1) }>x</button>`, []string{"fn"}, nil},
}

// templFiles prints the corpus package: the shared script templates plus one
// file per position, so that a template the parser mis-reads cannot swallow the
// others.
func templFiles() map[string]string {
	fs := map[string]string{"scripts.templ": "package main\n\nscript c03scr(v any) {\n\tsink(v);\n}\n\nscript c03scr3(a any, b string, c any) {\n\tsink(a, b, c);\n}\n"}
	for _, p := range positions {
		fs["p_"+p.Name+".templ"] = "package main\n\ntempl P_" + p.Name + "(v any) {\n\t" + p.Body + "\n}\n"
	}
	return fs
}

const helperSrc = `package main

func fnName(v any) string { s, _ := v.(string); return s }
`

// driver: JSONL {"i":n,"v":Spec[,"k":position]} -> {"i":n,"o":[base64 per position],"e":[per-position error or ""]}.
func driverSrc(available map[string]bool) string {
	var sb strings.Builder
	sb.WriteString(`package main

import (
	"bufio"
	"bytes"
	"context"
	"encoding/base64"
	"encoding/json"
	"io"
	"os"

	"github.com/a-h/templ"
)

var registry = []struct {
	name string
	f    func(any) templ.Component
}{
`)
	for _, p := range positions {
		if available[p.Name] {
			sb.WriteString("\t{\"" + p.Name + "\", P_" + p.Name + "},\n")
		} else {
			sb.WriteString("\t{\"" + p.Name + "\", nil},\n")
		}
	}
	sb.WriteString(`}

type job struct {
	I int    ` + "`json:\"i\"`" + `
	V Spec   ` + "`json:\"v\"`" + `
	K string ` + "`json:\"k\"`" + `
}

type out struct {
	I int      ` + "`json:\"i\"`" + `
	O []string ` + "`json:\"o\"`" + `
	E []string ` + "`json:\"e\"`" + `
}

func main() {
	in := bufio.NewReaderSize(os.Stdin, 1<<20)
	w := bufio.NewWriterSize(os.Stdout, 1<<20)
	defer w.Flush()
	enc := json.NewEncoder(w)
	var buf bytes.Buffer
	for {
		line, err := in.ReadBytes('\n')
		if len(line) > 1 {
			var j job
			if e := json.Unmarshal(line, &j); e != nil {
				panic(e)
			}
			o := out{I: j.I}
			// a single-position job (shrinking, replay) is preceded by the first
			// position (templ.JSONString) like in a full job, so that a failure
			// that needs the earlier API call reproduces
			if j.K != "" && j.K != registry[0].name && registry[0].f != nil {
				_ = registry[0].f(j.V.Go()).Render(context.Background(), io.Discard)
			}
			for _, r := range registry {
				if j.K != "" && j.K != r.name {
					o.O, o.E = append(o.O, ""), append(o.E, "")
					continue
				}
				buf.Reset()
				msg := ""
				if r.f == nil {
					msg = "position not compiled"
				} else if e := r.f(j.V.Go()).Render(context.Background(), &buf); e != nil {
					msg = e.Error()
				}
				o.O, o.E = append(o.O, base64.StdEncoding.EncodeToString(buf.Bytes())), append(o.E, msg)
			}
			if e := enc.Encode(o); e != nil {
				panic(e)
			}
		}
		if err != nil {
			return
		}
	}
}
`)
	return sb.String()
}
