package c03

import (
	_ "embed"
	"strings"
)

//go:embed valspec.go
var valspecSrc string

// Sentinel is the benign string every position is rendered with once.
const Sentinel = "zQsentinel9"

// pos is one JavaScript position. Frags lists, in document order, the kind of
// every dynamic fragment (bare = JSON text as an expression, sq/dq/bt = inside
// a '…' / "…" / `…` literal, json = body of the JSON script element, fn = the
// function name of JSFuncCall). Want is, per dynamic unit (script element or
// on*/hx-on attribute containing a fragment), the calls the sink functions must
// have recorded: a JSON template where $V is the value's JSON encoding and $L
// the JSON string of the literal's expected content.
type pos struct {
	Name  string
	Body  string
	Frags []string
	Want  []string
}

var positions = []pos{
	{"bare", `<script>sink({{ v }});</script><p>after</p>`, []string{"bare"}, []string{`[[$V]]`}},
	{"sq", `<script>sink('{{ v }}');</script><p>after</p>`, []string{"sq"}, []string{`[[$L]]`}},
	{"dq", `<script>sink("{{ v }}");</script><p>after</p>`, []string{"dq"}, []string{`[[$L]]`}},
	{"bt", "<script>sink(`{{ v }}`);</script><p>after</p>", []string{"bt"}, []string{`[[$L]]`}},
	{"combo", "<script>\n\t\tvar a = {{ v }};\n\t\tsink(a, '{{ v }}', \"{{ v }}\", `{{ v }}`);\n\t</script><p>after</p>", []string{"bare", "sq", "dq", "bt"}, []string{`[[$V,$L,$L,$L]]`}},
	{"quote_state", `<script>sink("it's", {{ v }}, 'say "hi"', "{{ v }}", 'a\'b', {{ v }}, "a\"b", '{{ v }}');</script><p>after</p>`, []string{"bare", "dq", "bare", "sq"}, []string{`[["it's",$V,"say \"hi\"",$L,"a'b",$V,"a\"b",$L]]`}},
	{"after_comments", "<script>\n\t\t// it's a comment\n\t\t/* don't \"quote\" */ sink({{ v }}, '{{ v }}');\n\t</script><p>after</p>", []string{"bare", "sq"}, []string{`[[$V,$L]]`}},
	{"two_scripts", `<script>sink(1, {{ v }});</script><div>x</div><script type="module">sink(2, "{{ v }}");</script>`, []string{"bare", "dq"}, []string{`[[1,$V]]`, `[[2,$L]]`}},
	{"script_component", "@c03scr(v)\n<p>after</p>", []string{"bare"}, []string{`[[$V]]`}},
	{"script_attr", `<button type="button" onclick={ c03scr(v) } id="b">x</button>`, []string{"bare"}, []string{`[[$V]]`}},
	{"script3_component", "@c03scr3(v, \"k\", v)\n<p>after</p>", []string{"bare", "bare"}, []string{`[[$V,"k",$V]]`}},
	{"script3_attr", `<a onmouseover={ c03scr3(v, "k", v) }>x</a>`, []string{"bare", "bare"}, []string{`[[$V,"k",$V]]`}},
	{"funccall_component", "@templ.JSFuncCall(\"sink\", v, \"k\")\n<p>after</p>", []string{"bare"}, []string{`[[$V,"k"]]`}},
	{"funccall_attr", `<button onclick={ templ.JSFuncCall("sink", v) } id="b">x</button>`, []string{"bare"}, []string{`[[$V]]`}},
	{"funccall_dotted_hxon", `<div hx-on:click={ templ.JSFuncCall("ns.sink", 7, v) }>x</div>`, []string{"bare"}, []string{`[[7,$V]]`}},
	{"funccall_cond_attr", "<input type=\"text\"\n\t\tif v != nil || true {\n\t\t\tonchange={ templ.JSFuncCall(\"sink\", v) }\n\t\t}\n\t/><p>after</p>", []string{"bare"}, []string{`[[$V]]`}},
	{"jsonscript", "@templ.JSONScript(\"id\", v)\n<p>after</p>", []string{"json"}, []string{`[[$V]]`}},
	// function name of JSFuncCall (strings only; lexical oracle, see fnNameFault)
	{"funccall_name_component", "@templ.JSFuncCall(fnName(v), 1)\n<p>after</p>", []string{"fn"}, nil},
	{"funccall_name_attr", `<button onclick={ templ.JSFuncCall(fnName(v), 1) }>x</button>`, []string{"fn"}, nil},
}

// templFiles prints the corpus package: the shared script templates plus one
// file per position, so that a template the parser mis-reads cannot swallow the
// others.
func templFiles() map[string]string {
	fs := map[string]string{"scripts.templ": "package main\n\nscript c03scr(v any) {\n\tsink(v);\n}\n\nscript c03scr3(a any, b string, c any) {\n\tsink(a, b, c);\n}\n"}
	for _, p := range positions {
		fs["p_"+p.Name+".templ"] = "package main\n\ntempl P_" + p.Name + "(v any) {\n\t" + p.Body + "\n}\n"
	}
	return fs
}

const helperSrc = `package main

func fnName(v any) string { s, _ := v.(string); return s }
`

// driver: JSONL {"i":n,"v":Spec[,"k":position]} -> {"i":n,"o":[base64 per position],"e":[per-position error or ""]}.
func driverSrc(available map[string]bool) string {
	var sb strings.Builder
	sb.WriteString(`package main

import (
	"bufio"
	"bytes"
	"context"
	"encoding/base64"
	"encoding/json"
	"os"

	"github.com/a-h/templ"
)

var registry = []struct {
	name string
	f    func(any) templ.Component
}{
`)
	for _, p := range positions {
		if available[p.Name] {
			sb.WriteString("\t{\"" + p.Name + "\", P_" + p.Name + "},\n")
		} else {
			sb.WriteString("\t{\"" + p.Name + "\", nil},\n")
		}
	}
	sb.WriteString(`}

type job struct {
	I int    ` + "`json:\"i\"`" + `
	V Spec   ` + "`json:\"v\"`" + `
	K string ` + "`json:\"k\"`" + `
}

type out struct {
	I int      ` + "`json:\"i\"`" + `
	O []string ` + "`json:\"o\"`" + `
	E []string ` + "`json:\"e\"`" + `
}

func main() {
	in := bufio.NewReaderSize(os.Stdin, 1<<20)
	w := bufio.NewWriterSize(os.Stdout, 1<<20)
	defer w.Flush()
	enc := json.NewEncoder(w)
	var buf bytes.Buffer
	for {
		line, err := in.ReadBytes('\n')
		if len(line) > 1 {
			var j job
			if e := json.Unmarshal(line, &j); e != nil {
				panic(e)
			}
			o := out{I: j.I}
			for _, r := range registry {
				if j.K != "" && j.K != r.name {
					o.O, o.E = append(o.O, ""), append(o.E, "")
					continue
				}
				buf.Reset()
				msg := ""
				if r.f == nil {
					msg = "position not compiled"
				} else if e := r.f(j.V.Go()).Render(context.Background(), &buf); e != nil {
					msg = e.Error()
				}
				o.O, o.E = append(o.O, base64.StdEncoding.EncodeToString(buf.Bytes())), append(o.E, msg)
			}
			if e := enc.Encode(o); e != nil {
				panic(e)
			}
		}
		if err != nil {
			return
		}
	}
}
`)
	return sb.String()
}
