// Package c03 checks property C03: Go values placed into JavaScript arrive as
// data only.
//
// Pipeline (all verdicts offline, from the driver's rendered bytes):
//
//	rendered bytes -> x/net/html tokenizer: same token skeleton as the rendering
//	with a benign sentinel (the script element / on* attribute ends where the
//	template says) -> script bodies and decoded on* attribute values ("units")
//	-> lexical breakout monitors on each dynamic fragment -> each dynamic unit
//	evaluated separately in a fresh V8 context (cmd/vjs worker) after a prelude
//	whose sink functions record their arguments -> the record must equal the
//	Go value's JSON encoding (the original string inside literals).
package c03

import (
	"encoding/base64"
	"encoding/json"
	"fmt"
	"math"
	"os"
	"os/exec"
	"path/filepath"
	"reflect"
	"regexp"
	"runtime"
	"sort"
	"strconv"
	"strings"
	"sync"
	"syscall"
	"time"
	"unicode/utf8"

	"verif/checks/c01"
	"verif/core"
	"verif/corpus"
	"verif/oracle/html5"
)

// ---------------------------------------------------------------- V8 side

// prelude: sink functions record a typed encoding of their arguments, so that
// undefined / NaN / functions / objects with a changed prototype cannot be
// mistaken for JSON data.
const prelude = `var __rec = [];
function __enc(x) {
  if (x === null) return null;
  var t = typeof x;
  if (t === 'undefined') return {"$undefined": 1};
  if (t === 'number') return (x === 0 && 1 / x < 0) ? {"$number": "-0"} : isFinite(x) ? x : {"$number": String(x)};
  if (t === 'string' || t === 'boolean') return x;
  if (t !== 'object') return {"$type": t};
  if (Array.isArray(x)) { var a = []; for (var i = 0; i < x.length; i++) a.push(__enc(x[i])); return a; }
  var o = Object.create(null);
  if (Object.getPrototypeOf(x) !== Object.prototype) o["$prototype_changed"] = true;
  var ks = Object.keys(x);
  for (var j = 0; j < ks.length; j++) o[ks[j]] = __enc(x[ks[j]]);
  return o;
}
function sink() { var a = []; for (var i = 0; i < arguments.length; i++) a.push(__enc(arguments[i])); __rec.push(a); }
var ns = {sink: sink};
function __templ_invalid_js_function_name() { __rec.push("invalid function name called"); }
`

const epilogue = "\n;JSON.stringify(__rec)"

type vjob struct {
	ID     int    `json:"id"`
	Script string `json:"script"`
}

type vres struct {
	ID     int     `json:"id"`
	Result *string `json:"result"`
	Error  *string `json:"error"`
}

// vjsBin builds cmd/vjs (the only binary linking v8go) once per run; the build
// is serialised with a file lock because the output path is shared.
func vjsBin(c *core.Ctx) string {
	hdir := filepath.Join(c.Verif, "harness")
	bin := filepath.Join(hdir, "bin", "vjs")
	_ = os.MkdirAll(filepath.Dir(bin), 0o755)
	lock, err := os.OpenFile(bin+".lock", os.O_CREATE|os.O_RDWR, 0o644)
	if err == nil {
		defer lock.Close()
		_ = syscall.Flock(int(lock.Fd()), syscall.LOCK_EX)
		defer syscall.Flock(int(lock.Fd()), syscall.LOCK_UN)
	}
	args := []string{"build"}
	if mf := os.Getenv("VERIF_MODFLAG"); mf != "" {
		args = append(args, mf)
	}
	args = append(args, "-o", bin, "./cmd/vjs")
	cmd := exec.Command("go", args...)
	cmd.Dir = hdir
	cmd.Env = corpus.Env()
	if out, err := cmd.CombinedOutput(); err != nil {
		core.Infra("building the V8 worker cmd/vjs failed: %v\n%s", err, corpus.Tail(string(out), 2000))
	}
	return bin
}

var vjsSlots = make(chan struct{}, runtime.NumCPU())

// evalJS runs the scripts through parallel vjs workers; results by index. A
// job whose watchdog fired (loaded machine) is retried alone with a two-minute
// watchdog; if that fires too the case is inconclusive, never a verdict.
func (e *engine) evalJS(scripts []string) []vres {
	out := e.evalJSOnce(scripts, nil)
	var again []string
	var idx []int
	for i, r := range out {
		if r.Error != nil && *r.Error == "timeout" {
			again, idx = append(again, scripts[i]), append(idx, i)
		}
	}
	if len(again) > 0 {
		e.c.Add("v8_watchdog_retries", len(again))
		for k, r := range e.evalJSOnce(again, []string{"VJS_TIMEOUT_MS=120000"}) {
			r.ID = idx[k]
			out[idx[k]] = r
		}
	}
	return out
}

func (e *engine) evalJSOnce(scripts []string, env []string) []vres {
	out := make([]vres, len(scripts))
	nw := min(runtime.NumCPU(), 1+len(scripts)/500)
	var wg sync.WaitGroup
	for w := 0; w < nw; w++ {
		wg.Add(1)
		go func(w int) {
			defer wg.Done()
			vjsSlots <- struct{}{}
			defer func() { <-vjsSlots }()
			lo, hi := len(scripts)*w/nw, len(scripts)*(w+1)/nw
			var in strings.Builder
			enc := json.NewEncoder(&in)
			enc.SetEscapeHTML(false)
			for i := lo; i < hi; i++ {
				_ = enc.Encode(vjob{i, scripts[i]})
			}
			res := corpus.Run(e.vjs, nil, []byte(in.String()), env, e.pkg.Dir, 30*time.Minute)
			dec := json.NewDecoder(strings.NewReader(string(res.Stdout)))
			n := 0
			for dec.More() {
				var r vres
				if err := dec.Decode(&r); err != nil {
					break
				}
				if r.ID >= lo && r.ID < hi {
					out[r.ID] = r
					n++
				}
			}
			if res.Err != nil || n != hi-lo {
				e.c.Inconclusive(fmt.Sprintf("V8 worker failed (%v, timeout=%v, %d of %d results): %s", res.Err, res.TimedOut, n, hi-lo, corpus.Tail(string(res.Stderr), 600)))
			}
		}(w)
	}
	wg.Wait()
	return out
}

// ---------------------------------------------------------------- units

// unit is one piece of JavaScript of a rendered document: the body of a script
// element or the decoded value of an on* / hx-on attribute.
type unit struct {
	Attr bool
	Text string
}

func units(ts []html5.Tok) []unit {
	var us []unit
	for i, t := range ts {
		if t.Kind != "start" && t.Kind != "selfclose" {
			continue
		}
		for _, a := range t.Attrs {
			if strings.HasPrefix(a.Key, "on") || strings.HasPrefix(a.Key, "hx-on") || a.Key == "data-j" {
				us = append(us, unit{true, a.Val})
			}
		}
		if t.Name == "script" && t.Kind == "start" {
			u := unit{}
			if i+1 < len(ts) && ts[i+1].Kind == "text" {
				u.Text = ts[i+1].Data
			}
			us = append(us, u)
		}
	}
	return us
}

// plan is what the benign rendering of a position says about its units: which
// are dynamic, and the static pieces around each dynamic fragment.
type plan struct {
	toks   []html5.Tok
	units  []unit
	dyn    []int      // indices of dynamic units
	pieces [][]string // per dynamic unit: static text before/between/after its fragments
	kinds  [][]string // per dynamic unit: fragment kinds
}

// encSentinel: how the benign value shows in a fragment of the given kind; in a
// split position (n pieces) every piece is the sentinel and the adjacent
// interpolations inside a literal form ONE fragment.
func encSentinel(kind string, n int) string {
	if kind == "bare" || kind == "jsonattr" {
		return `"` + Sentinel + `"`
	}
	if kind == "json" {
		return `"` + Sentinel + `"` + "\n"
	}
	return strings.Repeat(Sentinel, max(1, n))
}

// benignSpec is the benign value of a position.
func benignSpec(name string) Spec {
	switch nPieces(name) {
	case 2:
		return MkSplit(Sentinel+Sentinel, len(Sentinel))
	case 3:
		return MkSplit(Sentinel+Sentinel+Sentinel, len(Sentinel), 2*len(Sentinel))
	}
	return MkSpec("str", Sentinel)
}

func mkPlan(p *pos, doc []byte) (*plan, error) {
	ts, err := html5.Tokenize(doc)
	if err != nil {
		return nil, err
	}
	pl := &plan{toks: ts, units: units(ts)}
	fi := 0
	for ui, u := range pl.units {
		if !strings.Contains(u.Text, Sentinel) {
			continue
		}
		rest := u.Text
		var pieces, kinds []string
		for fi < len(p.Frags) {
			k := p.Frags[fi]
			i := strings.Index(rest, encSentinel(k, nPieces(p.Name)))
			if i < 0 {
				break
			}
			pieces, kinds = append(pieces, rest[:i]), append(kinds, k)
			rest = rest[i+len(encSentinel(k, nPieces(p.Name))):]
			fi++
		}
		if strings.Contains(rest, Sentinel) || len(kinds) == 0 {
			return nil, fmt.Errorf("unit %d %q does not match fragment kinds %v", ui, u.Text, p.Frags)
		}
		pl.dyn = append(pl.dyn, ui)
		pl.pieces = append(pl.pieces, append(pieces, rest))
		pl.kinds = append(pl.kinds, kinds)
	}
	if fi != len(p.Frags) || (p.Want != nil && len(pl.dyn) != len(p.Want)) {
		return nil, fmt.Errorf("found %d fragments in %d dynamic units, position declares %d fragments / %d units: %q", fi, len(pl.dyn), len(p.Frags), len(p.Want), doc)
	}
	return pl, nil
}

// fragments cuts the dynamic fragments out of a unit's text using the static
// pieces of the benign rendering. A bare/json fragment is one JSON value
// (scanned with a JSON decoder, because JSON strings may contain the quote that
// starts the next static piece); a fragment inside a literal ends at the next
// static piece, which starts with the literal's closing quote (a correct
// fragment contains no raw quote of that kind; for an incorrect one the lexical
// monitor or V8 fires whatever the cut).
func fragments(text string, pieces, kinds []string) ([]string, bool) {
	if !strings.HasPrefix(text, pieces[0]) {
		return nil, false
	}
	rest := text[len(pieces[0]):]
	var out []string
	for i := 1; i < len(pieces); i++ {
		j := -1
		if k := kinds[i-1]; k == "bare" || k == "json" || k == "jsonattr" {
			dec := json.NewDecoder(strings.NewReader(rest))
			var raw json.RawMessage
			if dec.Decode(&raw) == nil {
				j = int(dec.InputOffset())
				if k == "json" && j < len(rest) && rest[j] == '\n' {
					j++
				}
				if !strings.HasPrefix(rest[j:], pieces[i]) {
					j = -1
				}
			}
		}
		if j < 0 && i == len(pieces)-1 {
			if !strings.HasSuffix(rest, pieces[i]) {
				return nil, false
			}
			j = len(rest) - len(pieces[i])
		} else if j < 0 {
			if j = strings.Index(rest, pieces[i]); j < 0 || pieces[i] == "" {
				return nil, false
			}
		}
		out = append(out, rest[:j])
		rest = rest[j+len(pieces[i]):]
	}
	return out, rest == ""
}

var reEndScript = regexp.MustCompile(`(?i)</script`)

// unescapedAt reports whether text[i] is preceded by an even number of backslashes.
func unescapedAt(text string, i int) bool {
	n := 0
	for j := i - 1; j >= 0 && text[j] == '\\'; j-- {
		n++
	}
	return n%2 == 0
}

// lexical is the breakout monitor over one dynamic fragment as emitted (before
// evaluation). It flags exactly what the property names: end of the script
// element, HTML comment opener, end of the enclosing literal (raw quote of the
// enclosing kind, raw line terminator in '…'/"…", dangling backslash), and a
// template-literal interpolation opener.
func lexical(kind, frag string) string {
	if kind == "jsonattr" {
		return "" // a data attribute is not a script context; only its decoded value is compared
	}
	if reEndScript.MatchString(frag) {
		return "fragment contains </script"
	}
	if strings.Contains(frag, "<!--") {
		return "fragment contains <!--"
	}
	q := map[string]byte{"sq": '\'', "dq": '"', "bt": '`'}[kind]
	if q == 0 {
		return ""
	}
	for i := 0; i < len(frag); i++ {
		switch {
		case frag[i] == q && unescapedAt(frag, i):
			return fmt.Sprintf("raw %c ends the enclosing literal", q)
		case kind == "bt" && frag[i] == '$' && i+1 < len(frag) && frag[i+1] == '{' && unescapedAt(frag, i):
			return "${ opens a template-literal interpolation"
		case kind != "bt" && (frag[i] == '\n' || frag[i] == '\r'):
			return "raw line terminator inside a quoted literal"
		}
	}
	if kind != "bt" && (strings.Contains(frag, "\u2028") || strings.Contains(frag, "\u2029")) {
		return "raw U+2028/U+2029 inside a quoted literal"
	}
	if !unescapedAt(frag, len(frag)) {
		return "dangling backslash escapes the closing quote"
	}
	return ""
}

var reNameChars = regexp.MustCompile(`^[A-Za-z0-9_$.]+$`)

// fnNameFault: JSFuncCall's function name is either emitted verbatim - and
// then consists of identifier characters and dots only - or replaced by
// templ's invalid-name function; nothing else may appear before "(1)".
func fnNameFault(text, name string) string {
	if text == "__templ_invalid_js_function_name(1)" || (text == name+"(1)" && reNameChars.MatchString(name)) {
		return ""
	}
	return fmt.Sprintf("function name %q emitted as call %q", name, text)
}

// ---------------------------------------------------------------- value comparison

func collapse(s string) string {
	s = strings.ToValidUTF8(s, "\ufffd")
	for strings.Contains(s, "\ufffd\ufffd") {
		s = strings.ReplaceAll(s, "\ufffd\ufffd", "\ufffd")
	}
	return s
}

// normJSON collapses U+FFFD runs in every string (keys and values): V8 / the
// HTML decoder emit one replacement per maximal invalid subsequence, Go's
// encoding/json one per byte.
func normJSON(v any) any {
	switch x := v.(type) {
	case string:
		return collapse(x)
	case float64:
		// numbers are compared bit for bit: == on float64 plus the sign of zero
		// (the prelude reports a JavaScript -0 with the same marker)
		if x == 0 && math.Signbit(x) {
			return map[string]any{"$number": "-0"}
		}
	case []any:
		for i := range x {
			x[i] = normJSON(x[i])
		}
	case map[string]any:
		m := map[string]any{}
		for k, y := range x {
			m[collapse(k)] = normJSON(y)
		}
		return m
	}
	return v
}

// want builds the expected record of one dynamic unit.
func want(tmpl string, sp Spec) (any, string, error) {
	if strings.HasPrefix(sp.Shape, "enum_") {
		EnumMu.Lock() // the enum types look their text up in a package variable set by Go()
		defer EnumMu.Unlock()
	}
	v := sp.Go()
	vj, err := json.Marshal(v)
	if err != nil {
		return nil, "", err
	}
	lit := string(vj) // inside a literal a non-string arrives as its JSON text
	if s, ok := v.(string); ok {
		lit = s
	}
	lj, _ := json.Marshal(lit)
	// $J: the pieces of a cut string, each JSON-encoded on its own (a cut inside a
	// multi-byte sequence makes each piece invalid UTF-8 by itself), then joined
	joined := ""
	for _, pc := range sp.Pieces(len(sp.Cuts) + 1) {
		joined += strings.ToValidUTF8(pc.(string), "\ufffd")
	}
	jj, _ := json.Marshal(joined)
	txt := strings.NewReplacer("$V", string(vj), "$L", string(lj), "$S", string(lj[1:len(lj)-1]), "$J", string(jj)).Replace(tmpl) // single pass: substituted text is not rescanned
	var w any
	if err := json.Unmarshal([]byte(txt), &w); err != nil {
		return nil, "", fmt.Errorf("bad expectation %s: %v", txt, err)
	}
	return normJSON(w), txt, nil
}

// ---------------------------------------------------------------- engine

type engine struct {
	c     *core.Ctx
	pkg   *corpus.Pkg
	bin   string
	vjs   string
	plans []*plan
	mu    sync.Mutex
	memo  map[string]string // judge results by case key (shrinking revisits the same candidates)
	// broken: positions that fail with the benign string (reported, then skipped)
	broken map[string]string
}

type rendering struct {
	I int      `json:"i"`
	O []string `json:"o"`
	E []string `json:"e"`
}

type job struct {
	I int    `json:"i"`
	V Spec   `json:"v"`
	K string `json:"k"`
	L int    `json:"l"`
}

// Case is one (position, value).
type Case struct {
	Pos  string `json:"position"`
	V    Spec   `json:"value"`
	Leaf string `json:"leaf_quoted"`
}

func posIndex(name string) int {
	for i := range positions {
		if positions[i].Name == name {
			return i
		}
	}
	return -1
}

func build(c *core.Ctx) *engine {
	e := &engine{c: c, memo: map[string]string{}}
	var wg sync.WaitGroup
	wg.Add(1)
	go func() { defer wg.Done(); e.vjs = vjsBin(c) }()
	p := corpus.New(c, "c03")
	for name, src := range templFiles() {
		p.Write(name, src)
	}
	p.Write("helper.go", helperSrc)
	p.Write("valspec.go", strings.Replace(valspecSrc, "package c03", "package main", 1))
	genOut, genErr := p.Generate()
	// a position whose template the generator does not turn into its component
	// (parse error, or swallowed by a mis-parsed script element) is reported as
	// broken; the others still run
	e.broken = map[string]string{}
	available := map[string]bool{}
	for _, ps := range positions {
		src, _ := p.Read("p_" + ps.Name + "_templ.go")
		if available[ps.Name] = strings.Contains(src, "func P_"+ps.Name+"("); !available[ps.Name] {
			e.broken[ps.Name] = fmt.Sprintf("templ generate did not produce the component (%v): %s", genErr, corpus.Tail(genOut, 600))
			_ = os.Remove(filepath.Join(p.Dir, "p_"+ps.Name+"_templ.go"))
		}
	}
	if src, _ := p.Read("scripts_templ.go"); genErr != nil && (len(e.broken) == 0 || !strings.Contains(src, "func c03scr3(")) {
		core.Infra("templ generate failed on the C03 positions: %v\n%s", genErr, corpus.Tail(genOut, 3000))
	}
	p.Write("main.go", driverSrc(available))
	bin, out, err := p.Build(false, ".")
	if err != nil {
		core.Infra("go build failed on the C03 positions: %v\n%s", err, corpus.Tail(out, 3000))
	}
	e.pkg, e.bin = p, bin
	wg.Wait()
	// benign renderings: job n-1 carries the benign value of the positions with n pieces (0 -> job 0)
	docs3, errs3 := e.render([]Spec{benignSpec("bare"), benignSpec("split_sq2"), benignSpec("split_sq3")}, "", 16)
	if docs3 == nil {
		core.Infra("driver returned no benign rendering")
	}
	docs, errs := [][][]byte{make([][]byte, len(positions))}, [][]string{make([]string, len(positions))}
	for i := range positions {
		k := max(0, nPieces(positions[i].Name)-1)
		docs[0][i], errs[0][i] = docs3[k][i], errs3[k][i]
	}
	// A position whose benign rendering does not even contain the expected
	// fragments, or where the benign string itself fails the pipeline, is a
	// refuting observation in its own right (the position is broken for every
	// value); it is reported and left out of the matrix.
	for i := range positions {
		if e.broken[positions[i].Name] != "" {
			e.plans = append(e.plans, nil)
			continue
		}
		pl, err := mkPlan(&positions[i], docs[0][i])
		if err != nil || errs[0][i] != "" {
			e.broken[positions[i].Name] = fmt.Sprintf("rendering with the benign string %q is unusable: %v %s", Sentinel, err, errs[0][i])
			pl = nil
		}
		e.plans = append(e.plans, pl)
	}
	var cs []Case
	for i := range positions {
		if e.plans[i] != nil {
			cs = append(cs, Case{Pos: positions[i].Name, V: benignSpec(positions[i].Name)})
		}
	}
	for i, m := range e.judge(cs) {
		if m != "" {
			e.broken[cs[i].Pos] = fmt.Sprintf("the benign string %q fails: %s", Sentinel, m)
		}
	}
	if len(e.broken) == len(positions) {
		core.Infra("every position fails with the benign string, e.g. %s", e.broken["bare"])
	}
	return e
}

// render runs the driver: with only == "" every job renders the positions that
// fit its value and whose sampling class is <= levels[i] (one level for all jobs
// if a single one is given).
func (e *engine) render(vals []Spec, only string, levels ...int) ([][][]byte, [][]string) {
	var in strings.Builder
	enc := json.NewEncoder(&in)
	for i, v := range vals {
		l := 16
		if len(levels) == 1 {
			l = levels[0]
		} else if len(levels) > 1 {
			l = levels[i]
		}
		_ = enc.Encode(job{i, v, only, l})
	}
	res := corpus.Run(e.bin, nil, []byte(in.String()), nil, e.pkg.Dir, 10*time.Minute)
	if res.Err != nil {
		e.c.Inconclusive(fmt.Sprintf("driver failed (%v, timeout=%v): %s", res.Err, res.TimedOut, corpus.Tail(string(res.Stderr), 800)))
		return nil, nil
	}
	docs, errs := make([][][]byte, len(vals)), make([][]string, len(vals))
	dec := json.NewDecoder(strings.NewReader(string(res.Stdout)))
	for dec.More() {
		var r rendering
		if err := dec.Decode(&r); err != nil {
			core.Infra("bad driver output: %v", err)
		}
		d := make([][]byte, len(r.O))
		for j, o := range r.O {
			d[j], _ = base64.StdEncoding.DecodeString(o)
		}
		docs[r.I], errs[r.I] = d, r.E
	}
	return docs, errs
}

// judge runs the whole pipeline over cases (grouped by position for the
// driver) and returns one message per case ("" = held).
func (e *engine) judge(all []Case) []string {
	res := make([]string, len(all))
	var cases []Case
	var idxs []int
	e.mu.Lock()
	for i, cs := range all {
		if m, ok := e.memo[key(cs)]; ok {
			res[i] = m
		} else {
			cases, idxs = append(cases, cs), append(idxs, i)
		}
	}
	e.mu.Unlock()
	if len(cases) == 0 {
		return res
	}
	defer func() {
		e.mu.Lock()
		for k, i := range idxs {
			e.memo[key(cases[k])] = res[i]
		}
		e.mu.Unlock()
	}()
	for k, m := range e.judgeFresh(cases) {
		res[idxs[k]] = m
	}
	return res
}

func (e *engine) judgeFresh(cases []Case) []string {
	msgs := make([]string, len(cases))
	byPos := map[string][]int{}
	for i, cs := range cases {
		byPos[cs.Pos] = append(byPos[cs.Pos], i)
	}
	docs := make([][]byte, len(cases))
	for name, idx := range byPos {
		vals := make([]Spec, len(idx))
		for k, i := range idx {
			vals[k] = cases[i].V
		}
		pi := posIndex(name)
		ds, es := e.render(vals, name)
		for k, i := range idx {
			if ds == nil || ds[k] == nil {
				msgs[i] = "inconclusive: no rendering"
			} else if es[k][pi] != "" && Unencodable(cases[i].V.Shape) {
				// Render refusing a value encoding/json cannot encode is a data-only outcome
			} else if es[k][pi] != "" {
				msgs[i] = "inconclusive: render error " + es[k][pi]
			} else {
				docs[i] = ds[k][pi]
			}
		}
	}
	return e.judgeDocs(cases, docs, msgs)
}

type pending struct {
	ci   int
	want any
	txt  string
}

// judgeDocs: the offline monitors over rendered documents.
func (e *engine) judgeDocs(cases []Case, docs [][]byte, msgs []string) []string {
	var scripts []string
	var pend []pending
	lex := map[int]string{}
	for ci, cs := range cases {
		if msgs[ci] != "" || docs[ci] == nil {
			continue
		}
		pi := posIndex(cs.Pos)
		p, pl := &positions[pi], e.plans[pi]
		if pl == nil {
			msgs[ci] = "inconclusive: position has no usable benign rendering"
			continue
		}
		ts, err := html5.Tokenize(docs[ci])
		if err != nil {
			msgs[ci] = "tokenizer error: " + err.Error()
			continue
		}
		// 1. same skeleton as the benign rendering; static values identical
		if a, b := html5.Skeleton(ts), html5.Skeleton(pl.toks); a != b {
			msgs[ci] = fmt.Sprintf("document structure %s, benign skeleton %s (rendered %q)", a, b, docs[ci])
			continue
		}
		for i, bt := range pl.toks {
			for j, ba := range bt.Attrs {
				if !strings.Contains(ba.Val, Sentinel) && ts[i].Attrs[j].Val != ba.Val {
					msgs[ci] = fmt.Sprintf("static attribute %s=%q became %q", ba.Key, ba.Val, ts[i].Attrs[j].Val)
				}
			}
			if bt.Kind == "text" && !strings.Contains(bt.Data, Sentinel) && ts[i].Data != bt.Data {
				msgs[ci] = fmt.Sprintf("static text %q became %q", bt.Data, ts[i].Data)
			}
		}
		us := units(ts)
		if msgs[ci] != "" || len(us) != len(pl.units) {
			continue
		}
		// 2. lexical monitors per fragment, 3. V8 job per dynamic unit
		defs := ""
		di := 0
		for ui, u := range us {
			if di >= len(pl.dyn) || pl.dyn[di] != ui {
				if !u.Attr {
					defs += u.Text + "\n"
				}
				continue
			}
			frs, ok := fragments(u.Text, pl.pieces[di], pl.kinds[di])
			if !ok {
				msgs[ci] = fmt.Sprintf("static JavaScript around the value changed: unit %q, expected pieces %q", u.Text, pl.pieces[di])
				break
			}
			for k, fr := range frs {
				kind := pl.kinds[di][k]
				if kind == "fn" {
					if m := fnNameFault(u.Text, cs.V.LeafString()); m != "" {
						msgs[ci] = m
					}
				} else if m := lexical(kind, fr); m != "" && lex[ci] == "" {
					lex[ci] = fmt.Sprintf("%s fragment %q: %s", kind, fr, m) // V8 still runs: its observation is appended
				}
			}
			if msgs[ci] != "" {
				break
			}
			if Unencodable(cs.V.Shape) {
				// no JSON exists for the value: what the script evaluates to (call without
				// the argument, syntax error) is not judged, only that it cannot break out:
				// skeleton and static text above, lexical monitors on the fragments here
				if lex[ci] != "" {
					msgs[ci] = lex[ci]
					break
				}
				di++
				continue
			}
			if p.Want != nil {
				w, txt, err := want(p.Want[di], cs.V)
				if err != nil {
					msgs[ci] = "inconclusive: " + err.Error()
					break
				}
				if pl.kinds[di][0] == "jsonattr" {
					// templ.JSONString in a data attribute: the decoded attribute value is
					// JSON text (no script context), parsed here and compared like a record
					var got any
					if err := json.Unmarshal([]byte(u.Text), &got); err != nil {
						msgs[ci] = fmt.Sprintf("data-j attribute %q is not JSON (%v), expected %s", u.Text, err, txt)
					} else if !reflect.DeepEqual(normJSON([]any{[]any{got}}), w) {
						msgs[ci] = fmt.Sprintf("data-j attribute holds %s, expected %s", u.Text, txt)
					}
					if msgs[ci] != "" {
						break
					}
					di++
					continue
				}
				src := prelude + defs + u.Text + epilogue
				if pl.kinds[di][0] == "json" {
					lit, _ := json.Marshal(u.Text)
					src = prelude + "sink(JSON.parse(" + string(lit) + "));" + epilogue
				}
				scripts = append(scripts, src)
				pend = append(pend, pending{ci, w, txt})
			}
			di++
		}
	}
	for ci, m := range lex {
		if positions[posIndex(cases[ci].Pos)].Want == nil && msgs[ci] == "" {
			msgs[ci] = m
		}
	}
	res := e.evalJS(scripts)
	for k, pd := range pend {
		if msgs[pd.ci] != "" {
			continue
		}
		r := res[k]
		if m := lex[pd.ci]; m != "" {
			switch {
			case r.Error != nil:
				m += fmt.Sprintf("; V8: %s; expected the sinks to receive %s", *r.Error, pd.txt)
			case r.Result != nil:
				m += fmt.Sprintf("; V8: sinks received %s, expected %s", *r.Result, pd.txt)
			}
			msgs[pd.ci] = m
			continue
		}
		switch {
		case r.Error != nil && *r.Error == "timeout":
			msgs[pd.ci] = "inconclusive: V8 watchdog fired twice"
		case r.Error != nil:
			msgs[pd.ci] = fmt.Sprintf("V8: %s; expected the sinks to receive %s", *r.Error, pd.txt)
		case r.Result == nil:
			msgs[pd.ci] = "inconclusive: no V8 result"
		default:
			var got any
			if err := json.Unmarshal([]byte(*r.Result), &got); err != nil {
				msgs[pd.ci] = fmt.Sprintf("V8 result %q is not JSON", *r.Result)
			} else if !reflect.DeepEqual(normJSON(got), pd.want) {
				msgs[pd.ci] = fmt.Sprintf("sinks received %s, expected %s", *r.Result, pd.txt)
			}
		}
	}
	return msgs
}

// basePositions maps a composite position to the elementary positions that
// exercise the same encoder; a failure that reproduces there is reported there.
var basePositions = map[string][]string{
	"combo": {"bare", "sq", "dq", "bt"}, "quote_state": {"bare", "sq", "dq"}, "after_comments": {"bare", "sq"}, "two_scripts": {"bare", "dq"},
	"script3_component": {"script_component"}, "script3_attr": {"script_attr"},
	"funccall_dotted_hxon": {"funccall_attr"}, "funccall_cond_attr": {"funccall_attr"}, "funccall_name_attr": {"funccall_name_component"},
	"qs_sq_escaped": {"sq"}, "qs_dq_escaped": {"dq"}, "qs_bt_escaped": {"bt"}, "qs_bt_escaped_odd": {"bt"}, "qs_bare_after_bt_escaped": {"bare"}, "qs_escaped_backslash": {"sq", "dq", "bt"}, "qs_other_kinds_inside": {"sq", "dq", "bt"},
	"qs_comments": {"bare", "sq", "dq", "bt"}, "qs_bt_holes": {"bt"}, "qs_bare_after_literals": {"bare"},
	"js_then_funccall": {"jsonstring_attr", "funccall_component"}, "js_then_funccall_attr": {"jsonstring_attr", "funccall_attr"},
	"js_then_script_component": {"jsonstring_attr", "script_component"}, "js_then_script_attr": {"jsonstring_attr", "script_attr"},
	"js_then_jsonscript": {"jsonstring_attr", "jsonscript"}, "js_then_bare": {"jsonstring_attr", "bare", "dq"},
	"funccall_then_js": {"jsonstring_attr", "funccall_component"}, "script_component_then_js": {"jsonstring_attr", "script_component"},
	"jsonscript_then_js": {"jsonstring_attr", "jsonscript"}, "bare_then_js": {"jsonstring_attr", "bare"},
	"js_sandwich": {"jsonstring_attr", "funccall_component", "script_component"},
	"split2_all":  {"split_sq2", "split_dq2", "split_bt2", "split_bare2"}, "split3_all": {"split_sq3", "split_dq3", "split_bt3"},
	"adj_bt_brace_after": {"bt"}, "adj_bt_dollar_before": {"bt"}, "adj_sq": {"sq"}, "adj_dq": {"dq"}, "adj_bt": {"bt"},
	"lc_sq": {"sq", "bare"}, "lc_dq": {"dq", "bare"}, "lc_sq_parity": {"sq"}, "lc_dq_parity": {"dq"}, "ml_bt": {"bt", "bare"}, "scriptw_component": {"script_component"},
}

// shrink canonicalises a failing case deterministically: elementary position
// if the failure reproduces there, simplest shape that still fails (plain
// string, map key, map value, array; for JSON literals: sub-values and single
// keys), then greedy byte-wise reduction of the leaf string.
func (e *engine) shrink(cs Case) (Case, string) {
	msg := ""
	first := func(cands []Case) bool {
		if len(cands) == 0 {
			return false
		}
		for i, m := range e.judge(cands) {
			if m != "" && !strings.HasPrefix(m, "inconclusive") {
				cs, msg = cands[i], m
				return true
			}
		}
		return false
	}
	var cands []Case
	for _, b := range basePositions[cs.Pos] {
		cands = append(cands, Case{Pos: b, V: cs.V})
	}
	first(cands)
	for round := 0; cs.V.Shape == "json" && round < 50; round++ {
		var v any
		_ = json.Unmarshal([]byte(cs.V.LeafString()), &v)
		cands = nil
		sub := func(x any) {
			b, _ := json.Marshal(x)
			cands = append(cands, Case{Pos: cs.Pos, V: MkSpec("json", string(b))})
		}
		switch x := v.(type) {
		case map[string]any:
			ks := make([]string, 0, len(x))
			for k := range x {
				ks = append(ks, k)
			}
			sort.Strings(ks)
			for _, k := range ks {
				cands = append(cands, Case{Pos: cs.Pos, V: MkSpec("mapkey", k)})
			}
			for _, k := range ks {
				sub(x[k])
				if len(ks) > 1 {
					sub(map[string]any{k: x[k]})
				}
			}
		case []any:
			for _, y := range x {
				sub(y)
			}
		}
		if !first(cands) {
			break
		}
	}
	leafShaped := cs.V.Shape != "json" && cs.V.Shape != "int" && cs.V.Shape != "num"
	if leafShaped && len(cs.V.Cuts) == 0 {
		cands = nil
		for _, sh := range []string{"str", "mapkey", "mapval", "arr"} {
			if sh == cs.V.Shape {
				break
			}
			cands = append(cands, Case{Pos: cs.Pos, V: MkSpec(sh, cs.V.LeafString())})
		}
		first(cands)
	}
	for round := 0; leafShaped && round < 200; round++ {
		s := cs.V.LeafString()
		cands = nil
		// del removes s[i:i+w]; cut points behind the removed bytes move with the text
		del := func(i, w int) {
			sp := MkSpec(cs.V.Shape, s[:i]+s[i+w:])
			for _, ct := range cs.V.Cuts {
				if ct > i {
					ct = max(i, ct-w)
				}
				if !cutOK(sp.LeafString(), ct) {
					return
				}
				sp.Cuts = append(sp.Cuts, ct)
			}
			cands = append(cands, Case{Pos: cs.Pos, V: sp})
		}
		for w := max(1, len(s)/2); w >= 1 && len(s) > 0; w /= 2 {
			for i := 0; i+w <= len(s); i += w {
				del(i, w)
			}
		}
		if !first(cands) {
			cands = nil
			for i := 0; i < len(s); i++ {
				if s[i] != 'a' && len(s) > 1 {
					sp := MkSpec(cs.V.Shape, s[:i]+"a"+s[i+1:])
					sp.Cuts = cs.V.Cuts
					cands = append(cands, Case{Pos: cs.Pos, V: sp})
				}
			}
			if !first(cands) {
				break
			}
		}
	}
	cs.Leaf = strconv.Quote(cs.V.LeafString())
	return cs, msg
}

// cutOK: a string is not cut inside a well-formed multi-byte character. The
// pieces are values in their own right; halves of one character would be two
// invalid strings that only become e.g. U+2028 again in the browser's decoder.
func cutOK(s string, ct int) bool {
	for i := 0; i < len(s) && i < ct; {
		r, w := utf8.DecodeRuneInString(s[i:])
		if (r != utf8.RuneError || w > 1) && ct < i+w {
			return false
		}
		i += w
	}
	return true
}

func cutNote(sp Spec) string {
	if len(sp.Cuts) == 0 {
		return ""
	}
	return fmt.Sprintf(" given as the pieces %q", sp.Pieces(len(sp.Cuts)+1))
}

func key(cs Case) string {
	k := cs.Pos + " " + cs.V.Shape + " " + strconv.Quote(cs.V.LeafString())
	if len(cs.V.Cuts) > 0 {
		k += fmt.Sprintf(" cut at %v", cs.V.Cuts)
	}
	return k
}

// ---------------------------------------------------------------- values

var jsAlphabet = []string{"<", ">", "&", "\"", "'", "`", "/", "\\", "$", "{", "}", "+", "-", "!", "\n", "\r", "\u2028", "\x00", "x", "*", "u"}

var jsVectors = []string{
	`</script>`, `</script><script>alert(1)</script>`, `</SCRIPT >`, `</scr`, `<!--`, `<!--<script>`, `-->`, `--!>`, `]]>`, `<![CDATA[`,
	`${x}`, `${alert(1)}`, `${`, `$${`, `\${x}`, `$\{x}`, `${1+1}`, "`", "`+alert(1)+`", "${`${x}`}", `$`, `{`, `}`,
	`'`, `"`, `\'`, `\"`, `\\'`, `\\"`, `\`, `\\`, `\\\`, `a\`, `\n`, `'`, `\x27`, `\u{27}`, `\0`, `\8`,
	`');alert(1);//`, `");alert(1);//`, "`);alert(1);//", `'+alert(1)+'`, `"+alert(1)+"`, `';alert(1);'`, `-alert(1)-`, `*/alert(1)/*`, `//`, `/*`, `*/`, `/`, `/x/`,
	`&quot;`, `&#34;);alert(1)//`, `&#39;`, `&apos;`, `&amp;quot;`, `&lt;/script&gt;`, `&#x27;`, `&`, `&#`, `&#0;`, `&quot`,
	"\n", "\r", "\r\n", "\u2028", "\u2029", "a\u2028b", "\u0085", "\x0b", "\x0c", "\x00", "\x7f", "\ufeff", "\x1b", "\x08",
	"\xff", "\xc0\xaf", "\xed\xa0\x80", "\xed\xb0\x80", "\xf0\x9f\x98", "a\xffb", "\xc2\"", "\xe2\x80'", "\xe2\x80\\", "\xf0`", "\xc3</script>", "\ufffd", "\ufffd\ufffd", "\xff\xfe\xfd",
	"\U0001f600", "\U00010000", "\U0010ffff", "\ud7ff", "\ue000", "\uffff", "\ufffe",
	`__proto__`, `constructor`, `prototype`, `toString`, `valueOf`, `hasOwnProperty`, `length`, `0`, `1`, `-1`, `01`, `1e3`, `null`, `true`, `undefined`, `NaN`, `Infinity`,
	`{"a":1}`, `[1,2]`, `{}`, `[]`, `""`, `alert(1)`, `sink`, `sink(1)`, `__rec=[]`, `function(){}`, `()=>1`, `javascript:alert(1)`,
	`+`, `++`, `+ADw-script+AD4-`, `=`, `;`, `,`, `);`, `)`, `(`, `",""`, `","`, `', '`, `x", "y`,
	strings.Repeat("\\", 33), strings.Repeat("'", 50), strings.Repeat("<", 50), strings.Repeat("a", 5000), strings.Repeat("\u2028", 20) + `</script>`,
}

// Nontrivial: the value contains a byte the encoders must transform.
func nontrivial(s string) bool {
	return strings.ContainsAny(s, "\"'`\\<>&+/$") || strings.Contains(s, "\u2028") || strings.Contains(s, "\u2029") || !utf8.ValidString(s) ||
		strings.IndexFunc(s, func(r rune) bool { return r < 0x20 || r == 0x7f }) >= 0
}

var jsonLeaves = []string{"null", "true", "false", "0", "-0", "1", "-1", "0.5", "-0.5", "1e308", "-1e308", "1.7976931348623157e308", "5e-324", "2.2250738585072014e-308",
	"1e21", "1e-7", "123456789012345680000", "0.1", "0.30000000000000004", "9007199254740991", "-9007199254740991", "9007199254740992", "4294967296", "3.141592653589793", "1e100",
	`[]`, `{}`, `[[]]`, `[null]`, `{"a":{}}`, `[1,"2",[3,[4,[5,[6,[7]]]]]]`, `{"a":[{"b":null},{"c":[true,false]}]}`, `[0,-0,1e308]`, `{"__proto__":1}`, `{"__proto__":{"polluted":true}}`, `{"__proto__":null}`,
	`{"constructor":{"prototype":{"x":1}}}`, `{"1":"a","0":"b","-1":"c","01":"d"}`, `{"":""}`, `{"a b":1,"a-b":2,"a.b":3,"ä":4}`, `{"toString":"x","valueOf":1}`, `{"length":3}`}

// numLeaves: "<kind>:<literal>" leaves of the num shape. The float literals are
// mostly not exactly representable in binary32, so a float32 printed at 64-bit
// precision (0.1 -> 0.10000000149011612) differs from its JSON encoding.
func numLeaves() []string {
	floats := []string{"0.1", "19.99", "1e-7", "3.4e38", "3.4028235e38", "1e-45", "1.1754944e-38", "-0", "0", "0.5", "1024", "1.1", "-3.3", "2.5e-9", "16777217", "0.3", "1e21", "123456.79", "-1e-6", "9.999999e20"}
	var out []string
	for _, k := range []string{"f32", "f64", "nf32", "nf64", "pf32", "pf64"} {
		for _, f := range floats {
			out = append(out, k+":"+f)
		}
	}
	for _, k := range []string{"sf32", "a3f32", "stf32", "mf32", "af32"} {
		for _, f := range []string{"0.1", "19.99", "1e-7", "-0", "3.4028235e38", "1e-45"} {
			out = append(out, k+":"+f)
		}
	}
	ints := map[string][]string{"i8": {"-128", "127", "0"}, "i16": {"-32768", "32767"}, "i32": {"-2147483648", "2147483647"}, "i64": {"-9007199254740991", "9007199254740991", "0"},
		"int": {"-1", "9007199254740991"}, "u8": {"0", "255"}, "u16": {"65535"}, "u32": {"4294967295"}, "u64": {"9007199254740991", "0"}, "uint": {"42"}, "uintptr": {"4096"},
		"ni16": {"-5", "32767"}, "nu32": {"4294967295"}, "pi8": {"-128"}}
	for _, k := range NumKinds {
		for _, n := range ints[k] {
			out = append(out, k+":"+n)
		}
	}
	return out
}

var intLeaves = []string{"0", "1", "-1", "42", "2147483647", "-2147483648", "4294967296", "9007199254740991", "-9007199254740991", "9007199254740992", "-9007199254740992"}

// ---------------------------------------------------------------- Run

func Run(c *core.Ctx) {
	c.Rule = "cases = (JavaScript position, Go value): one compiled templ component per position, each evaluated unit decided by V8 against the value's JSON (or the original string inside literals). Positions: {{ v }} bare / in '…' \"…\" `…` literals / combinations; script templates and templ.JSFuncCall as component and in on*/hx-on attributes; templ.JSONScript; templ.JSONString in a data attribute alone and combined with every other API in one render (both orders); JSFuncCall function names; static JavaScript that stresses the parser's quote state (escaped quotes of each kind, escaped backslash before the closing quote, other quote kinds inside a literal, comments with quotes, ${} holes and nested template literals, backslash line continuations in '…' and \"…\", multi-line template literals); two and three ADJACENT interpolations in each literal kind and bare, fed the pieces of one string cut at every character boundary (short strings) or at seeded cuts; a value directly before/after static text that would complete ${, </script, <!-- or an escape with it; every literal / quote-state / multi-line position a second time from a file with CRLF line endings. Values = shape(leaf): leaf strings from every byte, code points U+0080-U+07FF + boundary list, all strings of length<=3 (quick) / <=4 (thorough) over a 21-symbol JavaScript/HTML metacharacter alphabet, JS-injection vectors with single-edit mutations, seeded random strings, 4-20 KB strings; shapes = plain string, named string, []any, []string, map value, map key, map[string]string, nested maps/slices, struct, JSON literals (numbers incl. -0, 1e308, +-2^53, bools, null, nested containers, hostile keys), int64, and pre-encoded JSON: json.RawMessage (compact, indented, bare string), a json.Marshaler, RawMessage inside struct/map/slice, with the leaf inside strings and <, >, &, U+2028/9 left raw; sized and named numeric Go types (float32/64, int8..int64, uint8..uint64, uintptr, named types, pointers, and float32 inside slices/arrays/structs/maps) with values not exactly representable in binary32, -0, MaxFloat32 and the smallest subnormals - numbers are compared bit for bit (float64 == plus the sign of zero); values encoding/json refuses (map[bool]string, structs with chan/func fields, NaN/-Inf inside containers, a failing MarshalJSON) carrying the leaf: for these only the structure is judged (tokenizer skeleton, static text, lexical breakout monitors), a Render error or a call without the argument is accepted; values whose Go kind is int/uint/float/bool but whose JSON encoding (MarshalJSON / MarshalText, value and pointer receivers, top level and in slices/arrays/maps incl. map keys) is a string or object carrying the leaf. Sampling: elementary positions get every value; composite positions every vector, shaped vector and non-string plus every 4th (API combinations 8th, CRLF spellings 8th/16th) other value. non-trivial = the leaf contains a byte the encoders must transform (quote, backslash, <>&+/$, control, U+2028/9, invalid UTF-8) or the value is not a plain string; distinct by (position, shape, leaf, cuts)"
	c.Assume("V8 (rogchap.com/v8go v0.9.0) evaluates the emitted JavaScript as a browser would; golang.org/x/net/html tokenizes as a browser would; each script element / on* attribute is evaluated in a fresh context after a prelude defining the recording sink functions and the function definitions emitted earlier in the same document")
	c.Assume("numbers are compared as float64 and integers beyond +-2^53 are not generated; strings are compared after replacing invalid UTF-8 by U+FFFD and collapsing U+FFFD runs; templ.JSExpression and JSUnsafeFuncCall are documented trusted code and excluded; a raw U+2028/U+2029 inside a quoted literal is treated as ending it (pre-ES2019 engines)")
	e := build(c)
	defer e.pkg.Close()
	c.Set("positions_compiled", len(positions))
	nqs, napi := 0, 0
	c.Set("positions_crlf_spellings", len(crlfList)+1)
	nsplit, nadj, nlc := 0, 0, 0
	for _, p := range positions {
		switch {
		case nPieces(p.Name) > 0:
			nsplit++
		case strings.HasPrefix(p.Name, "adj_"):
			nadj++
		case strings.HasPrefix(p.Name, "lc_") || strings.HasPrefix(p.Name, "ml_"):
			nlc++
		}
	}
	c.Set("positions_adjacent_interpolations", nsplit)
	c.Set("positions_value_next_to_dangerous_static_text", nadj)
	c.Set("positions_line_continuation_or_multiline_literal", nlc)
	for _, p := range positions {
		if strings.HasPrefix(p.Name, "qs_") || p.Name == "quote_state" || p.Name == "after_comments" {
			nqs++
		}
		if strings.Contains(p.Body, "templ.JSONString") {
			napi++
		}
	}
	c.Set("positions_parser_quote_state", nqs)
	c.Set("positions_jsonstring_and_api_combinations", napi)
	dbg := func(what string) {
		if os.Getenv("VERIF_DEBUG") != "" {
			fmt.Fprintf(os.Stderr, "[c03 %6.1fs] %s\n", time.Since(c.Start).Seconds(), what)
		}
	}
	dbg("built")

	report := func(cs Case, m string) {
		r, m2 := e.shrink(cs)
		if m2 == "" {
			r, m2 = cs, m
			r.Leaf = strconv.Quote(cs.V.LeafString())
		}
		p := positions[posIndex(r.Pos)]
		c.Violate(key(r), fmt.Sprintf("position %s (%s) with %s value %s%s: %s", r.Pos, strings.Join(strings.Fields(p.Body), " "), r.V.Shape, r.Leaf, cutNote(r.V), m2), r)
	}

	for _, p := range positions {
		if m, bad := e.broken[p.Name]; bad {
			c.Eval(1)
			c.Violate(p.Name+" benign", fmt.Sprintf("position %s (%s): %s", p.Name, strings.Join(strings.Fields(p.Body), " "), m), Case{Pos: p.Name, V: MkSpec("str", Sentinel), Leaf: strconv.Quote(Sentinel)})
		}
	}

	if c.ReplayFile != "" {
		var cs Case
		c.LoadReplay(&cs)
		if posIndex(cs.Pos) < 0 {
			core.Infra("replay names unknown position %q", cs.Pos)
		}
		c.Eval(1)
		c.NontrivialN(2)
		if m := e.judge([]Case{cs})[0]; strings.HasPrefix(m, "inconclusive") {
			c.Inconclusive(m)
		} else if m != "" {
			cs.Leaf = strconv.Quote(cs.V.LeafString())
			p := positions[posIndex(cs.Pos)]
			c.Violate(key(cs), fmt.Sprintf("position %s (%s) with %s value %s%s: %s", cs.Pos, strings.Join(strings.Fields(p.Body), " "), cs.V.Shape, cs.Leaf, cutNote(cs.V), m), cs)
		}
		return
	}

	// ---- values
	rnd := c.Rand("values")
	fams := c01.Families(rnd, jsAlphabet, jsVectors, c.Pick(3, 4), c.Pick(3000, 60000), c.Pick(3000, 60000))
	// vals[i] reaches the positions whose sampling class (see rate) is <= levels[i]
	var vals []Spec
	var levels []int
	var leaves []string
	add := func(sp Spec, level int) { vals, levels = append(vals, sp), append(levels, level) }
	sampled := func(i int) int {
		switch {
		case i%16 == 0:
			return 16
		case i%8 == 0:
			return 8
		case i%4 == 0:
			return 4
		}
		return 1
	}
	for _, f := range fams {
		c.Set("leaf_strings_"+f.Name, len(f.Strs))
		for _, s := range f.Strs {
			if f.Name == "vectors" {
				add(MkSpec("str", s), 16)
			} else {
				add(MkSpec("str", s), sampled(len(vals)))
			}
		}
		if f.Name != "exhaustive" && f.Name != "code_points" {
			leaves = append(leaves, f.Strs...)
		}
	}
	nStr := len(vals)
	// cut strings for the adjacent-interpolation positions: every interior cut of the
	// bounded-exhaustive strings and of short vectors, seeded cuts of the other sampled strings
	// Cuts never fall inside a well-formed multi-byte character (see cutOK).
	crnd := c.Rand("cuts")
	for i := 0; i < nStr; i++ {
		s := vals[i].LeafString()
		if len(s) < 2 || (levels[i] < 4 && len(s) > 3) || len(s) > 600 {
			continue
		}
		lvl := 1
		if levels[i] == 16 && len(s) > 3 {
			lvl = 16 // vector-derived: also to the elementary split positions
		}
		split := func(cuts ...int) {
			for _, ct := range cuts {
				if !cutOK(s, ct) {
					return
				}
			}
			add(MkSplit(s, cuts...), lvl)
		}
		if len(s) <= 12 {
			for ct := 1; ct < len(s); ct++ {
				split(ct)
			}
		} else {
			for k := 0; k < 3; k++ {
				split(1 + crnd.Intn(len(s)-1))
			}
		}
		if len(s) == 3 {
			split(1, 2)
		} else if len(s) > 3 {
			for k := 0; k < 2; k++ {
				a := 1 + crnd.Intn(len(s)-2)
				split(a, a+1+crnd.Intn(len(s)-a-1))
			}
		}
	}
	nSplit := len(vals) - nStr
	// shaped values: every vector with every shape, plus a seeded sample of the other leaves
	shapes := []string{"named", "arr", "strslice", "mapval", "mapkey", "mapss", "nested", "struct"}
	nBefore := len(vals)
	for _, s := range jsVectors {
		for _, sh := range shapes {
			add(MkSpec(sh, s), 4)
		}
	}
	for i, n := 0, c.Pick(2500, 50000); i < n; i++ {
		add(MkSpec(shapes[rnd.Intn(len(shapes))], leaves[rnd.Intn(len(leaves))]), min(4, sampled(i)))
	}
	for _, s := range jsonLeaves {
		add(MkSpec("json", s), 4)
	}
	for _, s := range intLeaves {
		add(MkSpec("int", s), 4)
	}
	// pre-encoded JSON (json.RawMessage / json.Marshaler) with the leaf inside strings, not HTML-escaped
	nRaw := len(vals)
	for _, s := range jsVectors {
		for _, sh := range RawShapes {
			add(MkSpec(sh, s), 4)
		}
	}
	for i, n := 0, c.Pick(1200, 25000); i < n; i++ {
		add(MkSpec(RawShapes[rnd.Intn(len(RawShapes))], leaves[rnd.Intn(len(leaves))]), 1)
	}
	// sized and named numeric Go types, top level and inside containers (compared bit for bit)
	nNum := len(vals)
	for _, l := range numLeaves() {
		if strings.HasPrefix(l, "f32:") || strings.HasPrefix(l, "nf32:") || strings.HasPrefix(l, "sf32:") {
			add(MkSpec("num", l), 4)
		} else {
			add(MkSpec("num", l), 1)
		}
	}
	c.Set("values_sized_numeric_types", len(vals)-nNum)
	// numeric / bool KIND whose JSON encoding is a string or object carrying the leaf
	nEnum := len(vals)
	for i, s := range jsVectors {
		for k, sh := range EnumShapes {
			if k < 3 && i%4 == 0 {
				add(MkSpec(sh, s), 4)
			} else {
				add(MkSpec(sh, s), 1)
			}
		}
	}
	for i, n := 0, c.Pick(300, 8000); i < n; i++ {
		add(MkSpec(EnumShapes[rnd.Intn(len(EnumShapes))], leaves[rnd.Intn(len(leaves))]), 1)
	}
	c.Set("values_numeric_kind_with_text_encoding", len(vals)-nEnum)
	// values encoding/json refuses, carrying hostile text
	nUnenc := len(vals)
	for _, s := range jsVectors {
		for _, sh := range UnencShapes {
			add(MkSpec(sh, s), 4)
		}
	}
	for i, n := 0, c.Pick(600, 12000); i < n; i++ {
		add(MkSpec(UnencShapes[rnd.Intn(len(UnencShapes))], leaves[rnd.Intn(len(leaves))]), 1)
	}
	c.Set("values_unencodable_shapes", len(vals)-nUnenc)
	c.Set("values_plain_strings", nStr)
	c.Set("values_cut_strings_for_adjacent_interpolations", nSplit)
	c.Set("values_shaped_or_non_string", len(vals)-nBefore)
	c.Set("values_pre_encoded_json_shapes", len(vals)-nRaw)
	c.Set("shapes", len(Shapes))
	c.Set("numeric_go_types", len(NumKinds))
	c.Set("values_total", len(vals))

	// ---- run: batches of values x all positions
	type fail struct {
		cs  Case
		msg string
	}
	var mu sync.Mutex
	var fails []fail
	covered := make([]int64, len(positions))
	const batch = 2500
	nb := (len(vals) + batch - 1) / batch
	sem := make(chan struct{}, 4)
	var wg sync.WaitGroup
	for b := 0; b < nb; b++ {
		wg.Add(1)
		sem <- struct{}{}
		go func(b int) {
			defer wg.Done()
			defer func() { <-sem }()
			lo, hi := b*batch, min((b+1)*batch, len(vals))
			docs, errs := e.render(vals[lo:hi], "", levels[lo:hi]...)
			if docs == nil {
				return
			}
			var cases []Case
			var ds [][]byte
			var ms []string
			for i := range docs {
				v := vals[lo+i]
				for pi := range positions {
					if positions[pi].Want == nil && v.Shape != "str" {
						continue // function-name positions take strings only
					}
					np := nPieces(positions[pi].Name)
					if rate(positions[pi].Name) > levels[lo+i] || (np == 0) != (len(v.Cuts) == 0) || (np > 0 && len(v.Cuts) != np-1) {
						continue // same rule as in the driver
					}
					if e.broken[positions[pi].Name] != "" {
						continue
					}
					cs := Case{Pos: positions[pi].Name, V: v}
					m := ""
					doc := []byte(nil)
					if docs[i] == nil {
						m = "inconclusive: no rendering"
					} else if errs[i][pi] != "" && Unencodable(v.Shape) {
						c.Add("unencodable_values_refused_by_render", 1) // data-only outcome, nothing to inspect
					} else if errs[i][pi] != "" {
						m = "inconclusive: render error " + errs[i][pi]
					} else {
						doc = docs[i][pi]
					}
					cases, ds, ms = append(cases, cs), append(ds, doc), append(ms, m)
				}
			}
			ms = e.judgeDocs(cases, ds, ms)
			cov := make([]int64, len(positions))
			nt := 0
			var local []fail
			for i, m := range ms {
				switch {
				case strings.HasPrefix(m, "inconclusive"):
					c.Inconclusive(key(cases[i]) + ": " + m)
				case m != "":
					local = append(local, fail{cases[i], m})
				}
				if cases[i].V.Shape != "str" || nontrivial(cases[i].V.LeafString()) {
					cov[posIndex(cases[i].Pos)]++
					nt++
				}
			}
			c.Eval(len(cases))
			c.NontrivialN(nt) // values are distinct by construction except random repeats of shaped leaves
			mu.Lock()
			fails = append(fails, local...)
			for i := range cov {
				covered[i] += cov[i]
			}
			mu.Unlock()
		}(b)
	}
	wg.Wait()
	dbg("matrix done")
	minCov := int64(1 << 62)
	for i, n := range covered {
		if e.broken[positions[i].Name] == "" {
			minCov = min(minCov, n)
		}
	}
	c.Set("nontrivial_values_per_position_min", minCov)
	if minCov == 0 {
		c.Inconclusive("a position saw no non-trivial value")
	}
	// samples: real cases with what V8 received
	for _, cs := range []Case{{Pos: "dq", V: MkSpec("str", `</script>"\`)}, {Pos: "script_attr", V: MkSpec("struct", "a'\"<\u2028")}, {Pos: "bare", V: MkSpec("json", "-0")}, {Pos: "jsonscript", V: MkSpec("mapkey", "</script>")}} {
		docs, _ := e.render([]Spec{cs.V}, cs.Pos)
		m := e.judge([]Case{cs})[0]
		if docs != nil {
			c.Sample(map[string]string{"position": cs.Pos, "shape": cs.V.Shape, "leaf": strconv.Quote(cs.V.LeafString()), "rendered": string(docs[0][posIndex(cs.Pos)]), "verdict": "held:" + strconv.FormatBool(m == "") + " " + m})
		}
	}

	// ---- reduce and report: per position the smallest failing cases are shrunk
	sort.Slice(fails, func(i, j int) bool {
		a, b := fails[i].cs, fails[j].cs
		if a.Pos != b.Pos {
			return posIndex(a.Pos) < posIndex(b.Pos)
		}
		if (a.V.Shape == "str") != (b.V.Shape == "str") {
			return a.V.Shape == "str"
		}
		la, lb := a.V.LeafString(), b.V.LeafString()
		if len(la) != len(lb) {
			return len(la) < len(lb)
		}
		if la != lb {
			return la < lb
		}
		return a.V.Shape < b.V.Shape
	})
	dbg("samples done")
	c.Set("failing_position_value_pairs", len(fails))
	perPos := map[string]int{}
	for _, f := range fails {
		if perPos[f.cs.Pos]++; perPos[f.cs.Pos] > 4 {
			continue
		}
		report(f.cs, f.msg)
	}
	dbg("reduction done")
}
