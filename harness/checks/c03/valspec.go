package c03

// This file is compiled into the harness AND copied verbatim (package clause
// rewritten to main) into the corpus driver, so both sides build exactly the
// same Go value from a (shape, leaf) pair.

import (
	"encoding/base64"
	"encoding/json"
	"sort"
	"strconv"
	"strings"
)

// MyStr is a named string type (JSON-encoded even inside string literals).
type MyStr string

// Rec is the struct shape; one field name needs escaping itself.
type Rec struct {
	Name  string   `json:"name"`
	N     float64  `json:"n"`
	Ok    bool     `json:"ok"`
	Tags  []string `json:"tags"`
	Any   any      `json:"any,omitempty"`
	Inner *Rec     `json:"inner,omitempty"`
	Lt    string   `json:"</script><!--&"`
}

// Spec is one value: Shape applied to the leaf string (base64 so that invalid
// UTF-8 survives the JSON job encoding).
type Spec struct {
	Shape string `json:"shape"`
	Leaf  string `json:"leaf_base64"`
	// Cuts (plain strings only): byte offsets at which the leaf is split into the
	// pieces handed to adjacent interpolations {{ a }}{{ b }}[{{ c }}].
	Cuts []int `json:"cuts,omitempty"`
}

func MkSpec(shape, leaf string) Spec {
	return Spec{Shape: shape, Leaf: base64.StdEncoding.EncodeToString([]byte(leaf))}
}

// MkSplit is a plain string cut at the given byte offsets.
func MkSplit(leaf string, cuts ...int) Spec {
	sp := MkSpec("str", leaf)
	sp.Cuts = cuts
	return sp
}

// Pieces returns the n pieces of the leaf string (missing cuts = empty tail pieces).
func (sp Spec) Pieces(n int) []any {
	s := sp.LeafString()
	cuts := append([]int{}, sp.Cuts...)
	sort.Ints(cuts)
	out := make([]any, 0, n)
	prev := 0
	for _, c := range cuts {
		if len(out) == n-1 {
			break
		}
		c = min(max(c, prev), len(s))
		out = append(out, s[prev:c])
		prev = c
	}
	out = append(out, s[prev:])
	for len(out) < n {
		out = append(out, "")
	}
	return out
}

// RawQuote is a JSON string literal of s that escapes only what JSON requires
// (quote, backslash, C0 controls): <, >, &, U+2028/9 and all other bytes stay raw,
// as pre-encoded JSON from elsewhere may contain them.
func RawQuote(s string) string {
	var sb strings.Builder
	sb.WriteByte('"')
	for i := 0; i < len(s); i++ {
		switch c := s[i]; {
		case c == '"' || c == '\\':
			sb.WriteByte('\\')
			sb.WriteByte(c)
		case c < 0x20:
			sb.WriteString("\\u00" + strconv.FormatInt(int64(c>>4), 16) + strconv.FormatInt(int64(c&15), 16))
		default:
			sb.WriteByte(c)
		}
	}
	sb.WriteByte('"')
	return sb.String()
}

// PreEncoded implements json.Marshaler with pre-encoded JSON text.
type PreEncoded struct{ Text string }

func (p PreEncoded) MarshalJSON() ([]byte, error) { return []byte(p.Text), nil }

// RawDoc carries RawMessage fields inside a struct, a map and a slice.
type RawDoc struct {
	ID  int                        `json:"id"`
	Doc json.RawMessage            `json:"doc"`
	M   map[string]json.RawMessage `json:"m"`
	L   []json.RawMessage          `json:"l"`
	P   PreEncoded                 `json:"p"`
}

func (sp Spec) LeafString() string {
	b, _ := base64.StdEncoding.DecodeString(sp.Leaf)
	return string(b)
}

// Shapes lists the value shapes; "json" parses the leaf as a JSON literal
// (numbers, true/false/null); "int" as a Go int64.
var Shapes = []string{"str", "named", "arr", "strslice", "mapval", "mapkey", "mapss", "nested", "struct", "json", "int",
	"raw", "rawindent", "rawstr", "marshaler", "rawfield"}

// RawShapes are the shapes built from pre-encoded JSON text (json.RawMessage /
// json.Marshaler) with the leaf inside strings, not HTML-escaped.
var RawShapes = []string{"raw", "rawindent", "rawstr", "marshaler", "rawfield"}

// Go builds the Go value.
func (sp Spec) Go() any {
	s := sp.LeafString()
	switch sp.Shape {
	case "str":
		return s
	case "named":
		return MyStr(s)
	case "arr":
		return []any{s, 1.5, nil, true, []any{s}}
	case "strslice":
		return []string{s, "b", s}
	case "mapval":
		return map[string]any{"k": s, "n": 1}
	case "mapkey":
		return map[string]any{s: 1}
	case "mapss":
		return map[string]string{s: s, "z": "y"}
	case "nested":
		return map[string]any{"a": []any{map[string]any{s: []any{s, nil}}}, "b": false}
	case "struct":
		return Rec{Name: s, N: -2.5, Ok: true, Tags: []string{s}, Any: map[string]any{"x": s}, Inner: &Rec{Name: s}, Lt: s}
	case "raw":
		q := RawQuote(s)
		return json.RawMessage(`{"k":` + q + `,"a":[` + q + `,1,null],` + q + `:true}`)
	case "rawindent":
		q := RawQuote(s)
		return json.RawMessage("{\n  \"k\": " + q + ",\n  \"a\": [ " + q + " ,\t1, null ],\r\n  " + q + " : true\n}")
	case "rawstr":
		return json.RawMessage(RawQuote(s))
	case "marshaler":
		q := RawQuote(s)
		return PreEncoded{`{"k":` + q + `,"a":[` + q + `]}`}
	case "rawfield":
		q := json.RawMessage(RawQuote(s))
		return RawDoc{ID: 7, Doc: json.RawMessage(`{"k": ` + string(q) + `}`), M: map[string]json.RawMessage{"x": q}, L: []json.RawMessage{q, json.RawMessage("null")}, P: PreEncoded{string(q)}}
	case "json":
		var v any
		if err := json.Unmarshal([]byte(s), &v); err != nil {
			panic("bad json leaf " + strconv.Quote(s))
		}
		return v
	case "int":
		n, err := strconv.ParseInt(s, 10, 64)
		if err != nil {
			panic("bad int leaf " + strconv.Quote(s))
		}
		return n
	}
	panic("unknown shape " + sp.Shape)
}
