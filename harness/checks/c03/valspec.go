package c03

// This file is compiled into the harness AND copied verbatim (package clause
// rewritten to main) into the corpus driver, so both sides build exactly the
// same Go value from a (shape, leaf) pair.

import (
	"encoding/base64"
	"encoding/json"
	"strconv"
)

// MyStr is a named string type (JSON-encoded even inside string literals).
type MyStr string

// Rec is the struct shape; one field name needs escaping itself.
type Rec struct {
	Name  string   `json:"name"`
	N     float64  `json:"n"`
	Ok    bool     `json:"ok"`
	Tags  []string `json:"tags"`
	Any   any      `json:"any,omitempty"`
	Inner *Rec     `json:"inner,omitempty"`
	Lt    string   `json:"</script><!--&"`
}

// Spec is one value: Shape applied to the leaf string (base64 so that invalid
// UTF-8 survives the JSON job encoding).
type Spec struct {
	Shape string `json:"shape"`
	Leaf  string `json:"leaf_base64"`
}

func MkSpec(shape, leaf string) Spec {
	return Spec{shape, base64.StdEncoding.EncodeToString([]byte(leaf))}
}

func (sp Spec) LeafString() string {
	b, _ := base64.StdEncoding.DecodeString(sp.Leaf)
	return string(b)
}

// Shapes lists the value shapes; "json" parses the leaf as a JSON literal
// (numbers, true/false/null); "int" as a Go int64.
var Shapes = []string{"str", "named", "arr", "strslice", "mapval", "mapkey", "mapss", "nested", "struct", "json", "int"}

// Go builds the Go value.
func (sp Spec) Go() any {
	s := sp.LeafString()
	switch sp.Shape {
	case "str":
		return s
	case "named":
		return MyStr(s)
	case "arr":
		return []any{s, 1.5, nil, true, []any{s}}
	case "strslice":
		return []string{s, "b", s}
	case "mapval":
		return map[string]any{"k": s, "n": 1}
	case "mapkey":
		return map[string]any{s: 1}
	case "mapss":
		return map[string]string{s: s, "z": "y"}
	case "nested":
		return map[string]any{"a": []any{map[string]any{s: []any{s, nil}}}, "b": false}
	case "struct":
		return Rec{Name: s, N: -2.5, Ok: true, Tags: []string{s}, Any: map[string]any{"x": s}, Inner: &Rec{Name: s}, Lt: s}
	case "json":
		var v any
		if err := json.Unmarshal([]byte(s), &v); err != nil {
			panic("bad json leaf " + strconv.Quote(s))
		}
		return v
	case "int":
		n, err := strconv.ParseInt(s, 10, 64)
		if err != nil {
			panic("bad int leaf " + strconv.Quote(s))
		}
		return n
	}
	panic("unknown shape " + sp.Shape)
}
