package c03

// This file is compiled into the harness AND copied verbatim (package clause
// rewritten to main) into the corpus driver, so both sides build exactly the
// same Go value from a (shape, leaf) pair.

import (
	"encoding/base64"
	"encoding/json"
	"errors"
	"math"
	"sort"
	"strconv"
	"strings"
	"sync"
)

// MyStr is a named string type (JSON-encoded even inside string literals).
type MyStr string

// Rec is the struct shape; one field name needs escaping itself.
type Rec struct {
	Name  string   `json:"name"`
	N     float64  `json:"n"`
	Ok    bool     `json:"ok"`
	Tags  []string `json:"tags"`
	Any   any      `json:"any,omitempty"`
	Inner *Rec     `json:"inner,omitempty"`
	Lt    string   `json:"</script><!--&"`
}

// Spec is one value: Shape applied to the leaf string (base64 so that invalid
// UTF-8 survives the JSON job encoding).
type Spec struct {
	Shape string `json:"shape"`
	Leaf  string `json:"leaf_base64"`
	// Cuts (plain strings only): byte offsets at which the leaf is split into the
	// pieces handed to adjacent interpolations {{ a }}{{ b }}[{{ c }}].
	Cuts []int `json:"cuts,omitempty"`
}

func MkSpec(shape, leaf string) Spec {
	return Spec{Shape: shape, Leaf: base64.StdEncoding.EncodeToString([]byte(leaf))}
}

// MkSplit is a plain string cut at the given byte offsets.
func MkSplit(leaf string, cuts ...int) Spec {
	sp := MkSpec("str", leaf)
	sp.Cuts = cuts
	return sp
}

// Pieces returns the n pieces of the leaf string (missing cuts = empty tail pieces).
func (sp Spec) Pieces(n int) []any {
	s := sp.LeafString()
	cuts := append([]int{}, sp.Cuts...)
	sort.Ints(cuts)
	out := make([]any, 0, n)
	prev := 0
	for _, c := range cuts {
		if len(out) == n-1 {
			break
		}
		c = min(max(c, prev), len(s))
		out = append(out, s[prev:c])
		prev = c
	}
	out = append(out, s[prev:])
	for len(out) < n {
		out = append(out, "")
	}
	return out
}

// RawQuote is a JSON string literal of s that escapes only what JSON requires
// (quote, backslash, C0 controls): <, >, &, U+2028/9 and all other bytes stay raw,
// as pre-encoded JSON from elsewhere may contain them.
func RawQuote(s string) string {
	var sb strings.Builder
	sb.WriteByte('"')
	for i := 0; i < len(s); i++ {
		switch c := s[i]; {
		case c == '"' || c == '\\':
			sb.WriteByte('\\')
			sb.WriteByte(c)
		case c < 0x20:
			sb.WriteString("\\u00" + strconv.FormatInt(int64(c>>4), 16) + strconv.FormatInt(int64(c&15), 16))
		default:
			sb.WriteByte(c)
		}
	}
	sb.WriteByte('"')
	return sb.String()
}

// PreEncoded implements json.Marshaler with pre-encoded JSON text.
type PreEncoded struct{ Text string }

func (p PreEncoded) MarshalJSON() ([]byte, error) { return []byte(p.Text), nil }

// RawDoc carries RawMessage fields inside a struct, a map and a slice.
type RawDoc struct {
	ID  int                        `json:"id"`
	Doc json.RawMessage            `json:"doc"`
	M   map[string]json.RawMessage `json:"m"`
	L   []json.RawMessage          `json:"l"`
	P   PreEncoded                 `json:"p"`
}

func (sp Spec) LeafString() string {
	b, _ := base64.StdEncoding.DecodeString(sp.Leaf)
	return string(b)
}

// Shapes lists the value shapes; "json" parses the leaf as a JSON literal
// (numbers, true/false/null); "int" as a Go int64.
var Shapes = []string{"str", "named", "arr", "strslice", "mapval", "mapkey", "mapss", "nested", "struct", "json", "int",
	"raw", "rawindent", "rawstr", "marshaler", "rawfield", "num",
	"unenc_mapbool", "unenc_chan", "unenc_func", "unenc_nan", "unenc_err", "unenc_inf32",
	"enum_int", "enum_text_bool", "enum_float_obj", "enum_uint_text", "enum_ptr", "enum_slice", "enum_map", "enum_prval"}

// NumKinds: Go types of the "num" shape; its leaf is "<kind>:<literal>". The
// value is the literal converted to that type (float literals are rounded to the
// type's precision first), top level or inside a container.
var NumKinds = []string{"f32", "f64", "i8", "i16", "i32", "i64", "int", "u8", "u16", "u32", "u64", "uint", "uintptr",
	"nf32", "nf64", "ni16", "nu32", "pf32", "pf64", "pi8", "sf32", "a3f32", "stf32", "mf32", "af32"}

type (
	MyF32 float32
	MyF64 float64
	MyI16 int16
	MyU32 uint32
	// NumRec carries sized numbers in a struct.
	NumRec struct {
		F  float32  `json:"f"`
		P  *float32 `json:"p"`
		N  MyF32    `json:"n"`
		I8 int8     `json:"i8"`
		U  uint64   `json:"u"`
	}
)

// EnumShapes: values whose Go KIND is numeric or bool but whose JSON encoding is
// a string or an object carrying the leaf (the usual enum: `type Level int` that
// marshals as "warn"), through MarshalJSON / MarshalText, value and pointer
// receivers, top level and inside containers. enum_prval is the control: a
// pointer-receiver method on a value that is not addressable is not used, the
// value encodes as the number 7.
var EnumShapes = []string{"enum_int", "enum_text_bool", "enum_float_obj", "enum_uint_text", "enum_ptr", "enum_slice", "enum_map", "enum_prval"}

// The text the enum types marshal to. A bool or small int cannot carry a string,
// so it is looked up here: Spec.Go sets it, the Marshal methods read it. The
// driver builds and renders one value at a time; the harness holds EnumMu
// around Go() + json.Marshal.
var (
	EnumMu   sync.Mutex
	enumText string
)

type (
	LevelInt int     // MarshalJSON -> JSON string
	FlagBool bool    // MarshalText
	Ratio    float64 // MarshalJSON -> JSON object
	LevelU8  uint8   // MarshalText (also usable as a map key)
	LevelPR  int32   // MarshalJSON on the pointer receiver
)

func (LevelInt) MarshalJSON() ([]byte, error) { return json.Marshal(enumText) }
func (FlagBool) MarshalText() ([]byte, error) { return []byte(enumText), nil }
func (Ratio) MarshalJSON() ([]byte, error) {
	return json.Marshal(map[string]any{"k": enumText, "a": []string{enumText}})
}
func (LevelU8) MarshalText() ([]byte, error)  { return []byte(enumText), nil }
func (*LevelPR) MarshalJSON() ([]byte, error) { return json.Marshal(enumText) }

// UnencShapes are values encoding/json refuses, each carrying the leaf string.
// What the emitted JavaScript evaluates to is not judged for them (the encoders
// have no JSON to emit); they must still be unable to end the script element,
// literal or attribute or to open a comment.
var UnencShapes = []string{"unenc_mapbool", "unenc_chan", "unenc_func", "unenc_nan", "unenc_err", "unenc_inf32"}

// Unencodable reports whether the shape is one of UnencShapes.
func Unencodable(shape string) bool { return strings.HasPrefix(shape, "unenc_") }

type ChanRec struct {
	Name string
	C    chan int
}

type FuncRec struct {
	F    func() string
	Note string
}

// FailingMarshaler's MarshalJSON fails; its text form is the leaf.
type FailingMarshaler struct{ S string }

func (f FailingMarshaler) MarshalJSON() ([]byte, error) { return nil, errors.New("refused: " + f.S) }
func (f FailingMarshaler) String() string               { return f.S }

func numValue(leaf string) any {
	kind, lit, ok := strings.Cut(leaf, ":")
	if !ok {
		panic("bad num leaf " + strconv.Quote(leaf))
	}
	f64 := func(bits int) float64 {
		f, err := strconv.ParseFloat(lit, bits)
		if err != nil {
			panic("bad num leaf " + strconv.Quote(leaf))
		}
		return f
	}
	i64 := func(bits int) int64 {
		n, err := strconv.ParseInt(lit, 10, bits)
		if err != nil {
			panic("bad num leaf " + strconv.Quote(leaf))
		}
		return n
	}
	u64 := func(bits int) uint64 {
		n, err := strconv.ParseUint(lit, 10, bits)
		if err != nil {
			panic("bad num leaf " + strconv.Quote(leaf))
		}
		return n
	}
	switch kind {
	case "f32":
		return float32(f64(32))
	case "f64":
		return f64(64)
	case "i8":
		return int8(i64(8))
	case "i16":
		return int16(i64(16))
	case "i32":
		return int32(i64(32))
	case "i64":
		return i64(64)
	case "int":
		return int(i64(64))
	case "u8":
		return uint8(u64(8))
	case "u16":
		return uint16(u64(16))
	case "u32":
		return uint32(u64(32))
	case "u64":
		return u64(64)
	case "uint":
		return uint(u64(64))
	case "uintptr":
		return uintptr(u64(64))
	case "nf32":
		return MyF32(f64(32))
	case "nf64":
		return MyF64(f64(64))
	case "ni16":
		return MyI16(i64(16))
	case "nu32":
		return MyU32(u64(32))
	case "pf32":
		f := float32(f64(32))
		return &f
	case "pf64":
		f := f64(64)
		return &f
	case "pi8":
		n := int8(i64(8))
		return &n
	case "sf32":
		return []float32{float32(f64(32)), 0.5, -float32(f64(32))}
	case "a3f32":
		return [3]float32{float32(f64(32)), 19.99, 1e-7}
	case "stf32":
		f := float32(f64(32))
		return NumRec{F: f, P: &f, N: MyF32(f), I8: -7, U: 9007199254740991}
	case "mf32":
		return map[string]float32{"a": float32(f64(32)), "b": 19.99}
	case "af32":
		return []any{float32(f64(32)), int8(-1), uint16(65535), MyF32(f64(32))}
	}
	panic("unknown num kind " + kind)
}

// RawShapes are the shapes built from pre-encoded JSON text (json.RawMessage /
// json.Marshaler) with the leaf inside strings, not HTML-escaped.
var RawShapes = []string{"raw", "rawindent", "rawstr", "marshaler", "rawfield"}

// Go builds the Go value.
func (sp Spec) Go() any {
	s := sp.LeafString()
	switch sp.Shape {
	case "str":
		return s
	case "named":
		return MyStr(s)
	case "arr":
		return []any{s, 1.5, nil, true, []any{s}}
	case "strslice":
		return []string{s, "b", s}
	case "mapval":
		return map[string]any{"k": s, "n": 1}
	case "mapkey":
		return map[string]any{s: 1}
	case "mapss":
		return map[string]string{s: s, "z": "y"}
	case "nested":
		return map[string]any{"a": []any{map[string]any{s: []any{s, nil}}}, "b": false}
	case "struct":
		return Rec{Name: s, N: -2.5, Ok: true, Tags: []string{s}, Any: map[string]any{"x": s}, Inner: &Rec{Name: s}, Lt: s}
	case "raw":
		q := RawQuote(s)
		return json.RawMessage(`{"k":` + q + `,"a":[` + q + `,1,null],` + q + `:true}`)
	case "rawindent":
		q := RawQuote(s)
		return json.RawMessage("{\n  \"k\": " + q + ",\n  \"a\": [ " + q + " ,\t1, null ],\r\n  " + q + " : true\n}")
	case "rawstr":
		return json.RawMessage(RawQuote(s))
	case "marshaler":
		q := RawQuote(s)
		return PreEncoded{`{"k":` + q + `,"a":[` + q + `]}`}
	case "rawfield":
		q := json.RawMessage(RawQuote(s))
		return RawDoc{ID: 7, Doc: json.RawMessage(`{"k": ` + string(q) + `}`), M: map[string]json.RawMessage{"x": q}, L: []json.RawMessage{q, json.RawMessage("null")}, P: PreEncoded{string(q)}}
	case "num":
		return numValue(s)
	case "enum_int":
		enumText = s
		return LevelInt(3)
	case "enum_text_bool":
		enumText = s
		return FlagBool(true)
	case "enum_float_obj":
		enumText = s
		return Ratio(0.5)
	case "enum_uint_text":
		enumText = s
		return LevelU8(200)
	case "enum_ptr":
		enumText = s
		l := LevelPR(7)
		return &l
	case "enum_slice":
		enumText = s
		return []any{[]LevelInt{3}, []LevelPR{7}, []FlagBool{true, false}, [1]Ratio{0.5}}
	case "enum_map":
		enumText = s
		return map[string]any{"lvl": LevelInt(3), "flag": FlagBool(false), "byKey": map[LevelU8]Ratio{200: 0.5}}
	case "enum_prval":
		enumText = s
		return LevelPR(7)
	case "unenc_mapbool":
		return map[bool]string{true: s}
	case "unenc_chan":
		return ChanRec{Name: s, C: make(chan int)}
	case "unenc_func":
		return FuncRec{F: func() string { return s }, Note: s}
	case "unenc_nan":
		return []any{math.NaN(), s}
	case "unenc_err":
		return FailingMarshaler{s}
	case "unenc_inf32":
		return map[string]any{s: float32(math.Inf(-1))}
	case "json":
		var v any
		if err := json.Unmarshal([]byte(s), &v); err != nil {
			panic("bad json leaf " + strconv.Quote(s))
		}
		return v
	case "int":
		n, err := strconv.ParseInt(s, 10, 64)
		if err != nil {
			panic("bad int leaf " + strconv.Quote(s))
		}
		return n
	}
	panic("unknown shape " + sp.Shape)
}
