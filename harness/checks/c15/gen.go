package c15

import (
	"fmt"
	"math/rand"
	"strings"
)

// ---- seeded generator of small .templ files (never compiled: the property
// only needs them to parse and to produce gofmt-able Go) ----

type tgen struct {
	r     *rand.Rand
	sb    strings.Builder
	comps []string // components defined so far in this file (callable)
}

var c15Texts = []string{"hello", "Hello, World!", "a b  c", "über naïve 日本語", "x &amp; y", "price: 5€", "it's \"quoted\"", "back\\slash", "tick`tock", "100%", "-", "tab\there"}
var c15Elems = []string{"div", "span", "p", "section", "b", "ul", "li", "a", "h1", "button", "form", "td"}
var c15Exprs = []string{"s", "s + \"!\"", "strings.ToUpper(s)", "fmt.Sprint(len(items))", "\"const\"", "fmt.Sprintf(\"%q\", s)"}

func (g *tgen) pick(l []string) string { return l[g.r.Intn(len(l))] }

func (g *tgen) attrs() string {
	var out []string
	for n := g.r.Intn(4); n > 0; n-- {
		switch g.r.Intn(9) {
		case 0:
			out = append(out, fmt.Sprintf(`class="c%d"`, g.r.Intn(9)))
		case 1:
			out = append(out, fmt.Sprintf(`id='i%d'`, g.r.Intn(99)))
		case 2:
			out = append(out, `data-x={ `+g.pick(c15Exprs)+` }`)
		case 3:
			out = append(out, `hidden?={ ok }`)
		case 4:
			out = append(out, `disabled`)
		case 5:
			out = append(out, `style={ "color:red" }`)
		case 6:
			out = append(out, "if ok {\n\t\t\ttitle=\"t\"\n\t\t}")
		case 7:
			out = append(out, `class={ "a", templ.KV("b", ok) }`)
		case 8:
			out = append(out, `title="`+strings.NewReplacer(`"`, "&quot;", "\\", "/").Replace(g.pick(c15Texts))+`"`)
		}
	}
	if len(out) == 0 {
		return ""
	}
	return " " + strings.Join(out, " ")
}

func (g *tgen) nodes(ind string, depth int) {
	n := 1 + g.r.Intn(4)
	for i := 0; i < n; i++ {
		g.node(ind, depth)
	}
}

func (g *tgen) node(ind string, depth int) {
	w := func(f string, a ...any) { fmt.Fprintf(&g.sb, ind+f+"\n", a...) }
	k := g.r.Intn(16)
	if depth <= 0 && k >= 2 && k <= 6 {
		k = 0
	}
	switch k {
	case 0, 1:
		e := g.pick(c15Elems)
		w("<%s%s>%s</%s>", e, g.attrs(), strings.NewReplacer("\\", "/", "\"", "'").Replace(g.pick(c15Texts)), e)
	case 2:
		e := g.pick(c15Elems)
		w("<%s%s>", e, g.attrs())
		g.nodes(ind+"\t", depth-1)
		w("</%s>", e)
	case 3:
		w("if %s {", g.pick([]string{"ok", "s == \"x\"", "len(items) > 2", "!ok"}))
		g.nodes(ind+"\t", depth-1)
		if g.r.Intn(2) == 0 {
			w("} else if len(s) > 3 {")
			g.nodes(ind+"\t", depth-1)
		}
		if g.r.Intn(2) == 0 {
			w("} else {")
			g.nodes(ind+"\t", depth-1)
		}
		w("}")
	case 4:
		w("for %s {", g.pick([]string{"_, it := range items", "i := 0; i < 3; i++", "i, it := range items"}))
		w("\t<li>{ s }</li>")
		g.nodes(ind+"\t", depth-1)
		w("}")
	case 5:
		w("switch s {")
		w("\tcase \"a\":")
		g.nodes(ind+"\t\t", depth-1)
		w("\tdefault:")
		w("\t\t<i>other</i>")
		w("}")
	case 6:
		if len(g.comps) > 0 {
			w("@%s(s, items, ok) {", g.pick(g.comps))
			g.nodes(ind+"\t", depth-1)
			w("}")
		} else {
			w("<hr/>")
		}
	case 7:
		w("{ %s }", g.pick(c15Exprs))
	case 8:
		if len(g.comps) > 0 {
			w("@%s(%s, items, !ok)", g.pick(g.comps), g.pick([]string{"s", `"lit"`}))
		} else {
			w("<br/>")
		}
	case 9:
		w("<!-- %s -->", strings.ReplaceAll(g.pick(c15Texts), "-", "="))
	case 10:
		w("<input type=\"text\" name={ s } disabled?={ ok }/>")
	case 11:
		w("<script>\n%s\tvar v = {{ s }};\n%s\tconsole.log(\"%s\", v);\n%s</script>", ind, ind, "x\\n", ind)
	case 12:
		w("<style>\n%s\tp { color: red; }\n%s</style>", ind, ind)
	case 13:
		w("{ children... }")
	case 14:
		w("%s", strings.NewReplacer("\\", "/").Replace(g.pick(c15Texts)))
	case 15:
		w("<a href={ templ.URL(s) } onclick={ hello%d(s) }>link</a>", 0)
	}
}

// goodTempl returns a (very probably) valid templ file. Whether a file is
// "good" is decided by the reference generation, never by this generator.
func goodTempl(r *rand.Rand, pkg string, big bool) string {
	g := &tgen{r: r}
	fmt.Fprintf(&g.sb, "package %s\n\n", pkg)
	if r.Intn(2) == 0 {
		g.sb.WriteString("import (\n\t\"fmt\"\n\t\"strings\"\n)\n\n")
	} else {
		g.sb.WriteString("import \"fmt\"\nimport \"strings\"\n\n")
	}
	if r.Intn(3) == 0 {
		fmt.Fprintf(&g.sb, "// helper%d is plain Go.\nfunc helper%d(s string) string {\n\treturn strings.TrimSpace(s) + fmt.Sprint(%d)\n}\n\n", r.Intn(99), r.Intn(99), r.Intn(1000))
	}
	if r.Intn(4) == 0 {
		fmt.Fprintf(&g.sb, "css red%d() {\n\tcolor: red;\n\tbackground-color: { \"#fff\" };\n}\n\n", r.Intn(99))
	}
	g.sb.WriteString("script hello0(n string) {\n\talert(n);\n}\n\n")
	nc := 1 + r.Intn(4)
	if big {
		nc = 30 + r.Intn(50)
	}
	for i := 0; i < nc; i++ {
		name := fmt.Sprintf("C%d", i)
		if r.Intn(8) == 0 {
			g.sb.WriteString("// " + name + " renders things.\n")
		}
		fmt.Fprintf(&g.sb, "templ %s(s string, items []string, ok bool) {\n", name)
		if r.Intn(10) == 0 {
			g.sb.WriteString("\t<!DOCTYPE html>\n")
		}
		g.nodes("\t", 2)
		g.sb.WriteString("}\n\n")
		g.comps = append(g.comps, name)
	}
	if r.Intn(6) == 0 {
		// legacy call syntax: parses, generates, and yields a diagnostic (warning only)
		g.sb.WriteString("templ Legacy(s string, items []string, ok bool) {\n\t{! C0(s, items, ok) }\n}\n")
	}
	return g.sb.String()
}

// unparseable files: the templ parser must reject them.
func unparseableTempl(r *rand.Rand, pkg string) string {
	switch r.Intn(6) {
	case 0:
		return "package " + pkg + "\n\ntempl A() {\n\t<p>never closed\n}\n"
	case 1:
		return "package " + pkg + "\n\ntempl A( {\n\t<p>x</p>\n}\n"
	case 2:
		return "package " + pkg + "\n\ntempl A(s string) {\n\t<p>{ s </p>\n}\n"
	case 3:
		return "package " + pkg + "\n\ntempl A() {\n\t<div>\n\t\tif true {\n\t\t\t<b>x</b>\n\t</div>\n}\n"
	case 4:
		return "package " + pkg + "\n\ntempl A() {\n\t<a href=>x</a>\n}\n"
	default:
		return "package " + pkg + "\n\ntempl A() {\n\t<p>ok</p>\n}\n\ntempl B() {\n\t@\n}\n"
	}
}

// badGoTempl parses as templ, but the generated code is not valid Go.
func badGoTempl(r *rand.Rand, pkg string) string {
	switch r.Intn(4) {
	case 0:
		return "package " + pkg + "\n\nfunc broken( {\n\ntempl A() {\n\t<p>x</p>\n}\n"
	case 1:
		return "package " + pkg + "\n\ntempl A(s string) {\n\t<p>{ s + }</p>\n}\n"
	case 2:
		return "package " + pkg + "\n\nvar x = = 1\n\ntempl A() {\n\t<p>x</p>\n}\n\ntempl B() {\n\t<i>y</i>\n}\n"
	default:
		return "package " + pkg + "\n\ntempl A(s string) {\n\tif s == {\n\t\t<p>x</p>\n\t}\n}\n"
	}
}

// badGoLegacyTempl parses, carries a parser DIAGNOSTIC (deprecated `{! x() }` call
// syntax, the only diagnostic that exists) and its generated code is not valid Go.
func badGoLegacyTempl(r *rand.Rand, pkg string) string {
	head := "package " + pkg + "\n\ntempl C0() {\n\t<i>x</i>\n}\n\n"
	switch r.Intn(3) {
	case 0:
		return head + "templ Broken(a: string) {\n\t{! C0() }\n}\n"
	case 1:
		return "package " + pkg + "\n\nfunc broken( {\n\ntempl C0() {\n\t<i>x</i>\n}\n\ntempl L() {\n\t<p>a</p>\n\t{! C0() }\n}\n"
	default:
		return head + "templ L(s string) {\n\t{! C0() }\n\tif s == {\n\t\t<p>x</p>\n\t}\n}\n"
	}
}

// legacyOnlyTempl: diagnostic only; generates fine (benign control: warning, exit 0, sibling written).
func legacyOnlyTempl(pkg string, n int) string {
	return fmt.Sprintf("package %s\n\ntempl C0() {\n\t<i>x%d</i>\n}\n\ntempl Legacy() {\n\t<div>\n\t\t{! C0() }\n\t</div>\n}\n", pkg, n)
}

// plainGoodTempl: no diagnostic, generates fine.
func plainGoodTempl(pkg string, n int) string {
	return fmt.Sprintf("package %s\n\ntempl P(s string) {\n\t<p>%d { s }</p>\n}\n", pkg, n)
}
