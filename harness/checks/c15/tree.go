package c15

import (
	"crypto/sha256"
	"encoding/hex"
	"fmt"
	"io/fs"
	"math/rand"
	"os"
	"path"
	"path/filepath"
	"sort"
	"strings"
	"time"
	"unicode"
)

// ent is one regular file of a tree: content and explicit mtime (unix seconds).
type ent struct {
	Data  []byte `json:"d"`
	Mtime int64  `json:"m"`
	Nanos int64  `json:"n,omitempty"` // sub-second part of the mtime
}

// ns is the full mtime in unix nanoseconds.
func (e ent) ns() int64 { return e.Mtime*1e9 + e.Nanos }

// treeSpec is a complete directory tree as data (replayable).
type treeSpec struct {
	Root  string         `json:"root"` // base name of the root directory (plain: not . or _ prefixed)
	Dirs  []string       `json:"dirs"` // every directory, slash-separated, relative ("" = root)
	Files map[string]ent `json:"files"`
	// DirMtimes: explicit mtime (unix seconds) of some directories, set after the
	// tree is populated. Used for directories that sit where a generated sibling
	// would go (x_templ.go/ next to x.templ: the target cannot be written).
	DirMtimes map[string]int64 `json:"dir_mtimes,omitempty"`
}

var c15DirNames = []string{"pkg", "sub", "deep", "vendor", "node_modules", ".git", ".hidden", "_skip", "a.b", "web", "_x.y"}

// skipName is the statement's skip rule for ONE directory name.
func skipName(n string) bool {
	return n == "vendor" || n == "node_modules" || strings.HasPrefix(n, ".") || strings.HasPrefix(n, "_")
}

// inSkipped: a path is inside a skipped directory when any of its DIRECTORY
// components (never the file's own name) matches the rule.
func inSkipped(rel string, isDir bool) bool {
	parts := strings.Split(rel, "/")
	if !isDir {
		parts = parts[:len(parts)-1]
	}
	for _, p := range parts {
		if p != "" && skipName(p) {
			return true
		}
	}
	return false
}

func pkgName(dir string) string {
	b := path.Base(dir)
	var sb strings.Builder
	for _, r := range b {
		if unicode.IsLetter(r) {
			sb.WriteRune(unicode.ToLower(r))
		}
	}
	if sb.Len() == 0 || dir == "" {
		return "main"
	}
	return sb.String()
}

// genTree builds a seeded tree. withBad: contains unparseable / bad-Go files
// outside skipped directories (the command must then fail).
// only != "": apart from that, every template is good and exactly ONE file cannot be
// generated — one that also carries a parser diagnostic ("diag-badgo": invalid Go,
// "diag-unwritable": target path is a directory) — so the exit status depends on it alone.
func genTree(r *rand.Rand, withBad bool, only string, maxTempl int) treeSpec {
	t := treeSpec{Root: []string{"proj", "root", "a.b", "my-app", "x1"}[r.Intn(5)], Files: map[string]ent{}}
	dirs := []string{""}
	has := map[string]bool{"": true}
	addDir := func(parent, name string) string {
		p := path.Join(parent, name)
		if !has[p] {
			has[p] = true
			dirs = append(dirs, p)
		}
		return p
	}
	depth := func(d string) int {
		if d == "" {
			return 0
		}
		return strings.Count(d, "/") + 1
	}
	for n := 2 + r.Intn(10); n > 0; n-- {
		parent := dirs[r.Intn(len(dirs))]
		if depth(parent) >= 4 {
			continue
		}
		addDir(parent, c15DirNames[r.Intn(len(c15DirNames))])
	}
	// every tree has at least one skipped and one ordinary sub-directory,
	// and a skipped directory nested below an ordinary one and vice versa
	sk := addDir("", []string{"vendor", "node_modules", ".git", ".hidden", "_skip"}[r.Intn(5)])
	ord := addDir("", []string{"pkg", "a.b", "web"}[r.Intn(3)])
	addDir(ord, []string{"vendor", "_skip", ".hidden"}[r.Intn(3)])
	addDir(sk, "pkg")
	base := int64(1600000000 + r.Intn(1000000))
	// most files get ordinary recent mtimes; a few carry normalised / ancient
	// timestamps (the Unix epoch itself, before it, early 1970) as produced by
	// reproducible-build tooling (SOURCE_DATE_EPOCH=0, tar --mtime=@0)
	mt := func() int64 {
		switch r.Intn(40) {
		case 0:
			return 0
		case 1:
			return -86400 * int64(1+r.Intn(300))
		case 2:
			return int64(1 + r.Intn(1000))
		}
		return base + int64(r.Intn(100000))
	}
	var live, skippedDirs []string
	for _, d := range dirs {
		if inSkipped(d, true) {
			skippedDirs = append(skippedDirs, d)
		} else {
			live = append(live, d)
		}
	}
	anyDir := func() string {
		for {
			if d := dirs[r.Intn(len(dirs))]; !strings.HasSuffix(d, "_templ.go") {
				return d
			}
		}
	}
	nT := 1 + r.Intn(maxTempl)
	if r.Intn(3) == 0 {
		nT = 1 + r.Intn(8)
	}
	bigLeft := 1
	for i := 0; i < nT; i++ {
		d := anyDir()
		if i < 2 { // guarantee templates inside and outside skipped directories
			d = []string{ord, sk}[i]
		}
		name := fmt.Sprintf("t%d", i)
		switch r.Intn(12) {
		case 0:
			name = fmt.Sprintf("_u%d", i) // underscore/dot prefixed FILES are not skipped
		case 1:
			name = fmt.Sprintf(".h%d", i)
		case 2:
			name = fmt.Sprintf("vendor%d", i)
		}
		var src string
		k := r.Intn(100)
		switch {
		case withBad && k < 8:
			src = unparseableTempl(r, pkgName(d))
		case withBad && k < 16:
			src = badGoTempl(r, pkgName(d))
		default:
			big := bigLeft > 0 && r.Intn(12) == 0
			if big {
				bigLeft--
			}
			src = goodTempl(r, pkgName(d), big)
		}
		p := path.Join(d, name+".templ")
		t.Files[p] = ent{Data: []byte(src), Mtime: mt()}
		// stale sibling: older or newer than its template (matters for -lazy only)
		if r.Intn(4) == 0 {
			m := t.Files[p].Mtime
			if r.Intn(2) == 0 {
				m += 1 + int64(r.Intn(5000))
			} else {
				m -= 1 + int64(r.Intn(5000))
			}
			stale := "// stale generated file\npackage " + pkgName(d) + "\n\nvar stale" + fmt.Sprint(i) + " = 1\n"
			if r.Intn(2) == 0 {
				// longer than anything the generator will write for this template
				// (an output file that is not truncated keeps this tail)
				stale += strings.Repeat("// an older, longer version of this file: padding padding padding padding\n", 200+r.Intn(400))
			}
			t.Files[path.Join(d, name+"_templ.go")] = ent{Data: []byte(stale), Mtime: m}
		}
	}
	if withBad { // at least one bad file of each kind outside skipped dirs; a bad file inside a skipped dir is harmless
		d := live[r.Intn(len(live))]
		t.Files[path.Join(d, "aaa_bad.templ")] = ent{Data: []byte(unparseableTempl(r, pkgName(d))), Mtime: mt()}
		d = live[r.Intn(len(live))]
		t.Files[path.Join(d, "zz_badgo.templ")] = ent{Data: []byte(badGoTempl(r, pkgName(d))), Mtime: mt()}
		if r.Intn(2) == 0 { // a bad file that already has a (stale) sibling: the sibling must survive unchanged
			t.Files[path.Join(d, "zz_badgo_templ.go")] = ent{Data: []byte("package " + pkgName(d) + "\n// kept\n"), Mtime: mt() - 200000}
		}
	}
	// diagnostic-only control in every tree: a warning must not fail the command
	{
		d := live[r.Intn(len(live))]
		t.Files[path.Join(d, "legacy_only.templ")] = ent{Data: []byte(legacyOnlyTempl(pkgName(d), r.Intn(1000))), Mtime: mt()}
	}
	unwritable := func(i int, src string) {
		d := live[r.Intn(len(live))]
		name := fmt.Sprintf("unwritable%d", i)
		m := mt()
		t.Files[path.Join(d, name+".templ")] = ent{Data: []byte(src), Mtime: m}
		sd := path.Join(d, name+"_templ.go")
		addDir(d, name+"_templ.go")
		t.Files[path.Join(sd, "keep.txt")] = ent{Data: []byte("this directory is in the way\n"), Mtime: m - 5000}
		if t.DirMtimes == nil {
			t.DirMtimes = map[string]int64{}
		}
		t.DirMtimes[sd] = m - 4000
	}
	switch only {
	case "diag-badgo":
		d := live[r.Intn(len(live))]
		t.Files[path.Join(d, "yy_legacy_badgo.templ")] = ent{Data: []byte(badGoLegacyTempl(r, pkgName(d))), Mtime: mt()}
	case "diag-unwritable":
		unwritable(1, legacyOnlyTempl("p", r.Intn(1000)))
	}
	if withBad {
		// a file that has a diagnostic AND cannot be generated (invalid Go)
		d := live[r.Intn(len(live))]
		t.Files[path.Join(d, "yy_legacy_badgo.templ")] = ent{Data: []byte(badGoLegacyTempl(r, pkgName(d))), Mtime: mt()}
		// files that generate fine but whose target cannot be written: the sibling path is a
		// (non-empty) directory, older than the template; once without and once with a diagnostic
		for i, src := range []string{plainGoodTempl(pkgName(d), r.Intn(1000)), legacyOnlyTempl(pkgName(d), r.Intn(1000))} {
			unwritable(i, src)
		}
	}
	sd := skippedDirs[r.Intn(len(skippedDirs))]
	t.Files[path.Join(sd, "bad_in_skipped.templ")] = ent{Data: []byte(unparseableTempl(r, "x")), Mtime: mt()}
	// orphans inside and outside skipped directories
	for i, n := 0, 2+r.Intn(4); i < n; i++ {
		d := anyDir()
		if i == 0 {
			d = live[r.Intn(len(live))]
		} else if i == 1 {
			d = skippedDirs[r.Intn(len(skippedDirs))]
		}
		t.Files[path.Join(d, fmt.Sprintf("orphan%d_templ.go", i))] = ent{Data: []byte("package " + pkgName(d) + "\n\n// orphan " + fmt.Sprint(i) + "\n"), Mtime: mt()}
	}
	// unrelated files (names that look similar to, but are not, templ/_templ.go files)
	un := []string{"main.go", "util.go", "util_test.go", "notes.txt", "README.md", "page.templ.bak", "x_templ.go.orig", "view.templ.txt", "templ.go", "my_templ.gox", "go.mod", "data.json"}
	for n := 3 + r.Intn(8); n > 0; n-- {
		d := anyDir()
		nm := un[r.Intn(len(un))]
		body := "package " + pkgName(d) + "\n\n// unrelated " + fmt.Sprint(r.Intn(1e6)) + "\n"
		if nm == "go.mod" {
			body = "module example.com/m" + fmt.Sprint(r.Intn(100)) + "\n\ngo 1.23\n"
		}
		t.Files[path.Join(d, nm)] = ent{Data: []byte(body), Mtime: mt()}
	}
	sort.Strings(dirs)
	t.Dirs = dirs
	return t
}

// materialise writes the tree below parent and returns the root directory.
func materialise(parent string, t treeSpec) (string, error) {
	root := filepath.Join(parent, t.Root)
	for _, d := range t.Dirs {
		if err := os.MkdirAll(filepath.Join(root, filepath.FromSlash(d)), 0o755); err != nil {
			return "", err
		}
	}
	for p, e := range t.Files {
		f := filepath.Join(root, filepath.FromSlash(p))
		if err := os.MkdirAll(filepath.Dir(f), 0o755); err != nil {
			return "", err
		}
		if err := os.WriteFile(f, e.Data, 0o644); err != nil {
			return "", err
		}
		tm := time.Unix(e.Mtime, e.Nanos)
		if err := os.Chtimes(f, tm, tm); err != nil {
			return "", err
		}
	}
	for d, m := range t.DirMtimes {
		tm := time.Unix(m, 0)
		if err := os.Chtimes(filepath.Join(root, filepath.FromSlash(d)), tm, tm); err != nil {
			return "", err
		}
	}
	return root, nil
}

// snapEnt is what the monitor observes of one path.
type snapEnt struct {
	Type  string // "file", "dir", "other"
	Sum   string // sha256 of content (files)
	Mtime int64  // unix nanoseconds (files)
	Mode  fs.FileMode
	Data  []byte // kept only for small diagnostics
}

func snapshot(root string) (map[string]snapEnt, error) {
	out := map[string]snapEnt{}
	err := filepath.WalkDir(root, func(p string, d fs.DirEntry, err error) error {
		if err != nil {
			return err
		}
		rel, _ := filepath.Rel(root, p)
		rel = filepath.ToSlash(rel)
		if rel == "." {
			return nil
		}
		info, err := d.Info()
		if err != nil {
			return err
		}
		switch {
		case d.IsDir():
			out[rel] = snapEnt{Type: "dir", Mode: info.Mode().Perm()}
		case info.Mode().IsRegular():
			b, err := os.ReadFile(p)
			if err != nil {
				return err
			}
			s := sha256.Sum256(b)
			out[rel] = snapEnt{Type: "file", Sum: hex.EncodeToString(s[:]), Mtime: info.ModTime().UnixNano(), Mode: info.Mode().Perm(), Data: b}
		default:
			out[rel] = snapEnt{Type: "other"}
		}
		return nil
	})
	return out, err
}

func sum(b []byte) string { s := sha256.Sum256(b); return hex.EncodeToString(s[:]) }
