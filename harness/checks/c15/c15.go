// Package c15: `templ generate` output is a deterministic function of the tree.
//
// Engine: cli. The race-instrumented templ binary built from the repository
// under test is run on seeded directory trees; the monitor snapshots the tree
// before/after and compares with an in-process single-file reference
// generation, checks exit status, idempotence of a second run, equality
// across worker counts / GOMAXPROCS, and the race detector log.
package c15

import (
	"bytes"
	"context"
	"fmt"
	"go/format"
	"math/rand"
	"os"
	"os/exec"
	"path/filepath"
	"regexp"
	"sort"
	"strings"
	"sync"
	"sync/atomic"
	"time"

	"github.com/a-h/templ"
	"github.com/a-h/templ/generator"
	"github.com/a-h/templ/parser/v2"
	"verif/core"
	"verif/corpus"
)

// runCfg is one CLI configuration.
type runCfg struct {
	W     int    `json:"w"`
	Flags string `json:"flags"` // "none" | "keep" | "lazy" | "nover" | "keep+lazy+nover"
	Procs int    `json:"procs"` // GOMAXPROCS of the templ process
	Debug bool   `json:"debug"` // -log-level debug (completion order becomes observable)
	// PathForm: how -path is spelled. "" absolute | rel (cwd elsewhere, ../x/root) | dotslash (./root) |
	// slash (trailing /) | dotdot (root/../root) | symroot (the root is a symlink) | symparent (a parent is a symlink)
	PathForm string `json:"path_form,omitempty"`
}

var pathForms = []string{"", "rel", "dotslash", "slash", "symroot", "symparent", "dotdot", ""}

// spell prepares the path form below scratch dir `dir` (the real tree is at
// dir/real/<root>) and returns the -path argument and the working directory.
func (r runCfg) spell(dir, root string) (arg, cwd string, err error) {
	base := filepath.Base(root)
	cwd = filepath.Dir(root)
	switch r.PathForm {
	case "rel":
		cwd = filepath.Join(dir, "elsewhere", "deeper")
		err = os.MkdirAll(cwd, 0o755)
		arg = filepath.Join("..", "..", "real", base)
	case "dotslash":
		arg = "./" + base
	case "slash":
		arg = root + "/"
	case "dotdot":
		arg = root + "/../" + base
	case "symroot":
		arg = filepath.Join(dir, "lnk-"+strings.TrimLeft(base, "._"))
		err = os.Symlink(root, arg)
	case "symparent":
		lp := filepath.Join(dir, "lp")
		err = os.Symlink(filepath.Dir(root), lp)
		arg = filepath.Join(lp, base)
	default:
		arg = root
	}
	return arg, cwd, err
}

func (r runCfg) has(f string) bool {
	for _, x := range strings.Split(r.Flags, "+") {
		if x == f {
			return true
		}
	}
	return false
}

// args: root is the -path argument exactly as spelled.
func (r runCfg) args(root string) []string {
	a := []string{"generate", "-path", root, "-w", fmt.Sprint(r.W)}
	if r.has("keep") {
		a = append(a, "-keep-orphaned-files")
	}
	if r.has("lazy") {
		a = append(a, "-lazy")
	}
	if r.has("nover") {
		a = append(a, "-include-version=false")
	}
	if r.Debug {
		a = append(a, "-log-level", "debug")
	}
	return a
}

type c15Case struct {
	Tree treeSpec `json:"tree"`
	Cfg  runCfg   `json:"cfg"`
}

// refResult is the single-file reference generation of one .templ file.
type refResult struct {
	Out     []byte // gofmt-formatted generation (valid when Written)
	Written bool   // the sibling must hold Out
	Fail    bool   // the command must exit non-zero because of this file
}

// refGen is the reference: gofmt(generate(parse(file), [WithVersion,] WithFileName(rel)))
// — exactly the per-file pipeline of eventhandler.generate, one file at a time
// on one goroutine. A file is "bad" iff this pipeline returns an error.
func refGen(src, rel string, version bool) (res refResult) {
	defer func() {
		if r := recover(); r != nil {
			res = refResult{Fail: true}
		}
	}()
	t, err := parser.ParseString(src)
	if err != nil {
		return refResult{Fail: true}
	}
	var opts []generator.GenerateOpt
	if version {
		opts = append(opts, generator.WithVersion(templ.Version()))
	}
	opts = append(opts, generator.WithFileName(rel))
	var b bytes.Buffer
	if _, err = generator.Generate(t, &b, opts...); err != nil {
		return refResult{Fail: true}
	}
	out, err := format.Source(b.Bytes())
	if err != nil {
		return refResult{Fail: true}
	}
	if _, err := parser.Diagnose(t); err != nil { // written, then reported as an error
		return refResult{Out: out, Written: true, Fail: true}
	}
	return refResult{Out: out, Written: true}
}

// expEnt: expected state of one path after the run.
type expEnt struct {
	Data      []byte
	Untouched bool   // not written at all: mtime must equal the original one
	Mtime     int64  // original mtime (unix nanoseconds) when Untouched
	Why       string // role of the path, used in violation keys
}

type expectation struct {
	Files map[string]expEnt
	Gone  map[string]string // paths that must not exist -> role
	Bad   []string          // files that make the command fail
	NGood int
}

// expected computes the state the statement demands after `templ generate`
// with cfg on tree t. Rules (trusted base):
//   - X.templ outside skipped dirs, reference succeeds -> X_templ.go == reference bytes
//   - reference fails -> command fails; X_templ.go is whatever it was (absent stays absent)
//   - X_templ.go is a directory -> cannot be written: command fails, directory untouched
//   - the FileName baked into the generated code is the path relative to the root AS THE USER
//     SPELLED -path (what single-file generation from that root gives), for every spelling
//   - *_templ.go outside skipped dirs without X.templ -> removed unless -keep-orphaned-files
//   - every other path: same bytes, same mtime (not rewritten)
//   - -lazy: a template whose sibling exists and is strictly newer is not processed at all
//     (documented meaning of the flag), hence neither generated nor able to fail the command
func expected(t treeSpec, cfg runCfg) expectation {
	ex := expectation{Files: map[string]expEnt{}, Gone: map[string]string{}}
	for p, e := range t.Files {
		ex.Files[p] = expEnt{Data: e.Data, Untouched: true, Mtime: e.ns(), Why: "other"}
	}
	var paths []string
	for p := range t.Files {
		paths = append(paths, p)
	}
	sort.Strings(paths)
	isDir := map[string]bool{}
	for _, d := range t.Dirs {
		isDir[d] = true
	}
	for _, p := range paths {
		e := t.Files[p]
		if inSkipped(p, false) {
			x := ex.Files[p]
			x.Why = "in-skipped-dir"
			ex.Files[p] = x
			continue
		}
		switch {
		case strings.HasSuffix(p, ".templ"):
			sib := strings.TrimSuffix(p, ".templ") + "_templ.go"
			if s, ok := t.Files[sib]; ok && cfg.has("lazy") && s.ns() > e.ns() {
				x := ex.Files[sib]
				x.Why = "lazy-up-to-date-sibling"
				ex.Files[sib] = x
				continue
			}
			if isDir[sib] {
				// a directory sits where the sibling would go: the file cannot be generated, the
				// command fails, the directory stays (-lazy compares its mtime like a file's)
				if dm, ok := t.DirMtimes[sib]; ok && cfg.has("lazy") && dm*1e9 > e.ns() {
					continue
				}
				ex.Bad = append(ex.Bad, p)
				continue
			}
			r := refGen(string(e.Data), p, !cfg.has("nover"))
			if r.Fail {
				ex.Bad = append(ex.Bad, p)
			}
			if r.Written {
				ex.Files[sib] = expEnt{Data: r.Out, Why: "generated"}
				ex.NGood++
			} else if _, ok := t.Files[sib]; ok {
				x := ex.Files[sib]
				x.Why = "sibling-of-bad-file"
				ex.Files[sib] = x
			} else {
				ex.Gone[sib] = "sibling-of-bad-file"
			}
		case strings.HasSuffix(p, "_templ.go"):
			if _, ok := t.Files[strings.TrimSuffix(p, "_templ.go")+".templ"]; !ok {
				if cfg.has("keep") {
					x := ex.Files[p]
					x.Why = "kept-orphan"
					ex.Files[p] = x
				} else {
					delete(ex.Files, p)
					ex.Gone[p] = "orphan"
				}
			}
		}
	}
	return ex
}

type finding struct{ key, msg string }

// verify compares an observed snapshot + exit status with the expectation.
func verify(t treeSpec, cfg runCfg, ex expectation, snap map[string]snapEnt, exit int) (out []finding) {
	add := func(cat, p, detail string) {
		out = append(out, finding{cat + " flags=" + cfg.Flags, fmt.Sprintf("%s: %s %s (w=%d GOMAXPROCS=%d)", cat, p, detail, cfg.W, cfg.Procs)})
	}
	for p, e := range ex.Files {
		s, ok := snap[p]
		switch {
		case !ok || s.Type != "file":
			switch e.Why {
			case "generated":
				add("not-generated", p, "no sibling _templ.go although the template generates alone")
			case "kept-orphan":
				add("orphan-removed-despite-keep", p, "")
			default:
				add("file-deleted:"+e.Why, p, "")
			}
		case s.Sum != sum(e.Data):
			if o, had := t.Files[p]; had && e.Why == "generated" && s.Sum == sum(o.Data) {
				add("stale-sibling-not-regenerated", p, "the pre-existing _templ.go was left as it was")
			} else if e.Why == "generated" {
				add("generated-content-differs", p, "sibling differs from single-file reference generation: "+firstDiff(s.Data, e.Data))
			} else {
				add("file-modified:"+e.Why, p, firstDiff(s.Data, e.Data))
			}
		case e.Untouched && s.Mtime != e.Mtime:
			add("file-rewritten:"+e.Why, p, "same bytes but mtime changed")
		}
	}
	for p, s := range snap {
		if s.Type == "dir" {
			continue
		}
		if _, ok := ex.Files[p]; ok {
			continue
		}
		if why, ok := ex.Gone[p]; ok {
			if why == "orphan" {
				add("orphan-not-removed", p, "")
			} else {
				add("file-created:"+why, p, "")
			}
			continue
		}
		w := "unexpected"
		if inSkipped(p, false) {
			w = "in-skipped-dir"
		}
		add("file-created:"+w, p, "")
	}
	for _, d := range t.Dirs {
		if d == "" {
			continue
		}
		if s, ok := snap[d]; !ok || s.Type != "dir" {
			add("directory-removed", d, "")
		}
	}
	if len(ex.Bad) > 0 && exit == 0 {
		add("exit-zero-with-bad-file", ex.Bad[0], "")
	}
	if len(ex.Bad) == 0 && exit != 0 {
		add("exit-nonzero-without-bad-file", "", fmt.Sprint("exit status ", exit))
	}
	sort.Slice(out, func(i, j int) bool { return out[i].key+out[i].msg < out[j].key+out[j].msg })
	return out
}

func firstDiff(a, b []byte) string {
	i := 0
	for i < len(a) && i < len(b) && a[i] == b[i] {
		i++
	}
	lo := i - 30
	if lo < 0 {
		lo = 0
	}
	cut := func(x []byte) string {
		hi := i + 40
		if hi > len(x) {
			hi = len(x)
		}
		if lo > len(x) {
			return ""
		}
		return string(x[lo:hi])
	}
	return fmt.Sprintf("at byte %d: observed %q, reference %q", i, cut(a), cut(b))
}

var (
	reOrder  = regexp.MustCompile(`(?m)(Generated code|Deleting orphaned Go file|Error) \[ (?:file=|error=failed to generate code for ")([^ "]+)`)
	reRaceFn = regexp.MustCompile(`(?m)^  ([A-Za-z0-9_./\-]+\.[A-Za-z0-9_.()*\-]+)\(\)$`)
)

type runOut struct {
	exit     int
	timedOut bool
	stderr   string
	races    []string // canonical race signatures
	raceTxt  string
}

// soloMu: ordinary CLI runs share it; a run that hit its watchdog is repeated
// alone (exclusive), so that a second timeout cannot be blamed on load created
// by this check itself.
var soloMu sync.RWMutex

var hangs atomic.Int64

// runTempl executes the CLI once. A run of these small trees takes well under a
// second; one that exceeds 30 s is repeated alone with a 60 s budget, and only
// if that also expires is it reported as timed out (the command hangs).
func runTempl(bin, root, cwd, logDir string, cfg runCfg) runOut {
	if hangs.Load() >= 1 {
		// the command has already been shown to hang (confirmed by a
		// solo re-run): do not spend minutes on every further scenario
		soloMu.RLock()
		defer soloMu.RUnlock()
		return runTemplOnce(bin, root, cwd, logDir, cfg, 10*time.Second)
	}
	soloMu.RLock()
	ro := runTemplOnce(bin, root, cwd, logDir, cfg, 30*time.Second)
	soloMu.RUnlock()
	if ro.timedOut {
		defer func() {
			if ro.timedOut {
				hangs.Add(1)
			}
		}()
		soloMu.Lock()
		ro = runTemplOnce(bin, root, cwd, logDir+"-solo", cfg, 60*time.Second)
		soloMu.Unlock()
	}
	return ro
}

func runTemplOnce(bin, root, cwd, logDir string, cfg runCfg, budget time.Duration) runOut {
	_ = os.MkdirAll(logDir, 0o755)
	errFile := filepath.Join(logDir, "stderr.txt")
	ef, _ := os.Create(errFile)
	ctx, cancel := context.WithTimeout(context.Background(), budget)
	defer cancel()
	cmd := exec.CommandContext(ctx, bin, cfg.args(root)...)
	cmd.Dir = cwd
	cmd.Env = append(os.Environ(), "PWD="+cwd, "GORACE=halt_on_error=0 exitcode=0 atexit_sleep_ms=0 log_path="+filepath.Join(logDir, "race"),
		fmt.Sprintf("GOMAXPROCS=%d", cfg.Procs), "NO_COLOR=1", "TEMPL_DEV_MODE=", "TEMPL_DEV_MODE_ROOT=")
	cmd.Stdout = ef
	cmd.Stderr = ef
	err := cmd.Run()
	ef.Close()
	var ro runOut
	if ctx.Err() != nil {
		ro.timedOut = true
	}
	if ee, ok := err.(*exec.ExitError); ok {
		ro.exit = ee.ExitCode()
	} else if err != nil {
		ro.exit = -1
	}
	b, _ := os.ReadFile(errFile)
	ro.stderr = string(b)
	logs, _ := filepath.Glob(filepath.Join(logDir, "race.*"))
	for _, l := range logs {
		rb, _ := os.ReadFile(l)
		ro.raceTxt += string(rb)
		_ = os.Remove(l)
	}
	for _, blk := range strings.Split(ro.raceTxt, "WARNING: DATA RACE")[1:] {
		// canonical signature: the top frame of each of the two conflicting accesses
		var tops []string
		for _, sec := range strings.Split(blk, "\n\n") {
			t := strings.TrimSpace(sec)
			if !(strings.HasPrefix(t, "Read at") || strings.HasPrefix(t, "Write at") || strings.HasPrefix(t, "Previous read at") || strings.HasPrefix(t, "Previous write at")) || len(tops) >= 2 {
				continue
			}
			// the innermost frame inside templ's own code names the racing site
			fn := ""
			for _, m := range reRaceFn.FindAllStringSubmatch(sec, -1) {
				if fn == "" {
					fn = m[1]
				}
				if strings.HasPrefix(m[1], "github.com/a-h/templ") {
					fn = m[1]
					break
				}
			}
			tops = append(tops, fn)
		}
		sort.Strings(tops)
		ro.races = append(ro.races, strings.Join(tops, " <-> "))
	}
	return ro
}

// completionOrder extracts the order in which per-file work finished from a
// debug log (slog handler serialises lines, so line order is a real order).
func completionOrder(stderr, root string) string {
	var sb strings.Builder
	for _, m := range reOrder.FindAllStringSubmatch(stderr, -1) {
		rel := strings.TrimPrefix(m[2], root+"/")
		sb.WriteString(m[1][:1] + ":" + rel + "\n")
	}
	return sb.String()
}

type checker struct {
	c       *core.Ctx
	bin     string
	scratch string
	mu      sync.Mutex
	orders  map[string]map[string]bool // tree id -> distinct completion orders
	seq     int
	races   int
}

// scenario: fresh copy of the tree, run, verify, run again, verify idempotence.
// Returns the content signature after the first run (for cross-worker equality).
func (k *checker) scenario(id string, t treeSpec, cfg runCfg, report bool) (sig string, fs []finding, inconclusive string) {
	k.mu.Lock()
	k.seq++
	dir := filepath.Join(k.scratch, fmt.Sprintf("s%06d", k.seq))
	k.mu.Unlock()
	defer os.RemoveAll(dir)
	root, err := materialise(filepath.Join(dir, "real"), t)
	if err != nil {
		core.Infra("materialise: %v", err)
	}
	arg, cwd, err := cfg.spell(dir, root)
	if err != nil {
		core.Infra("path form %q: %v", cfg.PathForm, err)
	}
	ex := expected(t, cfg)
	ro := runTempl(k.bin, arg, cwd, filepath.Join(dir, "log1"), cfg)
	if ro.timedOut {
		// the blocked state is not created by load: the run was repeated alone
		fs = append(fs, finding{"hang", fmt.Sprintf("templ generate did not terminate (30 s, then 60 s running alone) on a tree of %d files (%v); stderr tail: %s", len(t.Files), cfg, corpus.Tail(ro.stderr, 600))})
		if report {
			k.c.Eval(1)
			k.c.Violate("hang", fs[len(fs)-1].msg, c15Case{Tree: t, Cfg: cfg})
		}
		return "", fs, ""
	}
	for _, r := range ro.races {
		fs = append(fs, finding{"race " + r, "race detector report in templ generate: " + r + "\n" + corpus.Tail(ro.raceTxt, 1500)})
	}
	if ro.exit != 0 && ro.exit != 1 {
		fs = append(fs, finding{fmt.Sprintf("abnormal-exit status=%d flags=%s", ro.exit, cfg.Flags), "templ generate ended abnormally: " + corpus.Tail(ro.stderr, 800)})
	}
	snap, err := snapshot(root)
	if err != nil {
		core.Infra("snapshot: %v", err)
	}
	fs = append(fs, verify(t, cfg, ex, snap, ro.exit)...)
	k.c.Eval(1)
	if cfg.Debug {
		logged := arg // names in the log are below the absolute, lexically cleaned spelling
		if !filepath.IsAbs(logged) {
			logged = filepath.Join(cwd, logged)
		}
		o := completionOrder(ro.stderr, filepath.Clean(logged))
		k.mu.Lock()
		if k.orders[id] == nil {
			k.orders[id] = map[string]bool{}
		}
		k.orders[id][o] = true
		k.mu.Unlock()
	}
	var parts []string
	for p, s := range snap {
		parts = append(parts, p+"="+s.Type+s.Sum)
	}
	sort.Strings(parts)
	sig = sum([]byte(strings.Join(parts, "\n")))

	// second run: contents of every file unchanged, same verdict
	ro2 := runTempl(k.bin, arg, cwd, filepath.Join(dir, "log2"), cfg)
	if ro2.timedOut {
		fs = append(fs, finding{"hang", "second templ generate run did not terminate (30 s, then 60 s running alone)"})
		if report {
			k.c.Eval(1)
			k.c.Violate("hang", fs[len(fs)-1].msg, c15Case{Tree: t, Cfg: cfg})
		}
		return sig, fs, ""
	}
	for _, r := range ro2.races {
		fs = append(fs, finding{"race " + r, "race detector report in templ generate (second run): " + r + "\n" + corpus.Tail(ro2.raceTxt, 1500)})
	}
	snap2, err := snapshot(root)
	if err != nil {
		core.Infra("snapshot: %v", err)
	}
	k.c.Eval(1)
	for p, a := range snap {
		b, ok := snap2[p]
		if !ok {
			fs = append(fs, finding{"second-run-removed-file flags=" + cfg.Flags, "second run removed " + p})
		} else if a.Sum != b.Sum || a.Type != b.Type {
			fs = append(fs, finding{"second-run-changed-content flags=" + cfg.Flags, "second run changed " + p + ": " + firstDiff(b.Data, a.Data)})
		}
	}
	for p := range snap2 {
		if _, ok := snap[p]; !ok {
			fs = append(fs, finding{"second-run-created-file flags=" + cfg.Flags, "second run created " + p})
		}
	}
	if (ro.exit != 0) != (ro2.exit != 0) {
		fs = append(fs, finding{"second-run-exit-differs flags=" + cfg.Flags, fmt.Sprintf("exit %d then %d on an unchanged tree", ro.exit, ro2.exit)})
	}
	k.mu.Lock()
	k.races += len(ro.races) + len(ro2.races)
	k.mu.Unlock()
	if report {
		for _, f := range fs {
			k.c.Violate(f.key, f.msg, c15Case{Tree: t, Cfg: cfg})
		}
	}
	return sig, fs, ""
}

// lazyTree derives the state "after a normal run, then edited": every good
// template has its generated sibling, with explicit mtimes; then a seeded
// subset is edited with mtimes pushed forward (must regenerate) or backward
// (sibling stays newer: -lazy must leave it alone), touched only, added,
// or deleted (its sibling becomes an orphan).
func lazyTree(t treeSpec, r *rand.Rand) (treeSpec, map[string]int) {
	ex := expected(t, runCfg{Flags: "none"})
	n := treeSpec{Root: t.Root, Dirs: t.Dirs, Files: map[string]ent{}, DirMtimes: t.DirMtimes}
	const t0 = 1700000000
	for p, e := range ex.Files {
		m := int64(t0)
		switch e.Why {
		case "generated":
			m = t0 + 10 // generated after the templates were written
		case "sibling-of-bad-file":
			m = t0 - 100 // never equal to its template's mtime
		}
		n.Files[p] = ent{Data: e.Data, Mtime: m}
	}
	counts := map[string]int{}
	var templs []string
	for p := range n.Files {
		if strings.HasSuffix(p, ".templ") {
			templs = append(templs, p)
		}
	}
	sort.Strings(templs)
	for _, p := range templs {
		e := n.Files[p]
		edited := append(append([]byte{}, e.Data...), []byte(fmt.Sprintf("\ntempl Added%d() {\n\t<p>added %d</p>\n}\n", r.Intn(1000), r.Intn(1000)))...)
		sib := strings.TrimSuffix(p, ".templ") + "_templ.go"
		switch r.Intn(10) {
		case 0:
			n.Files[p] = ent{Data: edited, Mtime: t0 + 3600}
			counts["edited_forward"]++
		case 1:
			n.Files[p] = ent{Data: edited, Mtime: t0 - 3600}
			counts["edited_backward"]++
		case 2:
			n.Files[p] = ent{Data: e.Data, Mtime: t0 + 7200}
			counts["touched_forward"]++
		case 8:
			// edited within the same wall-clock second as the sibling was generated, but later
			if s, ok := n.Files[sib]; ok {
				n.Files[sib] = ent{Data: s.Data, Mtime: s.Mtime, Nanos: 100e6}
				n.Files[p] = ent{Data: edited, Mtime: s.Mtime, Nanos: 600e6}
				counts["edited_same_second_later"]++
			}
		case 9:
			// same second, but the sibling is the later one: -lazy must leave it alone
			if s, ok := n.Files[sib]; ok {
				n.Files[sib] = ent{Data: s.Data, Mtime: s.Mtime, Nanos: 600e6}
				n.Files[p] = ent{Data: edited, Mtime: s.Mtime, Nanos: 100e6}
				counts["edited_same_second_earlier"]++
			}
		case 3:
			delete(n.Files, p)
			counts["deleted"]++
		case 4:
			np := strings.TrimSuffix(p, ".templ") + "_new.templ"
			n.Files[np] = ent{Data: edited, Mtime: t0 + 50}
			counts["added"]++
		default:
			counts["untouched"]++
		}
	}
	return n, counts
}

// Run is the C15 check.
func Run(c *core.Ctx) {
	c.Rule = "case = (seeded directory tree, worker count, flag set, GOMAXPROCS, spelling of -path: absolute / relative with cwd elsewhere / ./ / trailing slash / x/../x / symlinked root / symlinked parent) executed with the race-built templ CLI on a fresh copy, verified path-by-path against the in-process single-file reference generation, then run a second time; non-trivial = tree containing >=1 skipped directory with templates in it, >=1 orphan inside and outside skipped dirs and (for the failing class) >=1 unparseable, >=1 invalid-Go template, >=1 template with a parser diagnostic (legacy call) that also fails (invalid Go; target path is a directory) outside skipped dirs; every tree has a diagnostic-only template that must generate; distinct by (tree hash, cfg)"
	c.Assume("-lazy means what its usage text says: a template whose _templ.go sibling is strictly newer is not processed (so it can neither be regenerated nor fail the command); equal mtimes are not generated by the workload")
	c.Assume("the in-process reference uses the same parser/generator/gofmt library code as the CLI, one file at a time on one goroutine: the check is about independence from the tree, the flags, the workers and the schedule, not about the generator's output being right (C02)")
	c.Assume("roots have plain names; a root directory called .x or _x is skipped entirely by the walker (outside the statement)")
	k := &checker{c: c, bin: corpus.TemplBin(c, true), scratch: corpus.Scratch("c15"), orders: map[string]map[string]bool{}}

	if c.ReplayFile != "" {
		var cs c15Case
		c.LoadReplay(&cs)
		for i := 0; i < 5; i++ { // schedule-dependent: repeat
			_, _, inc := k.scenario("replay", cs.Tree, cs.Cfg, true)
			if inc != "" {
				c.Inconclusive(inc)
			}
			c.NontrivialN(1)
		}
		return
	}

	nTrees := c.Pick(10, 150)
	maxTempl := 60
	workers := []int{1, 2, 3, 8, 16, 64}
	procs := []int{1, 2, 16}
	type job struct {
		id   string
		t    treeSpec
		cfg  runCfg
		grp  string // runs that must agree on the final content signature
		lazy bool
	}
	var jobs []job
	for i := 0; i < nTrees; i++ {
		r := c.Rand(fmt.Sprintf("tree%d", i))
		// tree classes: 0 mixed bad files, 1/3 all good, 2 exactly one failing file, which also has a diagnostic
		only := ""
		if i%4 == 2 {
			only = []string{"diag-badgo", "diag-unwritable"}[(i/4)%2]
			c.Add("trees_whose_only_failing_file_has_a_diagnostic", 1)
		}
		t := genTree(r, i%4 == 0, only, maxTempl)
		id := fmt.Sprintf("t%d", i)
		nb := 0
		for p := range t.Files {
			if strings.HasSuffix(p, ".templ") {
				nb++
			}
		}
		c.Add("templ_files", nb)
		for p := range t.Files {
			switch b := filepath.Base(p); {
			case b == "legacy_only.templ":
				c.Add("files_diagnostic_only", 1)
			case b == "yy_legacy_badgo.templ":
				c.Add("files_diagnostic_and_invalid_go", 1)
			case b == "unwritable0.templ":
				c.Add("files_target_is_a_directory", 1)
			case b == "unwritable1.templ":
				c.Add("files_diagnostic_and_target_is_a_directory", 1)
			}
		}
		c.Add("tree_paths", len(t.Files)+len(t.Dirs))
		if i < 2 {
			var names []string
			for p := range t.Files {
				names = append(names, p)
			}
			sort.Strings(names)
			if len(names) > 25 {
				names = append(names[:25], "…")
			}
			c.Sample(map[string]any{"tree": id, "root": t.Root, "with_bad_files": i%4 == 0, "only_failing_file": only, "paths": names})
		}
		th := treeHash(t)
		n := 0
		add := func(tt treeSpec, w int, flags, grp string) {
			cfg := runCfg{W: w, Flags: flags, Procs: procs[(i+n)%3], Debug: n%3 != 2, PathForm: pathForms[(3*i+n)%len(pathForms)]}
			n++
			pf := cfg.PathForm
			if pf == "" {
				pf = "abs"
			}
			c.Add("path_form_"+pf, 1)
			jobs = append(jobs, job{id: id + grp, t: tt, cfg: cfg, grp: id + "/" + grp})
			c.NontrivialStr(th, grp, fmt.Sprint(cfg))
		}
		for _, w := range workers { // flag set "none": every worker count
			add(t, w, "none", "none")
		}
		others := []string{"keep", "lazy", "nover"}
		if !c.Quick() {
			others = append(others, "keep+lazy+nover", "keep+nover")
		}
		for fi, f := range others {
			ws := workers
			if c.Quick() { // two worker counts per flag set, rotating over trees
				ws = []int{workers[(i+fi)%6], workers[(i+fi+3)%6]}
			}
			for _, w := range ws {
				add(t, w, f, f)
			}
		}
		// -lazy as a second run after edits
		lt, cnt := lazyTree(t, c.Rand(fmt.Sprintf("lazy%d", i)))
		for kk, v := range cnt {
			c.Add("lazy_"+kk, v)
		}
		for _, w := range []int{workers[i%6], workers[(i+2)%6]} {
			add(lt, w, "lazy", "lazy-after-edit")
		}
	}
	c.Set("trees", nTrees)
	c.Set("scenarios", len(jobs))

	sigs := map[string]map[string]runCfg{} // group -> signature -> a cfg that produced it
	var sigMu sync.Mutex
	var wg sync.WaitGroup
	ch := make(chan job)
	for p := 0; p < 10; p++ {
		wg.Add(1)
		go func() {
			defer wg.Done()
			for j := range ch {
				sig, fs, inc := k.scenario(j.id, j.t, j.cfg, true)
				if inc != "" {
					c.Inconclusive(inc)
					continue
				}
				c.Add("cli_runs", 2)
				if len(fs) == 0 { // only clean runs take part in the cross-run comparison (others are already reported)
					sigMu.Lock()
					if sigs[j.grp] == nil {
						sigs[j.grp] = map[string]runCfg{}
					}
					sigs[j.grp][sig] = j.cfg
					sigMu.Unlock()
				}
			}
		}()
	}
	for _, j := range jobs {
		ch <- j
	}
	close(ch)
	wg.Wait()
	// results identical across worker counts / GOMAXPROCS within one (tree, flag set)
	for g, m := range sigs {
		c.Eval(1)
		if len(m) > 1 {
			c.Violate("result-differs-across-worker-counts", fmt.Sprintf("group %s: %d different final trees: %v", g, len(m), m), map[string]any{"group": g, "cfgs": m})
		}
	}
	// schedule diversity actually observed (from debug logs; no hook)
	distinct, multi := 0, 0
	for _, m := range k.orders {
		distinct += len(m)
		if len(m) > 1 {
			multi++
		}
	}
	c.Set("distinct_completion_orders", distinct)
	c.Set("tree_flagsets_with_more_than_one_completion_order", multi)
	c.Set("races_reported", k.races)
	c.Set("worker_counts", workers)
	c.Set("gomaxprocs", procs)
	if multi == 0 {
		c.Inconclusive("no tree was observed with two different completion orders: the schedule dimension was not exercised")
	}
}

func treeHash(t treeSpec) string {
	var parts []string
	for p, e := range t.Files {
		parts = append(parts, p+"="+sum(e.Data)+fmt.Sprint(e.ns()))
	}
	sort.Strings(parts)
	return sum([]byte(t.Root + strings.Join(t.Dirs, ",") + strings.Join(parts, "\n")))
}
