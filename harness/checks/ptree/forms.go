package ptree

import "fmt"

// callForms are the templ-element-expression shapes that
// goexpression.TemplExpression's token machine distinguishes: selector chains,
// calls, composite literals, index expressions, parenthesised callees,
// generic instantiation and function literals (with brackets, strings and
// runes that contain bracket characters), on one line and on several.
var callForms = []string{
	`c(a, "b")`,
	`pkg.Fn(a)`,
	`x.Method()`,
	`x.y.z.Method(a).Other()`,
	`Struct{Field: v}`,
	`Struct{Field: v}.Method()`,
	`pkg.Struct{A: 1, B: "é"}.Method(x)`,
	`arr[0]`,
	`m["k"]`,
	`arr[0].Method()`,
	`m["k"](x)`,
	`(fn)(x)`,
	`(pkg.Fn)(x).Y()`,
	`c[int](1)`,
	`c(a)(b)`,
	`func() templ.Component { return x }()`,
	"func(a string) templ.Component {\n\t\treturn c(a)\n\t}(\"é\")",
	`func() templ.Component { if a { return x }; return y }()`,
	`func() templ.Component { return func() templ.Component { return x }() }()`,
	`c(func() string { return "x" }())`,
	`c(func(s string) bool { return s == "}" }, '{', "{")`,
	"c(\n\t\ta,\n\t\t\"b\",\n\t)",
	"pkg.Struct{\n\t\tA: 1,\n\t\tB: []string{\"é\", `}`},\n\t}.Method(\n\t\tx,\n\t)",
	`c(x...)`,
	`c(a && !b, x+1, y[1:2], *p, &q, <-ch)`,
	`c(struct{ A int }{1}, []string{"a"}, map[string]int{"a": 1})`,
	`c(a /* ü */, b)`,
	"c(`raw\n}` + s)",
	`templ.Raw("<b>")`,
	`c(x.(T), i.(type2).F)`,
	`c(1.5e3, 0x1F, 'x', '\'', "\"", 2i)`,
}

// headerForms are control-flow headers whose last token before "{" or ":"
// differs (identifier, literal, ")", "]", "}", "++", rune, string …): the
// positions where go/scanner inserts a semicolon when the input ends there.
var headerForms = []string{
	"if x {", "if f(x) {", "if a[0] {", "if (T{}).Ok {", "if x := f(); x != nil {", "if \"a\" == s {", "if n == 1 {", "if c == 'x' {", "if !ok {",
	"if x.(T) != nil {", "if len(m[\"k\"]) > 0 && f(func() bool { return true }) {", "if a ||\n\t\tb {",
	"for i := 0; i < 10; i++ {", "for _, v := range xs {", "for range 3 {", "for i := range f(x) {", "for k, v := range m[\"k\"] {", "for cond {",
	"for _, é := range []string{\"a\", \"}\"} {", "for i, j := 0, len(a)-1; i < j; i, j = i+1, j-1 {",
	"switch x {", "switch x := f(); x {", "switch x.(type) {", "switch {", "switch f(x) {", "switch a[0] {", "switch y := x.(type) {", "switch T{}.k {",
}

var caseForms = []string{"case 1:", "case \"a\", \"b\":", "case f(x):", "case a[0]:", "case 'x':", "case x > 1 && y:", "case T{A: 1}:", "case int, string:", "case \"a\",\n\t\t\t\"b\":", "default:", "default :"}

// FixedForms returns short whole templ files, one construct each, with and
// without a child block. They join the corpus: being short, every prefix of
// every one of them is taken (stride 1), so the inputs that END inside each
// construct after each kind of token are all present; the mutators work on
// them as on any other seed.
func FixedForms() []Seed {
	var out []Seed
	add := func(kind string, i int, body string) {
		out = append(out, Seed{Name: fmt.Sprintf("form/%s/%d", kind, i), Text: "package x\n\ntempl t(a string) {\n" + body + "}\n", Whole: true})
	}
	for i, f := range callForms {
		add("call", i, "\t@"+f+"\n")
		add("call-block", i, "\t@"+f+" {\n\t\t<p>{ a }</p>\n\t}\n")
		add("call-inline", i, "\t<div>@"+f+"</div>\n\t@"+f+"\n\t<p>é</p>\n")
		add("call-legacy", i, "\t{! "+f+" }\n")
		add("string-expr", i, "\t<p>{ "+f+" }</p>\n")
		add("go-code", i, "\t{{ v := "+f+" }}\n")
		add("attr", i, "\t<p data-x={ "+f+" } class={ "+f+" }></p>\n")
	}
	for i, h := range headerForms {
		tail := "\t}\n"
		if h[0] == 's' {
			add("header", i, "\t"+h+"\n\t\tcase 1:\n\t\t\t<p>a</p>\n"+tail)
			continue
		}
		add("header", i, "\t"+h+"\n\t\t<p>a</p>\n"+tail)
		if h[0] == 'i' {
			add("header-else", i, "\t"+h+"\n\t\t<p>a</p>\n\t} else "+h+"\n\t\t<p>b</p>\n\t} else {\n\t\tc\n"+tail)
			add("header-attr", i, "\t<div\n\t\t"+h+"\n\t\t\tclass=\"a\"\n\t\t}\n\t></div>\n")
		}
	}
	for i, cf := range caseForms {
		add("case", i, "\tswitch x {\n\t\t"+cf+"\n\t\t\t<p>a</p>\n\t\tcase 2:\n\t\t\tb\n\t}\n")
	}
	return out
}
