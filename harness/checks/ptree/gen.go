package ptree

import (
	"fmt"
	"math/rand"
	"strings"
)

// GenProgram emits a syntactically valid templ file that places a Go
// expression in every syntactic slot of the language, with random multi-byte
// identifiers and strings, multi-byte text in front of expressions on the same
// line, and multi-line expressions. Programs need not type-check: the checks
// only need templates that parse, generate and gofmt.
func GenProgram(r *rand.Rand) string {
	g := &pgen{r: r}
	g.ml = 1 + r.Intn(4) // 1 in ml expressions is laid out on several lines
	g.mb = 1 + r.Intn(3) // 1 in mb names/strings carries multi-byte runes
	g.spaces = r.Intn(4) == 0
	var sb strings.Builder
	// Go before the package clause.
	for i := r.Intn(3); i > 0; i-- {
		switch r.Intn(3) {
		case 0:
			sb.WriteString("// " + g.words() + "\n")
		case 1:
			sb.WriteString("//go:build " + g.asciiIdent() + "\n\n")
		default:
			sb.WriteString("/* " + g.words() + " */\n")
		}
	}
	sb.WriteString("package " + g.ident() + "\n\n")
	if r.Intn(2) == 0 {
		sb.WriteString("import \"fmt\"\n\n")
	} else {
		sb.WriteString("import (\n\t\"fmt\"\n\tstrs \"strings\"\n)\n\n")
	}
	n := 3 + r.Intn(4)
	kinds := []int{0, 0, 0, 1, 2, 3, 3}
	first := r.Intn(n)
	for i := 0; i < n; i++ {
		k := kinds[r.Intn(len(kinds))]
		if i == first {
			k = 0
		}
		switch k {
		case 0:
			sb.WriteString(g.template())
		case 1:
			sb.WriteString(g.css())
		case 2:
			sb.WriteString(g.script())
		default:
			sb.WriteString(g.goBlock())
		}
		sb.WriteString(g.pick("\n\n", "\n", "\n\n\n"))
	}
	if r.Intn(4) == 0 {
		sb.WriteString("// " + g.words() + "\n")
	}
	out := sb.String()
	if r.Intn(10) == 0 {
		out = strings.ReplaceAll(out, "\n", "\r\n")
	}
	return out
}

type pgen struct {
	r      *rand.Rand
	ml, mb int
	spaces bool
	depth  int
}

func (g *pgen) pick(s ...string) string { return s[g.r.Intn(len(s))] }

// lb / rb spell the braces around an expression: usually with one space of
// padding, sometimes with none, several, a tab or a line break.
func (g *pgen) lb() string {
	if g.r.Intn(6) != 0 {
		return "{ "
	}
	return "{" + g.pick("", "  ", "\t", "\n\t\t", " \n", " \t ")
}

func (g *pgen) rb() string {
	if g.r.Intn(6) != 0 {
		return " }"
	}
	return g.pick("", "  ", "\t", "\n\t", " \n") + "}"
}

func (g *pgen) multi() bool { return g.r.Intn(g.ml) == 0 }
func (g *pgen) wide() bool  { return g.r.Intn(g.mb) == 0 }

var wideLetters = []string{"é", "ß", "ж", "世", "界", "ü", "𝛼", "λ", "ñ"}
var wideText = []string{"é", "ß", "世界", "ü", "🙂", "→", "ж", "𝛼", "ñ", "日本"}

func (g *pgen) asciiIdent() string {
	return g.pick("a", "b", "item", "user", "val", "cfg", "idx", "name", "list", "p") + g.pick("", "", "1", "2", "X")
}

func (g *pgen) ident() string {
	s := g.asciiIdent()
	if g.wide() {
		s = g.pick(s+g.pick(wideLetters...), g.pick(wideLetters...)+s, s+g.pick(wideLetters...)+g.pick(wideLetters...))
	}
	return s
}

func (g *pgen) words() string {
	n := 1 + g.r.Intn(3)
	var w []string
	for i := 0; i < n; i++ {
		if g.wide() {
			w = append(w, g.pick(wideText...)+g.pick("", "x", "llo"))
		} else {
			w = append(w, g.pick("hello", "world", "x", "lorem", "a-b", "42"))
		}
	}
	return strings.Join(w, " ")
}

func (g *pgen) str() string {
	if g.r.Intn(6) == 0 {
		if g.multi() {
			return "`" + g.words() + "\n" + g.words() + "`"
		}
		return "`" + g.words() + "`"
	}
	return `"` + g.words() + g.pick("", "", `\n`, `\"`, `%s`) + `"`
}

func (g *pgen) ind(n int) string {
	if g.spaces {
		return strings.Repeat("  ", n)
	}
	return strings.Repeat("\t", n)
}

// expr returns a Go expression; several lines when the dice say so.
func (g *pgen) expr(d int) string {
	if d > 2 {
		return g.pick(g.ident(), g.str(), "42", g.ident()+"."+g.ident())
	}
	switch g.r.Intn(11) {
	case 0:
		return g.ident()
	case 1:
		return g.str()
	case 2:
		return g.ident() + "." + g.ident()
	case 3, 4: // call
		f := g.pick(g.ident(), "fmt.Sprint", "strs.ToUpper", g.ident()+"."+g.ident())
		n := g.r.Intn(3)
		var args []string
		for i := 0; i <= n; i++ {
			args = append(args, g.expr(d+1))
		}
		if g.multi() {
			return f + "(\n" + g.ind(3) + strings.Join(args, ",\n"+g.ind(3)) + ",\n" + g.ind(2) + ")"
		}
		return f + "(" + strings.Join(args, ", ") + ")"
	case 5: // binary
		if g.multi() {
			return g.expr(d+1) + " +\n" + g.ind(3) + g.expr(d+1)
		}
		return g.expr(d+1) + " + " + g.expr(d+1)
	case 6: // composite literal
		t := g.pick(g.ident(), "map[string]any", "[]string")
		var el []string
		for i := g.r.Intn(3); i >= 0; i-- {
			switch t {
			case "[]string":
				el = append(el, g.str())
			case "map[string]any":
				el = append(el, g.str()+": "+g.expr(d+1))
			default:
				el = append(el, g.asciiIdent()+": "+g.expr(d+1))
			}
		}
		if g.multi() {
			return t + "{\n" + g.ind(3) + strings.Join(el, ",\n"+g.ind(3)) + ",\n" + g.ind(2) + "}"
		}
		return t + "{" + strings.Join(el, ", ") + "}"
	case 7: // function literal
		return "func() string {\n" + g.ind(3) + "return " + g.expr(d+1) + "\n" + g.ind(2) + "}()"
	case 8:
		return g.ident() + "[" + g.pick("0", g.ident(), g.str()) + "]"
	case 9:
		return "fmt.Sprintf(" + g.str() + ", " + g.expr(d+1) + ")"
	default:
		return g.ident() + g.pick(" /* "+g.words()+" */", "") + "." + g.ident() + "()"
	}
}

func (g *pgen) cond() string {
	switch g.r.Intn(6) {
	case 0:
		return g.ident()
	case 1:
		return "!" + g.ident() + "." + g.ident()
	case 2:
		if g.multi() {
			return g.expr(1) + " == " + g.expr(1) + " &&\n" + g.ind(3) + g.ident()
		}
		return g.expr(1) + " == " + g.expr(1)
	case 3:
		return g.ident() + " := " + g.expr(1) + "; " + g.ident() + " != nil"
	case 4:
		return "len(" + g.expr(1) + ") > " + g.pick("0", "1")
	default:
		return g.ident() + "(" + g.expr(1) + ")"
	}
}

func (g *pgen) params() string {
	n := g.r.Intn(4)
	var ps []string
	for i := 0; i < n; i++ {
		ps = append(ps, g.ident()+" "+g.pick("string", "int", "[]string", g.ident(), "*"+g.ident(), "map[string]"+g.ident(), "func("+g.ident()+" string) bool"))
	}
	if n > 0 && g.multi() {
		return "(\n\t" + strings.Join(ps, ",\n\t") + ",\n)"
	}
	return "(" + strings.Join(ps, ", ") + ")"
}

func (g *pgen) template() string {
	var sb strings.Builder
	sb.WriteString("templ ")
	if g.r.Intn(5) == 0 {
		sb.WriteString("(" + g.ident() + " " + g.pick("", "*") + g.ident() + ") ")
	}
	sb.WriteString(g.ident() + g.params() + " {\n")
	if g.r.Intn(8) == 0 {
		sb.WriteString(g.ind(1) + "<!DOCTYPE html>\n")
	}
	g.depth = 0
	for i := 2 + g.r.Intn(4); i > 0; i-- {
		sb.WriteString(g.node(1))
	}
	sb.WriteString("}")
	return sb.String()
}

// node emits one template node (with trailing newline) at indent level n.
func (g *pgen) node(n int) string {
	in := g.ind(n)
	g.depth++
	defer func() { g.depth-- }()
	k := g.r.Intn(17)
	if g.depth > 4 && k >= 3 && k <= 9 {
		k = 0
	}
	switch k {
	case 0: // string expression, possibly after multi-byte text on the same line
		return in + g.pick("", g.words()+" ", g.pick(wideText...)+" ", g.pick(wideText...)) + g.lb() + g.expr(0) + g.rb() + g.pick("", " "+g.words()) + "\n"
	case 1:
		return in + g.words() + "\n"
	case 2: // element on one line with an expression inside
		el := g.pick("span", "b", "a", "p", "li", "td", "button")
		return in + "<" + el + g.attrs(n, el, false) + ">" + g.pick("", g.words(), g.pick(wideText...)) + g.lb() + g.expr(0) + g.rb() + "</" + el + ">" + g.pick("", " ") + "\n"
	case 3: // block element
		el := g.pick("div", "section", "ul", "form", "a", "table", "main")
		s := in + "<" + el + g.attrs(n, el, g.multi()) + ">\n"
		for i := 1 + g.r.Intn(3); i > 0; i-- {
			s += g.node(n + 1)
		}
		return s + in + "</" + el + ">\n"
	case 4: // if / else if / else
		s := in + "if " + g.cond() + " {\n" + g.node(n+1)
		for i := g.r.Intn(3); i > 0; i-- {
			s += in + "} else if " + g.cond() + " {\n" + g.node(n+1)
		}
		if g.r.Intn(2) == 0 {
			s += in + "} else {\n" + g.node(n+1)
		}
		return s + in + "}\n"
	case 5: // for
		var cl string
		switch g.r.Intn(4) {
		case 0:
			cl = "_, " + g.ident() + " := range " + g.expr(1)
		case 1:
			cl = g.ident() + ", " + g.ident() + " := range " + g.expr(1)
		case 2:
			cl = g.ident() + " := range " + g.pick("10", g.ident())
		default:
			cl = "i := 0; i < len(" + g.expr(1) + "); i++"
		}
		return in + "for " + cl + " {\n" + g.node(n+1) + in + "}\n"
	case 6: // switch
		s := in + "switch " + g.pick(g.expr(1), g.ident()+" := "+g.expr(1)+"; "+g.ident(), g.ident()+".("+"type)") + " {\n"
		for i := 1 + g.r.Intn(3); i > 0; i-- {
			c := "case " + g.expr(2)
			if g.r.Intn(3) == 0 {
				if g.multi() {
					c += ",\n" + g.ind(n+2) + g.expr(2)
				} else {
					c += ", " + g.expr(2)
				}
			}
			s += g.ind(n+1) + c + ":\n" + g.node(n+2)
		}
		if g.r.Intn(2) == 0 {
			s += g.ind(n+1) + "default:\n" + g.node(n+2)
		}
		return s + in + "}\n"
	case 7: // component call
		return in + "@" + g.call() + "\n"
	case 8: // component call with children
		cl := g.call()
		for !strings.HasSuffix(cl, ")") { // "@T{…} {" and "@a[0] {" do not take a block
			cl = g.call()
		}
		return in + "@" + cl + " {\n" + g.node(n+1) + in + "}\n"
	case 9: // void / self-closing elements
		return in + g.pick("<br/>", "<hr/>", "<input"+g.attrs(n, "input", false)+"/>", "<img"+g.attrs(n, "img", g.multi())+"/>") + "\n"
	case 10:
		return in + "{ children... }\n"
	case 11: // raw Go
		if g.multi() {
			return in + "{{\n" + in + "\t" + g.ident() + " := " + g.expr(1) + "\n" + in + "\t" + g.ident() + ", " + g.ident() + " := " + g.expr(1) + ", " + g.expr(2) + "\n" + in + "}}\n"
		}
		return in + "{{ " + g.ident() + " := " + g.expr(1) + " }}\n"
	case 12: // script element with Go values
		// every attribute kind also goes on <script> (own generator path)
		sa := g.pick("", " type=\"text/javascript\"")
		if g.r.Intn(2) == 0 {
			sa = g.attrs(n, "script", g.multi())
		}
		s := in + "<script" + sa + ">\n"
		s += in + "\tconst " + g.asciiIdent() + " = {{ " + g.expr(1) + " }};\n"
		if g.r.Intn(2) == 0 {
			s += in + "\tconsole.log(\"" + g.words() + " {{ " + g.expr(1) + " }}\", `" + g.pick(wideText...) + "{{ " + g.expr(1) + " }}`);\n"
		}
		return s + in + "</script>\n"
	case 13:
		// … and on <style> (raw element path)
		sa := g.pick("", " type=\"text/css\"")
		if g.r.Intn(3) != 0 {
			sa = g.attrs(n, "style", g.multi())
		}
		return in + "<style" + sa + ">\n" + in + "\tp { color: red; }\n" + in + "</style>\n"
	case 14:
		return in + g.pick("<!-- "+g.words()+" -->", "// "+g.words(), "/* "+g.words()+" */") + "\n"
	case 15: // legacy call syntax
		return in + "{! " + g.call() + " }\n"
	default: // inline element followed by text and expression on one line
		return in + "<b>" + g.words() + "</b> " + g.pick(wideText...) + " { " + g.expr(0) + " } <i>{ " + g.expr(1) + " }</i>\n"
	}
}

func (g *pgen) call() string {
	switch g.r.Intn(10) {
	case 4: // function literal as the component expression
		if g.multi() {
			return "func(" + g.ident() + " string) templ.Component {\n" + g.ind(3) + "return " + g.ident() + "(" + g.expr(2) + ")\n" + g.ind(2) + "}(" + g.expr(2) + ")"
		}
		return "func() templ.Component { return " + g.ident() + " }()"
	case 5: // index expressions
		return g.pick(g.ident()+"[0]", g.ident()+"["+g.str()+"]", g.ident()+"["+g.ident()+"]."+g.ident()+"()", g.ident()+"["+g.str()+"]("+g.expr(2)+")")
	case 6: // package / selector chains
		return g.ident() + "." + g.ident() + "." + g.ident() + "(" + g.expr(2) + ")." + g.ident() + "()"
	case 7: // bare composite literal, parenthesised callee, generic instantiation
		return g.pick(g.ident()+"{"+g.asciiIdent()+": "+g.expr(2)+"}", "("+g.ident()+")("+g.expr(2)+")", g.ident()+"[int]("+g.expr(2)+")")
	case 8: // function literal among the arguments
		return g.ident() + "(func() string { return " + g.str() + " }(), '}', " + g.expr(2) + ")"
	case 9:
		return g.ident() + "(" + g.ident() + "...)"
	case 0:
		return g.ident() + "(" + g.expr(1) + ")"
	case 1:
		return g.ident() + "." + g.ident() + "()"
	case 2:
		return g.ident() + "{" + g.asciiIdent() + ": " + g.expr(1) + "}." + g.ident() + "(" + g.expr(2) + ")"
	default:
		if g.multi() {
			return g.ident() + "(\n" + g.ind(3) + g.expr(1) + ",\n" + g.ind(3) + g.expr(1) + ",\n" + g.ind(2) + ")"
		}
		return g.ident() + "(" + g.expr(1) + ", " + g.expr(1) + ")"
	}
}

// attrs emits an attribute list; el decides the URL/script routing.
func (g *pgen) attrs(n int, el string, multiline bool) string {
	cnt := g.r.Intn(4)
	if cnt == 0 {
		return ""
	}
	sep := " "
	if multiline {
		sep = "\n" + g.ind(n+1)
	}
	var sb strings.Builder
	for i := 0; i < cnt; i++ {
		sb.WriteString(sep + g.attr(n, el, 0))
	}
	if multiline {
		sb.WriteString("\n" + g.ind(n))
	}
	return sb.String()
}

func (g *pgen) attr(n int, el string, d int) string {
	k := g.r.Intn(13)
	if d > 0 && k == 11 {
		k = 0
	}
	switch k {
	case 0:
		return g.pick("title", "data-x", "id", "alt") + "=\"" + g.words() + "\""
	case 1:
		return g.pick("disabled", "hidden", "checked")
	case 2:
		return g.pick("data-v", "title", "id", "value", "hx-get") + "=" + g.lb() + g.expr(0) + g.rb()
	case 3:
		return "class=" + g.lb() + g.pick(g.expr(1), g.str()+", "+g.ident(), "templ.KV("+g.str()+", "+g.ident()+")", g.ident()+"()") + g.rb()
	case 4:
		return "style=" + g.lb() + g.expr(1) + g.rb()
	case 5:
		if el == "form" {
			return "action={ templ.URL(" + g.expr(1) + ") }"
		}
		return "href={ templ.URL(" + g.expr(1) + ") }"
	case 6:
		return g.pick("onclick", "onchange", "hx-on:click") + "=" + g.lb() + g.ident() + "(" + g.expr(1) + ") }"
	case 7:
		return g.pick("disabled", "checked", "selected") + "?=" + g.lb() + g.cond1() + g.rb()
	case 8:
		return g.lb() + g.pick(g.ident(), g.ident()+"."+g.ident(), g.ident()+"("+g.expr(2)+")") + "..." + g.rb()
	case 9:
		return g.pick("title", "data-y") + "='" + g.words() + "'"
	case 10:
		return "data-" + g.asciiIdent() + "=" + g.pick("1", "abc")
	case 11:
		s := "if " + g.cond() + " {\n" + g.ind(n+2) + g.attr(n+1, el, d+1) + "\n" + g.ind(n+1) + "}"
		if g.r.Intn(2) == 0 {
			s += " else {\n" + g.ind(n+2) + g.attr(n+1, el, d+1) + "\n" + g.ind(n+1) + "}"
		}
		return s
	default:
		return g.pick("title", "data-z") + "=" + g.lb() + g.pick(wideLetters...) + g.ident() + g.rb()
	}
}

// cond1 is a boolean expression without an init statement.
func (g *pgen) cond1() string {
	return g.pick(g.ident(), "!"+g.ident(), g.expr(1)+" == "+g.expr(1), g.ident()+"("+g.expr(1)+")")
}

func (g *pgen) css() string {
	var sb strings.Builder
	sb.WriteString("css " + g.ident() + g.pick("()", "("+g.ident()+" string)", g.params()) + " {\n")
	for i := 1 + g.r.Intn(4); i > 0; i-- {
		if g.r.Intn(2) == 0 {
			sb.WriteString(g.ind(1) + g.pick("color", "background-color", "font-family") + ": " + g.pick("red", "#fff", "\"Ärial\"") + ";\n")
		} else {
			sb.WriteString(g.ind(1) + g.pick("color", "margin", "background-image") + ": { " + g.expr(1) + " };\n")
		}
	}
	sb.WriteString("}")
	return sb.String()
}

func (g *pgen) script() string {
	// script names are letters and digits only (parser rule); parameters are Go.
	name := g.pick("sc", "onLoad", "fn") + g.pick("", "1", "é", "ж")
	var ps []string
	for i := g.r.Intn(3); i > 0; i-- {
		ps = append(ps, g.ident()+" "+g.pick("string", "int", "[]string"))
	}
	if len(ps) > 0 && g.multi() {
		return "script " + name + "(\n\t" + strings.Join(ps, ",\n\t") + ") {\n\tconsole.log(\"" + g.words() + "\");\n}"
	}
	return "script " + name + "(" + strings.Join(ps, ", ") + ") {\n\tconsole.log(\"" + g.words() + "\");\n}"
}

func (g *pgen) goBlock() string {
	switch g.r.Intn(6) {
	case 0:
		return "var " + g.ident() + " = " + g.expr(0)
	case 1:
		return "type " + g.ident() + " struct {\n\t" + g.ident() + " string\n\t" + g.ident() + " []" + g.ident() + " // " + g.words() + "\n}"
	case 2:
		return "func " + g.ident() + g.params() + " string {\n\t// " + g.words() + "\n\treturn " + g.expr(0) + "\n}"
	case 3:
		return "const " + g.ident() + " = " + g.str() + "\n\n// " + g.words()
	case 4:
		return "// " + g.words() + "\nfunc (" + g.ident() + " " + g.ident() + ") " + g.ident() + "() bool { return " + g.cond1() + " }"
	default:
		return fmt.Sprintf("var (\n\t%s = %s\n\t%s = %d\n)", g.ident(), g.str(), g.ident(), g.r.Intn(100))
	}
}
