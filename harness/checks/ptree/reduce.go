package ptree

import (
	"strings"
	"unicode"
	"unicode/utf8"
)

// Reduce shrinks a failing input deterministically: delta debugging over
// lines, then over tokens, then canonical renaming of identifiers, strings
// and numbers, repeated to a fixed point. test must return true when the
// candidate still shows the failure of interest (it has to be cheap and
// must not panic). The result is the canonical witness text; many random
// inputs hitting one root cause converge to few such texts.
func Reduce(src string, test func(string) bool) string { return ReduceN(src, test, 4000) }

// ReduceN is Reduce with an explicit budget of oracle runs (best effort: when
// the budget is used up the smallest failing text found so far is returned).
func ReduceN(src string, test func(string) bool, budget int) string {
	if !test(src) {
		return src
	}
	t := func(s string) bool {
		if budget <= 0 {
			return false
		}
		budget--
		return test(s)
	}
	cur := src
	for round := 0; round < 4; round++ {
		before := cur
		cur = strings.Join(ddmin(strings.SplitAfter(cur, "\n"), t), "")
		cur = strings.Join(windows(ddmin(Tokens(cur), t), t), "")
		cur = canonTokens(cur, t)
		if cur == before {
			break
		}
	}
	return cur
}

// ddmin removes chunks of decreasing size while the test keeps failing.
func ddmin(parts []string, test func(string) bool) []string {
	n := 2
	for len(parts) >= 2 {
		size := (len(parts) + n - 1) / n
		removed := false
		for i := 0; i < len(parts); i += size {
			j := i + size
			if j > len(parts) {
				j = len(parts)
			}
			cand := append(append([]string{}, parts[:i]...), parts[j:]...)
			if test(strings.Join(cand, "")) {
				parts = cand
				if n > 2 {
					n--
				}
				removed = true
				break
			}
		}
		if !removed {
			if size == 1 {
				break
			}
			n *= 2
			if n > len(parts) {
				n = len(parts)
			}
		}
	}
	return parts
}

// windows tries to drop every run of 8..2 neighbouring tokens (balanced
// groups like "{...}" or "<b></b>" that ddmin's aligned chunks miss).
func windows(parts []string, test func(string) bool) []string {
	for w := 8; w >= 2; w-- {
		for i := 0; i+w <= len(parts); {
			cand := append(append([]string{}, parts[:i]...), parts[i+w:]...)
			spaced := append(append(append([]string{}, parts[:i]...), " "), parts[i+w:]...)
			if test(strings.Join(cand, "")) {
				parts = cand
			} else if test(strings.Join(spaced, "")) {
				parts = spaced
			} else {
				i++
			}
		}
	}
	return parts
}

func isWord(r rune) bool { return r == '_' || unicode.IsLetter(r) || unicode.IsDigit(r) }

// Tokens splits text into words (letters/digits), quoted strings, runs of
// blanks, newlines and single other runes; concatenation restores the text.
func Tokens(s string) []string {
	var out []string
	for i := 0; i < len(s); {
		r, n := utf8.DecodeRuneInString(s[i:])
		j := i + n
		switch {
		case isWord(r):
			for j < len(s) {
				r2, n2 := utf8.DecodeRuneInString(s[j:])
				if !isWord(r2) {
					break
				}
				j += n2
			}
		case r == ' ' || r == '\t':
			for j < len(s) && (s[j] == ' ' || s[j] == '\t') {
				j++
			}
		case r == '"':
			k := j
			for k < len(s) && s[k] != '"' && s[k] != '\n' {
				if s[k] == '\\' {
					k++
				}
				k++
			}
			if k < len(s) && s[k] == '"' {
				j = k + 1
			}
		}
		out = append(out, s[i:j])
		i = j
	}
	return out
}

// keepWords are never renamed (language keywords and the canonical names
// themselves); every other word is renamed when the failure survives it.
var keepWords = map[string]bool{"package": true, "templ": true, "css": true, "script": true, "if": true, "else": true, "for": true,
	"switch": true, "case": true, "default": true, "range": true, "func": true, "return": true, "var": true, "const": true, "type": true,
	"import": true, "struct": true, "children": true, "div": true, "x": true}

// canonTokens renames every identifier to "x", every string to "x" and every
// number to 1 where the failure survives, so that the witness does not depend
// on the random names the generator happened to draw.
func canonTokens(s string, test func(string) bool) string {
	toks := Tokens(s)
	done := map[string]bool{}
	for i := range toks {
		tk := toks[i]
		if done[tk] {
			continue
		}
		done[tk] = true
		r, _ := utf8.DecodeRuneInString(tk)
		var repl string
		switch {
		case (tk[0] == ' ' || tk[0] == '\t') && tk != " ":
			repl = " "
		case tk[0] == '"' && len(tk) >= 2 && tk != `"x"`:
			repl = `"x"`
		case unicode.IsDigit(r) && tk != "1":
			repl = "1"
		case isWord(r) && !unicode.IsDigit(r) && !keepWords[tk]:
			repl = "x"
			if i > 0 && toks[i-1] == "<" {
				repl = "div" // element names (open and close tags are renamed together)
			}
		default:
			continue
		}
		// rename all occurrences at once so that pairs stay consistent
		cand := append([]string{}, toks...)
		for j := range cand {
			if cand[j] == tk {
				cand[j] = repl
			}
		}
		if test(strings.Join(cand, "")) {
			toks = cand
		} else if repl == "div" {
			// a void element (<img …>) has no close tag: rename and close it
			for j := i; j < len(cand); j++ {
				if cand[j] == ">" {
					if j > 0 && cand[j-1] == "/" {
						break
					}
					c2 := append(append(append([]string{}, cand[:j+1]...), "</div>"), cand[j+1:]...)
					if test(strings.Join(c2, "")) {
						toks = Tokens(strings.Join(c2, ""))
					}
					break
				}
			}
		}
	}
	return strings.Join(toks, "")
}
