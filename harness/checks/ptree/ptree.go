// Package ptree holds what the C06 and C07 checks share: the harness's own
// newline table, a reflective walker over parser.TemplateFile, the "accepted by
// templ generate" pipeline (parse + generate + gofmt), the input corpus
// loader, mutators, a small seeded template generator and a delta reducer.
package ptree

import (
	"bytes"
	"fmt"
	"go/format"
	"reflect"
	"sort"
	"strings"

	"github.com/a-h/templ/generator"
	"github.com/a-h/templ/parser/v2"
)

// Lines is the harness's own position table: lines are separated by '\n'
// (a '\r' belongs to the line it sits on), columns are byte offsets from the
// line start. It is computed from the text only, never from the parser.
type Lines struct {
	N      int
	Starts []int // byte index of the first byte of each line
}

func NewLines(s string) *Lines {
	l := &Lines{N: len(s), Starts: []int{0}}
	for i := 0; i < len(s); i++ {
		if s[i] == '\n' {
			l.Starts = append(l.Starts, i+1)
		}
	}
	return l
}

// Pos converts a byte index (0..N) to (line, byte column).
func (l *Lines) Pos(idx int) (line, col int) {
	line = sort.Search(len(l.Starts), func(i int) bool { return l.Starts[i] > idx }) - 1
	return line, idx - l.Starts[line]
}

// Index converts (line, col) to a byte index; ok is false when the line does
// not exist or col lies beyond the line's newline (or beyond the end of text).
func (l *Lines) Index(line, col int) (int, bool) {
	if line < 0 || line >= len(l.Starts) || col < 0 {
		return 0, false
	}
	end := l.N
	if line+1 < len(l.Starts) {
		end = l.Starts[line+1] - 1 // position of the '\n'
	}
	idx := l.Starts[line] + col
	if idx > end {
		return 0, false
	}
	return idx, true
}

// Expr is one parser.Expression found in the tree.
type Expr struct {
	Slot string // syntactic slot, e.g. "IfExpression.Expression", "ExpressionAttribute[class].Expression"
	E    parser.Expression
}

// Named is one struct carrying Name + NameRange (elements, attributes).
type Named struct {
	Slot string
	Name string
	R    parser.Range
}

// Rng is any other parser.Range in the tree.
type Rng struct {
	Slot string
	R    parser.Range
}

type Items struct {
	Exprs  []Expr
	Named  []Named
	Ranges []Rng
}

var (
	tExpression = reflect.TypeOf(parser.Expression{})
	tRange      = reflect.TypeOf(parser.Range{})
)

// AttrClass groups attribute names the way the generator routes them.
func AttrClass(name string) string {
	switch {
	case name == "class", name == "style", name == "href", name == "action":
		return name
	case strings.HasPrefix(name, "on"), strings.HasPrefix(name, "hx-on:"):
		return "on*"
	}
	return "other"
}

func attrOwner(ctx string) string {
	if ctx == "@script" || ctx == "@raw" {
		return ctx
	}
	return ""
}

// Walk visits every value reachable from the template file by reflection, so
// a node type added to the parser later is covered without touching this code.
func Walk(tf parser.TemplateFile) Items {
	var it Items
	// ctx is "script" below a <script> element's contents and "css" below a css
	// property, so that those slots are told apart from template-body ones.
	var visit func(v reflect.Value, owner string, ctx string)
	visit = func(v reflect.Value, owner string, ctx string) {
		switch v.Kind() {
		case reflect.Interface, reflect.Pointer:
			if !v.IsNil() {
				visit(v.Elem(), owner, ctx)
			}
		case reflect.Slice, reflect.Array:
			for i := 0; i < v.Len(); i++ {
				visit(v.Index(i), owner, ctx)
			}
		case reflect.Struct:
			t := v.Type()
			name := t.Name()
			switch x := v.Interface().(type) {
			case parser.TemplateFileGoExpression:
				if x.BeforePackage {
					name = "HeaderGo"
				}
			case parser.ExpressionAttribute:
				name += "[" + AttrClass(x.Name) + "]" + attrOwner(ctx)
			case parser.BoolExpressionAttribute, parser.SpreadAttributes, parser.ConditionalAttribute, parser.ConstantAttribute, parser.BoolConstantAttribute:
				name += attrOwner(ctx)
			case parser.TemplElementExpression:
				if len(x.Children) > 0 {
					name += "[block]"
				}
			case parser.GoCode:
				if ctx == "script" {
					name = "ScriptGoCode"
				}
			case parser.StringExpression:
				if ctx == "css" {
					name = "CSSValue"
				}
			case parser.ScriptContents:
				ctx = "script"
			case parser.ExpressionCSSProperty:
				ctx = "css"
			}
			if nf, ok := t.FieldByName("NameRange"); ok && nf.Type == tRange {
				if f, ok := t.FieldByName("Name"); ok && f.Type.Kind() == reflect.String {
					it.Named = append(it.Named, Named{Slot: name, Name: v.FieldByName("Name").String(), R: v.FieldByName("NameRange").Interface().(parser.Range)})
				}
			}
			for i := 0; i < t.NumField(); i++ {
				f := t.Field(i)
				if !f.IsExported() {
					continue
				}
				fv := v.Field(i)
				switch f.Type {
				case tExpression:
					it.Exprs = append(it.Exprs, Expr{Slot: name + "." + f.Name, E: fv.Interface().(parser.Expression)})
				case tRange:
					if f.Name != "NameRange" {
						it.Ranges = append(it.Ranges, Rng{Slot: name + "." + f.Name, R: fv.Interface().(parser.Range)})
					}
				default:
					fctx := ctx
					if f.Name == "Attributes" {
						// attributes of <script> / raw (<style>) elements are generated by
						// other code paths than those of ordinary elements: own slots
						switch name {
						case "ScriptElement":
							fctx = "@script"
						case "RawElement":
							fctx = "@raw"
						}
					}
					visit(fv, name, fctx)
				}
			}
		}
	}
	visit(reflect.ValueOf(tf), "", "")
	return it
}

// Accepted is a template that `templ generate` accepts: it parses, generates
// and the generated text passes gofmt. Gen is the text the source map refers
// to (the generator's own output, before formatting), as used by the LSP.
type Accepted struct {
	Src string
	TF  parser.TemplateFile
	Gen string
	Out generator.GeneratorOutput
}

// Accept runs the generate pipeline. stage is "parse", "generate", "gofmt"
// (where it was rejected) or "ok". A panic anywhere is returned as stage
// "panic:<stage>".
func Accept(src string) (a *Accepted, stage string, err error) {
	stage = "parse"
	defer func() {
		if r := recover(); r != nil {
			a, stage, err = nil, "panic:"+stage, fmt.Errorf("panic: %v", r)
		}
	}()
	tf, err := parser.ParseString(src)
	if err != nil {
		return nil, stage, err
	}
	return AcceptParsed(src, tf)
}

// AcceptParsed is Accept for an already parsed tree.
func AcceptParsed(src string, tf parser.TemplateFile) (a *Accepted, stage string, err error) {
	stage = "generate"
	defer func() {
		if r := recover(); r != nil {
			a, stage, err = nil, "panic:"+stage, fmt.Errorf("panic: %v", r)
		}
	}()
	var b bytes.Buffer
	out, err := generator.Generate(tf, &b, generator.WithFileName("x.templ"))
	if err != nil {
		return nil, stage, err
	}
	stage = "gofmt"
	if _, err = format.Source(b.Bytes()); err != nil {
		return nil, stage, err
	}
	return &Accepted{Src: src, TF: tf, Gen: b.String(), Out: out}, "ok", nil
}

// Alarm is one oracle failure; Kind is the coarse class used for canonical
// witnesses, Msg the human detail.
type Alarm struct {
	Kind string
	Slot string
	Msg  string
}

func (a Alarm) String() string { return a.Kind + " " + a.Slot + ": " + a.Msg }

// Clip shortens s for messages.
func Clip(s string, n int) string {
	if len(s) <= n {
		return s
	}
	return s[:n] + "…"
}
