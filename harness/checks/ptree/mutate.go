package ptree

import (
	"math/rand"
	"strings"
)

// Dict is the token dictionary of templ punctuation and keywords used by the
// structure-aware mutators and the token soups.
var Dict = []string{
	"{", "}", "{{", "}}", "(", ")", "[", "]", "<", ">", "</", "/>", "\"", "'", "`", "=", "?=", "={", "...", "@", "{!", "!}",
	"if ", "else ", "} else {", "else if ", "for ", "switch ", "case ", "default:", "templ ", "css ", "script ", "package ", "import ",
	"<!--", "-->", "<script>", "</script>", "<style>", "</style>", "<!DOCTYPE html>", "<div>", "</div>", "<br>", "<input",
	"\n", "\r\n", "\t", " ", "//", "/*", "*/", "{ children... }", ":", ";", ",", ".", "\\", "%", "&amp;", "é", "世", "🙂", "\x00", "\xff",
	"func", "range", "x", "y()", "\"s\"", "1", ":=", "==", "&&",
}

var wideInsert = []string{"é", "世界", "ü ", "🙂", "ß→", "日本語 "}

// Truncations returns every proper prefix of s, taken at stride 1 for texts
// up to 1.5 KB and stride 7 above (DESIGN C06).
func Truncations(s string) []string {
	stride := 1
	if len(s) > 1536 {
		stride = 7
	}
	var out []string
	for i := 0; i < len(s); i += stride {
		out = append(out, s[:i])
	}
	return out
}

// CRLF converts every LF that is not already preceded by CR.
func CRLF(s string) string {
	return strings.ReplaceAll(strings.ReplaceAll(s, "\r\n", "\n"), "\n", "\r\n")
}

// WideBefore inserts multi-byte text directly in front of one expression
// opener ("{", "@", "={" …) chosen at random, or at the start of its line.
func WideBefore(r *rand.Rand, s string) string {
	var at []int
	for i := 0; i < len(s); i++ {
		if s[i] == '{' || s[i] == '@' {
			at = append(at, i)
		}
	}
	if len(at) == 0 {
		return s
	}
	i := at[r.Intn(len(at))]
	w := wideInsert[r.Intn(len(wideInsert))]
	switch r.Intn(4) {
	case 0: // after the indentation of that line
		j := strings.LastIndexByte(s[:i], '\n') + 1
		for j < i && (s[j] == ' ' || s[j] == '\t') {
			j++
		}
		return s[:j] + w + " " + s[j:]
	case 1: // inside the expression, as a string operand position
		return s[:i+1] + " \"" + w + "\" + " + s[i+1:]
	default:
		return s[:i] + w + s[i:]
	}
}

// Mutate applies one to three structure-aware mutations.
func Mutate(r *rand.Rand, s string) string {
	for n := 1 + r.Intn(3); n > 0; n-- {
		s = mutate1(r, s)
	}
	return s
}

func mutate1(r *rand.Rand, s string) string {
	toks := Tokens(s)
	if len(toks) == 0 {
		return Dict[r.Intn(len(Dict))]
	}
	join := func(t []string) string { return strings.Join(t, "") }
	splice := func(i, j int, ins ...string) string {
		out := append(append(append([]string{}, toks[:i]...), ins...), toks[j:]...)
		return join(out)
	}
	// pick a token index, preferring punctuation (where the parsers branch)
	pickTok := func() int {
		i := r.Intn(len(toks))
		for tries := 0; tries < 3 && isWordTok(toks[i]); tries++ {
			i = r.Intn(len(toks))
		}
		return i
	}
	d := Dict[r.Intn(len(Dict))]
	switch r.Intn(12) {
	case 0, 1: // insert a dictionary token at a token boundary
		i := r.Intn(len(toks) + 1)
		return splice(i, i, d)
	case 2: // delete a token
		i := pickTok()
		return splice(i, i+1)
	case 3: // duplicate a run of tokens
		i := pickTok()
		j := i + 1 + r.Intn(3)
		if j > len(toks) {
			j = len(toks)
		}
		return splice(j, j, toks[i:j]...)
	case 4: // replace a token
		i := pickTok()
		return splice(i, i+1, d)
	case 5: // unbalance: drop one brace / quote / angle bracket / paren
		var at []int
		for i, t := range toks {
			if len(t) == 1 && strings.ContainsAny(t, "{}()<>\"'`/[]") || len(t) > 1 && t[0] == '"' {
				at = append(at, i)
			}
		}
		if len(at) == 0 {
			return s + d
		}
		i := at[r.Intn(len(at))]
		if len(toks[i]) > 1 { // a whole string literal: drop its closing quote
			return splice(i, i+1, toks[i][:len(toks[i])-1])
		}
		return splice(i, i+1)
	case 6: // swap neighbours
		if len(toks) < 2 {
			return s + d
		}
		i := r.Intn(len(toks) - 1)
		return splice(i, i+2, toks[i+1], toks[i])
	case 7:
		return WideBefore(r, s)
	case 8: // CRLF on a random subset of lines
		var sb strings.Builder
		for i := 0; i < len(s); i++ {
			if s[i] == '\n' && (i == 0 || s[i-1] != '\r') && r.Intn(2) == 0 {
				sb.WriteByte('\r')
			}
			sb.WriteByte(s[i])
		}
		return sb.String()
	case 9: // delete or duplicate a line
		lines := strings.SplitAfter(s, "\n")
		i := r.Intn(len(lines))
		if r.Intn(2) == 0 {
			return strings.Join(append(append([]string{}, lines[:i]...), lines[i+1:]...), "")
		}
		return strings.Join(append(append(append([]string{}, lines[:i+1]...), lines[i]), lines[i+1:]...), "")
	case 10: // cut at a boundary and close with a token
		i := r.Intn(len(toks) + 1)
		return join(toks[:i]) + d
	default: // insert inside a token (splits identifiers, strings, comments)
		i := r.Intn(len(s) + 1)
		return s[:i] + d + s[i:]
	}
}

func isWordTok(t string) bool {
	for _, r := range t {
		return isWord(r) || r == ' ' || r == '\t'
	}
	return false
}

// RandomBytes returns up to 96 random bytes, sometimes behind a valid file
// prefix so that the node parsers (not only the package parser) see them.
func RandomBytes(r *rand.Rand) string {
	b := make([]byte, r.Intn(97))
	for i := range b {
		switch r.Intn(4) {
		case 0:
			b[i] = byte(r.Intn(256))
		case 1:
			b[i] = " \t\n\r{}<>\"'=/@()"[r.Intn(15)]
		default:
			b[i] = byte(32 + r.Intn(95))
		}
	}
	return soupPrefix(r) + string(b)
}

// TokenSoup returns a random sequence of dictionary tokens and small words.
func TokenSoup(r *rand.Rand) string {
	var sb strings.Builder
	sb.WriteString(soupPrefix(r))
	for n := 1 + r.Intn(40); n > 0; n-- {
		if r.Intn(5) == 0 {
			sb.WriteString([]string{"a", "div", "x.y", "f(x)", "href", "class", "onclick", "b ", "42"}[r.Intn(9)])
		} else {
			sb.WriteString(Dict[r.Intn(len(Dict))])
		}
	}
	return sb.String()
}

func soupPrefix(r *rand.Rand) string {
	switch r.Intn(6) {
	case 0:
		return ""
	case 1:
		return "package p\n"
	case 2:
		return "package p\n\ncss c() {\n"
	case 3:
		return "package p\n\nscript s(a string) {\n"
	case 4:
		return "package p\n\ntempl t() {\n<div "
	default:
		return "package p\n\ntempl t() {\n"
	}
}
