package ptree

import (
	"go/ast"
	"go/parser"
	"go/token"
	"io/fs"
	"os"
	"path/filepath"
	"sort"
	"strconv"
	"strings"
)

// Seed is one corpus input. Whole inputs are complete templ files (repository
// .templ files, txtar sections of the parser's format/script test data,
// table-test literals that carry a package clause); fragments are the
// remaining table-test literals (an element, an expression, …).
type Seed struct {
	Name  string
	Text  string
	Whole bool
}

// Wrap turns a fragment into a whole file the way the parser's table tests
// imply (node parsers run inside a template body).
func Wrap(frag string) string {
	return "package main\n\ntempl t() {\n" + frag + "\n}\n"
}

// LoadCorpus collects, at run time, every .templ file under repo, every
// section of every txtar-like .txt file under repo/parser and repo/cmd
// (formattestdata, scriptparser test data, fmt test data) and every string
// literal of repo/parser/v2/**/*_test.go (the table tests' inputs; expected
// values come along and do no harm). Order is deterministic.
func LoadCorpus(repo string) []Seed {
	var out []Seed
	seen := map[string]bool{}
	add := func(name, text string, whole bool) {
		if text == "" || seen[text] {
			return
		}
		seen[text] = true
		out = append(out, Seed{Name: name, Text: text, Whole: whole})
	}
	var templ, txt, tests []string
	_ = filepath.WalkDir(repo, func(p string, d fs.DirEntry, err error) error {
		if err != nil {
			return nil
		}
		if d.IsDir() {
			if n := d.Name(); n == ".git" || n == "node_modules" {
				return filepath.SkipDir
			}
			return nil
		}
		rel, _ := filepath.Rel(repo, p)
		switch {
		case strings.HasSuffix(p, ".templ"):
			templ = append(templ, rel)
		case strings.HasSuffix(p, ".txt") && (strings.HasPrefix(rel, "parser/") || strings.HasPrefix(rel, "cmd/")):
			txt = append(txt, rel)
		case strings.HasSuffix(p, "_test.go") && strings.HasPrefix(rel, "parser/v2/"):
			tests = append(tests, rel)
		}
		return nil
	})
	sort.Strings(templ)
	sort.Strings(txt)
	sort.Strings(tests)
	for _, rel := range templ {
		if b, err := os.ReadFile(filepath.Join(repo, rel)); err == nil {
			add(rel, string(b), true)
		}
	}
	for _, rel := range txt {
		b, err := os.ReadFile(filepath.Join(repo, rel))
		if err != nil {
			continue
		}
		for _, s := range txtarSections(string(b)) {
			add(rel+"#"+s[0], s[1], true)
		}
	}
	for _, rel := range tests {
		fset := token.NewFileSet()
		f, err := parser.ParseFile(fset, filepath.Join(repo, rel), nil, 0)
		if err != nil {
			continue
		}
		n := 0
		ast.Inspect(f, func(nd ast.Node) bool {
			if imp, ok := nd.(*ast.ImportSpec); ok && imp != nil {
				return false
			}
			lit, ok := nd.(*ast.BasicLit)
			if !ok || lit.Kind != token.STRING {
				return true
			}
			s, err := strconv.Unquote(lit.Value)
			if err != nil || len(s) < 2 {
				return true
			}
			n++
			whole := strings.HasPrefix(s, "package ") || strings.Contains(s, "\npackage ")
			add(rel+"#"+strconv.Itoa(n), s, whole)
			return true
		})
	}
	return out
}

// txtarSections splits "-- name --" delimited text (the format read by
// golang.org/x/tools/txtar in the parser's tests). Text without markers
// yields nothing.
func txtarSections(s string) [][2]string {
	var out [][2]string
	name, have := "", false
	var cur strings.Builder
	flush := func() {
		if have {
			out = append(out, [2]string{name, cur.String()})
		}
		cur.Reset()
	}
	for _, ln := range strings.SplitAfter(s, "\n") {
		t := strings.TrimRight(ln, "\r\n")
		if strings.HasPrefix(t, "-- ") && strings.HasSuffix(t, " --") && len(t) > 5 {
			flush()
			name, have = strings.TrimSpace(t[3:len(t)-3]), true
			continue
		}
		cur.WriteString(ln)
	}
	flush()
	return out
}
