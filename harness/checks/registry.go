// Package checks holds one file per property; each registers itself here.
package checks

import "verif/core"

// Registry maps property id to its check.
var Registry = map[string]func(*core.Ctx){}

// Children maps a child-process mode name to its entry point.
var Children = map[string]func(args []string) int{}
