package c11

import (
	"bufio"
	"bytes"
	"context"
	"encoding/base64"
	"encoding/json"
	"errors"
	"fmt"
	"net/http"
	"strings"
	"time"

	"verif/core"
	"verif/corpus"
)

// Real generated components: one .templ file compiled by the repository's own
// `templ generate`, hosted by templ.Handler inside a driver process. The
// driver only executes jobs and logs what a client saw (plus the fault-free
// direct rendering D of the same component); verdicts are computed here with
// the same judge() as the in-process cases.
//
// Upper-case letters occur in the template's static text too (DOCTYPE, PAGE,
// LAYOUT, TAIL), so a leaked static prefix counts as document bytes even when
// the failure happens before the first chunk.

const genTempl = `package main

templ Chunks(a *Args) {
	<!DOCTYPE html>
	<html>
		<head><title>PAGE</title></head>
		<body data-id={ a.Tag() }>
			for i := 0; i < a.N(); i++ {
				<p class="row">{ a.Chunk(i) }</p>
			}
			{ a.After(ctx) }
			@Tail(a)
		</body>
	</html>
}

templ Tail(a *Args) {
	<footer>
		{ a.Nested(ctx) }
		<span>TAIL</span>
	</footer>
}

templ Layout() {
	<div id="LAYOUT">
		{ children... }
	</div>
}

templ Wrapped(a *Args) {
	@Layout() {
		@Chunks(a)
	}
}
`

const genDriver = `package main

import (
	"bufio"
	"bytes"
	"context"
	"crypto/sha256"
	"encoding/base64"
	"encoding/hex"
	"encoding/json"
	"errors"
	"io"
	"log"
	"net/http"
	"net/http/httptest"
	"os"
	"strconv"
	"strings"

	"github.com/a-h/templ"
)

type Job struct {
	ID      int
	Status  int
	CT, EH  string
	Stream  bool
	Comp    string // gen-chunks | gen-wrapped
	Outcome string // ok | err | cancel | nested | panic
	Sizes   []int
	Via     string
}

var errFail = errors.New("verif: component failed")

type ctxKey int

const keyCancel ctxKey = 0

type Args struct{ j Job }

func upper(n int) string {
	b := []byte(strconv.Itoa(n))
	for i := range b {
		b[i] += 'A' - '0'
	}
	return string(b)
}

func (a *Args) N() int      { return len(a.j.Sizes) }
func (a *Args) Tag() string { return "#Y" + upper(a.j.ID) + "#" }
func (a *Args) Chunk(i int) string {
	m := "#Y" + upper(a.j.ID) + "Z" + upper(i) + "#"
	if s := a.j.Sizes[i]; s <= len(m) {
		return m[:s]
	} else {
		return m + strings.Repeat("X", s-len(m))
	}
}
func (a *Args) After(ctx context.Context) (string, error) {
	switch a.j.Outcome {
	case "err":
		return "", errFail
	case "cancel":
		if c, ok := ctx.Value(keyCancel).(context.CancelFunc); ok {
			c()
		}
		return "", ctx.Err()
	case "panic":
		var m map[string]int
		m["x"] = 1 // runtime error: assignment to entry in nil map
	}
	return "", nil
}
func (a *Args) Nested(ctx context.Context) (string, error) {
	if a.j.Outcome == "nested" {
		return "", errFail
	}
	return "", nil
}

type Obs struct {
	Status   int
	Header   http.Header
	Body     string // blob reference
	Err      string
	Panicked bool // recorder: a panic left ServeHTTP
	Touched  bool // recorder: WriteHeader or Write had been called
}

type trackWriter struct {
	http.ResponseWriter
	touched bool
}

func (t *trackWriter) WriteHeader(c int)           { t.touched = true; t.ResponseWriter.WriteHeader(c) }
func (t *trackWriter) Write(p []byte) (int, error) { t.touched = true; return t.ResponseWriter.Write(p) }
func (t *trackWriter) Flush() {
	if f, ok := t.ResponseWriter.(http.Flusher); ok {
		f.Flush()
	}
}

type Event struct {
	ID        int
	Got       Obs
	D         string // blob reference: direct fault-free rendering (ok outcome) of the same component
	DErr      string
	EHCalls   int
	EHIsCause bool // errors.Is(err handed to the error handler, the injected cause)
}

var (
	out   = bufio.NewWriterSize(os.Stdout, 1<<20)
	blobs = map[string]bool{}
)

func blob(b []byte) string {
	s := sha256.Sum256(b)
	k := hex.EncodeToString(s[:8])
	if !blobs[k] {
		blobs[k] = true
		j, _ := json.Marshal(map[string]string{"Blob": k, "Data": base64.StdEncoding.EncodeToString(b)})
		out.Write(j)
		out.WriteByte('\n')
	}
	return k
}

func component(j Job) templ.Component {
	a := &Args{j}
	if j.Comp == "gen-wrapped" {
		return Wrapped(a)
	}
	return Chunks(a)
}

func main() {
	srv := httptest.NewUnstartedServer(nil)
	var cur http.Handler
	srv.Config.Handler = http.HandlerFunc(func(w http.ResponseWriter, r *http.Request) { cur.ServeHTTP(w, r) })
	srv.Config.ErrorLog = log.New(io.Discard, "", 0)
	srv.Start()
	defer srv.Close()
	client := &http.Client{Transport: &http.Transport{DisableCompression: true}}
	in := bufio.NewScanner(os.Stdin)
	in.Buffer(make([]byte, 1<<20), 1<<26)
	for in.Scan() {
		var j Job
		if err := json.Unmarshal(in.Bytes(), &j); err != nil {
			log.Fatalf("bad job: %v", err)
		}
		ev := Event{ID: j.ID}
		cause := errFail
		if j.Outcome == "cancel" {
			cause = context.Canceled
		}
		var opts []func(*templ.ComponentHandler)
		if j.Status != 0 {
			opts = append(opts, templ.WithStatus(j.Status))
		}
		if j.CT != "" {
			opts = append(opts, templ.WithContentType(j.CT))
		}
		if j.EH != "" {
			opts = append(opts, templ.WithErrorHandler(func(r *http.Request, err error) http.Handler {
				ev.EHCalls++
				ev.EHIsCause = errors.Is(err, cause)
				return http.HandlerFunc(func(w http.ResponseWriter, _ *http.Request) {
					// must stay identical to errorHandler() in the harness with text "sentinel"
					switch j.EH {
					case "status+body":
						w.WriteHeader(http.StatusUnprocessableEntity)
						_, _ = io.WriteString(w, "eh: custom failure page: sentinel")
					case "body":
						_, _ = io.WriteString(w, "eh: body only: sentinel")
					case "nothing":
					case "own-ct":
						w.Header().Set("Content-Type", "application/problem+json")
						w.WriteHeader(http.StatusServiceUnavailable)
						_, _ = io.WriteString(w, "{\"error\":\"sentinel\"}")
					case "status-only":
						w.WriteHeader(http.StatusBadGateway)
					case "header+status+body":
						w.Header().Set("X-Verif-Err", "yes")
						w.Header().Set("Cache-Control", "no-store")
						w.WriteHeader(http.StatusInternalServerError)
						_, _ = io.WriteString(w, "eh: with headers: sentinel")
					}
				})
			}))
		}
		if j.Stream {
			opts = append(opts, templ.WithStreaming())
		}
		h := templ.Handler(component(j), opts...)
		wrapped := http.HandlerFunc(func(w http.ResponseWriter, r *http.Request) {
			ctx, cancel := context.WithCancel(r.Context())
			defer cancel()
			h.ServeHTTP(w, r.WithContext(context.WithValue(ctx, keyCancel, cancel)))
		})
		if j.Via == "server" {
			cur = wrapped
			res, err := client.Get(srv.URL + "/")
			if err != nil {
				ev.Got.Err = err.Error()
			} else {
				b, err := io.ReadAll(res.Body)
				res.Body.Close()
				if err != nil {
					ev.Got.Err = err.Error()
				}
				ev.Got.Status, ev.Got.Header, ev.Got.Body = res.StatusCode, res.Header, blob(b)
			}
		} else {
			rec := httptest.NewRecorder()
			tw := &trackWriter{ResponseWriter: rec}
			func() {
				defer func() {
					if p := recover(); p != nil {
						ev.Got.Panicked = true
					}
				}()
				wrapped.ServeHTTP(tw, httptest.NewRequest(http.MethodGet, "/", nil))
			}()
			res := rec.Result()
			ev.Got.Status, ev.Got.Header, ev.Got.Body, ev.Got.Touched = res.StatusCode, res.Header, blob(rec.Body.Bytes()), tw.touched
		}
		// fault-free direct rendering of the same component
		ok := j
		ok.Outcome = "ok"
		var d bytes.Buffer
		if err := component(ok).Render(context.Background(), &d); err != nil {
			ev.DErr = err.Error()
		}
		ev.D = blob(d.Bytes())
		b, _ := json.Marshal(ev)
		out.Write(b)
		out.WriteByte('\n')
	}
	out.Flush()
}
`

type genObs struct {
	Status   int
	Header   http.Header
	Body     string
	Err      string
	Panicked bool
	Touched  bool
}

type genEvent struct {
	Blob, Data string // blob line
	ID         int
	Got        genObs
	D          string
	DErr       string
	EHCalls    int
	EHIsCause  bool
}

// genSession is one built driver.
type genSession struct {
	pkg *corpus.Pkg
	bin string
}

func buildGen(c *core.Ctx) (*genSession, string) {
	p := corpus.New(c, "c11")
	p.Write("t.templ", genTempl)
	p.Write("main.go", genDriver)
	if out, err := p.Generate(); err != nil {
		p.Close()
		return nil, "templ generate failed: " + corpus.Tail(out, 400)
	}
	bin, out, err := p.Build(false, ".")
	if err != nil {
		p.Close()
		return nil, "driver build failed: " + corpus.Tail(out, 600)
	}
	return &genSession{p, bin}, ""
}

// run executes the jobs in one driver process (sequentially, so the handler's
// pooled buffers are reused across failing and succeeding renders) and judges
// every event.
func (g *genSession) run(cases []Case) (map[int]verdict, string) {
	var in bytes.Buffer
	enc := json.NewEncoder(&in)
	byID := map[int]Case{}
	for _, cs := range cases {
		_ = enc.Encode(cs)
		byID[cs.ID] = cs
	}
	res := corpus.Run(g.bin, nil, in.Bytes(), nil, g.pkg.Dir, 5*time.Minute)
	if res.TimedOut || res.Err != nil {
		return nil, fmt.Sprintf("driver failed (timeout=%v): %v: %s", res.TimedOut, res.Err, corpus.Tail(string(res.Stderr), 400))
	}
	blobs := map[string][]byte{}
	out := map[int]verdict{}
	sc := bufio.NewScanner(bytes.NewReader(res.Stdout))
	sc.Buffer(make([]byte, 1<<20), 1<<28)
	for sc.Scan() {
		var ev genEvent
		if err := json.Unmarshal(sc.Bytes(), &ev); err != nil {
			return nil, "bad driver log line: " + err.Error()
		}
		if ev.Blob != "" {
			b, _ := base64.StdEncoding.DecodeString(ev.Data)
			blobs[ev.Blob] = b
			continue
		}
		cs, ok := byID[ev.ID]
		if !ok {
			return nil, "driver logged an unknown job"
		}
		d := blobs[ev.D]
		// sanity of the workload itself: the fault-free rendering holds every chunk, in order
		pos := 0
		for i, s := range cs.Sizes {
			j := bytes.Index(d[pos:], []byte(chunk(cs.ID, i, s)))
			if j < 0 {
				return nil, fmt.Sprintf("direct rendering of job %d lacks chunk %d (%s)", cs.ID, i, ev.DErr)
			}
			pos += j + s
		}
		if ev.DErr != "" || !bytes.Contains(d, []byte("TAIL")) {
			return nil, "direct fault-free rendering failed: " + ev.DErr
		}
		got := observation{Status: ev.Got.Status, Header: ev.Got.Header, Body: blobs[ev.Got.Body], Err: ev.Got.Err, Panicked: ev.Got.Panicked, Touched: ev.Got.Touched}
		if got.Header == nil {
			got.Header = http.Header{}
		}
		want := observeRecorder(genReference(cs, d), http.MethodGet)
		sl := &slot{ehCalls: ev.EHCalls, ehErr: errors.New("verif: not the injected cause")}
		if ev.EHIsCause {
			sl.ehErr = errFail
			if cs.Outcome == "cancel" {
				sl.ehErr = context.Canceled
			}
		}
		out[ev.ID] = judge(cs, got, want, sl)
	}
	if len(out) != len(cases) {
		return nil, fmt.Sprintf("driver answered %d of %d jobs: %s", len(out), len(cases), corpus.Tail(string(res.Stderr), 300))
	}
	return out, ""
}

func (g *genSession) close() { g.pkg.Close() }

// genReference: the specification for a generated-component case, given the
// component's fault-free rendering d.
func genReference(cs Case, d []byte) http.Handler {
	ct := cs.CT
	if ct == "" {
		ct = defaultCT
	}
	return http.HandlerFunc(func(w http.ResponseWriter, r *http.Request) {
		switch {
		case cs.Outcome == "ok":
			w.Header().Set("Content-Type", ct)
			if cs.Status != 0 {
				w.WriteHeader(cs.Status)
			}
			_, _ = w.Write(d)
		case cs.EH != "":
			w.Header().Set("Content-Type", ct)
			errorHandlerText(cs.EH, func(error) string { return "sentinel" }, true)(r, errFail).ServeHTTP(w, r)
		default:
			w.Header().Set("Content-Type", "text/plain; charset=utf-8")
			w.Header().Set("X-Content-Type-Options", "nosniff")
			w.WriteHeader(http.StatusInternalServerError)
			_, _ = w.Write([]byte(defaultMsg))
		}
	})
}

func isGen(cs Case) bool { return strings.HasPrefix(cs.Comp, "gen-") }
