// Package c11 monitors property C11: the buffered templ HTTP handler answers
// all-or-nothing.
//
// Workload: components that write k chunks (k = 0..8, 1 B .. 200 KB, every
// byte of a chunk taken from a "document alphabet" that no error response
// uses) and then succeed or fail, served through templ.Handler under every
// handler configuration, observed with httptest.ResponseRecorder and - for a
// slice of every configuration - through a real net/http server.
//
// Oracle (trusted base, buffered configurations only):
//
//	success: status == configured status (200 when unset), Content-Type ==
//	         configured content type, body == D (the concatenated chunks).
//	failure: the response contains NO byte of the document alphabet, and
//	         status/headers/body equal what the error path alone produces:
//	         no error handler -> 500, "text/plain; charset=utf-8",
//	                             "templ: failed to render template\n";
//	         error handler    -> exactly what that handler writes into a fresh
//	                             ResponseWriter whose Content-Type is preset
//	                             to the configured content type, when given
//	                             the error the component returned.
//
//	panic:   a component that panics after k chunks (panic(error),
//	         panic(string), a runtime error, http.ErrAbortHandler) has failed
//	         to render. Acceptable outcomes: (a) the panic propagates out of
//	         ServeHTTP and NOTHING was written to the ResponseWriter (no
//	         WriteHeader, no Write; through a real server: the client gets no
//	         response at all), or (b) the error response as above. Never a
//	         success status, never a document byte. http.ErrAbortHandler must
//	         propagate (a). A panic raised by net/http itself (invalid
//	         configured status) is not a component failure and is never
//	         provoked: configured statuses are valid.
//	error handlers that are themselves templ.Handlers (the documented error
//	         page pattern): the response must be that inner handler's own
//	         status, content type and page - stated here independently of templ.
//	middleware: when something in front of the handler already populated
//	         response headers (Content-Type: text/csv, Vary, X-Frame-Options),
//	         success still carries the configured content type, the error path
//	         still equals the reference run behind the same middleware.
//	request method: GET, HEAD, POST, PUT, OPTIONS are all answered by the same
//	         rule; the reference is run under the same method (through the
//	         real server a HEAD response has no body on either side, the
//	         ResponseRecorder shows what the handler wrote).
//	construction form: templ.Handler(c, options...), a ComponentHandler struct
//	         literal (value and pointer, fields set directly) and
//	         templ.Handler(c, WithContentType("")). The configured content type
//	         of a struct literal / WithContentType("") may be empty: then the
//	         Content-Type header is unconstrained (whatever the handler or
//	         net/http's sniffing produce) unless the error path itself chooses
//	         it; status and body are judged regardless.
//	pool history: every judged request is preceded, on the same goroutine, by
//	         one other use of templ's shared byte-buffer pool (failing or
//	         successful ToGoHTML, failing buffered / streamed request, a large
//	         successful request, direct GetBuffer/ReleaseBuffer); the judged
//	         request must still equal its pool-free reference.
//
// Streaming configurations are run through the same workload and only
// observed: the evidence counts the failing streaming runs in which document
// bytes did reach the client, which shows that the monitor sees partial output
// where partial output exists.
package c11

import (
	"bytes"
	"context"
	"errors"
	"fmt"
	"html/template"
	"io"
	"log"
	"net/http"
	"net/http/httptest"
	"sort"
	"strconv"
	"strings"
	"sync"
	"sync/atomic"

	"github.com/a-h/templ"
	templruntime "github.com/a-h/templ/runtime"
	"verif/core"
)

// Case is one request against one handler configuration (replayable).
type Case struct {
	Status  int    // 0 = unset
	CT      string // "" = handler default
	EH      string // error handler variant, "" = unset
	Stream  bool
	Comp    string // plain | nested | genstyle
	Outcome string // ok | err | cancel | panic-error | panic-string | panic-runtime | panic-abort
	Sizes   []int  // chunk sizes; the component writes all of them, then succeeds or fails
	Via     string // recorder | server
	ID      int    // request id carried by every chunk marker
	Pre     string `json:",omitempty"` // "mw": a middleware pre-populated response headers
	Hist    string `json:",omitempty"` // pool history run on the same goroutine just before the request
	Method  string `json:",omitempty"` // "" = GET
	Form    string `json:",omitempty"` // "" = templ.Handler(c, opts...) | struct | ptr | empty-ct
	leak    string // pool-leak verdicts: the history that wrote the leaked bytes
}

const (
	defaultCT  = "text/html; charset=utf-8"
	customCT   = "application/xhtml+xml; charset=utf-8"
	defaultMsg = "templ: failed to render template\n"
)

var (
	statuses = []int{0, 200, 201, 404, 500}
	cts      = []string{"", customCT}
	ehs      = []string{"", "status+body", "body", "nothing", "own-ct", "status-only", "header+status+body", "templ-page", "templ-page-ct", "templ-page-stream"}
	comps    = []string{"plain", "nested", "genstyle"}
	outcomes = []string{"ok", "err", "cancel", "panic-error", "panic-string", "panic-runtime", "panic-abort"}
	methods  = []string{"", http.MethodHead, http.MethodPost, http.MethodPut, http.MethodOptions}
	forms    = []string{"", "struct", "ptr", "empty-ct"}
	// pool histories ("" = none)
	histories = []string{"", "togohtml-fail", "togohtml-ok", "buffered-fail", "streamed-fail", "large-ok", "direct-pool"}
	profiles  = []string{"tiny", "small", "page", "big", "mixed"}
)

var errFail = errors.New("verif: component failed")

// configuredCT is the content type the handler of cs is configured with; ""
// only for a struct literal without ContentType and for WithContentType("").
func configuredCT(cs Case) string {
	switch cs.Form {
	case "empty-ct":
		return ""
	case "struct", "ptr":
		return cs.CT
	}
	if cs.CT == "" {
		return defaultCT
	}
	return cs.CT
}

// contentTypeFree: the configuration names no content type and the path taken
// does not choose one itself (default 500 message and the error handlers that
// set their own type do).
func contentTypeFree(cs Case) bool {
	if configuredCT(cs) != "" {
		return false
	}
	if cs.Outcome == "ok" {
		return true
	}
	_, inner := innerPages[cs.EH]
	return !(cs.EH == "" || cs.EH == "own-ct" || inner)
}

func method(cs Case) string {
	if cs.Method == "" {
		return http.MethodGet
	}
	return cs.Method
}

func isPanic(outcome string) bool { return strings.HasPrefix(outcome, "panic") }

// innerPages: error handlers that are templ.Handlers rendering an error page
// (status, content type of the inner handler). The reference states their
// response without using templ.
var innerPages = map[string]struct {
	status int
	ct     string
	stream bool
}{
	"templ-page":        {http.StatusInternalServerError, defaultCT, false},
	"templ-page-ct":     {http.StatusServiceUnavailable, "text/vnd.verif-error; charset=utf-8", false},
	"templ-page-stream": {http.StatusBadGateway, defaultCT, true},
}

// isDocByte: the document alphabet ('#' and A-Z). Chunks consist of these bytes only; the
// error paths (default message, the harness's error handlers, error texts)
// never produce one.
func isDocByte(b byte) bool {
	return b == '#' || (b >= 'A' && b <= 'Z')
}

func countDocBytes(p []byte) int {
	n := 0
	for _, b := range p {
		if isDocByte(b) {
			n++
		}
	}
	return n
}

// upper writes n with the digits 0..9 spelled A..J (error texts such as
// templ.Error's "line 3, col 0" contain digits, so digits are not document bytes).
func upper(n int) string {
	b := []byte(strconv.Itoa(n))
	for i := range b {
		b[i] += 'A' - '0'
	}
	return string(b)
}

// chunk i of request id: marker "#Y<id>Z<i>#" followed by filler X, cut to size.
func chunk(id, i, size int) string {
	m := "#Y" + upper(id) + "Z" + upper(i) + "#"
	if size <= len(m) {
		return m[:size]
	}
	return m + strings.Repeat("X", size-len(m))
}

func document(cs Case) []byte {
	var b bytes.Buffer
	for i, s := range cs.Sizes {
		b.WriteString(chunk(cs.ID, i, s))
	}
	return b.Bytes()
}

type ctxKey int

const (
	keyCancel ctxKey = iota
	keySlot
)

// slot is the per-request side channel (what the error handler was given).
type slot struct {
	ehCalls int
	ehErr   error
}

// expectedErr is the error the component of cs returns when it fails without
// cancellation (the cancel outcome returns ctx.Err()).
func expectedErr(cs Case) error {
	var e error = errFail
	if cs.Outcome == "cancel" {
		e = context.Canceled
	}
	switch cs.Comp {
	case "nested":
		return fmt.Errorf("verif: nested: %w", e)
	case "genstyle":
		return templ.Error{Err: e, FileName: "verif.templ", Line: len(cs.Sizes), Col: 0}
	}
	return e
}

// finish is what every component does after its chunks.
func finish(ctx context.Context, cs Case) error {
	switch cs.Outcome {
	case "err":
		return errFail
	case "cancel":
		if cancel, ok := ctx.Value(keyCancel).(context.CancelFunc); ok {
			cancel()
		}
		return ctx.Err() // context.Canceled
	case "panic-error":
		panic(errFail)
	case "panic-string":
		panic("verif: component blew up")
	case "panic-runtime":
		var m map[string]int
		m["x"] = len(cs.Sizes) // assignment to entry in nil map
	case "panic-abort":
		panic(http.ErrAbortHandler)
	}
	return nil
}

// component builds the component under render for a case.
func component(cs Case) templ.Component {
	n := len(cs.Sizes)
	write := func(w io.Writer, from, to int) error {
		for i := from; i < to; i++ {
			if _, err := io.WriteString(w, chunk(cs.ID, i, cs.Sizes[i])); err != nil {
				return err
			}
		}
		return nil
	}
	switch cs.Comp {
	case "nested":
		// the outer component writes the first half itself, a child component
		// writes the rest and fails; the outer wraps the child's error.
		a := n / 2
		child := templ.ComponentFunc(func(ctx context.Context, w io.Writer) error {
			if err := write(w, a, n); err != nil {
				return err
			}
			return finish(ctx, cs)
		})
		return templ.ComponentFunc(func(ctx context.Context, w io.Writer) error {
			if err := write(w, 0, a); err != nil {
				return err
			}
			if err := child.Render(ctx, w); err != nil {
				return fmt.Errorf("verif: nested: %w", err)
			}
			return nil
		})
	case "genstyle":
		// the shape `templ generate` emits: runtime buffer around the writer,
		// flushed by ReleaseBuffer in a deferred call (also on failure), errors
		// reported as templ.Error.
		return templruntime.GeneratedTemplate(func(in templruntime.GeneratedComponentInput) (rerr error) {
			w, ctx := in.Writer, in.Context
			if e := ctx.Err(); e != nil {
				return e
			}
			buf, isBuf := templruntime.GetBuffer(w)
			if !isBuf {
				defer func() {
					e := templruntime.ReleaseBuffer(buf)
					if rerr == nil {
						rerr = e
					}
				}()
			}
			ctx = templ.InitializeContext(ctx)
			for i := 0; i < n; i++ {
				if rerr = templruntime.WriteString(buf, i+1, chunk(cs.ID, i, cs.Sizes[i])); rerr != nil {
					return rerr
				}
			}
			if e := finish(ctx, cs); e != nil {
				return templ.Error{Err: e, FileName: "verif.templ", Line: n, Col: 0}
			}
			return nil
		})
	}
	return templ.ComponentFunc(func(ctx context.Context, w io.Writer) error {
		if err := write(w, 0, n); err != nil {
			return err
		}
		return finish(ctx, cs)
	})
}

// errorHandler returns the configured error handler variant. Bodies use lower
// case letters and punctuation only (disjoint from the document alphabet).
func errorHandler(name string) func(r *http.Request, err error) http.Handler {
	// The body must not echo err.Error(): the wording of the error the handler
	// passes on is templ's business (it may wrap the cause); that it wraps the
	// cause is checked separately with errors.Is on the recorded error.
	return errorHandlerText(name, func(err error) string { return "render failed" }, false)
}

// errorHandlerText: text(err) is what the variant echoes into its body.
// With ref set, the templ-page variants are replaced by their templ-free
// specification (the reference must not contain the code under test).
func errorHandlerText(name string, text func(error) string, ref bool) func(r *http.Request, err error) http.Handler {
	if name == "" {
		return nil
	}
	return func(r *http.Request, err error) http.Handler {
		if s, ok := r.Context().Value(keySlot).(*slot); ok && s != nil {
			s.ehCalls++
			s.ehErr = err
		}
		if in, ok := innerPages[name]; ok {
			page := "eh: templ error page: " + text(err)
			if ref {
				return http.HandlerFunc(func(w http.ResponseWriter, _ *http.Request) {
					w.Header().Set("Content-Type", in.ct)
					w.WriteHeader(in.status)
					_, _ = io.WriteString(w, page)
				})
			}
			opts := []func(*templ.ComponentHandler){templ.WithStatus(in.status)}
			if in.ct != defaultCT {
				opts = append(opts, templ.WithContentType(in.ct))
			}
			if in.stream {
				opts = append(opts, templ.WithStreaming())
			}
			return templ.Handler(templ.ComponentFunc(func(_ context.Context, w io.Writer) error {
				_, e := io.WriteString(w, page)
				return e
			}), opts...)
		}
		return http.HandlerFunc(func(w http.ResponseWriter, _ *http.Request) {
			switch name {
			case "status+body":
				w.WriteHeader(http.StatusUnprocessableEntity)
				_, _ = io.WriteString(w, "eh: custom failure page: "+text(err))
			case "body":
				_, _ = io.WriteString(w, "eh: body only: "+text(err))
			case "nothing":
			case "own-ct":
				w.Header().Set("Content-Type", "application/problem+json")
				w.WriteHeader(http.StatusServiceUnavailable)
				_, _ = io.WriteString(w, `{"error":"`+text(err)+`"}`)
			case "status-only":
				w.WriteHeader(http.StatusBadGateway)
			case "header+status+body":
				w.Header().Set("X-Verif-Err", "yes")
				w.Header().Set("Cache-Control", "no-store")
				w.WriteHeader(http.StatusInternalServerError)
				_, _ = io.WriteString(w, "eh: with headers: "+text(err))
			}
		})
	}
}

// handlerFor builds the handler under test through templ's public API.
func handlerFor(cs Case) http.Handler {
	switch cs.Form {
	case "struct", "ptr": // fields set directly, no constructor defaults
		ch := templ.ComponentHandler{Component: component(cs), Status: cs.Status, ContentType: cs.CT,
			ErrorHandler: errorHandler(cs.EH), StreamResponse: cs.Stream}
		if cs.Form == "ptr" {
			return &ch
		}
		return ch
	}
	var opts []func(*templ.ComponentHandler)
	if cs.Status != 0 {
		opts = append(opts, templ.WithStatus(cs.Status))
	}
	if cs.CT != "" {
		opts = append(opts, templ.WithContentType(cs.CT))
	}
	if eh := errorHandler(cs.EH); eh != nil {
		opts = append(opts, templ.WithErrorHandler(eh))
	}
	if cs.Stream {
		opts = append(opts, templ.WithStreaming())
	}
	if cs.Form == "empty-ct" {
		opts = append(opts, templ.WithContentType(""))
	}
	return templ.Handler(component(cs), opts...)
}

// referenceFor is the specification: what the client must see for cs when the
// handler is buffered. It never renders the component on the failure path.
func referenceFor(cs Case) http.Handler {
	ct := configuredCT(cs)
	return http.HandlerFunc(func(w http.ResponseWriter, r *http.Request) {
		if cs.Outcome == "ok" {
			if ct != "" {
				w.Header().Set("Content-Type", ct)
			}
			if cs.Status != 0 {
				w.WriteHeader(cs.Status)
			}
			_, _ = w.Write(document(cs))
			return
		}
		if eh := errorHandlerText(cs.EH, func(error) string { return "render failed" }, true); eh != nil {
			if ct != "" {
				w.Header().Set("Content-Type", ct)
			}
			eh(r, expectedErr(cs)).ServeHTTP(w, r)
			return
		}
		w.Header().Set("Content-Type", "text/plain; charset=utf-8")
		w.Header().Set("X-Content-Type-Options", "nosniff")
		w.WriteHeader(http.StatusInternalServerError)
		_, _ = io.WriteString(w, defaultMsg)
	})
}

// withRequestState gives every request a cancel function and a side-channel
// slot; pre == "mw" additionally plays a middleware that populated response
// headers before the handler runs (none of them is touched by http.Error).
func withRequestState(h http.Handler, s *slot, pre string) http.Handler {
	return http.HandlerFunc(func(w http.ResponseWriter, r *http.Request) {
		if pre == "mw" {
			w.Header().Set("Content-Type", "text/csv")
			w.Header().Set("Vary", "Accept")
			w.Header().Set("X-Frame-Options", "DENY")
		}
		ctx, cancel := context.WithCancel(r.Context())
		defer cancel()
		ctx = context.WithValue(ctx, keyCancel, cancel)
		ctx = context.WithValue(ctx, keySlot, s)
		h.ServeHTTP(w, r.WithContext(ctx))
	})
}

// observation is what an HTTP client sees.
type observation struct {
	Status int
	Header http.Header
	Body   []byte
	Err    string
	// recorder only: a panic left ServeHTTP; Touched = WriteHeader or Write
	// had been called on the ResponseWriter before it did.
	Panicked bool
	PanicVal any
	Touched  bool
}

// trackWriter notes whether the handler touched the wire.
type trackWriter struct {
	http.ResponseWriter
	touched bool
}

func (t *trackWriter) WriteHeader(c int) { t.touched = true; t.ResponseWriter.WriteHeader(c) }
func (t *trackWriter) Write(p []byte) (int, error) {
	t.touched = true
	return t.ResponseWriter.Write(p)
}
func (t *trackWriter) Flush() {
	if f, ok := t.ResponseWriter.(http.Flusher); ok {
		f.Flush()
	}
}

// comparedHeaders: headers under the handler's / error handler's control.
// (Date, Content-Length, Connection etc. belong to net/http.)
var comparedHeaders = []string{"Content-Type", "X-Content-Type-Options", "X-Verif-Err", "Cache-Control", "Location", "Vary", "X-Frame-Options"}

func observeRecorder(h http.Handler, meth string) (o observation) {
	rec := httptest.NewRecorder()
	tw := &trackWriter{ResponseWriter: rec}
	req := httptest.NewRequest(meth, "/", nil)
	func() {
		defer func() {
			if p := recover(); p != nil {
				o.Panicked, o.PanicVal = true, p
			}
		}()
		h.ServeHTTP(tw, req)
	}()
	res := rec.Result()
	o.Status, o.Header, o.Body, o.Touched = res.StatusCode, res.Header, rec.Body.Bytes(), tw.touched
	return o
}

// servers: one real net/http server; cases are registered under /t/<n> (handler
// under test) and /r/<n> (reference).
type servers struct {
	srv    *httptest.Server
	client *http.Client
	mu     sync.Mutex
	routes map[string]http.Handler
	next   atomic.Int64
}

func newServers() *servers {
	s := &servers{routes: map[string]http.Handler{}}
	s.srv = httptest.NewUnstartedServer(http.HandlerFunc(func(w http.ResponseWriter, r *http.Request) {
		s.mu.Lock()
		h := s.routes[r.URL.Path]
		s.mu.Unlock()
		if h == nil {
			http.Error(w, "verif: no such route", http.StatusTeapot)
			return
		}
		h.ServeHTTP(w, r)
	}))
	// streaming runs legitimately make net/http log "superfluous WriteHeader"
	s.srv.Config.ErrorLog = log.New(io.Discard, "", 0)
	s.srv.Start()
	s.client = &http.Client{Transport: &http.Transport{DisableCompression: true, MaxIdleConnsPerHost: 64}}
	return s
}

func (s *servers) close() { s.srv.Close() }

func (s *servers) observe(h http.Handler, meth string) observation {
	p := "/x/" + strconv.FormatInt(s.next.Add(1), 10)
	var invoked atomic.Bool
	inner := h
	h = http.HandlerFunc(func(w http.ResponseWriter, r *http.Request) { invoked.Store(true); inner.ServeHTTP(w, r) })
	s.mu.Lock()
	s.routes[p] = h
	s.mu.Unlock()
	defer func() { s.mu.Lock(); delete(s.routes, p); s.mu.Unlock() }()
	var res *http.Response
	var err error
	// Panic cases make the server close keep-alive connections; a request that
	// loses the race for such a connection never reaches the handler (Go's
	// transport retries that by itself only for idempotent methods).
	for try := 0; try < 8; try++ {
		req, _ := http.NewRequest(meth, s.srv.URL+p, nil)
		if res, err = s.client.Do(req); err == nil || invoked.Load() {
			break
		}
	}
	if err != nil {
		return observation{Err: err.Error()}
	}
	defer res.Body.Close()
	b, err := io.ReadAll(res.Body)
	o := observation{Status: res.StatusCode, Header: res.Header, Body: b}
	if err != nil {
		o.Err = err.Error()
	}
	if cl := res.Header.Get("Content-Length"); cl != "" && o.Err == "" && meth != http.MethodHead && cl != strconv.Itoa(len(b)) {
		o.Err = fmt.Sprintf("Content-Length %s but %d body bytes", cl, len(b))
	}
	return o
}

// verdict of one case. category "" = held (or only observed, for streaming).
type verdict struct {
	Category   string // canonical class of the deviation
	Detail     string
	Partial    bool   // document bytes were seen in a failing response
	SameAsRef  bool   // streaming runs only: response equals the buffered reference
	LeakFrom   string // pool-leak: origin of the leaked bytes
	Propagated bool   // panic outcomes: the panic left ServeHTTP / no response reached the client
}

func short(b []byte) string {
	if len(b) > 80 {
		return strconv.Quote(string(b[:80])) + fmt.Sprintf("…(%d bytes)", len(b))
	}
	return strconv.Quote(string(b))
}

// judge applies the oracle: got (handler under test) against want (reference).
func judge(cs Case, got, want observation, sl *slot) verdict {
	fail := cs.Outcome != "ok"
	v := verdict{Partial: fail && countDocBytes(got.Body) > 0}
	if cs.Stream { // observed, not judged
		v.SameAsRef = got.Err == "" && got.Status == want.Status && bytes.Equal(got.Body, want.Body) &&
			got.Header.Get("Content-Type") == want.Header.Get("Content-Type")
		return v
	}
	if isPanic(cs.Outcome) {
		abort := cs.Outcome == "panic-abort"
		switch {
		case got.Panicked: // recorder: the panic left ServeHTTP
			if got.Touched {
				v.Category = "panic-after-output"
				v.Detail = fmt.Sprintf("the component panicked after %d chunks; the panic left ServeHTTP but status %d / %d body bytes had already been written: %s", len(cs.Sizes), got.Status, len(got.Body), short(got.Body))
				return v
			}
			if abort && got.PanicVal != http.ErrAbortHandler {
				v.Category = "abort-not-propagated"
				v.Detail = fmt.Sprintf("panic(http.ErrAbortHandler) left ServeHTTP as %v", got.PanicVal)
				return v
			}
			v.Propagated = true
			return v // outcome (a)
		case got.Err != "" && got.Status == 0: // real server: no response at all
			v.Propagated = true
			return v // outcome (a)
		case abort:
			v.Category = "abort-not-propagated"
			v.Detail = fmt.Sprintf("the component panicked with http.ErrAbortHandler but a response was produced (status %d, body %s)", got.Status, short(got.Body))
			return v
		}
		// a response was produced: it must be the error response, outcome (b)
		bad := ""
		switch n := countDocBytes(got.Body); {
		case n > 0:
			bad = fmt.Sprintf("it carries %d document bytes", n)
		case cs.EH != "" && sl != nil && sl.ehCalls != 1:
			bad = fmt.Sprintf("the configured error handler was called %d times", sl.ehCalls)
		case got.Status != want.Status:
			bad = fmt.Sprintf("the error response has status %d", want.Status)
		case !contentTypeFree(cs) && got.Header.Get("Content-Type") != want.Header.Get("Content-Type"):
			bad = fmt.Sprintf("the error response has Content-Type %q", want.Header.Get("Content-Type"))
		case !bytes.Equal(got.Body, want.Body):
			bad = "the error response has body " + short(want.Body)
		}
		if bad != "" {
			v.Category = "panic-not-answered-all-or-nothing"
			v.Detail = fmt.Sprintf("the component panicked after %d chunks; ServeHTTP returned normally with status %d, Content-Type %q, body %s - neither nothing nor the error response: %s",
				len(cs.Sizes), got.Status, got.Header.Get("Content-Type"), short(got.Body), bad)
			return v
		}
		sl = nil // which error value the handler wraps a panic in is its own business
	}
	if got.Err != "" {
		return verdict{Category: "transport", Detail: "client error: " + got.Err}
	}
	if fail {
		if n := countDocBytes(got.Body); n > 0 && bytes.Contains(got.Body, []byte("#STALE")) {
			v.Category = "pool-leak"
			v.LeakFrom = leakOrigin(got.Body)
			v.Detail = fmt.Sprintf("the error response (status %d) carries bytes that an earlier user of templ's buffer pool (%s) wrote: %s", got.Status, v.LeakFrom, short(got.Body))
			return v
		} else if n > 0 {
			v.Category = "partial-document"
			v.Detail = fmt.Sprintf("rendering failed after %d chunks but the response (status %d) carries %d document bytes: %s", len(cs.Sizes), got.Status, n, short(got.Body))
			return v
		}
		if cs.EH != "" && sl != nil {
			base := error(errFail)
			if cs.Outcome == "cancel" {
				base = context.Canceled
			}
			if sl.ehCalls != 1 || !errors.Is(sl.ehErr, base) {
				v.Category = "error-handler-input"
				v.Detail = fmt.Sprintf("error handler called %d times with %v, want once with an error wrapping %v", sl.ehCalls, sl.ehErr, base)
				return v
			}
		}
		if cs.EH == "" && sl != nil && sl.ehCalls != 0 {
			v.Category = "error-handler-input"
			v.Detail = "error handler called although none is configured"
			return v
		}
	}
	kind := "success"
	if fail {
		kind = "error"
	}
	if got.Status != want.Status {
		v.Category = kind + "-status"
		v.Detail = fmt.Sprintf("status %d, want %d", got.Status, want.Status)
		return v
	}
	for _, h := range comparedHeaders {
		if h == "Content-Type" && contentTypeFree(cs) {
			continue
		}
		if g, w := got.Header.Values(h), want.Header.Values(h); strings.Join(g, "\x00") != strings.Join(w, "\x00") {
			v.Category = kind + "-header-" + strings.ToLower(h)
			v.Detail = fmt.Sprintf("header %s = %q, want %q", h, g, w)
			return v
		}
	}
	if !bytes.Equal(got.Body, want.Body) && bytes.Contains(got.Body, []byte("#STALE")) {
		// bytes written by the pool history (another use of the shared pool)
		v.Category = "pool-leak"
		v.LeakFrom = leakOrigin(got.Body)
		v.Detail = fmt.Sprintf("the response (status %d) carries bytes that an earlier user of templ's buffer pool (%s) wrote: body %s, want %s", got.Status, v.LeakFrom, short(got.Body), short(want.Body))
		return v
	}
	if !bytes.Equal(got.Body, want.Body) {
		v.Category = kind + "-body"
		v.Detail = fmt.Sprintf("body %s, want %s", short(got.Body), short(want.Body))
		return v
	}
	if !fail && sl != nil && sl.ehCalls != 0 {
		v.Category = "error-handler-input"
		v.Detail = "error handler called although rendering succeeded"
	}
	return v
}

// genSess is the built corpus driver (generated components), nil when absent.
var genSess *genSession

// runCase executes one case against the real handler and the reference.
func runCase(cs Case, srv *servers) verdict {
	if isGen(cs) {
		if genSess == nil {
			return verdict{}
		}
		vs, msg := genSess.run([]Case{cs})
		if msg != "" {
			core.Infra("corpus driver: %s", msg)
		}
		return vs[cs.ID]
	}
	sl := &slot{}
	var got, want observation
	runHistory(cs)
	if cs.Via == "server" && srv != nil {
		got = srv.observe(withRequestState(handlerFor(cs), sl, cs.Pre), method(cs))
		want = srv.observe(withRequestState(referenceFor(cs), &slot{}, cs.Pre), method(cs))
	} else {
		got = observeRecorder(withRequestState(handlerFor(cs), sl, cs.Pre), method(cs))
		want = observeRecorder(withRequestState(referenceFor(cs), &slot{}, cs.Pre), method(cs))
	}
	return judge(cs, got, want, sl)
}

// leakOrigin is set by judge for pool-leak verdicts: which history wrote the
// leaked bytes (parsed from the marker).
func leakOrigin(body []byte) string {
	i := bytes.Index(body, []byte("#STALE#"))
	if i < 0 {
		return "?"
	}
	rest := body[i+7:]
	if j := bytes.IndexByte(rest, '#'); j > 0 {
		for _, h := range histories {
			if strings.ToUpper(strings.ReplaceAll(h, "-", "")) == string(rest[:j]) {
				return h
			}
		}
	}
	return "?"
}

func staleOrigin(cs Case) string {
	if cs.leak != "" {
		return cs.leak
	}
	return cs.Hist
}

// runHistory uses templ's shared byte-buffer pool once, on the calling
// goroutine, right before the judged request (which then most likely draws the
// very buffer this use gave back). Everything written here is document
// alphabet ("#STALE…"), so a leak shows both as a wrong body and as document
// bytes in an error response.
func runHistory(cs Case) {
	if cs.Hist == "" {
		return
	}
	stale := func(fail bool, sizes ...int) templ.Component {
		return templ.ComponentFunc(func(_ context.Context, w io.Writer) error {
			for i, n := range sizes {
				// the marker names its writer, so a leak is attributed to the pool
				// user that really wrote the bytes, however long they lingered
				m := "#STALE#" + strings.ToUpper(strings.ReplaceAll(cs.Hist, "-", "")) + "#" + upper(cs.ID) + "Z" + upper(i) + "#"
				if n > len(m) {
					m += strings.Repeat("Q", n-len(m))
				}
				if _, err := io.WriteString(w, m); err != nil {
					return err
				}
			}
			if fail {
				return errFail
			}
			return nil
		})
	}
	a, b := 1+cs.ID%97, 100+(cs.ID*37)%5000
	switch cs.Hist {
	case "togohtml-fail":
		var s template.HTML
		s, _ = templ.ToGoHTML(context.Background(), stale(true, a, b))
		_ = s
	case "togohtml-ok":
		_, _ = templ.ToGoHTML(context.Background(), stale(false, a, b))
	case "buffered-fail":
		observeRecorder(templ.Handler(stale(true, a, b)), http.MethodGet)
	case "streamed-fail":
		observeRecorder(templ.Handler(stale(true, a, b), templ.WithStreaming()), http.MethodGet)
	case "large-ok":
		observeRecorder(templ.Handler(stale(false, a, 70*1024+b)), http.MethodGet)
	case "direct-pool":
		buf := templ.GetBuffer()
		_ = stale(false, a, b).Render(context.Background(), buf)
		templ.ReleaseBuffer(buf)
	}
}

func key(cs Case, cat string) string {
	st := "unset"
	if cs.Status != 0 {
		st = strconv.Itoa(cs.Status)
	}
	ct := "default"
	if cs.CT != "" {
		ct = "custom"
	}
	eh := cs.EH
	if eh == "" {
		eh = "unset"
	}
	if cat == "pool-leak" {
		// the root cause is the earlier pool user, not the judged configuration
		return "pool-leak: bytes written through the shared buffer pool by an earlier " + staleOrigin(cs) + " reached a buffered response"
	}
	k := fmt.Sprintf("%s: buffered status=%s ct=%s eh=%s comp=%s outcome=%s chunks=%v via=%s", cat, st, ct, eh, cs.Comp, cs.Outcome, cs.Sizes, cs.Via)
	if cs.Method != "" {
		k += " method=" + cs.Method
	}
	if cs.Form != "" {
		k += " form=" + cs.Form
	}
	if cs.Pre != "" {
		k += " pre=" + cs.Pre
	}
	if cs.Hist != "" {
		k += " after=" + cs.Hist
	}
	return k
}

// reduce moves every dimension of a failing case to its simplest value as long
// as the same category of deviation remains (greedy, deterministic).
func reduce(cs Case, cat string, srv *servers) Case {
	still := func(t Case) bool { return runCase(t, srv).Category == cat }
	try := func(f func(t *Case)) {
		t := cs
		t.Sizes = append([]int(nil), cs.Sizes...)
		f(&t)
		if still(t) {
			cs = t
		}
	}
	try(func(t *Case) { t.Via = "recorder" })
	try(func(t *Case) { t.Pre = "" })
	try(func(t *Case) { t.Method = "" })
	try(func(t *Case) { t.Form = "" })
	if cs.Form != "" {
		try(func(t *Case) { t.Form = "struct" })
	}
	if cat != "pool-leak" { // a pool leak keeps the history that wrote the leaked bytes
		try(func(t *Case) { t.Hist = "" })
	}
	if isPanic(cs.Outcome) {
		try(func(t *Case) { t.Outcome = "panic-string" })
	}
	try(func(t *Case) {
		t.Comp = "plain"
		if t.Outcome == "nested" { // outcome of generated templates only
			t.Outcome = "err"
		}
	})
	if cs.Outcome == "nested" {
		try(func(t *Case) { t.Outcome = "err" })
	}
	try(func(t *Case) { t.Status = 0 })
	try(func(t *Case) { t.CT = "" })
	try(func(t *Case) { t.EH = "" })
	if cs.EH != "" {
		try(func(t *Case) { t.EH = "body" })
	}
	if _, inner := innerPages[cs.EH]; inner {
		try(func(t *Case) { t.EH = "templ-page" })
	}
	if cs.Outcome == "cancel" {
		try(func(t *Case) { t.Outcome = "err" })
	}
	for _, n := range []int{0, 1, 2} {
		if n < len(cs.Sizes) {
			try(func(t *Case) { t.Sizes = t.Sizes[:n] })
		}
	}
	for i := range cs.Sizes {
		for _, s := range []int{1, 16, 4097} {
			if s < cs.Sizes[i] {
				before := cs.Sizes[i]
				try(func(t *Case) { t.Sizes[i] = s })
				if cs.Sizes[i] != before {
					break
				}
			}
		}
	}
	try(func(t *Case) { t.ID = 1 })
	return cs
}

func sizesFor(rnd interface{ Intn(int) int }, profile string, k int) []int {
	s := make([]int, k)
	for i := range s {
		switch profile {
		case "tiny":
			s[i] = 1
		case "small":
			s[i] = 1 + rnd.Intn(64)
		case "page": // around the 4 KiB runtime buffer and bytes.Buffer growth steps
			s[i] = []int{4095, 4096, 4097, 8192, 64, 512}[rnd.Intn(6)] + rnd.Intn(2)
		case "big":
			s[i] = 1024 << rnd.Intn(8) // 1 KiB .. 128 KiB
			if rnd.Intn(3) == 0 {
				s[i] = 200 * 1024
			}
		default:
			s[i] = []int{1, 2, 7, 100, 4096, 65536, 200 * 1024}[rnd.Intn(7)]
		}
	}
	return s
}

// Run is the C11 check.
func Run(c *core.Ctx) {
	c.Level = "fault_enumeration"
	c.Rule = "case = (handler configuration: status{unset,200,201,404,500} x content type{default,custom} x error handler{unset + 6 plain variants + 3 variants that are templ.Handlers rendering an error page} x streaming{off,on}) x component{plain, nested child, generated-code shape with runtime buffer; plus two really generated templates (templ generate + go build) in a driver process} x outcome{ok, error, error after the request context was cancelled, panic(error), panic(string), runtime-error panic, panic(http.ErrAbortHandler); generated: also error in a nested template and a runtime-error panic} x request method{GET,HEAD,POST,PUT,OPTIONS} x construction form{templ.Handler(options), struct literal value, struct literal pointer, WithContentType(empty)} x {fresh ResponseWriter, headers pre-populated by a middleware} x pool history{none, failing/successful ToGoHTML, failing buffered/streamed request, >64 KB successful request, direct GetBuffer/ReleaseBuffer} run on the same goroutine just before x failure point k=0..8 chunks (every k for every configuration/component/outcome) x chunk-size profile (1 B .. 200 KB); non-trivial = buffered configuration, rendering fails after >= 1 chunk (generated templates: after any output, static text precedes every failure point) was written; distinct by construction (each enumerated tuple once per size draw)"
	c.Assume("net/http (ResponseRecorder, Server, Client) reports status, headers and body faithfully")
	c.Assume("the reference for a plain error handler's response is that same handler run alone on a ResponseWriter with the configured Content-Type preset; for error handlers that are templ.Handlers it is the inner handler's status, content type and page stated without templ")
	c.Assume("a panic raised by the component counts as a rendering failure; a panic that leaves ServeHTTP with nothing written is the 'nothing' outcome (net/http aborts the connection)")
	c.Assume("sync.Pool hands a buffer released on a goroutine back to the next Get on that goroutine often enough (no guarantee per case; the histories are repeated thousands of times)")
	srv := newServers()
	defer srv.close()

	if c.ReplayFile != "" {
		var cs Case
		c.LoadReplay(&cs)
		if isGen(cs) {
			var msg string
			if genSess, msg = buildGen(c); genSess == nil {
				core.Infra("%s", msg)
			}
			defer genSess.close()
		}
		c.Eval(1)
		c.NontrivialN(2)
		if v := runCase(cs, srv); v.Category != "" {
			cs.leak = v.LeakFrom
			c.Violate(key(cs, v.Category), v.Detail, cs)
		}
		return
	}

	type config struct {
		status int
		ct, eh string
		stream bool
	}
	var configs []config
	for _, st := range statuses {
		for _, ct := range cts {
			for _, eh := range ehs {
				for _, s := range []bool{false, true} {
					configs = append(configs, config{st, ct, eh, s})
				}
			}
		}
	}
	draws := c.Pick(2, 10) // size draws per enumerated (config, comp, outcome, k)
	maxK := 8
	var nCases, nServer, nNontrivial, nStreamFail, nStreamPartial, nStreamOK, nStreamOKSame, nBufFail, nBufOK atomic.Int64
	var maxBody atomic.Int64
	kSeen := make([]atomic.Int64, maxK+1)
	histSeen := make([]atomic.Int64, len(histories))
	methSeen := make([]atomic.Int64, len(methods))
	formSeen := make([]atomic.Int64, len(forms))
	var nEmptyCT atomic.Int64
	var nPre, nPanic, nPanicPropagated, nPanicErrorResponse atomic.Int64
	var vioMu sync.Mutex
	type vio struct {
		cs Case
		v  verdict
	}
	var vios []vio
	samples := map[int]any{}

	work := make(chan int)
	var wg sync.WaitGroup
	for w := 0; w < 16; w++ {
		wg.Add(1)
		go func() {
			defer wg.Done()
			for ci := range work {
				cf := configs[ci]
				rnd := c.Rand(fmt.Sprintf("cfg%d", ci))
				n := 0
				for _, comp := range comps {
					for _, out := range outcomes {
						for k := 0; k <= maxK; k++ {
							nd := draws
							if isPanic(out) {
								nd = (draws + 1) / 2
							}
							for d := 0; d < nd; d++ {
								n++
								prof := profiles[(n+ci)%len(profiles)]
								cs := Case{Status: cf.status, CT: cf.ct, EH: cf.eh, Stream: cf.stream, Comp: comp, Outcome: out,
									Sizes: sizesFor(rnd, prof, k), Via: "recorder", ID: ci*100000 + n}
								// every (configuration, component, outcome) meets the middleware
								// with and without, and walks through all pool histories
								if (d+k)%2 == 1 {
									cs.Pre = "mw"
								}
								// methods and construction forms rotate with different periods, so
								// each (configuration, component, outcome) block meets every method
								// and, across k and draws, every form
								cs.Method = methods[n%len(methods)]
								cs.Form = forms[(n/len(methods)+ci)%len(forms)]
								methSeen[n%len(methods)].Add(1)
								formSeen[(n/len(methods)+ci)%len(forms)].Add(1)
								if configuredCT(cs) == "" {
									nEmptyCT.Add(1)
								}
								cs.Hist = histories[(n+ci)%len(histories)]
								histSeen[(n+ci)%len(histories)].Add(1)
								if cs.Pre != "" {
									nPre.Add(1)
								}
								if isPanic(out) {
									nPanic.Add(1)
								}
								// a slice of every configuration also goes through a real server:
								// k=0 and one k>=1 per (component, outcome)
								if d == 0 && (k == 0 || k == 1+(ci+n)%maxK) {
									cs.Via = "server"
									nServer.Add(1)
								}
								v := runCase(cs, srv)
								nCases.Add(1)
								if isPanic(out) && !cs.Stream && v.Category == "" {
									if v.Propagated {
										nPanicPropagated.Add(1)
									} else {
										nPanicErrorResponse.Add(1)
									}
								}
								kSeen[k].Add(1)
								tot := 0
								for _, s := range cs.Sizes {
									tot += s
								}
								for {
									m := maxBody.Load()
									if int64(tot) <= m || maxBody.CompareAndSwap(m, int64(tot)) {
										break
									}
								}
								switch {
								case cs.Stream && out != "ok":
									nStreamFail.Add(1)
									if v.Partial {
										nStreamPartial.Add(1)
									}
								case cs.Stream:
									nStreamOK.Add(1)
									if v.SameAsRef {
										nStreamOKSame.Add(1)
									}
								case out != "ok":
									nBufFail.Add(1)
									if k >= 1 {
										nNontrivial.Add(1)
									}
								default:
									nBufOK.Add(1)
								}
								if v.Category != "" {
									vioMu.Lock()
									vios = append(vios, vio{cs, v})
									vioMu.Unlock()
								}
								if d == 0 && ((ci == 37 && comp == "nested" && k == 3) || (ci == 36 && comp == "genstyle" && out == "err" && k == 2)) {
									vioMu.Lock()
									samples[cs.ID] = map[string]any{"case": cs, "verdict": "held=" + strconv.FormatBool(v.Category == ""), "partial_output_seen": v.Partial}
									vioMu.Unlock()
								}
							}
						}
					}
				}
			}
		}()
	}
	for i := range configs {
		work <- i
	}
	close(work)
	wg.Wait()
	var sids []int
	for id := range samples {
		sids = append(sids, id)
	}
	sort.Ints(sids)
	for _, id := range sids {
		c.Sample(samples[id])
	}

	// ---- real generated components (templ generate + go build), one driver process
	var nGen, nGenNontrivial, nGenStreamPartial int
	if sess, msg := buildGen(c); sess == nil {
		c.Inconclusive("generated-component part not run: " + msg)
	} else {
		genSess = sess
		defer sess.close()
		rnd := c.Rand("gen")
		var gcases []Case
		gdraws := c.Pick(1, 3)
		n := 0
		for ci, cf := range configs {
			if _, inner := innerPages[cf.eh]; inner {
				continue // the driver hosts the plain error handler variants only
			}
			for _, out := range []string{"ok", "err", "cancel", "nested", "panic"} {
				for k := 0; k <= maxK; k++ {
					for gi, comp := range []string{"gen-chunks", "gen-wrapped"} {
						if c.Quick() && (ci+k)%2 != gi {
							continue
						}
						for d := 0; d < gdraws; d++ {
							n++
							prof := "small"
							switch {
							case n%60 == 0:
								prof = "big"
							case n%6 == 0:
								prof = "page"
							case n%5 == 0:
								prof = "tiny"
							}
							cs := Case{Status: cf.status, CT: cf.ct, EH: cf.eh, Stream: cf.stream, Comp: comp, Outcome: out,
								Sizes: sizesFor(rnd, prof, k), Via: "recorder", ID: 50000000 + n}
							if n%9 == 0 {
								cs.Via = "server"
							}
							gcases = append(gcases, cs)
						}
					}
				}
			}
		}
		vs, msg := sess.run(gcases)
		if msg != "" {
			c.Inconclusive("generated-component part: " + msg)
		}
		for _, cs := range gcases {
			v, ok := vs[cs.ID]
			if !ok {
				continue
			}
			nGen++
			if !cs.Stream && cs.Outcome != "ok" {
				nGenNontrivial++ // static template text precedes every failure point
			}
			if cs.Stream && cs.Outcome != "ok" && v.Partial {
				nGenStreamPartial++
			}
			if v.Category != "" {
				vios = append(vios, vio{cs, v})
			}
		}
		if len(gcases) > 0 {
			c.Sample(map[string]any{"generated_component_case": gcases[len(gcases)/2], "template": "t.templ: Chunks/Wrapped, see checks/c11/gen.go"})
		}
	}
	c.Eval(nGen)
	c.NontrivialN(nGenNontrivial)
	c.Set("generated_component_cases", nGen)
	c.Set("generated_component_streaming_failures_with_partial_output_seen", nGenStreamPartial)

	// reduce and report (deterministic order)
	sort.Slice(vios, func(i, j int) bool { return vios[i].cs.ID < vios[j].cs.ID })
	seenCat := map[string]int{}
	for _, x := range vios {
		// at most a few reductions per category and configuration: equal root
		// causes collapse to equal keys
		sig := x.v.Category + "/" + x.cs.EH + "/" + x.cs.Outcome
		if x.v.Category == "pool-leak" {
			sig = "pool-leak/" + x.v.LeakFrom
		}
		if seenCat[sig] >= 3 {
			continue
		}
		seenCat[sig]++
		if x.v.Category == "pool-leak" && x.v.LeakFrom != "?" {
			x.cs.Hist = x.v.LeakFrom // replay runs the real origin right before the request
		}
		r := reduce(x.cs, x.v.Category, srv)
		rv := runCase(r, srv)
		if rv.Category != x.v.Category {
			r, rv = x.cs, x.v
		}
		r.leak = rv.LeakFrom
		c.Violate(key(r, rv.Category), "buffered handler is not all-or-nothing: "+rv.Detail, r)
	}

	c.Eval(int(nCases.Load()))
	c.NontrivialN(int(nNontrivial.Load()))
	c.Set("configurations", len(configs))
	c.Set("cases_through_real_server", nServer.Load())
	c.Set("buffered_success_cases", nBufOK.Load())
	c.Set("buffered_failure_cases", nBufFail.Load())
	c.Set("streaming_failure_cases_observed", nStreamFail.Load())
	c.Set("streaming_failure_cases_with_partial_output_seen", nStreamPartial.Load())
	c.Set("streaming_success_cases_observed", nStreamOK.Load())
	c.Set("streaming_success_cases_equal_to_buffered_reference", nStreamOKSame.Load())
	c.Set("largest_document_bytes", maxBody.Load())
	ks := map[string]int64{}
	for k := range kSeen {
		ks[strconv.Itoa(k)] = kSeen[k].Load()
	}
	c.Set("cases_per_failure_point_k", ks)
	hs := map[string]int64{}
	for i, h := range histories {
		if h == "" {
			h = "none"
		}
		hs[h] = histSeen[i].Load()
	}
	c.Set("cases_per_pool_history", hs)
	ms, fs := map[string]int64{}, map[string]int64{}
	for i, m := range methods {
		if m == "" {
			m = "GET"
		}
		ms[m] = methSeen[i].Load()
	}
	for i, f := range forms {
		if f == "" {
			f = "templ.Handler(options)"
		}
		fs[f] = formSeen[i].Load()
	}
	c.Set("cases_per_request_method", ms)
	c.Set("cases_per_construction_form", fs)
	c.Set("cases_with_empty_configured_content_type", nEmptyCT.Load())
	c.Set("cases_behind_header_setting_middleware", nPre.Load())
	c.Set("panic_cases", nPanic.Load())
	c.Set("buffered_panic_cases_propagated_with_nothing_written", nPanicPropagated.Load())
	c.Set("buffered_panic_cases_answered_with_error_response", nPanicErrorResponse.Load())
	c.Set("exhaustive", false)
	c.Set("fault_dimension", "for every (configuration, component, outcome) every failure point k=0..8 was run")
	if nStreamPartial.Load() == 0 {
		c.Inconclusive("no streaming run showed partial output: the monitor cannot be trusted to see partial documents")
	}
}
