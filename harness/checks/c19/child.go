package c19

import (
	"bufio"
	"bytes"
	"context"
	"encoding/json"
	"errors"
	"fmt"
	"net/http"
	"os"
	"runtime"
	"runtime/pprof"
	"strconv"
	"strings"
	"sync"
	"sync/atomic"
	"time"

	"github.com/a-h/templ/cmd/templ/generatecmd/sse"
)

// OpRec is one operation of a history at the client boundary.
//
//	sub   : Call = request issued,  Ret = first bytes (any frame: comment, keep-alive, event) or
//	        flush the client's writer received from ServeHTTP (or ServeHTTP returned)
//	unsub : Call = context cancelled / connection broke, Ret = ServeHTTP returned
//	bcast : Call/Ret around Handler.Send; R = clients whose writer received the event (bitmask)
type OpRec struct {
	Kind string `json:"k"`
	C    int    `json:"c"`
	E    int    `json:"e"`
	Call int64  `json:"call"`
	Ret  int64  `json:"ret"`
	R    uint32 `json:"r"`
}

// HistRec is everything the child observed while executing one script.
type HistRec struct {
	Idx        int            `json:"idx"`
	Name       string         `json:"name"`
	Clients    int            `json:"clients"`
	Ops        []OpRec        `json:"ops"`
	Stable     uint32         `json:"stable"`
	Dups       int            `json:"dups"`
	Phantom    []string       `json:"phantom,omitempty"`
	Progress   []string       `json:"progress,omitempty"` // progress / deadlock monitor: watchdog fired on a state the harness created
	Watchdog   []string       `json:"watchdog,omitempty"` // harness waits that timed out (inconclusive)
	Leak       int            `json:"leak"`
	LeakStacks string         `json:"leak_stacks,omitempty"`
	Hooks      map[string]int `json:"hooks"`
	Aborted    bool           `json:"aborted"`
	Pings      int            `json:"pings"`             // events with data "ping" (the implementation's keep-alive today)
	Comments   int            `json:"comments"`          // SSE comment lines (": ...")
	Other      int            `json:"other_frames"`      // any other frame the implementation chose to send; never judged
	Slow       bool           `json:"slow,omitempty"`    // some wait of the harness ran into its watchdog
	Skipped    bool           `json:"skipped,omitempty"` // not executed: the child had already met 3 slow histories
}

var tick atomic.Int64

func now() int64 { return tick.Add(1) }

var curDirector atomic.Pointer[director]

func gid() uint64 {
	var b [64]byte
	n := runtime.Stack(b[:], false)
	f := bytes.Fields(b[:n])
	if len(f) < 2 {
		return 0
	}
	v, _ := strconv.ParseUint(string(f[1]), 10, 64)
	return v
}

// client is the browser side: a controllable http.ResponseWriter + Flusher.
type client struct {
	d          *director
	id         int
	ctx        context.Context
	cancel     context.CancelFunc
	hdr        http.Header
	buf        []byte
	events     map[int]int // event index -> times received
	evType     string      // SSE parser state: fields of the event being assembled
	evData     []string
	evHasData  bool
	firstByte  int64 // subscription established: first bytes seen by the writer
	flushed    bool
	stalled    bool
	inWrite    bool
	failWrites bool
	exited     bool
	exitT      int64
	subCall    int64
	unsubCall  int64
	unreg      bool
	barrier    bool // wrote the teardown barrier event
}

func (c *client) Header() http.Header { return c.hdr }
func (c *client) WriteHeader(int)     {}
func (c *client) Flush() {
	c.d.mu.Lock()
	// A flush tells the harness that the response has started (so "awaitsub"
	// need not wait for bytes), but the subscription counts as established in
	// the history only at the first BYTES — the weaker, later boundary.
	if !c.flushed {
		c.flushed = true
		c.d.cond.Broadcast()
	}
	c.d.mu.Unlock()
}

func (c *client) Write(b []byte) (int, error) {
	d := c.d
	d.mu.Lock()
	defer d.mu.Unlock()
	for c.stalled {
		c.inWrite = true
		d.cond.Broadcast()
		d.cond.Wait()
	}
	c.inWrite = false
	if c.failWrites {
		return 0, errors.New("write: connection reset by peer")
	}
	if c.firstByte == 0 && len(b) > 0 {
		c.firstByte = now()
	}
	c.buf = append(c.buf, b...)
	c.parse()
	d.cond.Broadcast()
	return len(b), nil
}

// parse consumes complete lines of the text/event-stream format (WHATWG HTML
// "9.2.6 Interpreting an event stream"): lines end with LF, CRLF or CR; a line
// starting with ':' is a comment; "field: value" with one optional space after
// the colon; a line without colon is a field with empty value; data fields
// accumulate, joined by LF; a blank line dispatches the event — unless it has
// no data field, in which case nothing is dispatched. Called with d.mu held.
func (c *client) parse() {
	for {
		i := bytes.IndexAny(c.buf, "\r\n")
		if i < 0 {
			return
		}
		adv := i + 1
		if c.buf[i] == '\r' {
			if i+1 >= len(c.buf) {
				return // CR at the end of what we have: wait to see whether LF follows
			}
			if c.buf[i+1] == '\n' {
				adv++
			}
		}
		line := string(c.buf[:i])
		c.buf = c.buf[adv:]
		switch {
		case line == "":
			if c.evHasData {
				c.dispatch(c.evType, strings.Join(c.evData, "\n"))
			} else if c.evType != "" {
				c.d.rec.Other++ // an event without data is not dispatched
			}
			c.evType, c.evData, c.evHasData = "", nil, false
		case line[0] == ':':
			c.d.rec.Comments++
		default:
			name, value := line, ""
			if k := strings.IndexByte(line, ':'); k >= 0 {
				name, value = line[:k], strings.TrimPrefix(line[k+1:], " ")
			}
			switch name {
			case "event":
				c.evType = value
			case "data":
				c.evData = append(c.evData, value)
				c.evHasData = true
			case "id", "retry":
			default: // unknown fields are ignored
			}
		}
	}
}

// dispatch is what the browser's EventSource would hand to the page. Only
// events whose data carries this history's prefix are judged: they must be a
// broadcast of this history with the type it was sent with. Keep-alive pings
// and anything else the implementation chooses to send are counted only.
func (c *client) dispatch(typ, data string) {
	d := c.d
	switch {
	case data == d.evPrefix+"barrier":
		c.barrier = true
	case strings.HasPrefix(data, d.evPrefix):
		e, err := strconv.Atoi(data[len(d.evPrefix):])
		if err != nil || d.sends[e] == nil || (typ != "" && typ != "message") {
			d.rec.Phantom = append(d.rec.Phantom, fmt.Sprintf("c%d received event type %q data %q which was never broadcast", c.id, typ, data))
			return
		}
		c.events[e]++
		if c.events[e] > 1 {
			d.rec.Dups++
		}
	case data == "ping":
		d.rec.Pings++
	default:
		d.rec.Other++
	}
}

type sendRec struct {
	call, ret int64
	finished  bool
}

type director struct {
	mu       sync.Mutex
	cond     *sync.Cond
	h        *sse.Handler
	clients  map[int]*client
	byG      map[uint64]*client
	gateOn   map[string]bool
	parked   map[string]int
	permits  map[string]int
	passed   map[string]int
	sends    map[int]*sendRec
	rec      *HistRec
	base     int
	evPrefix string
	wd       time.Duration
}

// hook is called by the code under test at its named yield points.
// "unregistered" is called with the handler's mutex held: never block there.
func (d *director) hook(site string) {
	g := uint64(0)
	if site != "deliver" {
		g = gid()
	}
	d.mu.Lock()
	defer d.mu.Unlock()
	d.rec.Hooks[site]++
	if site == "unregistered" {
		if c := d.byG[g]; c != nil {
			c.unreg = true
		}
		d.cond.Broadcast()
		return
	}
	if d.gateOn[site] {
		d.parked[site]++
		d.cond.Broadcast()
		for d.gateOn[site] && d.permits[site] == 0 {
			d.cond.Wait()
		}
		if d.gateOn[site] {
			d.permits[site]--
		}
		d.parked[site]--
		d.passed[site]++
		d.cond.Broadcast()
	}
}

// wait blocks until pred holds (evaluated under d.mu) or the watchdog fires.
func (d *director) wait(pred func() bool, timeout time.Duration) bool {
	deadline := time.Now().Add(timeout)
	t := time.AfterFunc(timeout+10*time.Millisecond, func() { d.mu.Lock(); d.cond.Broadcast(); d.mu.Unlock() })
	defer t.Stop()
	d.mu.Lock()
	defer d.mu.Unlock()
	for !pred() {
		if time.Now().After(deadline) {
			d.rec.Slow = true
			return false
		}
		d.cond.Wait()
	}
	return true
}

func (d *director) note(list *[]string, f string, a ...any) {
	d.mu.Lock()
	*list = append(*list, fmt.Sprintf(f, a...))
	d.mu.Unlock()
}

// step executes one step; false aborts the script (teardown still runs).
func (d *director) step(st Step) bool {
	cl := func() *client { d.mu.Lock(); defer d.mu.Unlock(); return d.clients[st.C] }
	switch st.Op {
	case "sub":
		ctx, cancel := context.WithCancel(context.Background())
		c := &client{d: d, id: st.C, ctx: ctx, cancel: cancel, hdr: http.Header{}, events: map[int]int{}}
		req, _ := http.NewRequestWithContext(ctx, "GET", "/_templ/reload/events", nil)
		d.mu.Lock()
		d.clients[st.C] = c
		d.mu.Unlock()
		c.subCall = now()
		go func() {
			g := gid()
			d.mu.Lock()
			d.byG[g] = c
			d.mu.Unlock()
			d.h.ServeHTTP(c, req)
			t := now()
			d.mu.Lock()
			c.exited, c.exitT = true, t
			delete(d.byG, g)
			d.cond.Broadcast()
			d.mu.Unlock()
		}()
		if st.Async {
			return true
		}
		fallthrough
	case "awaitsub":
		c := cl()
		if !d.wait(func() bool { return c.firstByte != 0 || c.flushed || c.exited }, d.wd) {
			d.note(&d.rec.Watchdog, "awaitsub c%d: ServeHTTP sent nothing within %v", st.C, d.wd)
			return false
		}
	case "cancel":
		c := cl()
		d.mu.Lock()
		if c.unsubCall == 0 {
			c.unsubCall = now()
		}
		d.mu.Unlock()
		c.cancel()
		if st.Async {
			return true
		}
		fallthrough
	case "awaitexit":
		c := cl()
		if !d.wait(func() bool { return c.exited }, d.wd) {
			// The harness holds no gate on this client here (scripts never await a
			// stalled or parked client), so a handler that does not return after
			// its context ended / its write failed is a deadlock of the watch process.
			d.note(&d.rec.Progress, "deadlock: ServeHTTP of c%d did not return within %v after its request ended", st.C, d.wd)
			return false
		}
	case "send", "awaitsend":
		d.mu.Lock()
		sr := d.sends[st.E]
		d.mu.Unlock()
		if st.Op == "send" {
			sr = &sendRec{}
			d.mu.Lock()
			d.sends[st.E] = sr
			d.mu.Unlock()
			sr.call = now()
			data := d.evPrefix + strconv.Itoa(st.E)
			go func() {
				d.h.Send("message", data)
				t := now()
				d.mu.Lock()
				sr.ret, sr.finished = t, true
				d.cond.Broadcast()
				d.mu.Unlock()
			}()
			if st.Async {
				return true
			}
		}
		if !d.wait(func() bool { return sr.finished }, d.wd) {
			d.note(&d.rec.Progress, "blocked broadcaster: Send(e%d) did not return within %v", st.E, d.wd)
			return false
		}
	case "gate":
		d.mu.Lock()
		d.gateOn[st.Site] = st.N == 1
		d.permits[st.Site] = 0
		d.cond.Broadcast()
		d.mu.Unlock()
	case "waitparked":
		if !d.wait(func() bool { return d.parked[st.Site] >= st.N }, d.wd) {
			d.mu.Lock()
			n := d.parked[st.Site]
			d.mu.Unlock()
			d.note(&d.rec.Watchdog, "waitparked %s %d: only %d parked", st.Site, st.N, n)
			return false
		}
	case "release":
		d.mu.Lock()
		target := d.passed[st.Site] + st.N
		d.permits[st.Site] += st.N
		d.cond.Broadcast()
		d.mu.Unlock()
		if !d.wait(func() bool { return d.passed[st.Site] >= target }, d.wd) {
			d.note(&d.rec.Watchdog, "release %s %d: not enough parked goroutines", st.Site, st.N)
			return false
		}
	case "stall", "unstall":
		c := cl()
		d.mu.Lock()
		c.stalled = st.Op == "stall"
		d.cond.Broadcast()
		d.mu.Unlock()
	case "awaitblocked":
		c := cl()
		if !d.wait(func() bool { return c.inWrite }, d.wd) {
			d.note(&d.rec.Watchdog, "awaitblocked c%d: handler never wrote", st.C)
			return false
		}
	case "failwrites":
		c := cl()
		d.mu.Lock()
		c.failWrites = true
		if c.unsubCall == 0 {
			c.unsubCall = now()
		}
		d.mu.Unlock()
	case "awaitrecv":
		c := cl()
		if !d.wait(func() bool { return c.events[st.E] > 0 }, d.wd) {
			var stalled []string
			d.mu.Lock()
			for _, o := range d.clients {
				if o.stalled {
					stalled = append(stalled, fmt.Sprintf("c%d", o.id))
				}
			}
			d.mu.Unlock()
			d.note(&d.rec.Progress, "blocked client: c%d did not receive e%d within %v while %v stalled", st.C, st.E, d.wd, stalled)
			return false
		}
	case "hold":
		time.Sleep(time.Duration(st.N) * time.Millisecond)
	case "awaitunreg":
		c := cl()
		if !d.wait(func() bool { return c.unreg }, d.wd) {
			d.note(&d.rec.Watchdog, "awaitunreg c%d", st.C)
			return false
		}
	default:
		d.note(&d.rec.Watchdog, "unknown step %q", st.Op)
		return false
	}
	return true
}

// settle waits until the goroutine count is at most target().
func settle(target func() int, timeout time.Duration) bool {
	deadline := time.Now().Add(timeout)
	for i := 0; ; i++ {
		if runtime.NumGoroutine() <= target() {
			return true
		}
		if time.Now().After(deadline) {
			return false
		}
		if i < 200 {
			runtime.Gosched()
		} else {
			time.Sleep(100 * time.Microsecond)
		}
	}
}

func (d *director) liveHandlers() int {
	d.mu.Lock()
	defer d.mu.Unlock()
	n := 0
	for _, c := range d.clients {
		if !c.exited {
			n++
		}
	}
	return n
}

// teardown: open every gate, wait for quiescence, collect who received what,
// then disconnect everybody and compare the goroutine count with the baseline.
func (d *director) teardown() {
	d.mu.Lock()
	for s := range d.gateOn {
		d.gateOn[s] = false
	}
	for _, c := range d.clients {
		c.stalled = false
	}
	d.cond.Broadcast()
	d.mu.Unlock()
	if !d.wait(func() bool {
		for _, s := range d.sends {
			if !s.finished {
				return false
			}
		}
		return true
	}, d.wd) {
		d.note(&d.rec.Progress, "blocked broadcaster: a Send did not return within %v with every gate open", d.wd)
		d.rec.Aborted = true
	}
	// clients the script disconnected must be gone
	if !d.wait(func() bool {
		for _, c := range d.clients {
			if c.unsubCall != 0 && !c.failWrites && !c.exited {
				return false
			}
		}
		return true
	}, d.wd) {
		d.note(&d.rec.Progress, "deadlock: a cancelled client's ServeHTTP did not return within %v with every gate open", d.wd)
		d.rec.Aborted = true
	}
	// quiescence 1: every delivery goroutine has finished
	quiet := settle(func() int { return d.base + d.liveHandlers() }, 3*time.Second)
	if !quiet {
		d.mu.Lock()
		d.rec.Slow = true
		d.mu.Unlock()
	}
	// quiescence 2: handlers have written what they took from their channels.
	// A handler is a single loop (take one event, write it, take the next), and
	// every earlier delivery goroutine has already handed its event over, so
	// once a client has written a barrier event broadcast now, it has written
	// everything before it. The barrier is not part of the history. (Bounded
	// wait; when it does not arrive the history is judged as observed.)
	go d.h.Send("message", d.evPrefix+"barrier")
	d.wait(func() bool {
		for _, c := range d.clients {
			if !c.exited && !c.barrier {
				return false
			}
		}
		return true
	}, 2*time.Second)
	settle(func() int { return d.base + d.liveHandlers() }, 3*time.Second)
	// collect R per broadcast and the stable set
	d.mu.Lock()
	type bc struct {
		e int
		r uint32
	}
	var bcs []bc
	for e := range d.sends {
		var r uint32
		for _, c := range d.clients {
			if c.events[e] > 0 {
				r |= 1 << uint(c.id)
			}
		}
		bcs = append(bcs, bc{e, r})
	}
	for _, c := range d.clients {
		if c.unsubCall == 0 {
			d.rec.Stable |= 1 << uint(c.id)
		}
	}
	d.mu.Unlock()
	// disconnect everybody (not part of the history for stable clients)
	d.mu.Lock()
	for _, c := range d.clients {
		c.cancel()
	}
	d.mu.Unlock()
	if !d.wait(func() bool {
		for _, c := range d.clients {
			if !c.exited {
				return false
			}
		}
		return true
	}, d.wd) {
		d.note(&d.rec.Progress, "deadlock: ServeHTTP did not return within %v after every client was cancelled", d.wd)
		d.rec.Aborted = true
	}
	if !quiet || !settle(func() int { return d.base }, 3*time.Second) {
		if n := runtime.NumGoroutine() - d.base; n > 0 {
			var sb bytes.Buffer
			_ = pprof.Lookup("goroutine").WriteTo(&sb, 1)
			var keep []string
			for _, blk := range strings.Split(sb.String(), "\n\n") {
				if strings.Contains(blk, "a-h/templ/") {
					keep = append(keep, blk)
				}
			}
			if len(keep) > 0 {
				d.rec.Leak = n
				d.rec.LeakStacks = strings.Join(keep, "\n\n")
				if len(d.rec.LeakStacks) > 3000 {
					d.rec.LeakStacks = d.rec.LeakStacks[:3000]
				}
			} else {
				d.rec.Watchdog = append(d.rec.Watchdog, fmt.Sprintf("goroutine count %d above baseline with no templ frame (harness)", n))
			}
		}
	}
	// history
	d.mu.Lock()
	defer d.mu.Unlock()
	for id, c := range d.clients {
		ret := c.firstByte
		if ret == 0 || (c.exited && c.exitT < ret) {
			ret = c.exitT
		}
		if ret == 0 {
			d.rec.Aborted = true
			continue
		}
		d.rec.Ops = append(d.rec.Ops, OpRec{Kind: "sub", C: id, Call: c.subCall, Ret: ret})
		if d.rec.Stable&(1<<uint(id)) == 0 {
			if !c.exited {
				d.rec.Aborted = true
				continue
			}
			d.rec.Ops = append(d.rec.Ops, OpRec{Kind: "unsub", C: id, Call: c.unsubCall, Ret: c.exitT})
		}
	}
	for _, b := range bcs {
		s := d.sends[b.e]
		if !s.finished {
			continue
		}
		d.rec.Ops = append(d.rec.Ops, OpRec{Kind: "bcast", E: b.e, Call: s.call, Ret: s.ret, R: b.r})
	}
}

func runScript(s Script, wd time.Duration) *HistRec {
	rec := &HistRec{Idx: s.Idx, Name: s.Name, Clients: s.Clients, Hooks: map[string]int{}}
	d := &director{h: sse.New(), clients: map[int]*client{}, byG: map[uint64]*client{},
		gateOn: map[string]bool{}, parked: map[string]int{}, permits: map[string]int{}, passed: map[string]int{},
		sends: map[int]*sendRec{}, rec: rec, evPrefix: fmt.Sprintf("ev-%d-", s.Idx), wd: wd}
	d.cond = sync.NewCond(&d.mu)
	d.base = runtime.NumGoroutine()
	curDirector.Store(d)
	for _, st := range s.Steps {
		if !d.step(st) {
			rec.Aborted = true
			break
		}
	}
	d.teardown()
	return rec
}

// childRun: --child run <scripts.jsonl> <firstLine> <results.jsonl> <progress>
// Executes the scripts one after the other; logs "S <idx>" before each so that
// a crash (the process dies: a panic in a goroutine spawned by the code under
// test cannot be recovered) is attributed to exactly one schedule.
func childRun(args []string) int {
	if len(args) < 4 {
		fmt.Fprintln(os.Stderr, "usage: run scripts first results progress")
		return 2
	}
	first, _ := strconv.Atoi(args[1])
	wd := 10 * time.Second
	if v, err := strconv.Atoi(os.Getenv("C19_WD_MS")); err == nil && v > 0 {
		wd = time.Duration(v) * time.Millisecond
	}
	in, err := os.Open(args[0])
	if err != nil {
		fmt.Fprintln(os.Stderr, err)
		return 2
	}
	defer in.Close()
	out, err := os.OpenFile(args[2], os.O_CREATE|os.O_WRONLY|os.O_APPEND, 0o644)
	if err != nil {
		fmt.Fprintln(os.Stderr, err)
		return 2
	}
	defer out.Close()
	prog, err := os.OpenFile(args[3], os.O_CREATE|os.O_WRONLY|os.O_APPEND, 0o644)
	if err != nil {
		fmt.Fprintln(os.Stderr, err)
		return 2
	}
	defer prog.Close()
	sse.VerifHook = func(site string) {
		if d := curDirector.Load(); d != nil {
			d.hook(site)
		}
	}
	sc := bufio.NewScanner(in)
	sc.Buffer(make([]byte, 1<<20), 1<<24)
	slow := 0
	for line := 0; sc.Scan(); line++ {
		if line < first {
			continue
		}
		var s Script
		if err := json.Unmarshal(sc.Bytes(), &s); err != nil {
			fmt.Fprintln(os.Stderr, "bad script:", err)
			return 2
		}
		fmt.Fprintf(prog, "S %d\n", line)
		// Every failing history costs watchdog time; after three of them the
		// rest of this child's batch is skipped (reported, never counted as held).
		var rec *HistRec
		if slow >= 3 {
			rec = &HistRec{Idx: s.Idx, Name: s.Name, Skipped: true}
		} else {
			rec = runScript(s, wd)
			if rec.Slow {
				slow++
			}
		}
		b, _ := json.Marshal(rec)
		out.Write(append(b, '\n'))
		fmt.Fprintf(prog, "D %d\n", line)
	}
	return 0
}
