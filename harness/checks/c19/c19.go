// Package c19 checks property C19 (live-reload SSE broadcast is reliable and
// survives client churn) by runtime monitoring: schedule scripts are executed
// against the real sse.Handler in race-instrumented child processes; the
// parent decides from what the children logged.
//
// Monitors (the trusted base):
//   - crash monitor: the child must survive every schedule. A child that dies
//     with a panic whose stack is in templ code is a violation; the schedule
//     that was running is the witness.
//   - delivery monitor: porcupine linearizability check of the observed
//     Sub/Unsub/Broadcast history against the model "state = set of connected
//     clients; Broadcast with output R is legal iff R ⊆ state and
//     state ∩ stable ⊆ R" (stable = clients the schedule never disconnects).
//     Per-client ordering and absence of duplicates are NOT required.
//   - progress monitor: with one client's writer gated, Send returns and the
//     other clients receive; a cancelled client's handler returns. These waits
//     are on states the harness created, so their watchdog firing is a violation.
//   - goroutine count back to baseline after all clients are gone.
//   - Go race detector (GORACE log files of the children).
package c19

import (
	"bufio"
	"encoding/json"
	"fmt"
	"os"
	"path/filepath"
	"sort"
	"strings"
	"sync"
	"sync/atomic"
	"time"

	"github.com/anishathalye/porcupine"
	"verif/core"
	"verif/oracle/childproc"
)

// Children is the child-process entry table of the c19 binary.
var Children = map[string]func([]string) int{"run": childRun, "proxy": childProxy}

type opIn struct {
	kind byte // 's' sub, 'u' unsub, 'b' broadcast
	c    int
}

// model is the sequential specification described in the package comment.
func model(stable uint32) porcupine.Model {
	return porcupine.Model{
		Init: func() any { return uint32(0) },
		Step: func(st, in, out any) (bool, any) {
			s := st.(uint32)
			i := in.(opIn)
			switch i.kind {
			case 's':
				return true, s | 1<<uint(i.c)
			case 'u':
				return true, s &^ (1 << uint(i.c))
			default:
				r := out.(uint32)
				return r&^s == 0 && (s&stable)&^r == 0, s
			}
		},
		Equal: func(a, b any) bool { return a.(uint32) == b.(uint32) },
	}
}

type verdict struct {
	class   string // "", "held", "inconclusive", or a violation class
	key     string
	summary string
}

type runner struct {
	c        *core.Ctx
	dir      string
	mu       sync.Mutex
	children int
	minSig   string
	minText  string
	shrunk   map[string]string // crash signature -> canonical schedule text
	reach    map[string]bool   // hook site -> reached by the probe
	stats    map[string]int
	hooks    map[string]int
}

func (r *runner) add(k string, n int) { r.mu.Lock(); r.stats[k] += n; r.mu.Unlock() }

// judge applies the monitors to one completed history.
func (r *runner) judge(s Script, h *HistRec) {
	c := r.c
	if h.Skipped {
		r.add("histories_skipped_after_slow_failures", 1)
		return
	}
	c.Eval(1)
	r.mu.Lock()
	for k, v := range h.Hooks {
		r.hooks[k] += v
	}
	r.stats["duplicate_deliveries"] += h.Dups
	r.stats["pings_seen"] += h.Pings
	r.stats["comments_seen"] += h.Comments
	r.stats["other_frames"] += h.Other
	r.mu.Unlock()
	text := s.Text()
	bad := false
	for _, p := range h.Phantom {
		c.Violate("phantom-event: a client received an event that was never broadcast", p+" | schedule: "+text, s)
		bad = true
	}
	for _, p := range h.Progress {
		class := p
		if i := strings.Index(p, ":"); i > 0 {
			class = p[:i]
		}
		c.Violate("progress/"+class, p+" | schedule: "+text, s)
		bad = true
	}
	if h.Leak > 0 {
		fn := "?"
		for _, l := range strings.Split(h.LeakStacks, "\n") {
			if strings.Contains(l, "a-h/templ/") && strings.HasPrefix(l, "#") {
				f := strings.Fields(l)
				if len(f) >= 3 {
					fn = strings.SplitN(f[2], "+", 2)[0]
				}
				break
			}
		}
		c.Violate("goroutine-leak: "+fn, fmt.Sprintf("%d goroutine(s) above baseline after every client was gone; %s | schedule: %s", h.Leak, firstLines(h.LeakStacks, 6), text), s)
		bad = true
	}
	if bad {
		return
	}
	if h.Aborted || len(h.Watchdog) > 0 {
		c.Inconclusive(fmt.Sprintf("history %d (%s): %v aborted=%v | schedule: %s", h.Idx, h.Name, h.Watchdog, h.Aborted, text))
		r.add("histories_inconclusive", 1)
		return
	}
	// non-trivial: a client left while a delivery for it was parked or in flight
	// (a broadcast issued strictly inside its connected interval never reached it)
	sub, unsub := map[int]OpRec{}, map[int]OpRec{}
	for _, o := range h.Ops {
		switch o.Kind {
		case "sub":
			sub[o.C] = o
		case "unsub":
			unsub[o.C] = o
		}
	}
	nontrivial := false
	for _, o := range h.Ops {
		if o.Kind != "bcast" {
			continue
		}
		for cid, u := range unsub {
			if o.Call > sub[cid].Ret && o.Ret < u.Call && o.R&(1<<uint(cid)) == 0 {
				nontrivial = true
			}
		}
	}
	if nontrivial {
		c.NontrivialStr("hist", text, fmt.Sprint(h.Ops))
		r.add("histories_client_left_with_delivery_pending", 1)
	}
	var ops []porcupine.Operation
	for _, o := range h.Ops {
		switch o.Kind {
		case "sub":
			ops = append(ops, porcupine.Operation{ClientId: o.C, Input: opIn{'s', o.C}, Call: o.Call, Return: o.Ret})
		case "unsub":
			ops = append(ops, porcupine.Operation{ClientId: o.C, Input: opIn{'u', o.C}, Call: o.Call, Return: o.Ret})
		case "bcast":
			ops = append(ops, porcupine.Operation{ClientId: 20 + o.E, Input: opIn{'b', o.E}, Output: o.R, Call: o.Call, Return: o.Ret})
		}
	}
	r.add("history_operations", len(ops))
	switch porcupine.CheckOperationsTimeout(model(h.Stable), ops, 10*time.Second) {
	case porcupine.Ok:
		r.add("porcupine_ok", 1)
	case porcupine.Unknown:
		r.add("porcupine_unknown", 1)
		c.Inconclusive(fmt.Sprintf("history %d: porcupine timed out", h.Idx))
	case porcupine.Illegal:
		r.add("porcupine_illegal", 1)
		// name the root cause with the two direct consequences of the model
		key, why := "non-linearizable history: "+text, ""
		for _, o := range h.Ops {
			if o.Kind != "bcast" {
				continue
			}
			for cid, su := range sub {
				bit := uint32(1) << uint(cid)
				u, left := unsub[cid]
				switch {
				case h.Stable&bit != 0 && su.Ret < o.Call && o.R&bit == 0:
					key = "lost-event: a client connected before the broadcast and never disconnected did not receive it"
					why = fmt.Sprintf("c%d subscribed [%d,%d], e%d broadcast [%d,%d], receivers mask %b", cid, su.Call, su.Ret, o.E, o.Call, o.Ret, o.R)
				case o.R&bit != 0 && (o.Ret < su.Call || (left && u.Ret < o.Call)):
					key = "spurious-event: a client received a broadcast issued entirely outside its connection"
					why = fmt.Sprintf("c%d subscribed [%d,%d] left %v [%d,%d], e%d broadcast [%d,%d]", cid, su.Call, su.Ret, left, u.Call, u.Ret, o.E, o.Call, o.Ret)
				}
			}
		}
		b, _ := json.Marshal(h.Ops)
		c.Violate(key, fmt.Sprintf("history not linearizable w.r.t. the broadcast model; %s | schedule: %s | ops: %s", why, text, b), s)
	}
	if h.Idx%37 == 0 || strings.HasPrefix(s.Name, "forced/park-cancel-release k=2") {
		c.Sample(map[string]any{"schedule": text, "name": s.Name, "stable_mask": h.Stable, "ops": h.Ops, "hooks": h.Hooks})
	}
}

func firstLines(s string, n int) string {
	l := strings.Split(s, "\n")
	if len(l) > n {
		l = l[:n]
	}
	return strings.Join(l, " / ")
}

// runChunk executes scripts in child processes, restarting after each crash,
// and returns the completed histories plus the crashes.
type crash struct {
	script Script
	sig    string
	stderr string
	res    childproc.Result
}

func (r *runner) runChunk(tag string, scripts []Script, wdMs int) (hist map[int]*HistRec, crashes []crash) {
	sf := filepath.Join(r.dir, tag+".scripts")
	rf := filepath.Join(r.dir, tag+".results")
	pf := filepath.Join(r.dir, tag+".progress")
	f, err := os.Create(sf)
	if err != nil {
		core.Infra("scratch: %v", err)
	}
	w := bufio.NewWriter(f)
	for _, s := range scripts {
		b, _ := json.Marshal(s)
		w.Write(append(b, '\n'))
	}
	w.Flush()
	f.Close()
	defer func() { os.Remove(sf); os.Remove(rf); os.Remove(pf) }()
	first := 0
	for attempt := 0; first < len(scripts); attempt++ {
		os.Remove(pf)
		var env []string
		if wdMs > 0 {
			env = append(env, fmt.Sprintf("C19_WD_MS=%d", wdMs))
		}
		r.mu.Lock()
		r.children++
		r.mu.Unlock()
		res, err := childproc.Run(childproc.Spec{Child: "run", Args: []string{sf, fmt.Sprint(first), rf, pf},
			Dir: r.dir, Tag: fmt.Sprintf("%s-%d", tag, attempt), Timeout: 10 * time.Minute, Env: env})
		if err != nil {
			core.Infra("cannot start child: %v", err)
		}
		if !res.Crashed() {
			os.Remove(res.StderrPath)
			break
		}
		started, done := -1, -1
		if pb, err := os.ReadFile(pf); err == nil {
			for _, l := range strings.Split(string(pb), "\n") {
				var n int
				if _, err := fmt.Sscanf(l, "S %d", &n); err == nil {
					started = n
				}
				if _, err := fmt.Sscanf(l, "D %d", &n); err == nil {
					done = n
				}
			}
		}
		if started < 0 || started == done {
			core.Infra("child %s failed outside a schedule (%s): %s", tag, res.Describe(), res.StderrTail)
		}
		head := childproc.Head(res.StderrPath, 1<<16)
		if res.TimedOut {
			r.c.Inconclusive(fmt.Sprintf("child watchdog fired in schedule %q", scripts[started].Text()))
			first = started + 1
			continue
		}
		msg, frame := childproc.PanicLine(head)
		if msg == "" || frame == "" {
			core.Infra("child %s died without a panic in templ code (%s): %s", tag, res.Describe(), head)
		}
		crashes = append(crashes, crash{script: scripts[started], sig: msg + " in " + frame, stderr: firstLines(head, 12), res: res})
		os.Remove(res.StderrPath)
		first = started + 1
	}
	hist = map[int]*HistRec{}
	if rfh, err := os.Open(rf); err == nil {
		sc := bufio.NewScanner(rfh)
		sc.Buffer(make([]byte, 1<<20), 1<<26)
		for sc.Scan() {
			var h HistRec
			if json.Unmarshal(sc.Bytes(), &h) == nil {
				hh := h
				hist[h.Idx] = &hh
			}
		}
		rfh.Close()
	}
	return hist, crashes
}

// crashesOnce runs one script alone and reports the crash signature ("" = survived).
func (r *runner) crashesOnce(tag string, s Script) string {
	s.Idx = 0
	_, cr := r.runChunk(tag, []Script{s}, 1500)
	if len(cr) == 0 {
		return ""
	}
	return cr[0].sig
}

var shrinkSeq atomic.Int64

// shrink greedily deletes steps while the same crash signature reproduces.
func (r *runner) shrink(s Script, sig string) Script {
	budget := 40
	for changed := true; changed && budget > 0; {
		changed = false
		for i := len(s.Steps) - 1; i >= 0 && budget > 0; i-- {
			t := s
			t.Steps = append(append([]Step{}, s.Steps[:i]...), s.Steps[i+1:]...)
			budget--
			if r.crashesOnce(fmt.Sprintf("shrink%d", shrinkSeq.Add(1)), t) == sig {
				s, changed = t, true
			}
		}
	}
	return s
}

func (r *runner) reportCrash(cr crash) {
	c := r.c
	c.Eval(1)
	r.add("crashes", 1)
	c.NontrivialStr("crash", cr.script.Text())
	r.mu.Lock()
	text, ok := r.shrunk[cr.sig]
	r.mu.Unlock()
	witness := cr.script
	if !ok {
		if cr.sig == r.minSig {
			text = r.minText
			witness = MinimalCrashScript()
		} else {
			witness = r.shrink(cr.script, cr.sig)
			text = witness.Text()
		}
		r.mu.Lock()
		r.shrunk[cr.sig] = text
		r.mu.Unlock()
	} else if cr.sig == r.minSig {
		witness = MinimalCrashScript()
	}
	c.Violate("crash["+cr.sig+"] schedule: "+text,
		fmt.Sprintf("the watch process died (%s) while executing schedule %q (%s); stderr: %s", cr.res.Describe(), cr.script.Text(), cr.script.Name, cr.stderr), witness)
}

// Run is the C19 check.
func Run(c *core.Ctx) {
	c.Rule = "cases = schedule scripts (sub/cancel/send, hook gates at deliver/registered, stalled and failing writers) run against the real sse.Handler; ~40 forced schedules + seeded random compositions of 5 episode kinds (free churn, gated deliveries, stalled client, registration gate, write failure; <=12 clients, <=10 broadcasts); one evaluation = one executed schedule judged by all monitors; non-trivial = a client left while a delivery for it was parked or in flight (a broadcast issued strictly inside its connected interval never reached it, or the process died in the delivery goroutine); distinct by hash of (schedule, observed history)"
	c.Assume("client boundary: Sub returns at the first bytes (any frame: comment, keep-alive or event) the client's writer received from ServeHTTP; Unsub returns when ServeHTTP returned; receivers of a broadcast are collected after quiescence (goroutine count back to baseline + live handlers, then a barrier event written by every live client)")
	c.Assume("the client parses the stream as text/event-stream (comments ignored, event/data/id/retry fields, data lines joined, events without data not dispatched); only events whose data carries the history's own prefix are judged, keep-alives and other implementation-chosen frames are counted, never judged; no wait depends on the keep-alive period")
	c.Assume("stable clients (never disconnected by the schedule) must receive every broadcast issued after their subscription returned; per-client ordering and duplicates are not judged")
	c.Assume("hook sites registered/deliver/unregistered (build tag verif) only delay the calling goroutine")
	dir, err := os.MkdirTemp("", "verif-c19-")
	if err != nil {
		core.Infra("mktemp: %v", err)
	}
	core.AtExit(func() { os.RemoveAll(dir) })
	r := &runner{c: c, dir: dir, shrunk: map[string]string{}, stats: map[string]int{}, hooks: map[string]int{}}

	if c.ReplayFile != "" {
		var s Script
		c.LoadReplay(&s)
		if len(s.Steps) == 0 { // a race report: re-run the forced schedules, finish() re-reads the race logs
			forced := forcedScripts()
			hist, crashes := r.runChunk("replay-forced", forced, 0)
			for _, cr := range crashes {
				r.minSig, r.minText = cr.sig, MinimalCrashScript().Text()
				r.reportCrash(cr)
			}
			for i, fs := range forced {
				if h := hist[i]; h != nil {
					r.judge(fs, h)
				}
			}
			r.finish()
			return
		}
		for i := 0; i < 5; i++ {
			s.Idx = 0
			hist, crashes := r.runChunk(fmt.Sprintf("replay%d", i), []Script{s}, 0)
			for _, cr := range crashes {
				r.minSig, r.minText = cr.sig, s.Text()
				r.reportCrash(cr)
			}
			for _, h := range hist {
				r.judge(s, h)
			}
		}
		c.NontrivialN(2)
		r.finish()
		return
	}

	// 0. probe: which hook sites does this implementation have? A site that
	// no longer exists (e.g. no per-event delivery goroutine any more) cannot
	// be parked at; schedules that need it are skipped and counted, everything
	// else still runs and decides.
	r.probe()

	// 0b. long-stall schedules: real waiting, so they run in their own child
	// processes concurrently with everything else
	var longWG sync.WaitGroup
	ladder := LongStallLadder(c.Quick())
	longest := 0.0
	var longMu sync.Mutex
	for i, T := range ladder {
		longWG.Add(1)
		go func(i int, T float64) {
			defer longWG.Done()
			defer func() {
				if e := recover(); e != nil {
					if ie, ok := e.(core.InfraError); ok {
						c.Inconclusive("infrastructure: " + ie.Msg)
						return
					}
					panic(e)
				}
			}()
			s := longStallScript(T)
			hist, crashes := r.runChunk(fmt.Sprintf("longstall%d", i), []Script{s}, 0)
			for _, cr := range crashes {
				r.reportCrash(cr)
			}
			if h := hist[0]; h != nil {
				r.judge(s, h)
				if !h.Aborted && len(h.Watchdog) == 0 {
					longMu.Lock()
					if T > longest {
						longest = T
					}
					longMu.Unlock()
					r.add("long_stall_schedules_completed", 1)
				}
			}
		}(i, T)
	}
	c.Set("long_stall_ladder_seconds", ladder)
	c.Assume(fmt.Sprintf("bounded-progress restatement for stalled clients: an event broadcast while a connected client's writer is blocked for up to T seconds is delivered once it resumes, T = %g s (the longest stall of this tier's ladder %v, real time); an implementation-chosen delivery timeout longer than that cannot be seen", ladder[len(ladder)-1], ladder))
	defer func() {
		longMu.Lock()
		c.Set("longest_stall_seconds_exercised", longest)
		longMu.Unlock()
	}()

	// 0c. the stream as the product serves it: through proxy.Handler, real
	// HTTP clients, loggers at INFO and DEBUG level (proxy.go)
	longWG.Add(1)
	go func() {
		defer longWG.Done()
		defer func() {
			if e := recover(); e != nil {
				if ie, ok := e.(core.InfraError); ok {
					c.Inconclusive("infrastructure: " + ie.Msg)
					return
				}
				panic(e)
			}
		}()
		r.proxyPart(c.Pick(1, 10))
	}()

	// 1. the canonical minimal schedule, then all forced schedules
	min := MinimalCrashScript()
	r.minText = min.Text()
	if r.reach["deliver"] {
		r.minSig = r.crashesOnce("minimal", min)
	}
	var forced []Script
	nForced := 0
	for _, s := range forcedScripts() {
		nForced++
		if r.unreachable(s) {
			r.add("schedules_skipped_site_unreachable", 1)
			continue
		}
		s.Idx = len(forced)
		forced = append(forced, s)
	}
	hist, crashes := r.runChunk("forced", forced, 0)
	for _, cr := range crashes {
		r.reportCrash(cr)
	}
	for i, s := range forced {
		if h := hist[i]; h != nil {
			r.judge(s, h)
		}
	}
	c.Set("forced_schedules", nForced)
	c.Set("forced_schedules_run", len(forced))
	c.Set("forced_schedules_completed", len(hist))

	// 2. random histories, in chunks spread over worker goroutines (one child each)
	total := c.Pick(2000, 200000)
	chunk := c.Pick(125, 1000)
	type job struct{ n, from, to int }
	jobs := make(chan job)
	var wg sync.WaitGroup
	for w := 0; w < 12; w++ {
		wg.Add(1)
		go func() {
			defer wg.Done()
			defer func() {
				if e := recover(); e != nil {
					if ie, ok := e.(core.InfraError); ok {
						c.Inconclusive("infrastructure: " + ie.Msg)
						return
					}
					panic(e)
				}
			}()
			for j := range jobs {
				rnd := c.Rand(fmt.Sprintf("hist-%d", j.n))
				var ss []Script
				for i := j.from; i < j.to; i++ {
					ss = append(ss, randomScript(rnd, i-j.from, r.reach))
				}
				hist, crashes := r.runChunk(fmt.Sprintf("rnd%d", j.n), ss, 0)
				for _, cr := range crashes {
					r.reportCrash(cr)
				}
				for i, s := range ss {
					if h := hist[i]; h != nil {
						r.judge(s, h)
					}
				}
				r.add("random_histories_completed", len(hist))
			}
		}()
	}
	for n, from := 0, 0; from < total; n, from = n+1, from+chunk {
		to := from + chunk
		if to > total {
			to = total
		}
		jobs <- job{n, from, to}
	}
	close(jobs)
	wg.Wait()
	c.Set("random_histories", total)
	longWG.Wait()
	r.finish()
}

// proxyPart runs the through-the-proxy sessions in a child and judges its report.
func (r *runner) proxyPart(reps int) {
	c := r.c
	rf := filepath.Join(r.dir, "proxy.json")
	r.mu.Lock()
	r.children++
	r.mu.Unlock()
	res, err := childproc.Run(childproc.Spec{Child: "proxy", Args: []string{rf, fmt.Sprint(reps)}, Dir: r.dir, Tag: "proxy", Timeout: 10 * time.Minute})
	if err != nil {
		core.Infra("cannot start child: %v", err)
	}
	if res.Crashed() {
		head := childproc.Head(res.StderrPath, 1<<16)
		msg, frame := childproc.PanicLine(head)
		c.Eval(1)
		if !res.TimedOut && msg != "" && frame != "" {
			c.Violate("proxy/crash["+msg+" in "+frame+"]", fmt.Sprintf("the process serving the reload stream through proxy.Handler died (%s): %s", res.Describe(), firstLines(head, 12)), map[string]any{"part": "proxy"})
			return
		}
		c.Inconclusive(fmt.Sprintf("proxy child failed (%s): %s", res.Describe(), firstLines(res.StderrTail, 8)))
		return
	}
	var pr proxyResult
	b, err := os.ReadFile(rf)
	if err != nil || json.Unmarshal(b, &pr) != nil {
		c.Inconclusive("proxy child wrote no report")
		return
	}
	c.Eval(pr.Sessions)
	c.NontrivialN(pr.Sessions)
	for _, v := range pr.Viol {
		c.Violate(v.Key, v.Summary, map[string]any{"part": "proxy"})
	}
	for _, s := range pr.Inconc {
		c.Inconclusive("proxy part: " + s)
	}
	c.Set("proxy_sessions", pr.Sessions)
	c.Set("proxy_clients", pr.Clients)
	c.Set("proxy_events_delivered", pr.Delivered)
	c.Set("proxy_logger_levels", pr.Levels)
	if pr.Sessions == 0 {
		c.Inconclusive("the proxy part ran no session")
	}
}

// probe runs ProbeScript in a child and records which hook sites were reached.
func (r *runner) probe() {
	c := r.c
	p := ProbeScript()
	r.reach = map[string]bool{}
	hist, crashes := r.runChunk("probe", []Script{p}, 0)
	for _, cr := range crashes {
		r.minSig, r.minText = "", ""
		r.reportCrash(cr)
	}
	h := hist[0]
	if h == nil {
		if len(crashes) == 0 {
			core.Infra("the probe schedule produced no result")
		}
		// the probe itself crashed the implementation: assume every site, the schedules will tell
		for _, s := range []string{"registered", "deliver", "unregistered"} {
			r.reach[s] = true
		}
		return
	}
	r.judge(p, h)
	for _, s := range []string{"registered", "deliver", "unregistered"} {
		r.reach[s] = h.Hooks[s] > 0
		c.Set("hook_site_"+s+"_reachable", r.reach[s])
		if !r.reach[s] {
			switch s {
			case "deliver":
				c.Assume("hook site \"deliver\" is not reached by this implementation (no per-client delivery goroutine to park): the forced 'delivery parked while the client leaves' windows were NOT exercised; disconnects racing deliveries are only explored through writer stalls, cancels and ungated churn")
			case "registered":
				c.Assume("hook site \"registered\" is not reached by this implementation: the 'cancel before registration completes' window was NOT forced")
			default:
				c.Assume("hook site \"unregistered\" is not reached by this implementation (it is only observed, never parked at)")
			}
		}
	}
}

// unreachable: the script parks at a site the probe never saw.
func (r *runner) unreachable(s Script) bool {
	for _, site := range s.sitesNeeded() {
		if !r.reach[site] {
			return true
		}
	}
	return false
}

func (r *runner) finish() {
	c := r.c
	// race detector reports of all children
	races := childproc.Races(r.dir)
	nt := 0
	for _, rc := range races {
		if rc.Templ {
			nt++
			c.Violate("race: "+rc.Key, fmt.Sprintf("Go race detector report (%d times): %s", rc.Count, firstLines(rc.Text, 14)), map[string]any{"race": rc.Text})
		} else {
			c.Inconclusive("race detector report without a templ frame (harness): " + rc.Key)
		}
	}
	if n := r.stats["histories_skipped_after_slow_failures"]; n > 0 && c.ViolationCount() == 0 {
		c.Inconclusive(fmt.Sprintf("%d schedules were skipped after repeated watchdog firings", n))
	}
	c.Set("races_reported", len(races))
	c.Set("races_in_templ", nt)
	c.Set("children_spawned", r.children)
	keys := make([]string, 0, len(r.stats))
	for k := range r.stats {
		keys = append(keys, k)
	}
	sort.Strings(keys)
	for _, k := range keys {
		c.Set(k, r.stats[k])
	}
	for _, k := range []string{"crashes", "porcupine_ok", "porcupine_illegal", "porcupine_unknown"} {
		if _, ok := r.stats[k]; !ok {
			c.Set(k, 0)
		}
	}
	for _, site := range []string{"registered", "deliver", "unregistered"} {
		c.Set("hook_events_"+site, r.hooks[site])
	}
	for _, k := range []string{"schedules_skipped_site_unreachable", "pings_seen", "comments_seen", "other_frames"} {
		if _, ok := r.stats[k]; !ok {
			c.Set(k, 0)
		}
	}
	if r.minSig != "" {
		c.Set("minimal_schedule_crash", r.minSig)
	}
}
