package c19

import (
	"bufio"
	"context"
	"encoding/json"
	"fmt"
	"io"
	"log/slog"
	"net/http"
	"net/http/httptest"
	"net/url"
	"os"
	"runtime"
	"runtime/pprof"
	"strconv"
	"strings"
	"sync"
	"time"

	"github.com/a-h/templ/cmd/templ/generatecmd/proxy"
)

// "Through the proxy" part: in the product a browser reaches the reload event
// stream through proxy.Handler (GET /_templ/reload/events -> sse handler,
// Handler.SendSSE -> broadcast). Real HTTP clients connect to an httptest
// server running proxy.New(...) with loggers at INFO and at DEBUG level.
//
// ORACLE: every client whose subscription is established (first bytes of the
// stream read) and that has not left must receive every event broadcast
// afterwards (bounded wait = the usual 10 s watchdog; the state is created by
// the harness, so its firing is a violation); a stream that ends although the
// client did not leave is a violation; after all clients left and the server
// closed, the goroutine count returns to the baseline.

type proxyResult struct {
	Sessions  int            `json:"sessions"`
	Clients   int            `json:"clients"`
	Delivered int            `json:"delivered"`
	Levels    map[string]int `json:"levels"`
	Viol      []kvp          `json:"viol,omitempty"`
	Inconc    []string       `json:"inconc,omitempty"`
}

type kvp struct {
	Key, Summary string
}

type pxClient struct {
	mu     sync.Mutex
	cancel context.CancelFunc
	bytes  int
	got    map[string]int
	ended  bool
	endErr string
	left   bool
}

// read parses text/event-stream lines (comments ignored, data lines joined,
// events without data not dispatched) and records events by their data.
func (c *pxClient) read(body io.ReadCloser) {
	defer body.Close()
	br := bufio.NewReader(body)
	var data []string
	has := false
	for {
		line, err := br.ReadString('\n')
		c.mu.Lock()
		c.bytes += len(line)
		c.mu.Unlock()
		if err != nil {
			c.mu.Lock()
			c.ended, c.endErr = true, err.Error()
			c.mu.Unlock()
			return
		}
		line = strings.TrimRight(line, "\r\n")
		switch {
		case line == "":
			if has {
				c.mu.Lock()
				c.got[strings.Join(data, "\n")]++
				c.mu.Unlock()
			}
			data, has = nil, false
		case line[0] == ':':
		default:
			name, value := line, ""
			if i := strings.IndexByte(line, ':'); i >= 0 {
				name, value = line[:i], strings.TrimPrefix(line[i+1:], " ")
			}
			if name == "data" {
				data = append(data, value)
				has = true
			}
		}
	}
}

func templGoroutines() string {
	var sb strings.Builder
	_ = pprof.Lookup("goroutine").WriteTo(&sb, 1)
	var keep []string
	for _, blk := range strings.Split(sb.String(), "\n\n") {
		if strings.Contains(blk, "a-h/templ/") {
			keep = append(keep, blk)
		}
	}
	out := strings.Join(keep, "\n\n")
	if len(out) > 2500 {
		out = out[:2500]
	}
	return out
}

func pxWait(pred func() bool, d time.Duration) bool {
	deadline := time.Now().Add(d)
	for !pred() {
		if time.Now().After(deadline) {
			return false
		}
		time.Sleep(200 * time.Microsecond)
	}
	return true
}

func proxySession(res *proxyResult, idx int, level slog.Level, k int, wd time.Duration) {
	viol := func(key, f string, a ...any) {
		res.Viol = append(res.Viol, kvp{key, fmt.Sprintf("[logger level %v, %d clients] ", level, k) + fmt.Sprintf(f, a...)})
	}
	base := runtime.NumGoroutine()
	log := slog.New(slog.NewTextHandler(io.Discard, &slog.HandlerOptions{Level: level}))
	backend := httptest.NewServer(http.HandlerFunc(func(w http.ResponseWriter, r *http.Request) { fmt.Fprint(w, "<html><body>x</body></html>") }))
	target, _ := url.Parse(backend.URL)
	h := proxy.New(log, "127.0.0.1", 0, target)
	srv := httptest.NewServer(h)
	tr := &http.Transport{DisableKeepAlives: true}
	hc := &http.Client{Transport: tr}
	res.Sessions++
	res.Levels[level.String()]++
	var clients []*pxClient
	connect := func() *pxClient {
		ctx, cancel := context.WithCancel(context.Background())
		c := &pxClient{cancel: cancel, got: map[string]int{}}
		req, _ := http.NewRequestWithContext(ctx, http.MethodGet, srv.URL+"/_templ/reload/events", nil)
		resp, err := hc.Do(req)
		if err != nil {
			viol("proxy/connect-failed", "GET /_templ/reload/events failed: %v", err)
			cancel()
			return nil
		}
		if resp.StatusCode != 200 {
			viol("proxy/connect-failed", "GET /_templ/reload/events returned status %d", resp.StatusCode)
			resp.Body.Close()
			cancel()
			return nil
		}
		go c.read(resp.Body)
		res.Clients++
		// subscription established = first bytes of the stream
		if !pxWait(func() bool { c.mu.Lock(); defer c.mu.Unlock(); return c.bytes > 0 || c.ended }, wd) {
			viol("proxy/no-stream", "a client connected through the proxy received no byte of the event stream within %v", wd)
		}
		clients = append(clients, c)
		return c
	}
	n := 0
	broadcast := func() {
		data := fmt.Sprintf("px-%d-%d", idx, n)
		n++
		h.SendSSE("message", data)
		for ci, c := range clients {
			if c.left {
				continue
			}
			ok := pxWait(func() bool { c.mu.Lock(); defer c.mu.Unlock(); return c.got[data] > 0 || c.ended }, wd)
			c.mu.Lock()
			got, ended, endErr := c.got[data], c.ended, c.endErr
			c.mu.Unlock()
			switch {
			case got > 0:
				res.Delivered++
			case ended:
				viol("proxy/stream-dropped", "client %d's event stream through the proxy ended (%s) although it did not leave; it never received %q", ci, endErr, data)
				c.left = true
			case !ok:
				viol("proxy/lost-event", "client %d, connected through the proxy, did not receive %q within %v", ci, data, wd)
			}
		}
	}
	for i := 0; i < k; i++ {
		connect()
	}
	broadcast()
	if len(clients) > 0 {
		c := clients[0]
		c.left = true
		c.cancel()
		pxWait(func() bool { c.mu.Lock(); defer c.mu.Unlock(); return c.ended }, wd)
	}
	broadcast()
	connect()
	broadcast()
	broadcast()
	for _, c := range clients {
		c.left = true
		c.cancel()
	}
	for _, c := range clients {
		pxWait(func() bool { c.mu.Lock(); defer c.mu.Unlock(); return c.ended }, wd)
	}
	srv.Close()
	backend.Close()
	tr.CloseIdleConnections()
	if !pxWait(func() bool { return runtime.NumGoroutine() <= base }, 5*time.Second) {
		if st := templGoroutines(); st != "" {
			viol("proxy/goroutine-leak", "%d goroutines above baseline after every client left and the server closed: %s", runtime.NumGoroutine()-base, st)
		} else {
			res.Inconc = append(res.Inconc, fmt.Sprintf("goroutine count %d above baseline %d without templ frames", runtime.NumGoroutine(), base))
		}
	}
}

// childProxy: --child proxy <results.json> <repetitions>
func childProxy(args []string) int {
	if len(args) < 2 {
		return 2
	}
	reps, _ := strconv.Atoi(args[1])
	wd := 10 * time.Second
	res := &proxyResult{Levels: map[string]int{}}
	idx := 0
	for r := 0; r < reps && len(res.Viol) == 0; r++ {
		for _, level := range []slog.Level{slog.LevelInfo, slog.LevelDebug} {
			for _, k := range []int{1, 3} {
				proxySession(res, idx, level, k, wd)
				idx++
			}
		}
	}
	b, _ := json.Marshal(res)
	if err := os.WriteFile(args[0], b, 0o644); err != nil {
		fmt.Fprintln(os.Stderr, err)
		return 2
	}
	return 0
}
