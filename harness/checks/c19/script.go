package c19

import (
	"fmt"
	"math/rand"
	"strings"
)

// A Script is a schedule: a flat list of steps the director (child process)
// executes in order against one fresh sse.Handler. Steps marked Async start the
// operation and go on; everything else waits for the named condition. Gates
// ("deliver", "registered") park goroutines of the code under test inside the
// verif hook until released.
type Step struct {
	Op    string `json:"op"`
	C     int    `json:"c,omitempty"`
	E     int    `json:"e,omitempty"`
	N     int    `json:"n,omitempty"`
	Site  string `json:"site,omitempty"`
	Async bool   `json:"async,omitempty"`
}

type Script struct {
	Idx     int    `json:"idx"`
	Name    string `json:"name"`
	Clients int    `json:"clients"`
	Sends   int    `json:"sends"`
	Steps   []Step `json:"steps"`
}

// Step vocabulary (see child.go for the exact semantics):
//
//	sub c [async]        start ServeHTTP for client c; sync: wait until the response started (first bytes or flush) or it exited
//	awaitsub c           wait until c's response started (or exit)
//	cancel c [async]     cancel c's request context; sync: wait until ServeHTTP returned
//	awaitexit c          wait until c's ServeHTTP returned
//	send e [async]       Handler.Send("message", id(e)); sync: wait until Send returned
//	awaitsend e
//	gate site on|off     park goroutines reaching hook <site>; off releases all
//	waitparked site n    wait until n goroutines are parked at <site>
//	release site n       let n parked goroutines continue
//	stall c / unstall c  c's Write blocks (stalled browser) / continues
//	awaitblocked c       wait until c's handler is blocked inside Write
//	failwrites c         c's Write returns an error from now on (connection reset)
//	awaitrecv c e        PROGRESS MONITOR: c must receive e (watchdog firing = violation)
//	awaitunreg c         wait for c's "unregistered" hook
//	hold n               let n milliseconds of REAL time pass (long stalls: the handler has no virtual clock)
func (s Step) String() string {
	a := ""
	if s.Async {
		a = " async"
	}
	switch s.Op {
	case "sub", "cancel":
		return fmt.Sprintf("%s c%d%s", s.Op, s.C, a)
	case "awaitsub", "awaitexit", "stall", "unstall", "awaitblocked", "failwrites", "awaitunreg":
		return fmt.Sprintf("%s c%d", s.Op, s.C)
	case "send":
		return fmt.Sprintf("send e%d%s", s.E, a)
	case "awaitsend":
		return fmt.Sprintf("awaitsend e%d", s.E)
	case "gate":
		if s.N == 1 {
			return "gate " + s.Site + " on"
		}
		return "gate " + s.Site + " off"
	case "waitparked", "release":
		return fmt.Sprintf("%s %s %d", s.Op, s.Site, s.N)
	case "awaitrecv":
		return fmt.Sprintf("awaitrecv c%d e%d", s.C, s.E)
	case "hold":
		return fmt.Sprintf("hold %dms", s.N)
	}
	return s.Op
}

func (s Script) Text() string {
	var parts []string
	for _, st := range s.Steps {
		parts = append(parts, st.String())
	}
	return strings.Join(parts, "; ")
}

// builder simulates what the harness itself knows for sure (which clients it
// has subscribed and not cancelled, how many deliveries it has parked) so
// that every wait in a generated script is satisfiable on correct code.
type builder struct {
	s        Script
	live     []int // subscribed, not cancelled / failing
	parked   int   // deliveries parked at the "deliver" gate
	maxC     int
	maxSends int
}

func newBuilder(name string, maxC, maxSends int) *builder {
	return &builder{s: Script{Name: name}, maxC: maxC, maxSends: maxSends}
}

func (b *builder) add(st Step)   { b.s.Steps = append(b.s.Steps, st) }
func (b *builder) canSub() bool  { return b.s.Clients < b.maxC }
func (b *builder) canSend() bool { return b.s.Sends < b.maxSends }
func (b *builder) sub(async bool) int {
	c := b.s.Clients
	b.s.Clients++
	b.add(Step{Op: "sub", C: c, Async: async})
	b.live = append(b.live, c)
	return c
}
func (b *builder) dropLive(c int) {
	for i, x := range b.live {
		if x == c {
			b.live = append(b.live[:i:i], b.live[i+1:]...)
			return
		}
	}
}
func (b *builder) cancel(c int, async bool) {
	b.add(Step{Op: "cancel", C: c, Async: async})
	b.dropLive(c)
}
func (b *builder) send(async bool) int {
	e := b.s.Sends
	b.s.Sends++
	b.add(Step{Op: "send", E: e, Async: async})
	return e
}
func (b *builder) gate(site string, on bool) {
	n := 0
	if on {
		n = 1
	}
	b.add(Step{Op: "gate", Site: site, N: n})
	if site == "deliver" && !on {
		b.parked = 0
	}
}

// gatedSend: Send while the deliver gate is closed; exactly one delivery
// goroutine per live client must park.
func (b *builder) gatedSend() int {
	e := b.send(false)
	b.parked += len(b.live)
	b.add(Step{Op: "waitparked", Site: "deliver", N: b.parked})
	return e
}
func (b *builder) release(n int) {
	if n > b.parked {
		n = b.parked
	}
	if n <= 0 {
		return
	}
	b.add(Step{Op: "release", Site: "deliver", N: n})
	b.parked -= n
}
func (b *builder) op(op string, c int) { b.add(Step{Op: op, C: c}) }

// ---- episodes (each leaves the system at a quiet point: no async operation
// of the harness outstanding, no gate closed, nobody stalled)

// epFree: ungated churn — subscriptions, cancellations and broadcasts started
// asynchronously so that they overlap inside the handler.
func (b *builder) epFree(r *rand.Rand) {
	var asyncSubs, asyncCancels, asyncSends []int
	n := 2 + r.Intn(7)
	for i := 0; i < n; i++ {
		switch k := r.Intn(10); {
		case k < 3 && b.canSub():
			a := r.Intn(2) == 0
			c := b.sub(a)
			if a {
				asyncSubs = append(asyncSubs, c)
			}
		case k < 6 && len(b.live) > 0:
			c := b.live[r.Intn(len(b.live))]
			a := r.Intn(2) == 0
			b.cancel(c, a)
			if a {
				asyncCancels = append(asyncCancels, c)
			}
		case b.canSend():
			a := r.Intn(2) == 0
			e := b.send(a)
			if a {
				asyncSends = append(asyncSends, e)
			}
		}
	}
	for _, c := range asyncSubs {
		b.op("awaitsub", c)
	}
	for _, e := range asyncSends {
		b.add(Step{Op: "awaitsend", E: e})
	}
	for _, c := range asyncCancels {
		b.op("awaitexit", c)
	}
}

// epGated: deliveries parked at the hook while clients leave / join, then
// released one by one or all at once.
func (b *builder) epGated(r *rand.Rand) {
	if len(b.live) == 0 && b.canSub() {
		b.sub(false)
	}
	if !b.canSend() {
		return
	}
	b.gate("deliver", true)
	n := 1 + r.Intn(3)
	for i := 0; i < n && b.canSend(); i++ {
		b.gatedSend()
		for j := r.Intn(3); j > 0; j-- {
			switch k := r.Intn(6); {
			case k < 3 && len(b.live) > 0:
				b.cancel(b.live[r.Intn(len(b.live))], false)
			case k < 4 && b.canSub():
				b.sub(false)
			case k < 6 && b.parked > 0:
				b.release(1 + r.Intn(b.parked))
			}
		}
	}
	b.gate("deliver", false)
}

// epStall: one client's writer is stalled inside Write (stalled browser);
// PROGRESS: Send returns and every other live client receives meanwhile.
func (b *builder) epStall(r *rand.Rand) {
	if len(b.live) == 0 {
		if !b.canSub() {
			return
		}
		b.sub(false)
	}
	if !b.canSend() {
		return
	}
	c := b.live[r.Intn(len(b.live))]
	b.op("stall", c)
	b.send(false)
	b.op("awaitblocked", c)
	for i := r.Intn(3); i > 0 && b.canSend(); i-- {
		e := b.send(false)
		for _, o := range b.live {
			if o != c {
				b.add(Step{Op: "awaitrecv", C: o, E: e})
			}
		}
		if r.Intn(3) == 0 && len(b.live) > 1 {
			o := b.live[r.Intn(len(b.live))]
			if o != c {
				b.cancel(o, false)
			}
		}
	}
	leave := r.Intn(2) == 0
	if leave {
		b.cancel(c, true)
	}
	b.op("unstall", c)
	if leave {
		b.op("awaitexit", c)
	}
}

// epRegGate: a client is held right after it registered, before it enters its
// loop ("cancel before registration completes").
func (b *builder) epRegGate(r *rand.Rand) {
	if !b.canSub() {
		return
	}
	b.gate("registered", true)
	c := b.sub(true)
	b.add(Step{Op: "waitparked", Site: "registered", N: 1})
	if r.Intn(3) > 0 && b.canSend() {
		b.send(false)
	}
	leave := r.Intn(2) == 0
	if leave {
		b.cancel(c, true)
	}
	if r.Intn(3) == 0 && b.canSend() {
		b.send(false)
	}
	b.gate("registered", false)
	b.op("awaitsub", c)
	if leave {
		b.op("awaitexit", c)
	}
}

// epFail: a client's connection breaks (Write returns an error).
func (b *builder) epFail(r *rand.Rand) {
	if len(b.live) == 0 || !b.canSend() {
		return
	}
	c := b.live[r.Intn(len(b.live))]
	b.op("failwrites", c)
	b.dropLive(c)
	var asyncSends []int
	for i := 1 + r.Intn(3); i > 0 && b.canSend(); i-- {
		a := r.Intn(3) == 0
		e := b.send(a)
		if a {
			asyncSends = append(asyncSends, e)
		}
	}
	for _, e := range asyncSends {
		b.add(Step{Op: "awaitsend", E: e})
	}
	b.op("awaitexit", c)
}

// sitesNeeded lists the hook sites a script parks goroutines at.
func (s Script) sitesNeeded() []string {
	seen := map[string]bool{}
	var out []string
	for _, st := range s.Steps {
		if (st.Op == "gate" || st.Op == "waitparked" || st.Op == "release") && !seen[st.Site] {
			seen[st.Site] = true
			out = append(out, st.Site)
		}
	}
	return out
}

// ProbeScript: one client, one broadcast. Its hook counts tell which of the
// yield points the implementation under test still has.
func ProbeScript() Script {
	b := newBuilder("probe", 1, 1)
	b.sub(false)
	e := b.send(false)
	b.add(Step{Op: "awaitrecv", C: 0, E: e})
	b.cancel(0, false)
	return b.s
}

// randomScript composes 2..5 episodes over one handler. Episodes that need a
// hook site the implementation does not have (reach[site] == false) are
// replaced by ungated churn; with every site present the scripts are exactly
// those of the seed.
func randomScript(r *rand.Rand, idx int, reach map[string]bool) Script {
	b := newBuilder("random", 4+r.Intn(9), 3+r.Intn(8))
	for i := r.Intn(3); i > 0; i-- {
		b.sub(false)
	}
	for ep := 2 + r.Intn(4); ep > 0; ep-- {
		switch r.Intn(9) {
		case 0, 1, 2:
			b.epFree(r)
		case 3, 4, 5:
			if reach["deliver"] {
				b.epGated(r)
			} else {
				b.epFree(r)
			}
		case 6:
			b.epStall(r)
		case 7:
			if reach["registered"] {
				b.epRegGate(r)
			} else {
				b.epFree(r)
			}
		case 8:
			b.epFail(r)
		}
	}
	// async sends started by epFail are awaited by the director's teardown
	b.s.Idx = idx
	return b.s
}

// MinimalCrashScript is the canonical witness schedule of DESIGN §5 / C19:
// one client, its delivery parked, the client leaves, the delivery resumes.
func MinimalCrashScript() Script {
	b := newBuilder("forced/park-cancel-release k=1 j=0", 12, 10)
	b.sub(false)
	b.gate("deliver", true)
	b.gatedSend()
	b.cancel(0, false)
	b.gate("deliver", false)
	return b.s
}

// LongStallLadder: how long (seconds of real time) a connected client is kept
// stalled inside ResponseWriter.Write in the long-stall schedules. A run covers
// the whole ladder of its tier.
func LongStallLadder(quick bool) []float64 {
	if quick {
		return []float64{6.5}
	}
	return []float64{6.5, 16, 35, 65}
}

// longStallScript: c0's writer blocks (stalled browser, created at the client
// boundary, no hook involved) while e0 is being written to it; e1 and e2 are
// broadcast meanwhile — the healthy c1 must get them promptly and Send must
// return (progress monitor); c0 stays stalled for T seconds of real time, then
// resumes. c0 never disconnected, so it is a stable client of the history and
// the delivery monitor requires e0, e1 and e2 in its receiver sets.
func longStallScript(seconds float64) Script {
	b := newBuilder(fmt.Sprintf("forced/long-stall T=%gs", seconds), 12, 10)
	b.sub(false)
	b.sub(false)
	b.op("stall", 0)
	b.send(false)
	b.op("awaitblocked", 0)
	for i := 0; i < 2; i++ {
		e := b.send(false)
		b.add(Step{Op: "awaitrecv", C: 1, E: e})
	}
	b.add(Step{Op: "hold", N: int(seconds * 1000)})
	b.op("unstall", 0)
	return b.s
}

// forcedScripts enumerates the schedules of DESIGN C19 "forced schedules".
func forcedScripts() []Script {
	var out []Script
	add := func(b *builder) { out = append(out, b.s) }
	nb := func(f string, a ...any) *builder { return newBuilder("forced/"+fmt.Sprintf(f, a...), 12, 10) }
	// F1 park the deliveries, cancel client j, let the handler unregister, release
	for k := 1; k <= 3; k++ {
		for j := 0; j < k; j++ {
			b := nb("park-cancel-release k=%d j=%d", k, j)
			for i := 0; i < k; i++ {
				b.sub(false)
			}
			b.gate("deliver", true)
			b.gatedSend()
			b.cancel(j, false)
			b.gate("deliver", false)
			add(b)
		}
	}
	// F1b two broadcasts parked, then the cancel
	for k := 1; k <= 2; k++ {
		b := nb("park2-cancel-release k=%d", k)
		for i := 0; i < k; i++ {
			b.sub(false)
		}
		b.gate("deliver", true)
		b.gatedSend()
		b.gatedSend()
		b.cancel(0, false)
		b.gate("deliver", false)
		add(b)
	}
	// F1c deliveries released one at a time with cancels in between
	for k := 2; k <= 3; k++ {
		b := nb("park-release1-cancel k=%d", k)
		for i := 0; i < k; i++ {
			b.sub(false)
		}
		b.gate("deliver", true)
		b.gatedSend()
		for i := 0; i < k-1; i++ {
			b.release(1)
			b.cancel(i, false)
		}
		b.gate("deliver", false)
		add(b)
	}
	// F2 cancel during write: the client is blocked inside Write while further
	// deliveries for it queue up; it is cancelled, then the write completes
	for k := 1; k <= 2; k++ {
		for s := 0; s <= 2; s++ {
			b := nb("cancel-during-write k=%d extra=%d", k, s)
			for i := 0; i < k; i++ {
				b.sub(false)
			}
			b.op("stall", 0)
			b.send(false)
			b.op("awaitblocked", 0)
			for i := 0; i < s; i++ {
				e := b.send(false)
				for o := 1; o < k; o++ {
					b.add(Step{Op: "awaitrecv", C: o, E: e})
				}
			}
			b.cancel(0, true)
			b.op("unstall", 0)
			b.op("awaitexit", 0)
			add(b)
		}
	}
	// F3 cancel before registration completes
	for k := 0; k <= 1; k++ {
		for _, withSend := range []bool{false, true} {
			for _, leave := range []bool{false, true} {
				b := nb("registration-gate others=%d send=%v cancel=%v", k, withSend, leave)
				for i := 0; i < k; i++ {
					b.sub(false)
				}
				b.gate("registered", true)
				c := b.sub(true)
				b.add(Step{Op: "waitparked", Site: "registered", N: 1})
				if withSend {
					b.send(false)
				}
				if leave {
					b.cancel(c, true)
				}
				b.gate("registered", false)
				b.op("awaitsub", c)
				if leave {
					b.op("awaitexit", c)
				}
				add(b)
			}
		}
	}
	// F4 back-to-back broadcasts with a cancel between them (no gates)
	for k := 1; k <= 3; k++ {
		b := nb("send-cancel-send k=%d", k)
		for i := 0; i < k; i++ {
			b.sub(false)
		}
		b.send(false)
		b.cancel(0, true)
		b.send(false)
		b.send(false)
		b.op("awaitexit", 0)
		add(b)
	}
	// F5 connection error on write, more broadcasts behind it
	for k := 1; k <= 2; k++ {
		for s := 1; s <= 3; s++ {
			b := nb("write-error k=%d sends=%d", k, s)
			for i := 0; i < k; i++ {
				b.sub(false)
			}
			b.op("failwrites", 0)
			b.dropLive(0)
			for i := 0; i < s; i++ {
				b.send(false)
			}
			b.op("awaitexit", 0)
			add(b)
		}
	}
	// F6 progress: one stalled browser must not block Send or the others
	for k := 1; k <= 3; k++ {
		b := nb("stalled-client others=%d", k)
		for i := 0; i <= k; i++ {
			b.sub(false)
		}
		b.op("stall", 0)
		b.send(false)
		b.op("awaitblocked", 0)
		for s := 0; s < 2; s++ {
			e := b.send(false)
			for o := 1; o <= k; o++ {
				b.add(Step{Op: "awaitrecv", C: o, E: e})
			}
		}
		b.op("unstall", 0)
		add(b)
	}
	// F7 a client subscribes while deliveries of an earlier broadcast are parked
	for k := 1; k <= 2; k++ {
		b := nb("sub-while-parked k=%d", k)
		for i := 0; i < k; i++ {
			b.sub(false)
		}
		b.gate("deliver", true)
		b.gatedSend()
		b.sub(false)
		b.gatedSend()
		b.cancel(0, false)
		b.release(1)
		b.gate("deliver", false)
		add(b)
	}
	for i := range out {
		out[i].Idx = i
	}
	return out
}
