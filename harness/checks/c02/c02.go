// Package c02: generated Go code compiles and renders exactly what the
// template denotes. Model programs (verif/model) are printed in random
// spellings, passed through the real `templ generate` and the Go compiler,
// rendered with several argument vectors, and the observed bytes and
// evaluation trace are compared offline with the reference interpreter.
package c02

import (
	"bytes"
	"encoding/base64"
	"encoding/json"
	"fmt"
	"go/format"
	"math/rand"
	"regexp"
	"sort"
	"strings"
	"sync"
	"time"

	"github.com/a-h/templ/generator"
	parser "github.com/a-h/templ/parser/v2"

	"verif/core"
	"verif/corpus"
	"verif/model"
)

type replayCase struct {
	Seed    int64       `json:"seed"`
	Source  string      `json:"source"`  // "random" | "matrix"
	Batch   int         `json:"batch"`
	Index   int         `json:"index"`
	Program string      `json:"program"` // printed .templ text
	Args    *model.Args `json:"args,omitempty"`
	Detail  string      `json:"detail"`
}

type prog struct {
	Cell   string
	P      *model.Program
	Src    string
	Args   []*model.Args
	Source string
	Batch  int
	Index  int
}

// accepted reports whether parse + generate + gofmt succeed in-process (the
// same steps `templ generate` performs per file).
func accepted(src string) error {
	tf, err := parser.ParseString(src)
	if err != nil {
		return fmt.Errorf("parse: %w", err)
	}
	var b bytes.Buffer
	if _, err := generator.Generate(tf, &b); err != nil {
		return fmt.Errorf("generate: %w", err)
	}
	if _, err := format.Source(b.Bytes()); err != nil {
		return fmt.Errorf("gofmt: %w", err)
	}
	return nil
}

var numRe = regexp.MustCompile(`[0-9]+`)

func normErr(s string) string { return numRe.ReplaceAllString(s, "N") }

func Run(c *core.Ctx) {
	c.Rule = "model programs (elements block/inline/void, text with character references, string expressions incl. (string,error) and multi-line, if/else-if/else, for (4 forms), switch (3 forms), calls with/without block incl. legacy syntax, children slots, raw Go blocks, HTML/Go comments, doctype, style/script raw elements, attributes: constant in 3 quotings, boolean, ?=, expression, spread, conditional with else, class lists, href) printed with random separators/layouts, compiled through the real templ generate + go build, rendered with several argument vectors; oracle = reference interpreter (token stream + whitespace-gap rule + evaluation-trace set). non-trivial = program has >=1 control-flow node and >=1 element with a dynamic attribute or expression; distinct by printed source hash"
	c.Assume("embedded Go is well typed and does not import templ itself; dynamic string values contain no whitespace (exactness of values is C01)")
	c.Assume("whitespace-gap rule (DESIGN §3 wsgap): required only between sibling inline items separated by source whitespace and inside literal text; forbidden where no source whitespace lies on the path; optional elsewhere")
	c.Assume("x/net/html tokenizer as the HTML5 reader")

	var only *replayCase
	if c.ReplayFile != "" {
		var rc replayCase
		c.LoadReplay(&rc)
		c.Seed = rc.Seed
		only = &rc
		c.NontrivialN(2) // a replay runs one program; do not report it as "observed nothing"
	}
	nBatches := c.Pick(2, 96)
	perBatch := c.Pick(140, 220)
	nVec := c.Pick(6, 10)
	if only != nil {
		nVec = 10
		nBatches, perBatch = 0, only.Index+1
		if only.Source == "random" {
			nBatches = only.Batch + 1
		}
	}

	var batches [][]*prog
	rejected := 0
	rejectSamples := []string{}
	for b := 0; b < nBatches; b++ {
		var ps []*prog
		for i := 0; i < perBatch; i++ {
			if only != nil && (only.Source != "random" || only.Batch != b || only.Index != i) {
				continue
			}
			r := c.Rand(fmt.Sprintf("prog/%d/%d", b, i))
			name := fmt.Sprintf("P%dx%d", b, i)
			depth := 2 + r.Intn(3)
			p := model.NewProgram(r, name, depth, 6+r.Intn(30))
			src := p.Print()
			if err := accepted(src); err != nil {
				rejected++
				if len(rejectSamples) < 5 {
					rejectSamples = append(rejectSamples, err.Error()+"\n"+src)
				}
				continue
			}
			ps = append(ps, &prog{P: p, Src: src, Args: model.ArgVectors(r, nVec), Source: "random", Batch: b, Index: i})
		}
		batches = append(batches, ps)
	}
	c.Set("programs_rejected_by_parser", rejected)
	if rejected > 0 {
		c.Set("rejected_examples", rejectSamples)
	}
	total := 0
	for _, b := range batches {
		total += len(b)
	}
	if rejected*5 > total {
		c.Inconclusive(fmt.Sprintf("%d of %d printed programs were rejected by parse+generate+gofmt; first: %s", rejected, rejected+total, rejectSamples[0]))
	}

	// ---- adjacency matrix (seed independent)
	ctxs := model.MatrixContexts
	selected := map[string]bool{}
	for _, cx := range ctxs {
		selected[cx] = !c.Quick() || only != nil
	}
	for _, cx := range []string{"top", "inline-single", "elem-multi", "if-body-then-inline"} {
		selected[cx] = true
	}
	var cells []*prog
	mxRejected, mxSkipped := 0, 0
	idx := 0
	for _, cx := range ctxs {
		for _, ka := range model.MatrixKinds {
			for _, sep := range []model.Sep{model.SepNone, model.SepSpace, model.SepNL} {
				for _, kb := range model.MatrixKinds {
					idx++
					if !selected[cx] || only != nil && (only.Source != "matrix" || only.Index != idx) {
						continue
					}
					p, ok := model.MatrixCell(fmt.Sprintf("M%d", idx), cx, ka, sep, kb)
					if !ok {
						mxSkipped++
						continue
					}
					src := p.Print()
					if err := accepted(src); err != nil {
						mxRejected++
						if len(rejectSamples) < 8 {
							rejectSamples = append(rejectSamples, err.Error()+"\n"+src)
						}
						continue
					}
					cells = append(cells, &prog{P: p, Src: src, Args: model.MatrixArgs(), Source: "matrix", Batch: 1000, Index: idx,
						Cell: fmt.Sprintf("ctx=%s a=%s sep=%s b=%s", cx, ka, sep, kb)})
				}
			}
		}
	}
	for i, p := range model.AttrCells("AT") {
		idx = 100000 + i
		if only != nil && (only.Source != "matrix" || only.Index != idx) {
			continue
		}
		src := p.Print()
		if err := accepted(src); err != nil {
			core.Infra("attribute cell rejected: %v\n%s", err, src)
		}
		cells = append(cells, &prog{P: p, Src: src, Args: model.AttrCellArgs(), Source: "matrix", Batch: 1000, Index: idx, Cell: p.Label})
	}
	for i, p := range model.CallCells("CC") {
		idx = 200000 + i
		if only != nil && (only.Source != "matrix" || only.Index != idx) {
			continue
		}
		src := p.Print()
		if err := accepted(src); err != nil {
			core.Infra("call cell rejected: %v\n%s", err, src)
		}
		cells = append(cells, &prog{P: p, Src: src, Args: model.MatrixArgs(), Source: "matrix", Batch: 1000, Index: idx, Cell: p.Label})
	}
	c.Set("matrix_cells_compiled", len(cells))
	c.Set("matrix_cells_rejected_by_parser", mxRejected)
	c.Set("matrix_cells_outside_grammar", mxSkipped)
	if len(rejectSamples) > 0 {
		c.Set("rejected_examples", rejectSamples)
	}
	for i := 0; i < len(cells); i += 1400 {
		j := i + 1400
		if j > len(cells) {
			j = len(cells)
		}
		batches = append(batches, cells[i:j])
	}

	// run batches in parallel (each: templ generate, go build, run)
	par := 6
	if c.Quick() {
		par = 2
	}
	sem := make(chan struct{}, par)
	var wg sync.WaitGroup
	for bi, ps := range batches {
		wg.Add(1)
		sem <- struct{}{}
		go func(bi int, ps []*prog) {
			defer wg.Done()
			defer func() { <-sem }()
			runBatch(c, bi, ps)
		}(bi, ps)
	}
	wg.Wait()
}

func runBatch(c *core.Ctx, bi int, ps []*prog) {
	if len(ps) == 0 {
		return
	}
	if ps[0].Source == "matrix" {
		c.Sample(map[string]any{"matrix_cell": ps[len(ps)/2].Cell, "program": ps[len(ps)/2].Src})
	}
	pkg := corpus.New(c, fmt.Sprintf("c02b%d", bi))
	defer pkg.Close()
	pkg.Write("helpers.go", model.HelpersGo)
	var reg strings.Builder
	for _, p := range ps {
		pkg.Write(strings.ToLower(p.P.Name)+".templ", p.Src)
		reg.WriteString(model.RegistryEntry(p.P.Name))
	}
	pkg.Write("main.go", fmt.Sprintf(model.DriverGo, reg.String()))
	if out, err := pkg.Generate(); err != nil {
		// every file was accepted in-process by the same steps; the CLI disagreeing is a violation of determinism, not infrastructure
		c.Violate("templ generate failed on accepted files: "+normErr(firstLine(out)), "templ generate CLI failed on files that parse+generate+gofmt accept in-process: "+corpus.Tail(out, 800),
			replayCase{Seed: c.Seed, Source: "random", Batch: bi, Detail: out})
		return
	}
	live := ps
	var bin string
	for attempt := 0; ; attempt++ {
		b, out, err := pkg.Build(false, ".")
		if err == nil {
			bin = b
			break
		}
		// attribute compile errors to programs and drop them
		bad := map[string]string{}
		for _, line := range strings.Split(out, "\n") {
			if i := strings.Index(line, "_templ.go:"); i > 0 {
				f := line[:i]
				f = strings.TrimPrefix(f, "./")
				if _, ok := bad[f]; !ok {
					bad[f] = line
				}
			}
		}
		if len(bad) == 0 || attempt > 3 {
			core.Infra("go build of corpus package failed without attributable errors:\n%s", corpus.Tail(out, 1500))
		}
		var keep []*prog
		for _, p := range live {
			f := strings.ToLower(p.P.Name)
			if line, ok := bad[f]; ok {
				msg := line[strings.Index(line, "_templ.go:")+len("_templ.go:"):]
				c.Eval(1)
				c.Violate("compile: "+normErr(msg), "generated Go code does not compile: "+line,
					replayCase{Seed: c.Seed, Source: p.Source, Batch: p.Batch, Index: p.Index, Program: p.Src, Detail: line})
				pkg.Write(f+".templ", "package main\n")
				pkg.Write(f+"_templ.go", "package main\n")
				continue
			}
			keep = append(keep, p)
		}
		live = keep
		var reg strings.Builder
		for _, p := range live {
			reg.WriteString(model.RegistryEntry(p.P.Name))
		}
		pkg.Write("main.go", fmt.Sprintf(model.DriverGo, reg.String()))
	}
	// jobs
	var in bytes.Buffer
	type jref struct {
		p *prog
		a *model.Args
	}
	var refs []jref
	enc := json.NewEncoder(&in)
	for _, p := range live {
		for _, a := range p.Args {
			_ = enc.Encode(map[string]any{"p": p.P.Name, "a": a})
			refs = append(refs, jref{p, a})
		}
	}
	res := corpus.Run(bin, nil, in.Bytes(), nil, pkg.Dir, 10*time.Minute)
	if res.TimedOut {
		c.Inconclusive("driver watchdog fired")
		return
	}
	lines := bytes.Split(bytes.TrimSpace(res.Stdout), []byte("\n"))
	if res.Err != nil || len(lines) != len(refs) {
		c.Violate("driver-crash: "+normErr(firstLine(string(res.Stderr))), fmt.Sprintf("driver exited abnormally (%v) after %d of %d jobs: %s", res.Err, len(lines), len(refs), corpus.Tail(string(res.Stderr), 800)),
			replayCase{Seed: c.Seed, Batch: bi, Detail: string(res.Stderr)})
		if len(lines) > len(refs) {
			return
		}
	}
	for i, ln := range lines {
		if len(ln) == 0 || i >= len(refs) {
			continue
		}
		var r struct {
			Out   string `json:"out"`
			Err   string `json:"err"`
			Trace []int  `json:"trace"`
		}
		if err := json.Unmarshal(ln, &r); err != nil {
			core.Infra("bad driver output line: %v", err)
		}
		ref := refs[i]
		judge(c, ref.p, ref.a, r.Out, r.Err, r.Trace)
	}
	for _, p := range live {
		nt := false
		flow, dyn := false, false
		p.P.Walk(func(n *model.Node, _ int) {
			switch n.Kind {
			case model.KIf, model.KFor, model.KSwitch:
				flow = true
			case model.KExpr:
				dyn = true
			case model.KElem:
				for _, a := range n.Attrs {
					if a.Kind != model.AConst && a.Kind != model.ABoolConst {
						dyn = true
					}
				}
			}
		})
		nt = flow && dyn
		if nt {
			c.NontrivialStr(p.Src)
		}
		c.Add("programs_compiled", 1)
		if p.Index < 2 && p.Batch == 0 {
			c.Sample(map[string]any{"program": p.Src, "args": p.Args[0]})
		}
	}
}

func firstLine(s string) string {
	s = strings.TrimSpace(s)
	if i := strings.IndexByte(s, '\n'); i >= 0 {
		return s[:i]
	}
	return s
}

var digits = regexp.MustCompile(`[0-9]+`)

func judge(c *core.Ctx, p *prog, a *model.Args, outB64, rerr string, trace []int) {
	c.Eval(1)
	out, _ := base64.StdEncoding.DecodeString(outB64)
	ref := p.P.Interpret(a)
	rc := replayCase{Seed: c.Seed, Source: p.Source, Batch: p.Batch, Index: p.Index, Program: p.Src, Args: a}
	if rerr != "" {
		rc.Detail = rerr
		c.Violate("render-error: "+normErr(rerr), "rendering a well-formed program returned an error: "+rerr, rc)
		return
	}
	if mm := model.Compare(ref.Atoms, out); mm != nil {
		rc.Detail = fmt.Sprintf("%s: %s\noutput: %q", mm.Class, mm.Msg, out)
		blame := digits.ReplaceAllString(mm.Blame, "")
		if p.Cell != "" {
			blame = "matrix " + p.Cell
		}
		c.Violate(mm.Class+": "+blame, fmt.Sprintf("%s at [%s]: %s", mm.Class, mm.Blame, mm.Msg), rc)
		return
	}
	unreached, missing := model.TraceDiff(ref.Trace, trace)
	if len(unreached)+len(missing) > 0 {
		slots := p.P.ExprSlots()
		sort.Ints(unreached)
		sort.Ints(missing)
		for _, id := range unreached {
			rc.Detail = fmt.Sprintf("expression %d (%s) evaluated although control flow does not reach it", id, slots[id])
			c.Violate("evaluated-unreached: "+slots[id], rc.Detail, rc)
		}
		for _, id := range missing {
			rc.Detail = fmt.Sprintf("expression %d (%s) reached but never evaluated", id, slots[id])
			c.Violate("not-evaluated: "+slots[id], rc.Detail, rc)
		}
	}
	c.Add("renders", 1)
	c.Add("atoms_compared", len(ref.Atoms))
	for _, at := range ref.Atoms {
		switch {
		case at.GapReq:
			c.Add("gaps_required", 1)
		case !at.GapWS:
			c.Add("gaps_forbidden", 1)
		default:
			c.Add("gaps_optional", 1)
		}
	}
}

var _ = rand.Int
