package c08

import (
	"bufio"
	"bytes"
	"encoding/json"
	"fmt"
	"strings"
	"time"

	"verif/core"
	"verif/corpus"
	"verif/gen/tsrc"
)

// renderSample (thorough tier) compiles a sample of (x, fmt(x)) pairs from the
// adjacency matrix in one scratch package with the real `templ generate` and
// the Go compiler, renders both sides over three argument vectors and compares
// the bytes. It cross-checks the text-level oracle: where Check says "same
// program" the rendered bytes must be equal; where Check reports a (listed)
// difference the sample records whether it is visible in the output.
func renderSample(c *core.Ctx) {
	var pairs []tsrc.Cell
	for i, cl := range tsrc.Matrix() {
		if i%37 != 0 || strings.Contains(cl.Body, "v := 1") || strings.HasPrefix(cl.Name, "ctx=for") { // unused variables do not compile
			continue
		}
		if o := Check(cl.Src); !o.Accepted || strings.HasPrefix(o.Class, "reject") {
			continue
		}
		pairs = append(pairs, cl)
	}
	p := corpus.New(c, "c08")
	defer p.Close()
	p.Write("helpers.go", tsrc.HelpersGo)
	var reg strings.Builder
	strip := func(file, name string) string {
		file = strings.TrimPrefix(file, "package main\n\n")
		return strings.Replace(file, "templ t(", "templ "+name+"(", 1)
	}
	for i, cl := range pairs {
		F, err := tsrc.Fmt(cl.Src)
		if err != nil {
			continue
		}
		p.Write(fmt.Sprintf("p%d.templ", i), "package main\n\n"+strip(cl.Src, fmt.Sprintf("X%d", i))+"\n"+strip(F, fmt.Sprintf("F%d", i)))
		fmt.Fprintf(&reg, "\t{%d, X%d, F%d},\n", i, i, i)
	}
	p.Write("main.go", `package main

import (
	"bytes"
	"context"
	"encoding/json"
	"os"

	"github.com/a-h/templ"
)

type fn func(s string, b bool, vs []string) templ.Component

var reg = []struct {
	i    int
	x, f fn
}{
`+reg.String()+`}

type rec struct {
	I, V   int
	X, F   []byte
	XE, FE string
}

func render(f fn, s string, b bool, vs []string) ([]byte, string) {
	var w bytes.Buffer
	if err := f(s, b, vs).Render(context.Background(), &w); err != nil {
		return w.Bytes(), err.Error()
	}
	return w.Bytes(), ""
}

func main() {
	enc := json.NewEncoder(os.Stdout)
	vecs := []struct {
		s  string
		b  bool
		vs []string
	}{{"a&b", true, []string{"x", "y"}}, {"", false, nil}, {"<i>", true, []string{"z"}}}
	for _, r := range reg {
		for v, a := range vecs {
			var o rec
			o.I, o.V = r.i, v
			o.X, o.XE = render(r.x, a.s, a.b, a.vs)
			o.F, o.FE = render(r.f, a.s, a.b, a.vs)
			enc.Encode(o)
		}
	}
}
`)
	if out, err := p.Generate(); err != nil {
		c.Inconclusive("render sample: templ generate failed: " + corpus.Tail(out, 400))
		return
	}
	bin, out, err := p.Build(false, ".")
	if err != nil {
		c.Inconclusive("render sample: go build failed: " + corpus.Tail(out, 600))
		return
	}
	res := corpus.Run(bin, nil, nil, nil, p.Dir, 2*time.Minute)
	if res.Err != nil {
		c.Inconclusive("render sample: driver failed: " + corpus.Tail(string(res.Stderr), 400))
		return
	}
	differs := map[int]bool{}
	n := 0
	sc := bufio.NewScanner(bytes.NewReader(res.Stdout))
	sc.Buffer(make([]byte, 1<<20), 1<<24)
	for sc.Scan() {
		var r struct {
			I, V   int
			X, F   []byte
			XE, FE string
		}
		if json.Unmarshal(sc.Bytes(), &r) != nil {
			continue
		}
		n++
		if !bytes.Equal(r.X, r.F) || r.XE != r.FE {
			differs[r.I] = true
		}
	}
	same, confirmed, invisible := 0, 0, 0
	for i, cl := range pairs {
		o := Check(cl.Src)
		switch {
		case o.Class == "" && differs[i]:
			// equal generated programs rendering different bytes: the oracle's notion of "same program" would be broken
			c.Violate("render:"+cl.Name, "formatting changes the rendered bytes although the generated code is judged equal: "+cl.Name, tsrc.Case{Src: cl.Src, Origin: "render:" + cl.Name})
		case o.Class == "":
			same++
		case differs[i]:
			confirmed++
		default:
			invisible++
		}
	}
	c.Eval(n)
	c.Set("render_sample_pairs", len(pairs))
	c.Set("render_sample_renderings", n)
	c.Set("render_sample_equal_code_equal_bytes", same)
	c.Set("render_sample_code_difference_visible_in_bytes", confirmed)
	c.Set("render_sample_code_difference_not_visible_for_these_arguments", invisible)
}
