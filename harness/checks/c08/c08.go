// Package c08 checks "formatting never changes what a template renders".
package c08

import (
	"fmt"
	"go/scanner"
	"go/token"
	"os"
	"regexp"
	"strings"

	"verif/core"
	"verif/gen/tsrc"
)

// Check is the C08 oracle for one program x (the trusted base):
//
//  1. x counts only if `templ generate` accepts it: parse + generate + gofmt.
//  2. F = fmt(x), what `templ fmt` writes for x.
//  3. F must be accepted too                            (else class reject:<stage>)
//  4. norm(gen(x)) == norm(gen(F)) where norm = gofmt, then masking of
//     `Line: n, Col: m` inside templ.Error{…} literals — nothing else
//     (else class differs:ws when the two texts are equal after deleting all
//     whitespace, i.e. only whitespace inside string literals differs, and
//     differs:other otherwise). Two texts that are the same Go token sequence
//     (they differ only in line breaks gofmt preserves inside expressions) are
//     the same program: held, counted as layout_only_difference.
//
// The class is only used to keep a reduction on the same kind of failure.
func Check(src string) tsrc.Outcome {
	g, err := tsrc.Gen(src)
	if err != nil {
		return tsrc.Outcome{}
	}
	F, err := tsrc.Fmt(src)
	if err != nil {
		// the generator's parser accepted x a moment ago; the formatter could not write it
		return tsrc.Outcome{Accepted: true, Changed: true, Class: "reject:fmt", Detail: fmt.Sprintf("templ fmt fails on an accepted file: %v", err)}
	}
	o := tsrc.Outcome{Accepted: true, Changed: F != src}
	gF, err := tsrc.Gen(F)
	if err != nil {
		o.Class = "reject:" + err.(*tsrc.GenError).Stage
		o.Detail = fmt.Sprintf("formatted file is rejected by templ generate (%v); fmt output: %s", err, core.Q(clip(F, 300)))
		return o
	}
	a, b := tsrc.Norm(g), tsrc.Norm(gF)
	if a == b {
		return o
	}
	if sameTokens(a, b) {
		// gofmt keeps the line breaks a user (or the formatter) put inside an
		// argument list; the two files then differ as text but are the same
		// token sequence, i.e. the same program in a different gofmt-level layout.
		o.Note = "layout_only_difference"
		return o
	}
	o.Class = "differs:other"
	if wsOnly(a) == wsOnly(b) {
		o.Class = "differs:ws"
	}
	la, lb := firstDiff(a, b)
	o.Detail = fmt.Sprintf("generated code differs after formatting; fmt output %s; original generates %s, formatted generates %s",
		core.Q(clip(bodyOf(F), 300)), core.Q(clip(la, 200)), core.Q(clip(lb, 200)))
	return o
}

// sameTokens compares two Go files as token sequences (go/scanner, automatic
// semicolons included; comments and optional trailing commas excluded).
func sameTokens(a, b string) bool {
	ta, oka := tokens(a)
	tb, okb := tokens(b)
	if !oka || !okb || len(ta) != len(tb) {
		return false
	}
	for i := range ta {
		if ta[i] != tb[i] {
			return false
		}
	}
	return true
}

func tokens(src string) ([]string, bool) {
	var s scanner.Scanner
	fset := token.NewFileSet()
	ok := true
	s.Init(fset.AddFile("", fset.Base(), len(src)), []byte(src), func(token.Position, string) { ok = false }, 0)
	var out []string
	for {
		_, tok, lit := s.Scan()
		if tok == token.EOF {
			break
		}
		if tok == token.SEMICOLON {
			lit = ";"
		}
		if tok == token.COMMENT {
			continue
		}
		// a comma before a closing bracket is optional in Go
		if (tok == token.RPAREN || tok == token.RBRACE || tok == token.RBRACK) && len(out) > 0 && out[len(out)-1] == token.COMMA.String()+"\x00" {
			out = out[:len(out)-1]
		}
		out = append(out, tok.String()+"\x00"+lit)
	}
	return out, ok
}

func bodyOf(src string) string {
	if b, ok := tsrc.BodyOf(src); ok {
		return b
	}
	return src
}

var (
	reLitIndex   = regexp.MustCompile(`WriteString\(templ_7745c5c3_Buffer, \d+, `)
	emptyLitStmt = `templ_7745c5c3_Err=templruntime.WriteString(templ_7745c5c3_Buffer,0,"")iftempl_7745c5c3_Err!=nil{returntempl_7745c5c3_Err}`
)

// wsOnly erases everything by which two generated programs differ when they
// only emit different amounts of whitespace: the running index of literal
// writes, all whitespace (also inside string literals) and writes of literals
// that consist of whitespace only. Used for the failure class, not the verdict.
func wsOnly(s string) string {
	s = reLitIndex.ReplaceAllString(s, "WriteString(templ_7745c5c3_Buffer, 0, ")
	return strings.ReplaceAll(stripWS(s), emptyLitStmt, "")
}

func stripWS(s string) string {
	return strings.Map(func(r rune) rune {
		if r == ' ' || r == '\t' || r == '\n' || r == '\r' {
			return -1
		}
		return r
	}, s)
}

func firstDiff(a, b string) (string, string) {
	la, lb := strings.Split(a, "\n"), strings.Split(b, "\n")
	for i := 0; i < len(la) && i < len(lb); i++ {
		if la[i] != lb[i] {
			return strings.TrimSpace(la[i]), strings.TrimSpace(lb[i])
		}
	}
	return fmt.Sprintf("%d lines", len(la)), fmt.Sprintf("%d lines", len(lb))
}

func clip(s string, n int) string {
	if len(s) > n {
		return s[:n] + "…"
	}
	return s
}

// Weaker orders failure classes for the reducer: a program whose generated
// code differs in more than whitespace may contain a whitespace-only cause
// next to another one; the reduction may isolate either.
func Weaker(from, to string) bool { return from == "differs:other" && to == "differs:ws" }

// Run is the C08 check.
func Run(c *core.Ctx) {
	c.Rule = "programs = every .templ file, formattestdata section and documentation code block found in the repository at run time + the complete adjacency matrix (22 node kinds^2 x 3 separators x 7 parent contexts, and every kind alone with 3x3 lead/trail whitespace) + attribute/expression/file spelling cells + seeded random compositions (depth<=4, random spellings) + token-level mutants of corpus files and cells; a program counts (evaluations) only if parse+generate+gofmt accept it; non-trivial = the formatter changes the text (fmt(x) != x), distinct by program text"
	c.Assume("`templ fmt` is modelled in-process as parser.ParseString -> TemplateFile.Write (the stdin path of fmtcmd; imports.Process is the identity when no file path is known), `templ generate` as parser.ParseString -> generator.Generate(WithFileName) -> go/format.Source")
	c.Assume("'same program' is decided on the generated Go text after gofmt and masking of Line/Col inside templ.Error literals; the Go compiler is not run in this tier")
	if os.Getenv("VERIF_C08_RENDER_ONLY") != "" { // development switch: only the compile-and-render sample
		renderSample(c)
		return
	}
	r := tsrc.NewRunner(c, Check, "formatting changes the program")
	r.Weaker = Weaker
	r.Run()
	if !c.Quick() && c.ReplayFile == "" {
		renderSample(c)
	}
}
