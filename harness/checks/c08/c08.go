// Package c08 checks "formatting never changes what a template renders".
package c08

import (
	"fmt"
	"go/scanner"
	"go/token"
	"os"
	"regexp"
	"strings"

	"verif/core"
	"verif/corpus"
	"verif/gen/tsrc"
)

// Check is the C08 oracle for one program x (the trusted base):
//
//  1. x counts only if `templ generate` accepts it: parse + generate + gofmt.
//  2. F = fmt(x), what `templ fmt` writes for x.
//  3. F must be accepted too                            (else class reject:<stage>)
//  4. norm(gen(x)) == norm(gen(F)) where norm = gofmt, then masking of
//     `Line: n, Col: m` inside templ.Error{…} literals — nothing else
//     (else class differs:ws when the two texts are equal after deleting all
//     whitespace, i.e. only whitespace inside string literals differs, and
//     differs:other otherwise). Two texts that are the same Go token sequence
//     (they differ only in line breaks gofmt preserves inside expressions) are
//     the same program: held, counted as layout_only_difference.
//
// The class is only used to keep a reduction on the same kind of failure.
func Check(src string) tsrc.Outcome {
	g, err := tsrc.Gen(src)
	if err != nil {
		return tsrc.Outcome{}
	}
	F, err := tsrc.Fmt(src)
	if err != nil {
		// the generator's parser accepted x a moment ago; the formatter could not write it
		return tsrc.Outcome{Accepted: true, Changed: true, Class: "reject:fmt", Detail: fmt.Sprintf("templ fmt fails on an accepted file: %v", err)}
	}
	o := tsrc.Outcome{Accepted: true, Changed: F != src}
	gF, err := tsrc.Gen(F)
	if err != nil {
		o.Class = "reject:" + err.(*tsrc.GenError).Stage
		o.Detail = fmt.Sprintf("formatted file is rejected by templ generate (%v); fmt output: %s", err, core.Q(clip(F, 300)))
		return o
	}
	a, b := tsrc.Norm(g), tsrc.Norm(gF)
	if a == b {
		return o
	}
	if sameTokens(a, b) {
		// gofmt keeps the line breaks a user (or the formatter) put inside an
		// argument list; the two files then differ as text but are the same
		// token sequence, i.e. the same program in a different gofmt-level layout.
		o.Note = "layout_only_difference"
		return o
	}
	o.Class = "differs:other"
	if wsOnly(a) == wsOnly(b) {
		o.Class = "differs:ws"
	}
	la, lb := firstDiff(a, b)
	o.Detail = fmt.Sprintf("generated code differs after formatting; fmt output %s; original generates %s, formatted generates %s",
		core.Q(clip(bodyOf(F), 300)), core.Q(clip(la, 200)), core.Q(clip(lb, 200)))
	return o
}

// sameTokens compares two Go files as token sequences (go/scanner, automatic
// semicolons included; comments and optional trailing commas excluded).
func sameTokens(a, b string) bool {
	ta, oka := tokens(a)
	tb, okb := tokens(b)
	if !oka || !okb || len(ta) != len(tb) {
		return false
	}
	for i := range ta {
		if ta[i] != tb[i] {
			return false
		}
	}
	return true
}

func tokens(src string) ([]string, bool) {
	var s scanner.Scanner
	fset := token.NewFileSet()
	ok := true
	s.Init(fset.AddFile("", fset.Base(), len(src)), []byte(src), func(token.Position, string) { ok = false }, 0)
	var out []string
	for {
		_, tok, lit := s.Scan()
		if tok == token.EOF {
			break
		}
		if tok == token.SEMICOLON {
			lit = ";"
		}
		if tok == token.COMMENT {
			continue
		}
		// a comma before a closing bracket is optional in Go
		if (tok == token.RPAREN || tok == token.RBRACE || tok == token.RBRACK) && len(out) > 0 && out[len(out)-1] == token.COMMA.String()+"\x00" {
			out = out[:len(out)-1]
		}
		out = append(out, tok.String()+"\x00"+lit)
	}
	return out, ok
}

// CheckFile is the C08 oracle for `templ fmt <file>` (fmtcmd with a file name:
// imports.Process rewrites the import section between parsing and writing).
// That path is allowed to change which packages a file imports — it removes
// unused imports and adds missing ones — so "same program" is decided in two
// parts, for z = x and for z = fmt(x) (the file after the imports were fixed):
//
//  1. F = fmt(z) must be accepted, and the generated code of z and F must be
//     the same token sequence once the import declarations are taken out
//     (positions masked as in Check)                 (else reject:* / differs:*)
//  2. if what z generates imports exactly what it uses (no unused import, no
//     missing standard-library package), then F must generate the same set of
//     imports                                                   (else imports)
//
// A file the command refuses (goimports cannot process the generated code) is
// left unchanged by it: counted as fmt_refused.
func CheckFile(src string) tsrc.Outcome {
	g, err := tsrc.Gen(src)
	if err != nil {
		return tsrc.Outcome{}
	}
	F, err := tsrc.FmtFile(src)
	if err != nil {
		return tsrc.Outcome{Accepted: true, Note: "fmt_refused"}
	}
	o := tsrc.Outcome{Accepted: true, Changed: F != src}
	if cls, det := fileStep(g, F); cls != "" {
		o.Class, o.Detail = cls, "first run: "+det
		return o
	}
	F2, err := tsrc.FmtFile(F)
	if err != nil {
		return o
	}
	gF, _ := tsrc.Gen(F)
	if cls, det := fileStep(gF, F2); cls != "" {
		o.Class, o.Detail = cls, "second run (on the output of the first): "+det
	}
	return o
}

// judgeDir is the C08 oracle of a directory job. For every file of the
// directory: what `templ fmt <dir>` left in it must be accepted and generate
// the same program as the file did before (fileStep, as for a single file),
// and must be byte for byte what formatting that file alone gives.
func judgeDir(j tsrc.DirJob, res tsrc.DirResult, single func(string) (string, error)) (string, string) {
	if res.Err1 != nil {
		return "run-error", fmt.Sprintf("templ fmt <dir> fails although every file formats alone: %v", res.Err1)
	}
	for i, f := range j.Files {
		g, err := tsrc.Gen(f.Src)
		if err != nil {
			continue
		}
		if cls, det := fileStep(g, res.After1[i]); cls != "" {
			return cls, fmt.Sprintf("file %d of %d (workers=%d): %s", i+1, len(j.Files), j.Workers, det)
		}
		if alone, err := single(f.Src); err == nil && alone != res.After1[i] {
			return "not-single", fmt.Sprintf("file %d of %d (workers=%d) is %s after the run, formatted alone it is %s", i+1, len(j.Files), j.Workers, core.Q(clip(res.After1[i], 300)), core.Q(clip(alone, 300)))
		}
	}
	return "", ""
}

// fileStep compares what z generates (gz) with what its formatted form F generates.
func fileStep(gz, F string) (class, detail string) {
	gF, err := tsrc.Gen(F)
	if err != nil {
		return "reject:" + err.(*tsrc.GenError).Stage, fmt.Sprintf("formatted file is rejected by templ generate (%v); fmt output: %s", err, core.Q(clip(F, 300)))
	}
	iz, err1 := tsrc.ImportsOf(tsrc.Norm(gz))
	iF, err2 := tsrc.ImportsOf(tsrc.Norm(gF))
	if err1 != nil || err2 != nil {
		return "", ""
	}
	if iz.Body != iF.Body && !sameTokens(iz.Body, iF.Body) {
		la, lb := firstDiff(iz.Body, iF.Body)
		class = "differs:other"
		if wsOnly(iz.Body) == wsOnly(iF.Body) {
			class = "differs:ws"
		}
		return class, fmt.Sprintf("generated code (imports aside) differs after formatting; fmt output %s; before %s, after %s", core.Q(clip(F, 300)), core.Q(clip(la, 200)), core.Q(clip(lb, 200)))
	}
	if iz.Consistent && iz.Set != iF.Set {
		return "imports", fmt.Sprintf("the file imported exactly what it used (%s) but after formatting it imports %s (unused %v, missing %v); fmt output %s",
			core.Q(iz.Set), core.Q(iF.Set), iF.Unused, iF.Missing, core.Q(clip(F, 300)))
	}
	return "", ""
}

func bodyOf(src string) string {
	if b, ok := tsrc.BodyOf(src); ok {
		return b
	}
	return src
}

var (
	reLitIndex   = regexp.MustCompile(`WriteString\(templ_7745c5c3_Buffer, \d+, `)
	emptyLitStmt = `templ_7745c5c3_Err=templruntime.WriteString(templ_7745c5c3_Buffer,0,"")iftempl_7745c5c3_Err!=nil{returntempl_7745c5c3_Err}`
)

// wsOnly erases everything by which two generated programs differ when they
// only emit different amounts of whitespace: the running index of literal
// writes, all whitespace (also inside string literals) and writes of literals
// that consist of whitespace only. Used for the failure class, not the verdict.
func wsOnly(s string) string {
	s = reLitIndex.ReplaceAllString(s, "WriteString(templ_7745c5c3_Buffer, 0, ")
	return strings.ReplaceAll(stripWS(s), emptyLitStmt, "")
}

func stripWS(s string) string {
	return strings.Map(func(r rune) rune {
		if r == ' ' || r == '\t' || r == '\n' || r == '\r' {
			return -1
		}
		return r
	}, s)
}

func firstDiff(a, b string) (string, string) {
	la, lb := strings.Split(a, "\n"), strings.Split(b, "\n")
	for i := 0; i < len(la) && i < len(lb); i++ {
		if la[i] != lb[i] {
			if strings.TrimSpace(la[i]) == strings.TrimSpace(lb[i]) {
				return la[i], lb[i]
			}
			return strings.TrimSpace(la[i]), strings.TrimSpace(lb[i])
		}
	}
	return fmt.Sprintf("%d lines", len(la)), fmt.Sprintf("%d lines", len(lb))
}

func clip(s string, n int) string {
	if len(s) > n {
		return s[:n] + "…"
	}
	return s
}

// Weaker orders failure classes for the reducer: a program whose generated
// code differs in more than whitespace may contain a whitespace-only cause
// next to another one; the reduction may isolate either.
func Weaker(from, to string) bool { return from == "differs:other" && to == "differs:ws" }

// Run is the C08 check.
func Run(c *core.Ctx) {
	c.Rule = "programs = every .templ file, formattestdata section and documentation code block found in the repository at run time + the complete adjacency matrix (22 node kinds^2 x 3 separators x 7 parent contexts, and every kind alone with 3x3 lead/trail whitespace) + attribute/expression/file spelling cells + seeded random compositions (depth<=4, random spellings) + token-level mutants of corpus files and cells; a program counts (evaluations) only if parse+generate+gofmt accept it; non-trivial = the formatter changes the text (fmt(x) != x), distinct by program text"
	c.Assume("`templ fmt` is modelled in-process as parser.ParseString -> TemplateFile.Write (the stdin path of fmtcmd; imports.Process is the identity when no file path is known), `templ generate` as parser.ParseString -> generator.Generate(WithFileName) -> go/format.Source")
	c.Assume("'same program' is decided on the generated Go text after gofmt and masking of Line/Col inside templ.Error literals; the Go compiler is not run in this tier")
	if os.Getenv("VERIF_C08_RENDER_ONLY") != "" { // development switch: only the compile-and-render sample
		renderSample(c)
		return
	}
	r := tsrc.NewRunner(c, Check, "formatting changes the program")
	r.Weaker = Weaker
	r.Run()
	// the named-file path of templ fmt (imports.Process), bounded workload
	c.Assume("`templ fmt <file>` is driven through fmtcmd.Run with -stdin-filepath naming a file in a scratch module directory (same format function as the directory walk: parse, imports.Process, write); import cells only refer to standard-library packages and the templ module, so goimports resolves them without looking at the module cache")
	tsrc.FmtFileDir(corpus.Scratch("c08fmt"), c.Repo)
	rf := tsrc.NewRunner(c, CheckFile, "templ fmt <file> changes the program")
	rf.Weaker, rf.Mode, rf.KeyPrefix, rf.NoRename = Weaker, "fmtfile", "fmtfile:", true
	var progs []tsrc.Prog
	for _, cl := range tsrc.ImportCells() {
		progs = append(progs, tsrc.Prog{Origin: "impcell:" + cl.Name, Src: cl.Src})
	}
	rf.RunFile(progs)
	// several files in one `templ fmt <dir>` run
	tsrc.RunDirJobs(c, "templ fmt <dir> changes a program", func(src string) bool { return CheckFile(src).Class == "" }, judgeDir)
	if !c.Quick() && c.ReplayFile == "" {
		renderSample(c)
	}
}
