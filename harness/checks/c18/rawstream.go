package c18

import (
	"bytes"
	"context"
	"encoding/json"
	"fmt"
	"io"
	"math/rand"
	"strconv"
	"strings"

	"github.com/a-h/templ/lsp/jsonrpc2"
)

// Part (a'), the unframed variant of the same Stream interface: NewRawStream
// sends JSON values back to back and relies on the decoder to find message
// boundaries. "Any sequence of messages written to a stream is read back as
// the same sequence however the bytes are chunked" applies to it unchanged;
// the hazardous chunkings here are the COALESCED ones (one transport read
// returning bytes of more than one message), which the length-prefixed stream
// does not care about.
//
// Wire images:
//
//	write        what NewRawStream(w).Write produced (checked by a tap: the
//	             bytes are exactly the written messages, one JSON value each)
//	hand-compact the harness's own serialisation, values separated by Sep
//	             ("" / LF / space / CRLF / blank lines — all legal between JSON values)
//	hand-spelled the same in alternative valid JSON spellings (spell.go): escapes,
//	             surrogate pairs, "\/", white space between tokens, member order
//
// ORACLE: Read returns the written sequence (kind, id, method, canonical
// payload, error members), then an error; if the image was cut inside its last
// message: the messages before it, then an error. Never a panic; a reader that
// has reached EOF is never polled forever (spin guard of chunkReader).

// handBody serialises a message with the harness's own code.
func handBody(m mspec) string {
	var sb strings.Builder
	sb.WriteString(`{"jsonrpc":"2.0"`)
	id := ""
	if m.Kind != "notify" {
		if m.StrID != "" {
			id = marshal(m.StrID)
		} else {
			id = strconv.Itoa(int(m.NumID))
		}
	}
	switch m.Kind {
	case "call", "notify":
		if id != "" {
			sb.WriteString(`,"id":` + id)
		}
		sb.WriteString(`,"method":` + marshal(m.Method))
		if m.Payload != "" {
			sb.WriteString(`,"params":` + m.Payload)
		}
	case "result":
		p := m.Payload
		if p == "" {
			p = "null"
		}
		sb.WriteString(`,"result":` + p + `,"id":` + id)
	default:
		sb.WriteString(`,"error":{"code":` + strconv.Itoa(int(m.Code)) + `,"message":` + marshal(m.Msg))
		if m.Data != "" {
			sb.WriteString(`,"data":` + m.Data)
		}
		sb.WriteString(`},"id":` + id)
	}
	sb.WriteString("}")
	return sb.String()
}

// rawWire builds the wire image of a raw-stream case and the end offset of
// every message's bytes (its separator included).
func rawWire(cs rtCase) (wire []byte, bounds []int, err error) {
	switch cs.Wire {
	case "write":
		w := &bufRWC{}
		st := jsonrpc2.NewRawStream(w)
		for i, m := range cs.Msgs {
			msg, err := m.build()
			if err != nil {
				return nil, nil, fmt.Errorf("constructing message %d: %w", i, err)
			}
			if _, err := st.Write(context.Background(), msg); err != nil {
				return nil, nil, fmt.Errorf("writing message %d: %w", i, err)
			}
			bounds = append(bounds, w.Len())
		}
		wire = w.Bytes()
	default:
		var b bytes.Buffer
		for i, m := range cs.Msgs {
			body := handBody(m)
			if cs.Wire == "hand-spelled" {
				if body, err = spelled(m, cs.SpellSeed+int64(i)); err != nil {
					return nil, nil, err
				}
			}
			b.WriteString(body)
			b.WriteString(cs.Sep)
			bounds = append(bounds, b.Len())
		}
		wire = b.Bytes()
	}
	if cs.Truncate > 0 && cs.Truncate < len(wire) {
		wire = wire[:len(wire)-cs.Truncate]
	}
	return wire, bounds, nil
}

// rawCheck runs one raw-stream case. coalesced = transport reads that
// returned bytes of more than one message.
func rawCheck(cs rtCase, wire []byte, bounds []int, wants []desc) (class, detail string, coalesced int) {
	defer func() {
		if e := recover(); e != nil {
			class, detail = "panic", fmt.Sprint(e)
		}
	}()
	if cs.Chunk.Family == "tap" {
		dec := json.NewDecoder(bytes.NewReader(wire))
		for i, want := range wants {
			var v json.RawMessage
			if err := dec.Decode(&v); err != nil {
				return "tap-bad-value", fmt.Sprintf("value %d of %d on the wire: %v", i, len(wants), err), 0
			}
			if d, st := descOfBody(v); st != bodyClean || d != want {
				return "tap-body-differs", fmt.Sprintf("value %d is %s, written message was %s", i, clip(v, 200), clip([]byte(marshal(want)), 200)), 0
			}
			if int(dec.InputOffset()) != bounds[i] {
				return "tap-extent", fmt.Sprintf("Write %d ended at byte %d but its JSON value ends at byte %d", i, bounds[i], dec.InputOffset()), 0
			}
		}
		return "", "", 0
	}
	n := len(wants)
	if cs.Truncate > 0 {
		n-- // the last message is incomplete
	}
	rd := newChunkReader(wire, cs.Chunk)
	rd.bounds = bounds
	st := jsonrpc2.NewRawStream(rd)
	for i := 0; i < n; i++ {
		msg, _, err := st.Read(context.Background())
		if err != nil {
			return "read-error", fmt.Sprintf("message %d of %d: %v", i, len(wants), err), rd.coalesced
		}
		if got := descOfMessage(msg); got != wants[i] {
			return "decoded-differs", fmt.Sprintf("message %d decoded as %s, written %s", i, clip([]byte(marshal(got)), 200), clip([]byte(marshal(wants[i])), 200)), rd.coalesced
		}
	}
	if msg, _, err := st.Read(context.Background()); err == nil {
		if cs.Truncate > 0 {
			return "message-from-truncated-value", fmt.Sprintf("the last value was cut %d bytes short but Read returned %s", cs.Truncate, marshal(descOfMessage(msg))), rd.coalesced
		}
		return "extra-message", fmt.Sprintf("a message appeared after the end of the stream: %s", marshal(descOfMessage(msg))), rd.coalesced
	}
	return "", "", rd.coalesced
}

// rawChunkings: the chunking families of the raw stream.
func rawChunkings(wire []byte, bounds []int, r *rand.Rand) []chunking {
	out := []chunking{
		{Name: "whole", Family: "whole"}, {Name: "whole+eof-with-data", Family: "whole", EOFNow: true},
		{Name: "exact-message", Family: "cuts", Cuts: bounds},
	}
	var two, some, inRune []int
	for i, b := range bounds {
		if i%2 == 1 {
			two = append(two, b)
		}
		if r.Intn(3) == 0 {
			some = append(some, b)
		}
	}
	out = append(out, chunking{Name: "two-coalesced", Family: "cuts", Cuts: two}, chunking{Name: "some-coalesced", Family: "cuts", Cuts: some})
	if len(wire) <= 300000 {
		out = append(out, chunking{Name: "one-byte", Family: "fixed", K: 1})
	}
	out = append(out, chunking{Name: "fixed", Family: "fixed", K: []int{2, 3, 7, 64, 511, 512, 513, 4096}[r.Intn(8)]},
		chunking{Name: "random", Family: "random", Seed: r.Int63()}, chunking{Name: "random+eof-with-data", Family: "random", Seed: r.Int63(), EOFNow: true})
	for p := 1; p < len(wire) && len(inRune) < 20000; p++ {
		if wire[p]&0xC0 == 0x80 {
			inRune = append(inRune, p)
		}
	}
	if len(inRune) > 0 {
		out = append(out, chunking{Name: "cuts-inside-runes", Family: "cuts", Cuts: inRune})
	}
	return out
}

var rawSeps = []string{"", "\n", " ", "\r\n", "\n\n\t "}

// rawSequence runs one message sequence through NewRawStream under every
// wire image x chunking, plus truncations of the last message.
func (k *checker) rawSequence(seed int64, msgs []mspec, wants []desc, r *rand.Rand) {
	c := k.c
	k.add("raw_sequences", 1)
	run := func(cs rtCase, wire []byte, bounds []int) {
		c.Eval(1)
		k.add("raw_cases", 1)
		name := cs.Wire + "/" + cs.Chunk.Name
		if cs.Truncate > 0 {
			name += "/truncated"
		}
		k.add("raw_family_"+cs.Chunk.Name, 1)
		class, detail, co := rawCheck(cs, wire, bounds, wants)
		k.add("raw_coalesced_reads", co)
		if co > 0 {
			k.add("raw_cases_with_coalesced_read", 1)
			c.NontrivialStr("raw", fmt.Sprint(seed), name, cs.Sep, fmt.Sprint(cs.Chunk.K, cs.Truncate))
		}
		if class == "" {
			return
		}
		// reduce: the shortest prefix of the sequence that still fails in the same way
		red := cs
		for n := 1; n < len(msgs) && cs.Truncate == 0; n++ {
			one := cs
			one.Msgs = msgs[:n]
			w1, b1, err := rawWire(one)
			if err != nil {
				break
			}
			for _, a := range rawChunkings(w1, b1, rand.New(rand.NewSource(1))) {
				if a.Name == cs.Chunk.Name && a.Family == "cuts" {
					one.Chunk = a
				}
			}
			if c2, d2, _ := rawCheck(one, w1, b1, wants[:n]); c2 == class {
				red, detail = one, d2
				break
			}
		}
		c.Violate("rawstream/"+name+"/"+class, detail, red)
	}
	big := false
	for wi, wk := range []string{"write", "hand-compact", "hand-spelled"} {
		cs := rtCase{Stream: "raw", Wire: wk, Msgs: msgs}
		switch wk {
		case "hand-compact":
			cs.Sep = rawSeps[r.Intn(len(rawSeps))]
		case "hand-spelled":
			cs.Sep = rawSeps[r.Intn(len(rawSeps))]
			cs.SpellSeed = r.Int63n(1 << 40)
		}
		if wk == "hand-spelled" && big {
			continue // the 1 MB sequences are about buffer boundaries, not spellings
		}
		wire, bounds, err := rawWire(cs)
		if err != nil {
			c.Violate("rawstream/"+wk+"/write-error", err.Error(), cs)
			continue
		}
		big = big || len(wire) > 400000
		k.add("raw_wire_bytes", len(wire))
		if wk == "write" {
			cs.Chunk = chunking{Name: "tap", Family: "tap"}
			run(cs, wire, bounds)
		}
		for _, ch := range rawChunkings(wire, bounds, r) {
			cs.Chunk = ch
			run(cs, wire, bounds)
		}
		// the last message cut short: everything before it, then an error
		last := bounds[len(bounds)-1]
		prev := 0
		if len(bounds) > 1 {
			prev = bounds[len(bounds)-2]
		}
		bodyLen := len(bytes.TrimRight(wire[prev:last], " \t\r\n"))
		if wi < 2 && bodyLen > 1 {
			cut := cs
			cut.Truncate = (last - prev - bodyLen) + 1 + r.Intn(bodyLen-1)
			w2, _, _ := rawWire(cut)
			for _, ch := range []chunking{{Name: "whole", Family: "whole"}, {Name: "random", Family: "random", Seed: r.Int63()}, {Name: "whole+eof-with-data", Family: "whole", EOFNow: true}} {
				cut.Chunk = ch
				run(cut, w2, bounds)
			}
		}
	}
}

var _ = io.EOF
