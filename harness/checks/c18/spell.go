package c18

import (
	"encoding/json"
	"fmt"
	"math/rand"
	"sort"
	"strings"
	"unicode/utf16"
)

// speller serialises messages in the alternative — but valid per RFC 8259 —
// spellings a peer's encoder may emit: "\/", \uXXXX escapes for BMP
// characters, UTF-16 surrogate pairs for astral ones, the short escapes
// \b \f \n \r \t, escaped or \u-escaped quotes and backslashes, raw multi-byte
// UTF-8, insignificant white space between tokens, any member order,
// "params":null or absent. The message they denote is unchanged, so the
// expected desc is that of the mspec.
type speller struct {
	r *rand.Rand
}

func (sp *speller) ws() string {
	switch sp.r.Intn(12) {
	case 0:
		return " "
	case 1:
		return "\n"
	case 2:
		return "\t"
	case 3:
		return "\r\n  "
	}
	return ""
}

func (sp *speller) hex4(v uint16) string {
	s := fmt.Sprintf("%04x", v)
	if sp.r.Intn(2) == 0 {
		s = strings.ToUpper(s)
	}
	return `\u` + s
}

// str spells a (valid UTF-8) string as a JSON string literal.
func (sp *speller) str(s string) string {
	var sb strings.Builder
	sb.WriteByte('"')
	short := map[rune]string{'\b': `\b`, '\f': `\f`, '\n': `\n`, '\r': `\r`, '\t': `\t`, '"': `\"`, '\\': `\\`, '/': `\/`}
	for _, c := range s {
		k := sp.r.Intn(10)
		switch {
		case c < 0x20 || c == '"' || c == '\\':
			if e, ok := short[c]; ok && k < 6 {
				sb.WriteString(e)
			} else {
				sb.WriteString(sp.hex4(uint16(c)))
			}
		case c == '/':
			switch {
			case k < 4:
				sb.WriteString(`\/`)
			case k < 6:
				sb.WriteString(sp.hex4('/'))
			default:
				sb.WriteByte('/')
			}
		case c >= 0x10000:
			if k < 5 {
				a, b := utf16.EncodeRune(c)
				sb.WriteString(sp.hex4(uint16(a)) + sp.hex4(uint16(b)))
			} else {
				sb.WriteRune(c)
			}
		default:
			if k < 3 {
				sb.WriteString(sp.hex4(uint16(c)))
			} else {
				sb.WriteRune(c)
			}
		}
	}
	sb.WriteByte('"')
	return sb.String()
}

// value spells a decoded JSON value (numbers as json.Number, kept verbatim).
func (sp *speller) value(v any) string {
	switch x := v.(type) {
	case nil:
		return "null"
	case bool:
		if x {
			return "true"
		}
		return "false"
	case json.Number:
		return x.String()
	case string:
		return sp.str(x)
	case []any:
		parts := make([]string, len(x))
		for i, e := range x {
			parts[i] = sp.ws() + sp.value(e) + sp.ws()
		}
		return "[" + sp.ws() + strings.Join(parts, ",") + "]"
	case map[string]any:
		keys := make([]string, 0, len(x))
		for k := range x {
			keys = append(keys, k)
		}
		sort.Strings(keys)
		var ms [][2]string
		for _, k := range keys {
			ms = append(ms, [2]string{k, sp.value(x[k])})
		}
		return sp.object(ms)
	}
	return marshal(v)
}

// object: members (name, already spelled value) in a random order.
func (sp *speller) object(ms [][2]string) string {
	sp.r.Shuffle(len(ms), func(i, j int) { ms[i], ms[j] = ms[j], ms[i] })
	parts := make([]string, len(ms))
	for i, m := range ms {
		parts[i] = sp.ws() + sp.str(m[0]) + sp.ws() + ":" + sp.ws() + m[1] + sp.ws()
	}
	return "{" + sp.ws() + strings.Join(parts, ",") + "}"
}

// payload re-spells a JSON text (or keeps it as it is).
func (sp *speller) payload(text string) string {
	if sp.r.Intn(4) == 0 {
		return text
	}
	dec := json.NewDecoder(strings.NewReader(text))
	dec.UseNumber()
	var v any
	if err := dec.Decode(&v); err != nil {
		return text
	}
	return sp.value(v)
}

func (sp *speller) id(m mspec) string {
	if m.StrID != "" {
		return sp.str(m.StrID)
	}
	return fmt.Sprint(m.NumID)
}

// message spells one message.
func (sp *speller) message(m mspec) string {
	ms := [][2]string{{"jsonrpc", sp.str("2.0")}}
	switch m.Kind {
	case "call", "notify":
		if m.Kind == "call" {
			ms = append(ms, [2]string{"id", sp.id(m)})
		}
		ms = append(ms, [2]string{"method", sp.str(m.Method)})
		switch {
		case m.Payload != "":
			ms = append(ms, [2]string{"params", sp.payload(m.Payload)})
		case sp.r.Intn(2) == 0:
			ms = append(ms, [2]string{"params", "null"})
		}
	case "result":
		p := "null"
		if m.Payload != "" {
			p = sp.payload(m.Payload)
		}
		ms = append(ms, [2]string{"id", sp.id(m)}, [2]string{"result", p})
	default:
		em := [][2]string{{"code", fmt.Sprint(m.Code)}, {"message", sp.str(m.Msg)}}
		if m.Data != "" {
			em = append(em, [2]string{"data", sp.payload(m.Data)})
		}
		ms = append(ms, [2]string{"id", sp.id(m)}, [2]string{"error", sp.object(em)})
	}
	return sp.ws() + sp.object(ms) + sp.ws()
}

// spelled returns the alternative spelling of m chosen by seed, after
// checking with the harness's own reading that it still denotes m.
func spelled(m mspec, seed int64) (string, error) {
	sp := &speller{r: rand.New(rand.NewSource(seed))}
	body := sp.message(m)
	if d, st := descOfBody([]byte(body)); st != bodyClean || d != m.desc() {
		return "", fmt.Errorf("harness speller produced %q which does not denote %s", clip([]byte(body), 300), marshal(m.desc()))
	}
	return body, nil
}
