// Package c18 checks property C18 (JSON-RPC framing is lossless and calls are
// matched to their responses) by runtime monitoring of lsp/jsonrpc2:
//
//	(a) framing round trip: generated message sequences are written with
//	    NewStream(w).Write; a wire tap (the harness's own frame parser) checks
//	    every Content-Length against the body's BYTE count and every body
//	    against the message that was written; the bytes are read back with
//	    NewStream(r).Read under every chunking family and must decode to the
//	    same sequence, followed by an error at the end of the stream;
//	(b) malformed / truncated frames in a child process (panic, spin and hang
//	    monitors) judged by the harness's own header parser: error or the
//	    correct message, never a message that is not there;
//	(c) concurrency in race-instrumented child processes: N callers x M calls
//	    with unique tokens and notifiers on both sides of a re-chunking,
//	    yielding duplex against a peer that answers out of order / late / never
//	    / with errors, seeded cancellations; token/id matching, response-lost
//	    watchdog, wire tap for whole frames, pending map, goroutine leak, races.
package c18

import (
	"bufio"
	"context"
	"encoding/json"
	"fmt"
	"math/rand"
	"os"
	"path/filepath"
	"sort"
	"strings"
	"sync"
	"time"

	"github.com/a-h/templ/lsp/jsonrpc2"
	"verif/core"
	"verif/oracle/childproc"
)

// Children is the child-process entry table of the c18 binary.
var Children = map[string]func([]string) int{"malformed": childMalformed, "conc": childConc}

// ---------------------------------------------------------------------------
// (a) round trip

type rtCase struct {
	Msgs  []mspec  `json:"msgs"`
	Chunk chunking `json:"chunk"` // Family "tap" = wire-tap check only
	// raw (unframed) stream cases, see rawstream.go
	Stream    string `json:"stream,omitempty"`     // "" = NewStream, "raw" = NewRawStream
	Wire      string `json:"wire,omitempty"`       // write | hand-compact | hand-spelled
	SpellSeed int64  `json:"spell_seed,omitempty"` // alternative JSON spellings (spell.go)
	Sep       string `json:"sep,omitempty"`        // separator between hand-serialised values
	Truncate  int    `json:"truncate,omitempty"`   // bytes cut off the end (inside the last message)
}

func writeAll(msgs []mspec) ([]byte, error) {
	w := &bufRWC{}
	st := jsonrpc2.NewStream(w)
	for i, m := range msgs {
		msg, err := m.build()
		if err != nil {
			return nil, fmt.Errorf("constructing message %d: %w", i, err)
		}
		if _, err := st.Write(context.Background(), msg); err != nil {
			return nil, fmt.Errorf("writing message %d: %w", i, err)
		}
	}
	return w.Bytes(), nil
}

// rtCheck runs one (sequence, chunking) case; class "" = held.
func rtCheck(cs rtCase) (class, detail string) {
	defer func() {
		if e := recover(); e != nil {
			class, detail = "panic", fmt.Sprint(e)
		}
	}()
	wants := make([]desc, len(cs.Msgs))
	for i, m := range cs.Msgs {
		wants[i] = m.desc()
	}
	if cs.Stream == "raw" {
		wire, bounds, err := rawWire(cs)
		if err != nil {
			return "write-error", err.Error()
		}
		class, detail, _ = rawCheck(cs, wire, bounds, wants)
		return class, detail
	}
	wire, err := writeAll(cs.Msgs)
	if cs.Wire == "hand-spelled" {
		wire, err = framedHandWire(cs)
	}
	if err != nil {
		return "write-error", err.Error()
	}
	return rtCheckWire(cs, wire, wants)
}

// framedHandWire: length-prefixed frames whose bodies are the harness's
// alternative spellings of the messages (what a peer's encoder may emit).
func framedHandWire(cs rtCase) ([]byte, error) {
	var b []byte
	for i, m := range cs.Msgs {
		body, err := spelled(m, cs.SpellSeed+int64(i))
		if err != nil {
			return nil, err
		}
		b = append(b, frameOf(body)...)
	}
	return b, nil
}

// rtCheckWire: the same with the wire image and the expected descriptions precomputed.
func rtCheckWire(cs rtCase, wire []byte, wants []desc) (class, detail string) {
	defer func() {
		if e := recover(); e != nil {
			class, detail = "panic", fmt.Sprint(e)
		}
	}()
	if cs.Chunk.Family == "tap" {
		frames, err := strictFrames(wire)
		if err != nil {
			return "tap-bad-frame", err.Error()
		}
		if len(frames) != len(cs.Msgs) {
			return "tap-frame-count", fmt.Sprintf("%d messages written, %d frames on the wire", len(cs.Msgs), len(frames))
		}
		for i, f := range frames {
			d, st := descOfBody(wire[f.BodyStart:f.End])
			if st != bodyClean || d != wants[i] {
				return "tap-body-differs", fmt.Sprintf("frame %d carries %s, written message was %s", i, clip(wire[f.BodyStart:f.End], 200), clip([]byte(marshal(wants[i])), 200))
			}
		}
		return "", ""
	}
	rd := newChunkReader(wire, cs.Chunk)
	st := jsonrpc2.NewStream(rd)
	for i, want := range wants {
		msg, _, err := st.Read(context.Background())
		if err != nil {
			return "read-error", fmt.Sprintf("message %d of %d: %v", i, len(cs.Msgs), err)
		}
		if got := descOfMessage(msg); got != want {
			return "decoded-differs", fmt.Sprintf("message %d decoded as %s, written %s", i, clip([]byte(marshal(got)), 200), clip([]byte(marshal(want)), 200))
		}
	}
	if msg, _, err := st.Read(context.Background()); err == nil {
		return "extra-message", fmt.Sprintf("a message appeared after the end of the stream: %s", marshal(descOfMessage(msg)))
	}
	return "", ""
}

// chunkingsFor lists the chunking families for one wire image.
func chunkingsFor(wire []byte, r *rand.Rand) []chunking {
	frames, _ := strictFrames(wire)
	out := []chunking{{Name: "whole", Family: "whole"}, {Name: "whole+eof-with-data", Family: "whole", EOFNow: true}}
	if len(wire) <= 300000 {
		out = append(out, chunking{Name: "one-byte", Family: "fixed", K: 1})
	}
	ks := []int{2, 3, 5, 7, 16, 64, 4095, 4096, 4097}
	r.Shuffle(len(ks), func(i, j int) { ks[i], ks[j] = ks[j], ks[i] })
	for _, k := range ks[:3] {
		out = append(out, chunking{Name: "fixed", Family: "fixed", K: k})
	}
	out = append(out, chunking{Name: "random", Family: "random", Seed: r.Int63()}, chunking{Name: "random+eof-with-data", Family: "random", Seed: r.Int63(), EOFNow: true})
	capN := func(c []int) []int {
		if len(c) > 20000 {
			c = c[:20000]
		}
		return c
	}
	var hdrAll, hdrOne, crlf, inRune []int
	for _, f := range frames {
		for p := f.Start + 1; p <= f.BodyStart; p++ {
			hdrAll = append(hdrAll, p) // every byte boundary inside every header
		}
		hdrOne = append(hdrOne, f.Start+1+r.Intn(f.BodyStart-f.Start))
	}
	for p := 1; p < len(wire); p++ {
		if wire[p-1] == '\r' && wire[p] == '\n' {
			crlf = append(crlf, p)
		}
		if wire[p]&0xC0 == 0x80 { // continuation byte: p is inside a multi-byte rune
			inRune = append(inRune, p)
		}
	}
	out = append(out, chunking{Name: "cuts-every-header-byte", Family: "cuts", Cuts: capN(hdrAll)},
		chunking{Name: "cuts-one-per-header", Family: "cuts", Cuts: hdrOne},
		chunking{Name: "cuts-between-cr-lf", Family: "cuts", Cuts: capN(crlf)})
	if len(inRune) > 0 {
		out = append(out, chunking{Name: "cuts-inside-runes", Family: "cuts", Cuts: capN(inRune)})
	}
	return out
}

func mustWire(cs rtCase) []byte {
	w, _ := framedHandWire(cs)
	return w
}

func genSequence(r *rand.Rand, big bool) []mspec {
	n := 1 + r.Intn(20)
	var out []mspec
	for i := 0; i < n; i++ {
		size := 0
		switch k := r.Intn(100); {
		case k < 15:
			size = 100 + r.Intn(5000)
		case k < 19:
			size = 4000 + r.Intn(66000)
		}
		out = append(out, genMessage(r, size))
	}
	if big {
		out[r.Intn(len(out))] = genMessage(r, 1<<20)
	}
	return out
}

func (k *checker) roundTrip() {
	c := k.c
	nSeq := c.Pick(240, 2400)
	type job struct {
		i    int
		seed int64
	}
	jobs := make(chan job)
	var wg sync.WaitGroup
	seedRnd := c.Rand("roundtrip")
	for w := 0; w < 12; w++ {
		wg.Add(1)
		go func() {
			defer wg.Done()
			for j := range jobs {
				r := rand.New(rand.NewSource(j.seed))
				msgs := genSequence(r, j.i%100 == 7)
				wire, err := writeAll(msgs)
				if err != nil {
					c.Violate("roundtrip/write-error", err.Error(), rtCase{Msgs: msgs, Chunk: chunking{Family: "tap"}})
					continue
				}
				k.add("roundtrip_messages", len(msgs))
				k.add("roundtrip_wire_bytes", len(wire))
				multi := len(wire) != len([]rune(string(wire)))
				wants := make([]desc, len(msgs))
				for i, m := range msgs {
					wants[i] = m.desc()
				}
				chs := append([]chunking{{Name: "tap", Family: "tap"}}, chunkingsFor(wire, r)...)
				for _, ch := range chs {
					cs := rtCase{Msgs: msgs, Chunk: ch}
					c.Eval(1)
					k.add("roundtrip_cases", 1)
					k.add("roundtrip_family_"+ch.Name, 1)
					if multi && (ch.Family == "cuts" || ch.Family == "fixed" || ch.Family == "random") {
						c.NontrivialStr("rt", fmt.Sprint(j.seed), ch.Name, fmt.Sprint(ch.K))
					}
					class, detail := rtCheckWire(cs, wire, wants)
					if class == "" {
						continue
					}
					// reduce: a single message of the sequence under the same family
					red := cs
					for _, m := range msgs {
						one := rtCase{Msgs: []mspec{m}, Chunk: ch}
						if ch.Family == "cuts" {
							w1, _ := writeAll(one.Msgs)
							for _, a := range chunkingsFor(w1, rand.New(rand.NewSource(1))) {
								if a.Name == ch.Name {
									one.Chunk = a
								}
							}
						}
						if c2, d2 := rtCheck(one); c2 == class {
							red, detail = one, d2
							break
						}
					}
					c.Violate("roundtrip/"+ch.Name+"/"+class, detail, red)
				}
				// the same sequence as a peer's encoder may spell it (escapes, surrogate
				// pairs, "\/", white space, member order), length-prefixed
				hs := rtCase{Msgs: msgs, Wire: "hand-spelled", SpellSeed: r.Int63n(1 << 40)}
				if len(wire) > 400000 {
					// the 1 MB sequences are about buffer boundaries, not spellings
				} else if hw, err := framedHandWire(hs); err != nil {
					c.Inconclusive("speller: " + err.Error())
				} else {
					k.add("spelled_wire_bytes", len(hw))
					for _, ch := range chunkingsFor(hw, r) {
						switch ch.Name {
						case "whole", "one-byte", "random", "cuts-inside-runes", "cuts-one-per-header":
						default:
							continue
						}
						hs.Chunk = ch
						c.Eval(1)
						k.add("spelled_framed_cases", 1)
						c.NontrivialStr("spelled", fmt.Sprint(j.seed), ch.Name)
						if class, detail := rtCheckWire(hs, hw, wants); class != "" {
							red := hs
							for i, m := range msgs { // reduce to one message
								one := rtCase{Msgs: []mspec{m}, Wire: "hand-spelled", SpellSeed: hs.SpellSeed + int64(i), Chunk: chunking{Name: "whole", Family: "whole"}}
								if c2, d2 := rtCheck(one); c2 == class {
									red, detail = one, d2
									break
								}
							}
							c.Violate("spelled/framed/"+class, detail+" | wire: "+clip(mustWire(red), 300), red)
						}
					}
				}
				// the same sequence through the unframed stream
				k.rawSequence(j.seed, msgs, wants, r)
				if j.i < 2 {
					s := msgs
					if len(s) > 2 {
						s = s[:2]
					}
					for i := range s {
						if len(s[i].Payload) > 120 {
							s[i].Payload = s[i].Payload[:120] + "…"
						}
					}
					c.Sample(map[string]any{"part": "roundtrip", "messages_in_sequence": len(msgs), "first_messages": s, "wire_bytes": len(wire), "chunkings": len(chs)})
				}
			}
		}()
	}
	for i := 0; i < nSeq; i++ {
		jobs <- job{i, seedRnd.Int63()}
	}
	close(jobs)
	wg.Wait()
	c.Set("roundtrip_sequences", nSeq)
}

// ---------------------------------------------------------------------------

type checker struct {
	c        *core.Ctx
	dir      string
	mu       sync.Mutex
	stats    map[string]int
	children int
}

func (k *checker) add(key string, n int) { k.mu.Lock(); k.stats[key] += n; k.mu.Unlock() }

// runBatch runs a child over a JSONL file, restarting after the case that
// crashed it; returns crashes as (line, result).
type died struct {
	line int
	res  childproc.Result
	head string
}

func (k *checker) runBatch(child, tag, casesFile string, n int, timeout time.Duration, env []string, extraFirst bool) (resultsFile string, deaths []died) {
	rf := filepath.Join(k.dir, tag+".results")
	pf := filepath.Join(k.dir, tag+".progress")
	first := 0
	for attempt := 0; first < n && attempt < 50; attempt++ {
		os.Remove(pf)
		args := []string{casesFile, rf, pf}
		if extraFirst {
			args = []string{casesFile, fmt.Sprint(first), rf, pf}
		}
		k.mu.Lock()
		k.children++
		k.mu.Unlock()
		res, err := childproc.Run(childproc.Spec{Child: child, Args: args, Dir: k.dir, Tag: fmt.Sprintf("%s-%d", tag, attempt), Timeout: timeout, Env: env})
		if err != nil {
			core.Infra("cannot start child: %v", err)
		}
		if !res.Crashed() {
			os.Remove(res.StderrPath)
			break
		}
		started, done := -1, -1
		if pb, err := os.ReadFile(pf); err == nil {
			for _, l := range strings.Split(string(pb), "\n") {
				var v int
				if _, err := fmt.Sscanf(l, "S %d", &v); err == nil {
					started = v
				}
				if _, err := fmt.Sscanf(l, "D %d", &v); err == nil {
					done = v
				}
			}
		}
		if started < 0 {
			core.Infra("child %s failed before its first case (%s): %s", tag, res.Describe(), res.StderrTail)
		}
		_ = done
		deaths = append(deaths, died{started, res, childproc.Head(res.StderrPath, 1<<15)})
		if !extraFirst {
			break // conc batches are not resumable mid-file; the rest is reported as not run
		}
		first = started + 1
	}
	return rf, deaths
}

// (b)
func (k *checker) malformed() {
	c := k.c
	cases := malCatalogue(c.Rand("malformed"), c.Pick(3000, 150000))
	k.judgeMalformed(cases, "mal")
	c.Set("malformed_cases", len(cases))
}

func (k *checker) judgeMalformed(cases []malCase, tag string) {
	c := k.c
	cf := filepath.Join(k.dir, tag+".cases")
	f, err := os.Create(cf)
	if err != nil {
		core.Infra("scratch: %v", err)
	}
	w := bufio.NewWriterSize(f, 1<<20)
	for _, cs := range cases {
		b, _ := json.Marshal(cs)
		w.Write(append(b, '\n'))
	}
	w.Flush()
	f.Close()
	rf, deaths := k.runBatch("malformed", tag, cf, len(cases), 5*time.Minute, nil, true)
	for _, d := range deaths {
		cs := cases[d.line]
		c.Eval(1)
		if d.res.TimedOut {
			// re-run that case alone: a few KB of input must not need 30 s
			one := filepath.Join(k.dir, tag+"-one.cases")
			b, _ := json.Marshal(cs)
			os.WriteFile(one, append(b, '\n'), 0o644)
			_, d2 := k.runBatch("malformed", tag+"-one", one, 1, 30*time.Second, nil, true)
			if len(d2) > 0 && d2[0].res.TimedOut {
				c.Violate("malformed/hang/"+cs.Category, fmt.Sprintf("Read did not return within 30 s (cpu %v) on %q [%s]", d2[0].res.CPU, clip(cs.Data, 200), cs.Chunk.Family), cs)
			} else {
				c.Inconclusive(fmt.Sprintf("malformed batch watchdog fired at case %d (%s) but the case alone finished", d.line, cs.Category))
			}
			continue
		}
		msg, frame := childproc.PanicLine(d.head)
		if strings.Contains(d.head, "a-h/templ/") {
			c.Violate("malformed/crash/"+cs.Category, fmt.Sprintf("the process died (%s, %s in %s) reading %q", d.res.Describe(), msg, frame, clip(cs.Data, 200)), cs)
		} else {
			core.Infra("malformed child died outside templ code (%s): %s", d.res.Describe(), d.head)
		}
	}
	results := map[int]malResult{}
	if fh, err := os.Open(rf); err == nil {
		sc := bufio.NewScanner(fh)
		sc.Buffer(make([]byte, 1<<20), 1<<26)
		for sc.Scan() {
			var r malResult
			if json.Unmarshal(sc.Bytes(), &r) == nil {
				results[r.ID] = r
			}
		}
		fh.Close()
	}
	cats := map[string]bool{}
	for _, cs := range cases {
		res, ok := results[cs.ID]
		if !ok {
			continue
		}
		c.Eval(1)
		cats[cs.Category] = true
		class, detail, unclear := judgeMal(cs, res)
		nMsg, nErr := 0, 0
		for _, r := range res.Reads {
			if r.Msg != nil {
				nMsg++
			} else if r.Err != "" {
				nErr++
			}
		}
		k.add("malformed_reads_returning_message", nMsg)
		k.add("malformed_reads_returning_error", nErr)
		if unclear {
			k.add("malformed_cases_with_lenient_body_accepted", 1)
		}
		c.NontrivialStr("mal", string(cs.Data), cs.Chunk.Family, fmt.Sprint(cs.Chunk.K))
		if class != "" {
			c.Violate("malformed/"+class+"/"+cs.Category, detail, cs)
		}
		if cs.Category == "header:lower-case-name" && cs.Chunk.Family == "whole" {
			c.Sample(map[string]any{"part": "malformed", "category": cs.Category, "stream_tail": clip(cs.Data[len(frameOf(malBodies[0])):], 160), "reads": res.Reads})
		}
	}
	k.add("malformed_results", len(results))
	k.add("malformed_categories", len(cats))
	os.Remove(cf)
	os.Remove(rf)
}

// (c)
func (k *checker) concurrency() {
	c := k.c
	nSess := c.Pick(360, 7200)
	r := c.Rand("conc")
	var specs []sessSpec
	for i := 0; i < nSess; i++ {
		n := []int{2, 8, 32}[i%3]
		sp := sessSpec{Idx: i, Seed: r.Int63n(1 << 40), NA: n, NB: (n + 1) / 2, M: 6 + r.Intn(10), Notifiers: 1 + r.Intn(3), NotifM: 10 + r.Intn(30), Big: i%8 == 0, Raw: i%4 == 1, Manual: i%6 == 5}
		if n == 32 {
			sp.M = 4 + r.Intn(6)
		}
		specs = append(specs, sp)
	}
	k.runSessions(specs, "conc", 0)
	c.Set("concurrent_sessions", nSess)
}

func (k *checker) runSessions(specs []sessSpec, tag string, wdMs int) {
	c := k.c
	workers := 8
	per := (len(specs) + workers - 1) / workers
	if per > 60 {
		per = 60
	}
	type batch struct {
		n     int
		specs []sessSpec
	}
	jobs := make(chan batch)
	var wg sync.WaitGroup
	for w := 0; w < workers; w++ {
		wg.Add(1)
		go func() {
			defer wg.Done()
			defer func() {
				if e := recover(); e != nil {
					if ie, ok := e.(core.InfraError); ok {
						c.Inconclusive("infrastructure: " + ie.Msg)
						return
					}
					panic(e)
				}
			}()
			for b := range jobs {
				t := fmt.Sprintf("%s%d", tag, b.n)
				cf := filepath.Join(k.dir, t+".specs")
				var sb strings.Builder
				for _, s := range b.specs {
					j, _ := json.Marshal(s)
					sb.Write(j)
					sb.WriteByte('\n')
				}
				os.WriteFile(cf, []byte(sb.String()), 0o644)
				var env []string
				if wdMs > 0 {
					env = []string{fmt.Sprintf("C18_WD_MS=%d", wdMs)}
				}
				rf, deaths := k.runBatch("conc", t, cf, len(b.specs), 20*time.Minute, env, false)
				for _, d := range deaths {
					var sp sessSpec
					for _, s := range b.specs {
						if s.Idx == d.line {
							sp = s
						}
					}
					c.Eval(1)
					msg, frame := childproc.PanicLine(d.head)
					switch {
					case d.res.TimedOut:
						c.Inconclusive(fmt.Sprintf("concurrency child watchdog fired in session %+v", sp))
					case frame != "" || strings.Contains(firstLines(d.head, 30), "a-h/templ/lsp/jsonrpc2"):
						c.Violate("conc/crash: "+msg+" in "+frame, fmt.Sprintf("the process died (%s) in session %+v: %s", d.res.Describe(), sp, firstLines(d.head, 14)), sp)
					default:
						core.Infra("concurrency child died outside templ code (%s): %s", d.res.Describe(), firstLines(d.head, 30))
					}
				}
				if fh, err := os.Open(rf); err == nil {
					sc := bufio.NewScanner(fh)
					sc.Buffer(make([]byte, 1<<20), 1<<26)
					for sc.Scan() {
						var res sessResult
						if json.Unmarshal(sc.Bytes(), &res) != nil {
							continue
						}
						k.judgeSession(res)
					}
					fh.Close()
				}
				os.Remove(cf)
				os.Remove(rf)
			}
		}()
	}
	for n, i := 0, 0; i < len(specs); n, i = n+1, i+per {
		j := i + per
		if j > len(specs) {
			j = len(specs)
		}
		jobs <- batch{n, specs[i:j]}
	}
	close(jobs)
	wg.Wait()
}

func (k *checker) judgeSession(res sessResult) {
	c := k.c
	if res.Stats["skipped"] > 0 {
		k.add("sessions_skipped_after_slow_failures", 1)
		return
	}
	c.Eval(1)
	k.add("sessions_completed", 1)
	for key, v := range res.Stats {
		k.add("conc_"+key, v)
	}
	for _, v := range res.Viol {
		c.Violate(v.Key, v.Summary+fmt.Sprintf(" | session %+v", res.Spec), res.Spec)
	}
	for _, s := range res.Inconc {
		c.Inconclusive(fmt.Sprintf("session %d: %s", res.Idx, s))
	}
	// non-trivial history: >= 1 out-of-order reply and >= 1 cancellation
	if res.Stats["out_of_order_replies"] > 0 && res.Stats["calls_returned_own_cancellation"] > 0 {
		c.NontrivialStr("sess", fmt.Sprint(res.Spec))
		k.add("sessions_with_out_of_order_reply_and_cancellation", 1)
	}
	if res.Idx < 3 {
		c.Sample(map[string]any{"part": "concurrency", "session": res.Spec, "observed": res.Stats})
	}
}

func firstLines(s string, n int) string {
	l := strings.Split(s, "\n")
	if len(l) > n {
		l = l[:n]
	}
	return strings.Join(l, " / ")
}

// Run is the C18 check.
func Run(c *core.Ctx) {
	c.Rule = "(a) cases = (seeded message sequence of 1..20 calls/notifications/results/errors with numeric and string ids and multi-byte payloads up to 1 MB) x (chunking family: whole, 1-byte, fixed k, random, cut at every header byte, one cut per header, between CR and LF, inside every multi-byte rune, final bytes together with EOF) + one wire-tap case per sequence; non-trivial = the wire contains multi-byte characters and the chunking cuts it; (b) cases = every truncation of a valid 3-frame stream, ~50 header malformations x 2 positions x 3 chunkings, bad bodies, random 1-2 byte mutations; all non-trivial, distinct by bytes and chunking; (c) cases = sessions of N in {2,8,32} callers (+N/2 on the other side) x M calls with unique tokens + notifiers over a re-chunking yielding duplex; non-trivial = the session observed >= 1 out-of-order reply and >= 1 call returning its own cancellation"
	c.Assume("message equality = kind, id, method, canonical JSON of params/result (absent == null), error code/message/data; ids are non-empty strings or int32 numbers")
	c.Assume("must-accept frames are exactly the base-protocol form 'Name: value CRLF'* with one 'Content-Length: <decimal>' and a blank CRLF line; for anything else that still has a tolerant reading either an error or the correct message is accepted; a JSON value followed by more bytes inside the declared length is not judged")
	c.Assume("no Content-Length between 4 MB and 2^31-1 is generated (the implementation allocates the declared length)")
	c.Assume("a cancelled call may return either its own reply or an error for which errors.Is(err, ctx.Err()) of its own context holds")
	dir, err := os.MkdirTemp("", "verif-c18-")
	if err != nil {
		core.Infra("mktemp: %v", err)
	}
	core.AtExit(func() { os.RemoveAll(dir) })
	k := &checker{c: c, dir: dir, stats: map[string]int{}}

	if c.ReplayFile != "" {
		k.replay()
		k.finish()
		return
	}
	var wg sync.WaitGroup
	wg.Add(1)
	go func() {
		defer wg.Done()
		defer func() {
			if e := recover(); e != nil {
				if ie, ok := e.(core.InfraError); ok {
					c.Inconclusive("infrastructure: " + ie.Msg)
					return
				}
				panic(e)
			}
		}()
		t0 := time.Now()
		k.malformed()
		c.Set("wall_s_malformed", int(time.Since(t0).Seconds()))
	}()
	t0 := time.Now()
	k.roundTrip()
	c.Set("wall_s_roundtrip", int(time.Since(t0).Seconds()))
	wg.Wait()
	t0 = time.Now()
	k.concurrency()
	c.Set("wall_s_concurrency", int(time.Since(t0).Seconds()))
	k.finish()
}

// replay re-runs the stored case: its shape tells which part it belongs to.
func (k *checker) replay() {
	c := k.c
	var probe map[string]json.RawMessage
	c.LoadReplay(&probe)
	c.NontrivialN(2)
	switch {
	case probe["msgs"] != nil:
		var cs rtCase
		c.LoadReplay(&cs)
		c.Eval(1)
		if class, detail := rtCheck(cs); class != "" {
			c.Violate("roundtrip/replay/"+class, detail, cs)
		}
	case probe["data"] != nil:
		var cs malCase
		c.LoadReplay(&cs)
		cs.ID = 0
		k.judgeMalformed([]malCase{cs}, "replay")
	case probe["seed"] != nil:
		var sp sessSpec
		c.LoadReplay(&sp)
		var specs []sessSpec
		for i := 0; i < 16; i++ { // schedules differ from run to run: repeat the session
			s := sp
			s.Idx = i
			specs = append(specs, s)
		}
		k.runSessions(specs, "replay", 0)
	default:
		core.Infra("replay file has no recognisable case")
	}
}

func (k *checker) finish() {
	c := k.c
	races := childproc.Races(k.dir)
	nt := 0
	for _, rc := range races {
		if rc.Templ {
			nt++
			c.Violate("race: "+rc.Key, fmt.Sprintf("Go race detector report (%d times): %s", rc.Count, firstLines(rc.Text, 16)), map[string]any{"race": rc.Text})
		} else {
			c.Inconclusive("race detector report without a templ frame (harness): " + rc.Key)
		}
	}
	c.Set("races_reported", len(races))
	c.Set("races_in_templ", nt)
	c.Set("children_spawned", k.children)
	if n := k.stats["sessions_skipped_after_slow_failures"]; n > 0 && c.ViolationCount() == 0 {
		c.Inconclusive(fmt.Sprintf("%d sessions were skipped after repeated watchdog firings", n))
	}
	keys := make([]string, 0, len(k.stats))
	for key := range k.stats {
		keys = append(keys, key)
	}
	sort.Strings(keys)
	for _, key := range keys {
		c.Set(key, k.stats[key])
	}
	if c.ReplayFile == "" {
		if k.stats["conc_pending_map_observed_empty"] == 0 {
			c.Inconclusive("the pending map was never observed")
		}
		if k.stats["conc_out_of_order_replies"] == 0 || k.stats["conc_calls_returned_own_cancellation"] == 0 {
			c.Inconclusive("no out-of-order reply or no cancellation was observed")
		}
	}
}
