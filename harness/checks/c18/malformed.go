package c18

import (
	"bufio"
	"context"
	"encoding/json"
	"fmt"
	"math/rand"
	"os"
	"strconv"
	"strings"

	"github.com/a-h/templ/lsp/jsonrpc2"
)

// Part (b): malformed / truncated frames. The reads happen in a child process
// (a runaway loop or fatal error must not take the monitor down); the parent
// judges the logged results with the harness's own header parser.

type malCase struct {
	ID       int      `json:"id"`
	Category string   `json:"category"` // canonical name of the malformation
	Data     []byte   `json:"data"`
	Chunk    chunking `json:"chunk"`
}

type malRead struct {
	Msg   *desc  `json:"msg,omitempty"`
	Err   string `json:"err,omitempty"`
	Panic string `json:"panic,omitempty"`
}

type malResult struct {
	ID    int       `json:"id"`
	Reads []malRead `json:"reads"`
}

func readOnce(st jsonrpc2.Stream) (r malRead) {
	defer func() {
		if e := recover(); e != nil {
			r = malRead{Panic: fmt.Sprint(e)}
		}
	}()
	msg, _, err := st.Read(context.Background())
	if err != nil {
		return malRead{Err: err.Error()}
	}
	d := descOfMessage(msg)
	return malRead{Msg: &d}
}

// runMal reads the stream until the first error, then twice more (after an
// error nothing is promised about content, but Read must still not panic or spin).
func runMal(cs malCase) malResult {
	res := malResult{ID: cs.ID}
	st := jsonrpc2.NewStream(newChunkReader(cs.Data, cs.Chunk))
	errs := 0
	for i := 0; i < 40 && errs < 3; i++ {
		r := readOnce(st)
		res.Reads = append(res.Reads, r)
		if r.Panic != "" {
			break
		}
		if r.Err != "" {
			errs++
		}
	}
	return res
}

// childMalformed: --child malformed <cases.jsonl> <first> <results.jsonl> <progress>
func childMalformed(args []string) int {
	if len(args) < 4 {
		return 2
	}
	first, _ := strconv.Atoi(args[1])
	in, err := os.Open(args[0])
	if err != nil {
		fmt.Fprintln(os.Stderr, err)
		return 2
	}
	defer in.Close()
	out, _ := os.OpenFile(args[2], os.O_CREATE|os.O_WRONLY|os.O_APPEND, 0o644)
	prog, _ := os.OpenFile(args[3], os.O_CREATE|os.O_WRONLY|os.O_APPEND, 0o644)
	defer out.Close()
	defer prog.Close()
	w := bufio.NewWriter(out)
	defer w.Flush()
	sc := bufio.NewScanner(in)
	sc.Buffer(make([]byte, 1<<20), 1<<26)
	for line := 0; sc.Scan(); line++ {
		if line < first {
			continue
		}
		var cs malCase
		if err := json.Unmarshal(sc.Bytes(), &cs); err != nil {
			fmt.Fprintln(os.Stderr, "bad case:", err)
			return 2
		}
		fmt.Fprintf(prog, "S %d\n", line)
		b, _ := json.Marshal(runMal(cs))
		w.Write(append(b, '\n'))
		if line%200 == 0 {
			w.Flush()
		}
	}
	return 0
}

// judgeMal is the oracle of part (b). Walking the stream with the harness's
// own parser:
//   - a frame in canonical base-protocol form with a clean JSON-RPC body MUST
//     be returned as exactly that message;
//   - where the bytes have no reading as a frame (tolerant header reading, body
//     of the declared byte length being a clean message), Read MUST return an
//     error; returning a message there is "message from a malformed frame";
//   - where a tolerant reading exists, either an error or that message is fine;
//   - bodies that are JSON but not clearly a message end the content judgement;
//   - a panic is always a violation; the stream must end with an error.
func judgeMal(cs malCase, res malResult) (class, detail string, unclear bool) {
	off := 0
	sawErr := false
	for i, rd := range res.Reads {
		if rd.Panic != "" {
			if strings.Contains(rd.Panic, errSpin.Error()) {
				return "spin-at-eof", fmt.Sprintf("read %d kept polling a reader that had returned EOF", i), false
			}
			return "panic", fmt.Sprintf("read %d panicked: %s", i, rd.Panic), false
		}
		if sawErr {
			continue // only the panic / spin monitors apply after the first error
		}
		h := parseHeader(cs.Data, off)
		type cand struct {
			d      desc
			status int
			next   int
		}
		var cands []cand
		if h.Bad == "" {
			seen := map[int64]bool{}
			for _, v := range h.Lens {
				if v < 1 || seen[v] || int64(h.BodyStart)+v > int64(len(cs.Data)) {
					continue
				}
				seen[v] = true
				d, st := descOfBody(cs.Data[h.BodyStart : h.BodyStart+int(v)])
				if st != bodyInvalid {
					cands = append(cands, cand{d, st, h.BodyStart + int(v)})
				}
			}
		}
		must := h.Bad == "" && h.Canonical && len(cands) == 1 && cands[0].status == bodyClean
		if rd.Err != "" {
			if must {
				return "valid-frame-rejected", fmt.Sprintf("read %d at byte %d returned error %q for a well-formed frame %q", i, off, rd.Err, clip(cs.Data[off:cands[0].next], 120)), false
			}
			sawErr = true
			continue
		}
		matched := false
		for _, c := range cands {
			if c.status == bodyClean && c.d == *rd.Msg {
				off, matched = c.next, true
				break
			}
		}
		if matched {
			continue
		}
		for _, c := range cands {
			if c.status == bodyUnclear {
				return "", "", true
			}
		}
		b, _ := json.Marshal(rd.Msg)
		return "message-from-malformed-frame", fmt.Sprintf("read %d at byte %d returned %s, but the bytes %q are not a frame carrying it (%s)", i, off, b, clip(cs.Data[off:], 120), h.Bad), false
	}
	if !sawErr {
		return "no-error-at-end", fmt.Sprintf("%d reads returned no error although the stream ended at byte %d", len(res.Reads), len(cs.Data)), false
	}
	return "", "", false
}

func frameOf(body string) string { return fmt.Sprintf("Content-Length: %d\r\n\r\n%s", len(body), body) }

var malBodies = []string{
	`{"jsonrpc":"2.0","method":"textDocument/didChange","params":{"text":"héllo 漢字 😀","n":1},"id":1}`,
	`{"jsonrpc":"2.0","method":"$/progress","params":{"token":"é","value":[1,2,3]}}`,
	`{"jsonrpc":"2.0","result":{"ok":true,"msg":"Content-Length: 5\r\n\r\n"},"id":"req-7"}`,
}

// safeLengths: never hand the implementation a Content-Length between 4 MB
// and 2^31-1 — it allocates the declared length, which is outside the statement.
func safeLengths(data []byte) bool {
	for i := 0; i < len(data); {
		if data[i] < '0' || data[i] > '9' {
			i++
			continue
		}
		j := i
		for j < len(data) && data[j] >= '0' && data[j] <= '9' {
			j++
		}
		if j-i >= 7 {
			if v, err := strconv.ParseInt(string(data[i:j]), 10, 64); err == nil && v > 4<<20 && v < 1<<31 {
				return false
			}
		}
		i = j
	}
	return true
}

// malCatalogue builds the value-determined case list of part (b).
func malCatalogue(r *rand.Rand, nMut int) []malCase {
	var out []malCase
	add := func(cat string, data string, chunks ...chunking) {
		if !safeLengths([]byte(data)) {
			return
		}
		if len(chunks) == 0 {
			chunks = []chunking{{Family: "whole"}, {Family: "fixed", K: 1}, {Family: "fixed", K: 7}}
		}
		for _, ch := range chunks {
			out = append(out, malCase{ID: len(out), Category: cat, Data: []byte(data), Chunk: ch})
		}
	}
	f1, f2, f3 := frameOf(malBodies[0]), frameOf(malBodies[1]), frameOf(malBodies[2])
	full := f1 + f2 + f3
	// every truncation of the valid 3-frame stream
	for n := 0; n <= len(full); n++ {
		add("truncation", full[:n], chunking{Family: "whole"}, chunking{Family: "fixed", K: 1}, chunking{Family: "whole", EOFNow: true})
	}
	// bad / unusual headers in front of the second body
	b := malBodies[1]
	n := len(b)
	big := strings.Repeat("a", 1<<20)
	hv := []struct{ name, hdr string }{
		{"valid", fmt.Sprintf("Content-Length: %d\r\n\r\n", n)},
		{"valid+content-type-after", fmt.Sprintf("Content-Length: %d\r\nContent-Type: application/vscode-jsonrpc; charset=utf-8\r\n\r\n", n)},
		{"valid+content-type-before", fmt.Sprintf("Content-Type: application/vscode-jsonrpc; charset=utf-8\r\nContent-Length: %d\r\n\r\n", n)},
		{"valid+huge-unknown-header", fmt.Sprintf("X-Junk: %s\r\nContent-Length: %d\r\n\r\n", big, n)},
		{"missing-header-block", ""},
		{"missing-only-blank-line", "\r\n"},
		{"missing-only-content-type", "Content-Type: x\r\n\r\n"},
		{"negative", fmt.Sprintf("Content-Length: -%d\r\n\r\n", n)},
		{"zero", "Content-Length: 0\r\n\r\n"},
		{"non-numeric", "Content-Length: abc\r\n\r\n"},
		{"numeric-prefix", fmt.Sprintf("Content-Length: %dabc\r\n\r\n", n)},
		{"exponent", "Content-Length: 1e2\r\n\r\n"},
		{"hex", fmt.Sprintf("Content-Length: 0x%x\r\n\r\n", n)},
		{"float", fmt.Sprintf("Content-Length: %d.0\r\n\r\n", n)},
		{"empty-value", "Content-Length:\r\n\r\n"},
		{"blank-value", "Content-Length:   \r\n\r\n"},
		{"inner-space", fmt.Sprintf("Content-Length: %d %d\r\n\r\n", n/10, n%10)},
		{"over-int32", "Content-Length: 2147483648\r\n\r\n"},
		{"wraps-uint32", fmt.Sprintf("Content-Length: %d\r\n\r\n", int64(1<<32)+int64(n))},
		{"over-int64", "Content-Length: 99999999999999999999\r\n\r\n"},
		{"lower-case-name", fmt.Sprintf("content-length: %d\r\n\r\n", n)},
		{"upper-case-name", fmt.Sprintf("CONTENT-LENGTH: %d\r\n\r\n", n)},
		{"no-colon", fmt.Sprintf("Content-Length %d\r\n\r\n", n)},
		{"equals-sign", fmt.Sprintf("Content-Length=%d\r\n\r\n", n)},
		{"no-separator", fmt.Sprintf("Content-Length: %d", n)},
		{"no-blank-line", fmt.Sprintf("Content-Length: %d\r\n", n)},
		{"lf-only", fmt.Sprintf("Content-Length: %d\n\n", n)},
		{"cr-only", fmt.Sprintf("Content-Length: %d\r\r", n)},
		{"no-space-after-colon", fmt.Sprintf("Content-Length:%d\r\n\r\n", n)},
		{"tabs-and-spaces", fmt.Sprintf("Content-Length: \t %d \t\r\n\r\n", n)},
		{"space-before-colon", fmt.Sprintf("Content-Length : %d\r\n\r\n", n)},
		{"leading-space", fmt.Sprintf(" Content-Length: %d\r\n\r\n", n)},
		{"leading-blank-line", fmt.Sprintf("\r\nContent-Length: %d\r\n\r\n", n)},
		{"duplicate-same", fmt.Sprintf("Content-Length: %d\r\nContent-Length: %d\r\n\r\n", n, n)},
		{"duplicate-different", fmt.Sprintf("Content-Length: %d\r\nContent-Length: %d\r\n\r\n", n-3, n)},
		{"duplicate-different-2", fmt.Sprintf("Content-Length: %d\r\nContent-Length: %d\r\n\r\n", n, n-3)},
		{"plus-sign", fmt.Sprintf("Content-Length: +%d\r\n\r\n", n)},
		{"leading-zeros", fmt.Sprintf("Content-Length: 000%d\r\n\r\n", n)},
		{"length-minus-1", fmt.Sprintf("Content-Length: %d\r\n\r\n", n-1)},
		{"length-plus-1", fmt.Sprintf("Content-Length: %d\r\n\r\n", n+1)},
		{"length-half", fmt.Sprintf("Content-Length: %d\r\n\r\n", n/2)},
		{"length-rune-count", fmt.Sprintf("Content-Length: %d\r\n\r\n", len([]rune(b)))},
		{"length-spans-next-frame", fmt.Sprintf("Content-Length: %d\r\n\r\n", n+len(f3))},
		{"length-beyond-stream", fmt.Sprintf("Content-Length: %d\r\n\r\n", n+len(f3)+100)},
		{"nul-in-header", fmt.Sprintf("Content-Length: %d\x00\r\n\r\n", n)},
		{"bom", fmt.Sprintf("\xef\xbb\xbfContent-Length: %d\r\n\r\n", n)},
		{"huge-line-no-newline", "Content-Length: " + big},
		{"huge-garbage-line", big + "\r\n\r\n"},
		{"http-request-line", fmt.Sprintf("POST / HTTP/1.1\r\nContent-Length: %d\r\n\r\n", n)},
		{"nbsp-value", fmt.Sprintf("Content-Length:  %d\r\n\r\n", n)},
	}
	for _, v := range hv {
		add("header:"+v.name, f1+v.hdr+b+f3)
		add("header-first:"+v.name, v.hdr+b+f3, chunking{Family: "whole"}, chunking{Family: "fixed", K: 3})
	}
	// bad bodies behind a correct header
	for _, bb := range []struct{ name, body string }{
		{"truncated-json", b[:len(b)-1]}, {"garbage", "\x00\xff\xfe not json"}, {"two-values", b + b},
		{"html", "<html></html>"}, {"open-string", `{"jsonrpc":"2.0","method":"m`},
	} {
		add("body:"+bb.name, f1+frameOf(bb.body)+f3)
	}
	// random single / double mutations, mostly in header regions
	hdrPos := []int{}
	for off, i := 0, 0; i < 3; i++ {
		fl := len(frameOf(malBodies[i]))
		hl := fl - len(malBodies[i])
		for k := 0; k < hl; k++ {
			hdrPos = append(hdrPos, off+k)
		}
		off += fl
	}
	const repl = "\r\n: 0123456789-+Cc\x00 e"
	for i := 0; i < nMut; i++ {
		d := []byte(full)
		for k := 1 + r.Intn(2); k > 0; k-- {
			p := hdrPos[r.Intn(len(hdrPos))]
			if r.Intn(5) == 0 || p >= len(d) {
				p = r.Intn(len(d))
			}
			switch r.Intn(5) {
			case 0:
				d[p] ^= 1 << uint(r.Intn(8))
			case 1:
				d[p] = repl[r.Intn(len(repl))]
			case 2:
				d = append(d[:p], d[p+1:]...)
			case 3:
				d = append(d[:p], append([]byte{repl[r.Intn(len(repl))]}, d[p:]...)...)
			default:
				q := p + r.Intn(6)
				if q > len(d) {
					q = len(d)
				}
				d = append(d[:q], append(append([]byte{}, d[p:q]...), d[q:]...)...)
			}
		}
		ch := chunking{Family: "whole"}
		if i%2 == 1 {
			ch = chunking{Family: "random", Seed: int64(i)}
		}
		add("mutation", string(d), ch)
	}
	return out
}
