package c18

import (
	"bufio"
	"bytes"
	"context"
	"encoding/json"
	"errors"
	"fmt"
	"hash/crc32"
	"io"
	"math/rand"
	"os"
	"reflect"
	"runtime"
	"runtime/pprof"
	"sort"
	"strconv"
	"strings"
	"sync"
	"sync/atomic"
	"time"

	"github.com/a-h/templ/lsp/jsonrpc2"
)

// Part (c): two jsonrpc2.Conn over an in-memory duplex that re-chunks and
// yields, N concurrent callers and notifiers per side against a handler that
// answers out of order / late / never / with errors, seeded cancellations.
// Runs in a race-instrumented child process; one "session" = one history.

// ---------------------------------------------------------------------------
// duplex

type pipe struct {
	mu            sync.Mutex
	cond          *sync.Cond
	buf           []byte
	tap           []byte // every byte ever written, in the order the reader sees them
	closed        bool
	rnd           *rand.Rand
	readerWaiting bool
	writers       int
	// coalescing transport (raw-stream sessions): every Write is handed over
	// whole (one message), a Read lingers and then returns everything pending
	coalesce       bool
	wrote, readPos int
	ends           []int // end offset of every Write = of every message
	coalescedReads int   // reads that returned bytes of more than one message
}

func newPipe(seed int64, coalesce bool) *pipe {
	p := &pipe{rnd: rand.New(rand.NewSource(seed)), coalesce: coalesce}
	p.cond = sync.NewCond(&p.mu)
	return p
}

func (p *pipe) piece(max int) int {
	var n int
	switch k := p.rnd.Intn(10); {
	case k < 2:
		n = 1
	case k < 5:
		n = 1 + p.rnd.Intn(16)
	case k < 8:
		n = 1 + p.rnd.Intn(600)
	default:
		n = max
	}
	if n > max {
		n = max
	}
	return n
}

func yield(act int) {
	switch {
	case act < 45:
	case act < 90:
		runtime.Gosched()
	case act < 98:
		runtime.Gosched()
		runtime.Gosched()
		runtime.Gosched()
	default:
		time.Sleep(5 * time.Microsecond)
	}
}

// Write hands the bytes over in pieces and yields between them, so that a
// second writer that is not excluded by the code under test WILL interleave.
func (p *pipe) Write(b []byte) (int, error) {
	p.mu.Lock()
	if p.coalesce {
		if p.closed {
			p.mu.Unlock()
			return 0, io.ErrClosedPipe
		}
		p.buf = append(p.buf, b...)
		p.tap = append(p.tap, b...)
		p.wrote += len(b)
		p.ends = append(p.ends, p.wrote)
		act := p.rnd.Intn(100)
		p.cond.Broadcast()
		p.mu.Unlock()
		yield(act)
		return len(b), nil
	}
	p.writers++
	off := 0
	for off < len(b) {
		if p.closed {
			p.writers--
			p.mu.Unlock()
			return off, io.ErrClosedPipe
		}
		n := p.piece(len(b) - off)
		p.buf = append(p.buf, b[off:off+n]...)
		p.tap = append(p.tap, b[off:off+n]...)
		off += n
		act := p.rnd.Intn(100)
		p.cond.Broadcast()
		p.mu.Unlock()
		yield(act)
		p.mu.Lock()
	}
	act := p.rnd.Intn(100)
	p.writers--
	p.cond.Broadcast()
	p.mu.Unlock()
	yield(act) // the bytes are visible to the peer before Write returns
	return len(b), nil
}

func (p *pipe) Read(b []byte) (int, error) {
	p.mu.Lock()
	for len(p.buf) == 0 && !p.closed {
		p.readerWaiting = true
		p.cond.Broadcast()
		p.cond.Wait()
	}
	p.readerWaiting = false
	if len(p.buf) == 0 {
		p.mu.Unlock()
		return 0, io.EOF
	}
	if p.coalesce {
		// linger so that further messages pile up, then deliver all of them at once
		for i := p.rnd.Intn(6); i > 0; i-- {
			p.mu.Unlock()
			runtime.Gosched()
			p.mu.Lock()
		}
		n := len(p.buf)
		if n > len(b) {
			n = len(b)
		}
		copy(b, p.buf[:n])
		p.buf = p.buf[n:]
		if sort.SearchInts(p.ends, p.readPos+n) > sort.SearchInts(p.ends, p.readPos+1) {
			p.coalescedReads++
		}
		p.readPos += n
		p.mu.Unlock()
		return n, nil
	}
	n := p.piece(len(p.buf))
	if n > len(b) {
		n = len(b)
	}
	copy(b, p.buf[:n])
	p.buf = p.buf[n:]
	if len(p.buf) == 0 {
		p.buf = nil
	}
	act := p.rnd.Intn(100)
	p.mu.Unlock()
	yield(act)
	return n, nil
}

func (p *pipe) close() {
	p.mu.Lock()
	p.closed = true
	p.cond.Broadcast()
	p.mu.Unlock()
}

func (p *pipe) idle() bool {
	p.mu.Lock()
	defer p.mu.Unlock()
	return len(p.buf) == 0 && p.writers == 0 && (p.readerWaiting || p.closed)
}

type end struct{ r, w *pipe }

func (e *end) Read(b []byte) (int, error)  { return e.r.Read(b) }
func (e *end) Write(b []byte) (int, error) { return e.w.Write(b) }
func (e *end) Close() error                { e.r.close(); e.w.close(); return nil }

// ---------------------------------------------------------------------------
// session

type sessSpec struct {
	Idx       int   `json:"idx"`
	Seed      int64 `json:"seed"`
	NA        int   `json:"na"` // callers on side A
	NB        int   `json:"nb"` // callers on side B
	M         int   `json:"m"`  // calls per caller
	Notifiers int   `json:"notifiers"`
	NotifM    int   `json:"notif_m"`
	Big       bool  `json:"big"`    // some payloads of ~100 KB
	Manual    bool  `json:"manual"` // side B is the harness speaking the wire protocol in alternative JSON spellings (manual.go)
	Raw       bool  `json:"raw"`    // NewRawStream over a coalescing transport instead of NewStream over the re-chunking one
}

type kv struct {
	Key     string `json:"key"`
	Summary string `json:"summary"`
}

type sessResult struct {
	Idx    int            `json:"idx"`
	Spec   sessSpec       `json:"spec"`
	Viol   []kv           `json:"viol,omitempty"`
	Inconc []string       `json:"inconc,omitempty"`
	Stats  map[string]int `json:"stats"`
	Sample []string       `json:"sample,omitempty"`
}

type callParams struct {
	Token string `json:"token"`
	Mode  string `json:"mode"`
	Delay int    `json:"delay,omitempty"`
	Code  int32  `json:"code,omitempty"`
	Fill  string `json:"fill"`
	Sum   uint32 `json:"sum"`
}

type callResult struct {
	Token string `json:"token"`
	ID    string `json:"id"`
	Echo  uint32 `json:"echo"`
}

type noteParams struct {
	N    int    `json:"n"`
	S    int    `json:"s"`
	Fill string `json:"fill"`
	Sum  uint32 `json:"sum"`
}

type heldItem struct {
	idx   int
	p     callParams
	id    string
	reply jsonrpc2.Replier
}

type session struct {
	spec    sessSpec
	mu      sync.Mutex
	res     *sessResult
	trig    map[string]func() // token+"/"+event -> cancel
	fired   map[string]bool
	closing atomic.Bool
	wdMs    int
}

func (s *session) stat(k string, n int) { s.mu.Lock(); s.res.Stats[k] += n; s.mu.Unlock() }
func (s *session) violate(key, f string, a ...any) {
	s.mu.Lock()
	defer s.mu.Unlock()
	for _, v := range s.res.Viol {
		if v.Key == key {
			return
		}
	}
	s.res.Viol = append(s.res.Viol, kv{key, fmt.Sprintf(f, a...)})
}
func (s *session) inconclusive(f string, a ...any) {
	s.mu.Lock()
	s.res.Inconc = append(s.res.Inconc, fmt.Sprintf(f, a...))
	s.mu.Unlock()
}

// on registers fn to run when the peer reports event ev for token (or runs it
// at once if that already happened).
func (s *session) on(token, ev string, fn func()) {
	s.mu.Lock()
	if s.fired[token+"/"+ev] {
		s.mu.Unlock()
		fn()
		return
	}
	s.trig[token+"/"+ev] = fn
	s.mu.Unlock()
}
func (s *session) fire(token, ev string) {
	s.mu.Lock()
	s.fired[token+"/"+ev] = true
	fn := s.trig[token+"/"+ev]
	delete(s.trig, token+"/"+ev)
	s.mu.Unlock()
	if fn != nil {
		fn()
	}
}

type endpoint struct {
	s           *session
	name        string
	conn        jsonrpc2.Conn
	peer        *endpoint
	mu          sync.Mutex
	rnd         *rand.Rand
	arrivals    int
	outstanding map[int]bool
	held        []heldItem
	seenCall    map[string]int
	notes       map[int][]int
	replySent   map[string]bool
	replies     int
	ids         map[string]string // formatted id -> token
	inflight    int               // reply goroutines not yet finished (guarded by mu; a WaitGroup
	// would be misused here: requests of cancelled calls may still arrive while the session waits)
}

func (e *endpoint) begin() { e.mu.Lock(); e.inflight++; e.mu.Unlock() }
func (e *endpoint) end()   { e.mu.Lock(); e.inflight--; e.mu.Unlock() }
func (e *endpoint) quiet() bool {
	e.mu.Lock()
	defer e.mu.Unlock()
	return e.inflight == 0
}

func (e *endpoint) goSend(it heldItem) {
	e.begin()
	go func() { defer e.end(); e.send(it) }()
}

// handle is the adversarial peer: it answers as the caller's plan (carried in
// the params) prescribes, from whatever goroutine and in whatever order.
func (e *endpoint) handle(ctx context.Context, reply jsonrpc2.Replier, req jsonrpc2.Request) error {
	s := e.s
	switch req.Method() {
	case "note":
		var p noteParams
		if err := json.Unmarshal(req.Params(), &p); err != nil || crc32.ChecksumIEEE([]byte(p.Fill)) != p.Sum {
			s.violate("conc/payload-corrupted", "%s received a notification whose payload does not match its checksum (%v): %s", e.name, err, clip(req.Params(), 200))
			return nil
		}
		if _, ok := req.(*jsonrpc2.Notification); !ok {
			s.violate("conc/kind-changed", "%s: a notification arrived as %T", e.name, req)
		}
		e.mu.Lock()
		e.notes[p.N] = append(e.notes[p.N], p.S)
		e.mu.Unlock()
	case "call":
		call, ok := req.(*jsonrpc2.Call)
		if !ok {
			s.violate("conc/kind-changed", "%s: a call arrived as %T", e.name, req)
			return nil
		}
		var p callParams
		if err := json.Unmarshal(req.Params(), &p); err != nil || crc32.ChecksumIEEE([]byte(p.Fill)) != p.Sum {
			s.violate("conc/payload-corrupted", "%s received a call whose payload does not match its checksum (%v): %s", e.name, err, clip(req.Params(), 200))
			return nil
		}
		e.mu.Lock()
		e.seenCall[p.Token]++
		idx := e.arrivals
		e.arrivals++
		if p.Mode != "never" {
			e.outstanding[idx] = true
		}
		e.mu.Unlock()
		s.fire(p.Token, "arrive")
		it := heldItem{idx, p, fmt.Sprintf("%q", call.ID()), reply}
		switch p.Mode {
		case "now":
			e.send(it)
		case "async", "error":
			e.goSend(it)
		case "late":
			e.begin()
			go func() {
				defer e.end()
				time.Sleep(time.Duration(p.Delay) * time.Microsecond)
				e.send(it)
			}()
		case "hold":
			e.mu.Lock()
			e.held = append(e.held, it)
			var rel *heldItem
			if len(e.held) > 3 {
				i := e.rnd.Intn(len(e.held))
				x := e.held[i]
				e.held = append(e.held[:i], e.held[i+1:]...)
				rel = &x
			}
			e.mu.Unlock()
			if rel != nil {
				e.goSend(*rel)
			}
		case "never":
		}
	default:
		s.violate("conc/phantom-message", "%s received a request nobody sent: method %q", e.name, req.Method())
	}
	return nil
}

func (e *endpoint) send(it heldItem) {
	s := e.s
	e.mu.Lock()
	ooo := false
	for j := range e.outstanding {
		if j < it.idx {
			ooo = true
			break
		}
	}
	delete(e.outstanding, it.idx)
	e.mu.Unlock()
	if ooo {
		s.stat("out_of_order_replies", 1)
	}
	var err error
	if it.p.Mode == "error" {
		err = it.reply(context.Background(), nil, jsonrpc2.NewError(jsonrpc2.Code(it.p.Code), "E:"+it.p.Token))
	} else {
		err = it.reply(context.Background(), callResult{Token: it.p.Token, ID: it.id, Echo: it.p.Sum}, nil)
	}
	if err != nil {
		if !s.closing.Load() {
			s.violate("conc/reply-write-failed", "%s could not write the reply for %s: %v", e.name, it.p.Token, err)
		}
		return
	}
	e.mu.Lock()
	e.replySent[it.p.Token] = true
	e.replies++
	e.mu.Unlock()
	s.fire(it.p.Token, "replied")
}

func (e *endpoint) flusher(stop chan struct{}, done *sync.WaitGroup) {
	defer done.Done()
	for {
		select {
		case <-stop:
			return
		default:
		}
		time.Sleep(300 * time.Microsecond)
		e.mu.Lock()
		var rel *heldItem
		if len(e.held) > 0 {
			i := e.rnd.Intn(len(e.held))
			x := e.held[i]
			e.held = append(e.held[:i], e.held[i+1:]...)
			rel = &x
		}
		e.mu.Unlock()
		if rel != nil {
			e.goSend(*rel)
		}
	}
}

type plan struct {
	mode   string
	cancel string // none | pre | arrive | replied | timed | deadline
	delay  int
}

func makePlan(r *rand.Rand) plan {
	var p plan
	switch k := r.Intn(100); {
	case k < 25:
		p.mode = "now"
	case k < 45:
		p.mode = "async"
	case k < 60:
		p.mode = "late"
	case k < 80:
		p.mode = "hold"
	case k < 90:
		p.mode = "error"
	default:
		p.mode = "never"
	}
	p.delay = 1 + r.Intn(300)
	if p.mode == "never" {
		p.cancel = []string{"arrive", "timed", "deadline"}[r.Intn(3)]
		return p
	}
	switch k := r.Intn(100); {
	case k < 70:
		p.cancel = "none"
	case k < 74:
		p.cancel = "pre"
	case k < 84:
		p.cancel = "arrive"
	case k < 92:
		p.cancel = "replied"
	case k < 97:
		p.cancel = "timed"
	default:
		p.cancel = "deadline"
	}
	return p
}

// caller issues M calls and judges each return value.
//
// ORACLE (per call): Call returns
//   - nil error: the decoded result carries THIS call's token, the id the peer
//     saw equals the id Call returned, and the plan was a normal reply;
//   - a *jsonrpc2.Error: the plan was "error" and message/code are this call's;
//   - otherwise errors.Is(err, ctx.Err()) of its OWN context must hold (the
//     cancellation may arrive wrapped). If the only canceller was the harness
//     watchdog: the reply the peer logged as sent was lost (violation).
func (s *session) caller(e *endpoint, ci int, r *rand.Rand) {
	for k := 0; k < s.spec.M; k++ {
		token := fmt.Sprintf("%s%d-%d", e.name, ci, k)
		pl := makePlan(r)
		size := r.Intn(40)
		if r.Intn(10) == 0 {
			size = 3000 + r.Intn(9000)
		}
		if s.spec.Big && r.Intn(40) == 0 {
			size = 100000 + r.Intn(50000)
		}
		fill := filler(r, size)
		prm := callParams{Token: token, Mode: pl.mode, Delay: pl.delay, Code: int32(-32000 - r.Intn(50)), Fill: fill, Sum: crc32.ChecksumIEEE([]byte(fill))}
		ctx, cancel := context.WithCancel(context.Background())
		var tm *time.Timer
		switch pl.cancel {
		case "pre":
			cancel()
		case "arrive", "replied":
			s.on(token, pl.cancel, cancel)
		case "timed":
			tm = time.AfterFunc(time.Duration(20+r.Intn(500))*time.Microsecond, cancel)
		case "deadline":
			var c2 context.CancelFunc
			ctx, c2 = context.WithTimeout(ctx, time.Duration(50+r.Intn(1500))*time.Microsecond)
			defer c2()
		}
		var wdFired atomic.Bool
		wd := time.AfterFunc(time.Duration(s.wdMs)*time.Millisecond, func() { wdFired.Store(true); cancel() })
		var res callResult
		id, err := e.conn.Call(ctx, "call", prm, &res)
		ctxErr := ctx.Err()
		wd.Stop()
		if tm != nil {
			tm.Stop()
		}
		cancel()
		ids := fmt.Sprintf("%q", id)
		e.mu.Lock()
		if prev, dup := e.ids[ids]; dup {
			e.mu.Unlock()
			s.violate("conc/duplicate-id", "%s: Call returned id %s for both %s and %s", e.name, ids, prev, token)
		} else {
			e.ids[ids] = token
			e.mu.Unlock()
		}
		s.stat("calls", 1)
		if pl.cancel != "none" {
			s.stat("calls_with_scheduled_cancellation", 1)
		}
		var je *jsonrpc2.Error
		switch {
		case err == nil:
			switch {
			case pl.mode == "error" || pl.mode == "never":
				s.violate("conc/wrong-response", "%s: call %s (plan %s) returned success %+v although the peer never sent it a result", e.name, token, pl.mode, res)
			case res.Token != token || res.Echo != prm.Sum:
				s.violate("conc/wrong-response", "%s: call %s (id %s) returned the result of %q", e.name, token, ids, res.Token)
			case res.ID != ids:
				s.violate("conc/id-mismatch", "%s: call %s returned id %s but the peer answered request id %s", e.name, token, ids, res.ID)
			}
			s.stat("calls_returned_result", 1)
			if pl.cancel != "none" && pl.cancel != "pre" {
				s.stat("reply_won_race_against_cancellation", 1)
			}
		case errors.As(err, &je):
			if pl.mode != "error" || je.Message != "E:"+token || int32(je.Code) != prm.Code {
				s.violate("conc/wrong-response", "%s: call %s (plan %s) returned error response %q code %d", e.name, token, pl.mode, je.Message, je.Code)
			}
			s.stat("calls_returned_error_response", 1)
		case ctxErr != nil && errors.Is(err, ctxErr):
			if wdFired.Load() {
				p := e.peer
				p.mu.Lock()
				sent, seen := p.replySent[token], p.seenCall[token]
				p.mu.Unlock()
				switch {
				case sent:
					s.violate("conc/response-lost", "%s: call %s (plan %s/%s) was still waiting after %d ms although the peer had written its reply", e.name, token, pl.mode, pl.cancel, s.wdMs)
				case seen == 0 && pl.cancel == "none":
					s.violate("conc/call-lost", "%s: call %s was written but never reached the peer's handler", e.name, token)
				default:
					s.inconclusive("%s: call %s (plan %s/%s) hit the harness watchdog (seen=%d sent=%v)", e.name, token, pl.mode, pl.cancel, seen, sent)
				}
			}
			s.stat("calls_returned_own_cancellation", 1)
			if strings.Contains(err.Error(), ": ") {
				s.stat("cancellations_wrapped", 1)
			}
		default:
			cls := err.Error()
			if i := strings.Index(cls, token); i >= 0 {
				cls = cls[:i]
			}
			s.violate("conc/unexpected-error: "+clip([]byte(cls), 80), "%s: call %s (plan %s/%s, own ctx err %v) returned %q", e.name, token, pl.mode, pl.cancel, ctxErr, err)
		}
	}
}

func (s *session) notifier(e *endpoint, ni int, r *rand.Rand) {
	for k := 0; k < s.spec.NotifM; k++ {
		fill := filler(r, r.Intn(60))
		if err := e.conn.Notify(context.Background(), "note", noteParams{N: ni, S: k, Fill: fill, Sum: crc32.ChecksumIEEE([]byte(fill))}); err != nil {
			s.violate("conc/notify-error", "%s: Notify returned %v", e.name, err)
			return
		}
		s.stat("notifications", 1)
		if r.Intn(3) == 0 {
			runtime.Gosched()
		}
	}
}

func pendingLen(c jsonrpc2.Conn) int {
	v := reflect.ValueOf(c)
	if v.Kind() != reflect.Ptr || v.Elem().Kind() != reflect.Struct {
		return -1
	}
	f := v.Elem().FieldByName("pending")
	if !f.IsValid() || f.Kind() != reflect.Map {
		return -1
	}
	return f.Len()
}

func waitUntil(pred func() bool, d time.Duration) bool {
	deadline := time.Now().Add(d)
	for i := 0; !pred(); i++ {
		if time.Now().After(deadline) {
			return false
		}
		if i < 100 {
			runtime.Gosched()
		} else {
			time.Sleep(200 * time.Microsecond)
		}
	}
	return true
}

func waitWG(wg *sync.WaitGroup, d time.Duration) bool {
	ch := make(chan struct{})
	go func() { wg.Wait(); close(ch) }()
	select {
	case <-ch:
		return true
	case <-time.After(d):
		return false
	}
}

func templStacks() string {
	var sb bytes.Buffer
	_ = pprof.Lookup("goroutine").WriteTo(&sb, 1)
	var keep []string
	for _, blk := range strings.Split(sb.String(), "\n\n") {
		if strings.Contains(blk, "a-h/templ/") {
			keep = append(keep, blk)
		}
	}
	out := strings.Join(keep, "\n\n")
	if len(out) > 2500 {
		out = out[:2500]
	}
	return out
}

func runSession(spec sessSpec, wdMs int) *sessResult {
	res := &sessResult{Idx: spec.Idx, Spec: spec, Stats: map[string]int{}}
	s := &session{spec: spec, res: res, trig: map[string]func(){}, fired: map[string]bool{}, wdMs: wdMs}
	base := runtime.NumGoroutine()
	ab, ba := newPipe(spec.Seed*2+1, spec.Raw), newPipe(spec.Seed*2+2, spec.Raw)
	framer := jsonrpc2.NewStream
	if spec.Raw {
		framer = jsonrpc2.NewRawStream
		s.stat("raw_sessions", 1)
	}
	mk := func(name string, rwc io.ReadWriteCloser, seed int64) *endpoint {
		return &endpoint{s: s, name: name, conn: jsonrpc2.NewConn(framer(rwc)), rnd: rand.New(rand.NewSource(seed)),
			outstanding: map[int]bool{}, seenCall: map[string]int{}, notes: map[int][]int{}, replySent: map[string]bool{}, ids: map[string]string{}}
	}
	a := mk("A", &end{r: ba, w: ab}, spec.Seed+11)
	var b *endpoint
	var mp *manualPeer
	if spec.Manual {
		b = &endpoint{s: s, name: "B", rnd: rand.New(rand.NewSource(spec.Seed + 12)),
			outstanding: map[int]bool{}, seenCall: map[string]int{}, notes: map[int][]int{}, replySent: map[string]bool{}, ids: map[string]string{}}
		mp = &manualPeer{s: s, ep: b, in: ab, out: ba, raw: spec.Raw, waiting: map[string]chan desc{}, done: make(chan struct{})}
		s.stat("manual_peer_sessions", 1)
	} else {
		b = mk("B", &end{r: ab, w: ba}, spec.Seed+12)
	}
	a.peer, b.peer = b, a
	a.conn.Go(context.Background(), a.handle)
	bDone := func() <-chan struct{} {
		if mp != nil {
			return mp.done
		}
		return b.conn.Done()
	}
	if mp != nil {
		go mp.readLoop()
	} else {
		b.conn.Go(context.Background(), b.handle)
	}
	stop := make(chan struct{})
	var fl sync.WaitGroup
	fl.Add(2)
	go a.flusher(stop, &fl)
	go b.flusher(stop, &fl)

	var wg sync.WaitGroup
	start := func(e *endpoint, n int, off int64) {
		for i := 0; i < n; i++ {
			wg.Add(1)
			r := rand.New(rand.NewSource(spec.Seed*1000 + off + int64(i)))
			go func(i int) { defer wg.Done(); s.caller(e, i, r) }(i)
		}
		for i := 0; i < spec.Notifiers; i++ {
			wg.Add(1)
			r := rand.New(rand.NewSource(spec.Seed*1000 + off + 500 + int64(i)))
			go func(i int) { defer wg.Done(); s.notifier(e, i, r) }(i)
		}
	}
	start(a, spec.NA, 0)
	if mp != nil {
		for i := 0; i < spec.NB; i++ {
			wg.Add(1)
			r := rand.New(rand.NewSource(spec.Seed*1000 + 100 + int64(i)))
			go func(i int) { defer wg.Done(); mp.caller(i, r) }(i)
		}
		for i := 0; i < spec.Notifiers; i++ {
			wg.Add(1)
			r := rand.New(rand.NewSource(spec.Seed*1000 + 600 + int64(i)))
			go func(i int) { defer wg.Done(); mp.notifier(i, r) }(i)
		}
	} else {
		start(b, spec.NB, 100)
	}
	early := false
	if !waitWG(&wg, time.Duration(wdMs*3)*time.Millisecond) {
		s.inconclusive("session watchdog: callers still running after %d ms; templ goroutines: %s", wdMs*3, templStacks())
		early = true
	}
	select {
	case <-a.conn.Done():
		s.violate("conc/connection-failed", "connection A shut down during the session: %v", a.conn.Err())
	case <-bDone():
		if mp == nil {
			s.violate("conc/connection-failed", "connection B shut down during the session: %v", b.conn.Err())
		} else {
			s.violate("conc/connection-failed", "the harness peer's reader stopped during the session (A closed the stream)")
		}
	default:
	}
	close(stop)
	fl.Wait()
	// stale replies for calls that were cancelled meanwhile are released too
	for _, e := range []*endpoint{a, b} {
		e.mu.Lock()
		h := e.held
		e.held = nil
		e.mu.Unlock()
		for _, it := range h {
			e.goSend(it)
		}
	}
	// quiescence: no reply goroutine running, nothing in flight, both read loops
	// waiting for more bytes — and still so after a second look
	quiet := func() bool {
		return a.quiet() && b.quiet() && ab.idle() && ba.idle() && a.quiet() && b.quiet() && ab.idle() && ba.idle()
	}
	if !early {
		if !waitUntil(quiet, 10*time.Second) {
			s.inconclusive("pipes did not drain")
		}
		s.finalChecks(a, b, ab, ba)
	}
	s.closing.Store(true)
	_ = a.conn.Close()
	okA := waitUntil(func() bool {
		select {
		case <-a.conn.Done():
			return true
		default:
			return false
		}
	}, 10*time.Second)
	okB := waitUntil(func() bool {
		select {
		case <-bDone():
			return true
		default:
			return false
		}
	}, 10*time.Second)
	if mp == nil {
		_ = b.conn.Close()
	}
	if !okA || !okB {
		s.violate("conc/no-shutdown", "Done() not closed 10 s after Close (A done=%v, B done=%v); templ goroutines: %s", okA, okB, templStacks())
	}
	if !waitUntil(func() bool { return a.quiet() && b.quiet() && runtime.NumGoroutine() <= base }, 5*time.Second) {
		st := templStacks()
		if st != "" {
			s.violate("conc/goroutine-leak", "%d goroutines above baseline after Close+Done: %s", runtime.NumGoroutine()-base, st)
		} else if !early {
			s.inconclusive("goroutine count %d above baseline %d without templ frames", runtime.NumGoroutine(), base)
		}
	}
	return res
}

// finalChecks: losslessness and the wire tap, at quiescence.
func (s *session) finalChecks(a, b *endpoint, ab, ba *pipe) {
	for _, x := range []struct {
		from, to *endpoint
		p        *pipe
		callers  int
	}{{a, b, ab, s.spec.NA}, {b, a, ba, s.spec.NB}} {
		to := x.to
		to.mu.Lock()
		// notifications: every one, once, in the order each notifier sent them
		for ni := 0; ni < s.spec.Notifiers; ni++ {
			got := to.notes[ni]
			ok := len(got) == s.spec.NotifM
			for i := 0; ok && i < len(got); i++ {
				ok = got[i] == i
			}
			if !ok {
				s.mu.Lock()
				s.res.Viol = append(s.res.Viol, kv{"conc/notifications-lost-or-reordered", fmt.Sprintf("%s received from notifier %d the sequence %v, expected 0..%d in order", to.name, ni, got, s.spec.NotifM-1)})
				s.mu.Unlock()
				break
			}
		}
		calls, notes := 0, 0
		for tok, n := range to.seenCall {
			calls += n
			if n > 1 {
				s.mu.Lock()
				s.res.Viol = append(s.res.Viol, kv{"conc/call-delivered-twice", fmt.Sprintf("%s saw call %s %d times", to.name, tok, n)})
				s.mu.Unlock()
			}
		}
		for _, l := range to.notes {
			notes += len(l)
		}
		to.mu.Unlock()
		x.from.mu.Lock()
		replies := x.from.replies
		x.from.mu.Unlock()
		// wire tap
		ab := x.p
		ab.mu.Lock()
		tap, coalescedReads := ab.tap, ab.coalescedReads
		ab.mu.Unlock()
		// bodies on the wire: length-prefixed frames, or (raw stream) JSON values back to back
		var bodies [][]byte
		if s.spec.Raw {
			s.stat("raw_coalesced_reads", coalescedReads)
			dec := json.NewDecoder(bytes.NewReader(tap))
			bad := false
			for dec.More() {
				var v json.RawMessage
				if err := dec.Decode(&v); err != nil {
					s.violate("conc/tap-raw-not-json-values", "%s->%s byte stream is not a sequence of JSON values: %v at byte %d", x.from.name, to.name, err, dec.InputOffset())
					bad = true
					break
				}
				bodies = append(bodies, v)
			}
			if bad {
				continue
			}
		} else {
			frames, err := strictFrames(tap)
			if err != nil {
				s.violate("conc/tap-malformed-or-interleaved-frames", "%s->%s byte stream is not a sequence of whole frames: %v", x.from.name, to.name, err)
				continue
			}
			for _, f := range frames {
				bodies = append(bodies, tap[f.BodyStart:f.End])
			}
		}
		kinds := map[string]int{}
		for _, body := range bodies {
			d, st := descOfBody(body)
			if st != bodyClean {
				s.violate("conc/tap-not-a-message", "%s->%s frame body is not a JSON-RPC message: %s", x.from.name, to.name, clip(body, 200))
				continue
			}
			kinds[d.Kind]++
		}
		frames := bodies
		s.stat("tap_frames", len(frames))
		s.stat("tap_bytes", len(tap))
		if kinds["call"] != calls || kinds["notify"] != notes || kinds["result"]+kinds["error"] != replies {
			s.violate("conc/tap-count-mismatch", "%s->%s wire carried %d calls / %d notifications / %d responses, but the receiver's handler saw %d calls / %d notifications and the sender's repliers completed %d responses",
				x.from.name, to.name, kinds["call"], kinds["notify"], kinds["result"]+kinds["error"], calls, notes, replies)
		}
	}
	for _, e := range []*endpoint{a, b} {
		if e.conn == nil {
			continue // the harness peer has no Conn
		}
		switch n := pendingLen(e.conn); {
		case n < 0:
			s.inconclusive("cannot observe conn.pending by reflection")
		case n > 0:
			s.violate("conc/pending-leak", "%s: %d entries left in the pending map after every Call returned", e.name, n)
		default:
			s.stat("pending_map_observed_empty", 1)
		}
	}
}

// childConc: --child conc <specs.jsonl> <results.jsonl> <progress>
func childConc(args []string) int {
	if len(args) < 3 {
		return 2
	}
	wd := 30000
	if v, err := strconv.Atoi(os.Getenv("C18_WD_MS")); err == nil && v > 0 {
		wd = v
	}
	in, err := os.Open(args[0])
	if err != nil {
		fmt.Fprintln(os.Stderr, err)
		return 2
	}
	defer in.Close()
	out, _ := os.OpenFile(args[1], os.O_CREATE|os.O_WRONLY|os.O_APPEND, 0o644)
	prog, _ := os.OpenFile(args[2], os.O_CREATE|os.O_WRONLY|os.O_APPEND, 0o644)
	defer out.Close()
	defer prog.Close()
	sc := bufio.NewScanner(in)
	slow := 0
	for sc.Scan() {
		var spec sessSpec
		if err := json.Unmarshal(sc.Bytes(), &spec); err != nil {
			return 2
		}
		fmt.Fprintf(prog, "S %d\n", spec.Idx)
		var res *sessResult
		if slow >= 2 {
			res = &sessResult{Idx: spec.Idx, Spec: spec, Stats: map[string]int{"skipped": 1}}
		} else {
			t0 := time.Now()
			res = runSession(spec, wd)
			if time.Since(t0) > time.Duration(wd)*time.Millisecond {
				slow++ // failing sessions cost watchdog time; after two the rest of the batch is skipped
			}
		}
		sort.Slice(res.Viol, func(i, j int) bool { return res.Viol[i].Key < res.Viol[j].Key })
		b, _ := json.Marshal(res)
		out.Write(append(b, '\n'))
		fmt.Fprintf(prog, "D %d\n", spec.Idx)
	}
	return 0
}
