package c18

import (
	"bufio"
	"context"
	"encoding/json"
	"fmt"
	"hash/crc32"
	"io"
	"math/rand"
	"strconv"
	"strings"
	"sync"
	"time"

	"github.com/a-h/templ/lsp/jsonrpc2"
)

// manualPeer is side B of a "manual" session: not a jsonrpc2.Conn but the
// harness itself speaking the protocol on the wire, the way a foreign peer
// would. It reads A's frames with its own reader and writes every message
// (responses to A's calls, its own calls with string ids, notifications) in
// alternative valid JSON spellings (spell.go): the id it received / chose
// comes back escaped differently ("a/b" as "a\/b", an astral character as a
// surrogate pair, ...), members in any order, white space between tokens.
//
// ORACLE: as in every session each of A's calls must still return exactly its
// response (token + id), and each call the peer sends with a string id must be
// answered by A's Conn with that id VALUE and this call's token; A's
// connection stays up.
type manualPeer struct {
	s       *session
	ep      *endpoint // bookkeeping of the adversarial handler (no conn)
	in, out *pipe
	raw     bool
	wmu     sync.Mutex
	seq     int64
	mu      sync.Mutex
	waiting map[string]chan desc // desc.ID of an outstanding call -> its response
	done    chan struct{}
}

// write sends one message; wmu makes the harness peer a well-behaved writer
// (whole messages only).
func (p *manualPeer) write(m mspec) error {
	p.wmu.Lock()
	defer p.wmu.Unlock()
	p.seq++
	body, err := spelled(m, p.s.spec.Seed*7919+p.seq)
	if err != nil {
		p.s.inconclusive("speller: %v", err)
		return err
	}
	p.s.stat("spelled_messages_written_by_peer", 1)
	if p.raw {
		_, err = p.out.Write([]byte(body + rawSeps[int(p.seq)%len(rawSeps)]))
	} else {
		_, err = p.out.Write([]byte(frameOf(body)))
	}
	return err
}

// readLoop: the peer's own frame reader (header lines up to the blank line,
// Content-Length bytes of body; or back-to-back JSON values on the raw stream).
func (p *manualPeer) readLoop() {
	defer close(p.done)
	br := bufio.NewReaderSize(p.in, 4096)
	var dec *json.Decoder
	if p.raw {
		dec = json.NewDecoder(br)
	}
	for {
		var body []byte
		if p.raw {
			var v json.RawMessage
			if err := dec.Decode(&v); err != nil {
				if err != io.EOF && !p.s.closing.Load() {
					p.s.violate("conc/peer-read-not-json", "the harness peer could not read A's raw stream: %v", err)
				}
				return
			}
			body = v
		} else {
			n := -1
			for {
				line, err := br.ReadString('\n')
				if err != nil {
					if (err != io.EOF || line != "") && !p.s.closing.Load() {
						p.s.violate("conc/peer-read-bad-frame", "the harness peer could not read A's frames: %v after %q", err, line)
					}
					return
				}
				line = strings.TrimRight(line, "\r\n")
				if line == "" {
					break
				}
				if k := strings.IndexByte(line, ':'); k > 0 && strings.EqualFold(line[:k], "Content-Length") {
					n, _ = strconv.Atoi(strings.TrimSpace(line[k+1:]))
				}
			}
			if n <= 0 {
				p.s.violate("conc/peer-read-bad-frame", "A sent a frame without a usable Content-Length")
				return
			}
			body = make([]byte, n)
			if _, err := io.ReadFull(br, body); err != nil {
				if !p.s.closing.Load() {
					p.s.violate("conc/peer-read-bad-frame", "A's frame body was cut short: %v", err)
				}
				return
			}
		}
		d, st := descOfBody(body)
		if st != bodyClean {
			p.s.violate("conc/peer-received-non-message", "A sent %s", clip(body, 200))
			continue
		}
		switch d.Kind {
		case "result", "error":
			p.mu.Lock()
			ch := p.waiting[d.ID]
			delete(p.waiting, d.ID)
			p.mu.Unlock()
			if ch == nil {
				p.s.violate("conc/response-with-unknown-id", "A answered with id %s, which is not the id of any outstanding call of the peer: %s", d.ID, clip(body, 200))
				continue
			}
			ch <- d
		default:
			var w struct {
				Params json.RawMessage `json:"params"`
			}
			_ = json.Unmarshal(body, &w)
			if d.Kind == "notify" {
				req, _ := jsonrpc2.NewNotification(d.Method, w.Params)
				_ = p.ep.handle(context.Background(), func(context.Context, any, error) error { return nil }, req)
				continue
			}
			m := mspec{}
			var id jsonrpc2.ID
			if strings.HasPrefix(d.ID, "#") {
				v, _ := strconv.ParseInt(d.ID[1:], 10, 32)
				m.NumID, id = int32(v), jsonrpc2.NewNumberID(int32(v))
			} else {
				m.StrID, _ = strconv.Unquote(d.ID)
				id = jsonrpc2.NewStringID(m.StrID)
			}
			req, _ := jsonrpc2.NewCall(id, d.Method, w.Params)
			reply := func(_ context.Context, result any, err error) error {
				r := m
				if je, ok := err.(*jsonrpc2.Error); ok {
					r.Kind, r.Code, r.Msg = "error", int32(je.Code), je.Message
				} else {
					b, _ := json.Marshal(result)
					r.Kind, r.Payload = "result", string(b)
				}
				return p.write(r)
			}
			_ = p.ep.handle(context.Background(), reply, req)
		}
	}
}

// caller: the peer's own calls to A, string ids in awkward but valid spellings.
func (p *manualPeer) caller(ci int, r *rand.Rand) {
	s := p.s
	for k := 0; k < s.spec.M; k++ {
		token := fmt.Sprintf("B%d-%d", ci, k)
		m := mspec{Kind: "call", Method: "call"}
		switch r.Intn(4) {
		case 0:
			m.NumID = int32(1<<30 + ci*1000 + k)
		case 1:
			m.StrID = fmt.Sprintf("B/%d/%d", ci, k)
		case 2:
			m.StrID = fmt.Sprintf("😀%d-%d\té\"q\\", ci, k)
		default:
			m.StrID = fmt.Sprintf("𝄞/%d/%d \n", ci, k)
		}
		mode := []string{"now", "async", "late", "hold", "error"}[r.Intn(5)]
		fill := filler(r, r.Intn(60))
		prm := callParams{Token: token, Mode: mode, Delay: 1 + r.Intn(300), Code: int32(-32000 - r.Intn(50)), Fill: fill, Sum: crc32.ChecksumIEEE([]byte(fill))}
		m.Payload = marshal(prm)
		want := m.idDesc()
		ch := make(chan desc, 1)
		p.mu.Lock()
		p.waiting[want] = ch
		p.mu.Unlock()
		if err := p.write(m); err != nil {
			s.violate("conc/peer-write-failed", "the harness peer could not write call %s: %v", token, err)
			return
		}
		s.stat("peer_calls_with_alternative_spelling", 1)
		select {
		case d := <-ch:
			switch {
			case d.Kind == "error":
				if mode != "error" || d.Msg != "E:"+token || d.Code != int64(prm.Code) {
					s.violate("conc/wrong-response", "peer call %s (id %s, mode %s) got error response %q code %d", token, want, mode, d.Msg, d.Code)
				}
			default:
				var res callResult
				_ = json.Unmarshal([]byte(d.Payload), &res)
				switch {
				case mode == "error" || res.Token != token || res.Echo != prm.Sum:
					s.violate("conc/wrong-response", "peer call %s (id %s, mode %s) got the result of %q", token, want, mode, res.Token)
				case res.ID != want:
					s.violate("conc/id-mismatch", "peer call %s was sent with id %s but A's handler saw id %s", token, want, res.ID)
				}
			}
			s.stat("peer_calls_answered", 1)
		case <-time.After(time.Duration(s.wdMs) * time.Millisecond):
			state := "up"
			select {
			case <-p.ep.peer.conn.Done():
				state = fmt.Sprintf("shut down: %v", p.ep.peer.conn.Err())
			default:
			}
			s.violate("conc/spelled-call-unanswered", "the peer's call %s with id %s (a valid JSON spelling of it was sent) got no response within %d ms; A's connection is %s", token, want, s.wdMs, state)
			return
		}
	}
}

func (p *manualPeer) notifier(ni int, r *rand.Rand) {
	for k := 0; k < p.s.spec.NotifM; k++ {
		fill := filler(r, r.Intn(60))
		m := mspec{Kind: "notify", Method: "note", Payload: marshal(noteParams{N: ni, S: k, Fill: fill, Sum: crc32.ChecksumIEEE([]byte(fill))})}
		if err := p.write(m); err != nil {
			p.s.violate("conc/peer-write-failed", "the harness peer could not write a notification: %v", err)
			return
		}
		p.s.stat("notifications", 1)
	}
}
