package c18

import (
	"bytes"
	"encoding/json"
	"errors"
	"fmt"
	"io"
	"math/rand"
	"sort"
	"strconv"
	"strings"
	"unicode/utf8"

	"github.com/a-h/templ/lsp/jsonrpc2"
)

// ---------------------------------------------------------------------------
// The harness's own view of a JSON-RPC message and of the base-protocol
// framing. Nothing here uses the framing / decoding code of lsp/jsonrpc2.

// desc describes one message; two messages are "the same" iff their descs are equal.
type desc struct {
	Kind    string `json:"kind"` // call | notify | result | error
	ID      string `json:"id,omitempty"`
	Method  string `json:"method,omitempty"`
	Payload string `json:"payload,omitempty"` // canonical JSON of params / result
	Code    int64  `json:"code,omitempty"`
	Msg     string `json:"msg,omitempty"`
	Data    string `json:"data,omitempty"`
}

// canon: canonical JSON text (sorted keys, no HTML escaping, numbers kept
// verbatim); an absent value and null are the same.
func canon(raw []byte) string {
	if len(bytes.TrimSpace(raw)) == 0 {
		return "null"
	}
	dec := json.NewDecoder(bytes.NewReader(raw))
	dec.UseNumber()
	var v any
	if err := dec.Decode(&v); err != nil {
		return "!invalid:" + string(raw)
	}
	return marshal(v)
}

func marshal(v any) string {
	var sb bytes.Buffer
	enc := json.NewEncoder(&sb)
	enc.SetEscapeHTML(false)
	if err := enc.Encode(v); err != nil {
		return "!unmarshalable"
	}
	return strings.TrimSuffix(sb.String(), "\n")
}

// mspec is a generated message (JSON-serialisable for replay).
type mspec struct {
	Kind    string `json:"kind"`
	NumID   int32  `json:"num_id,omitempty"`
	StrID   string `json:"str_id,omitempty"`
	Method  string `json:"method,omitempty"`
	Payload string `json:"payload,omitempty"` // JSON text
	AsValue bool   `json:"as_value,omitempty"`
	Code    int32  `json:"code,omitempty"`
	Msg     string `json:"msg,omitempty"`
	Data    string `json:"data,omitempty"` // JSON text or ""
}

func (m mspec) idDesc() string {
	if m.StrID != "" {
		return fmt.Sprintf("%q", m.StrID)
	}
	return "#" + strconv.Itoa(int(m.NumID))
}

func (m mspec) desc() desc {
	switch m.Kind {
	case "call":
		return desc{Kind: "call", ID: m.idDesc(), Method: m.Method, Payload: canon([]byte(m.Payload))}
	case "notify":
		return desc{Kind: "notify", Method: m.Method, Payload: canon([]byte(m.Payload))}
	case "result":
		return desc{Kind: "result", ID: m.idDesc(), Payload: canon([]byte(m.Payload))}
	default:
		d := desc{Kind: "error", ID: m.idDesc(), Code: int64(m.Code), Msg: m.Msg}
		if m.Data != "" {
			d.Data = nonNull(canon([]byte(m.Data)))
		}
		return d
	}
}

// nonNull: an absent error.data member and "data":null are the same.
func nonNull(s string) string {
	if s == "null" {
		return ""
	}
	return s
}

// build constructs the message through the public constructors of the package under test.
func (m mspec) build() (jsonrpc2.Message, error) {
	id := jsonrpc2.NewNumberID(m.NumID)
	if m.StrID != "" {
		id = jsonrpc2.NewStringID(m.StrID)
	}
	var payload any = json.RawMessage(m.Payload)
	if m.Payload == "" {
		payload = nil
	} else if m.AsValue {
		dec := json.NewDecoder(strings.NewReader(m.Payload))
		dec.UseNumber()
		var v any
		if err := dec.Decode(&v); err != nil {
			return nil, err
		}
		payload = v
	}
	switch m.Kind {
	case "call":
		return jsonrpc2.NewCall(id, m.Method, payload)
	case "notify":
		return jsonrpc2.NewNotification(m.Method, payload)
	case "result":
		return jsonrpc2.NewResponse(id, payload, nil)
	default:
		e := jsonrpc2.NewError(jsonrpc2.Code(m.Code), m.Msg)
		if m.Data != "" {
			raw := json.RawMessage(m.Data)
			e.Data = &raw
		}
		return jsonrpc2.NewResponse(id, nil, e)
	}
}

// descOfMessage reads a decoded message through its exported accessors.
func descOfMessage(m jsonrpc2.Message) desc {
	switch v := m.(type) {
	case *jsonrpc2.Call:
		return desc{Kind: "call", ID: fmt.Sprintf("%q", v.ID()), Method: v.Method(), Payload: canon(v.Params())}
	case *jsonrpc2.Notification:
		return desc{Kind: "notify", Method: v.Method(), Payload: canon(v.Params())}
	case *jsonrpc2.Response:
		if err := v.Err(); err != nil {
			d := desc{Kind: "error", ID: fmt.Sprintf("%q", v.ID()), Msg: err.Error()}
			var je *jsonrpc2.Error
			if errors.As(err, &je) {
				d.Code = int64(je.Code)
				if je.Data != nil {
					d.Data = nonNull(canon(*je.Data))
				}
			}
			return d
		}
		return desc{Kind: "result", ID: fmt.Sprintf("%q", v.ID()), Payload: canon(v.Result())}
	case nil:
		return desc{Kind: "nil"}
	}
	return desc{Kind: fmt.Sprintf("%T", m)}
}

// body classification
const (
	bodyClean   = iota // a well-formed JSON-RPC 2.0 message
	bodyInvalid        // not JSON at all (also: JSON followed by other bytes -> bodyUnclear)
	bodyUnclear        // JSON, but not a message the statement speaks about
)

// descOfBody decodes a frame body with the harness's own rules.
func descOfBody(body []byte) (desc, int) {
	if !json.Valid(body) {
		// a JSON value followed by junk: the statement does not say whether that is "malformed"
		dec := json.NewDecoder(bytes.NewReader(body))
		var v json.RawMessage
		if dec.Decode(&v) == nil {
			return desc{}, bodyUnclear
		}
		return desc{}, bodyInvalid
	}
	var w map[string]json.RawMessage
	if err := json.Unmarshal(body, &w); err != nil || w == nil {
		return desc{}, bodyUnclear
	}
	for k := range w {
		switch k {
		case "jsonrpc", "id", "method", "params", "result", "error":
		default:
			return desc{}, bodyUnclear
		}
	}
	var ver string
	if json.Unmarshal(w["jsonrpc"], &ver) != nil || ver != "2.0" {
		return desc{}, bodyUnclear
	}
	id := ""
	if raw, ok := w["id"]; ok {
		var n json.Number
		var s string
		switch {
		case json.Unmarshal(raw, &s) == nil && s != "":
			id = fmt.Sprintf("%q", s)
		case json.Unmarshal(raw, &n) == nil && isInt32(n.String()):
			id = "#" + n.String()
		default:
			return desc{}, bodyUnclear
		}
	}
	if raw, ok := w["method"]; ok {
		var m string
		if json.Unmarshal(raw, &m) != nil || m == "" || w["result"] != nil || w["error"] != nil {
			return desc{}, bodyUnclear
		}
		if id == "" {
			return desc{Kind: "notify", Method: m, Payload: canon(w["params"])}, bodyClean
		}
		return desc{Kind: "call", ID: id, Method: m, Payload: canon(w["params"])}, bodyClean
	}
	if id == "" || w["params"] != nil {
		return desc{}, bodyUnclear
	}
	_, hasRes := w["result"]
	rawErr, hasErr := w["error"]
	switch {
	case hasRes && !hasErr:
		return desc{Kind: "result", ID: id, Payload: canon(w["result"])}, bodyClean
	case hasErr && !hasRes:
		var e struct {
			Code    *int64           `json:"code"`
			Message *string          `json:"message"`
			Data    *json.RawMessage `json:"data"`
		}
		if json.Unmarshal(rawErr, &e) != nil || e.Code == nil || e.Message == nil {
			return desc{}, bodyUnclear
		}
		d := desc{Kind: "error", ID: id, Code: *e.Code, Msg: *e.Message}
		if e.Data != nil {
			d.Data = nonNull(canon(*e.Data))
		}
		return d, bodyClean
	}
	return desc{}, bodyUnclear
}

func isInt32(s string) bool {
	v, err := strconv.ParseInt(s, 10, 32)
	return err == nil && strconv.FormatInt(v, 10) == s
}

// hdr is the harness's parse of one header block starting at off.
type hdr struct {
	Bad       string  // non-empty: no reading of the bytes gives a frame header
	Lens      []int64 // Content-Length values found (tolerant reading)
	BodyStart int
	Canonical bool // exactly the base-protocol form: "Name: value\r\n"* with one "Content-Length: <decimal>\r\n", then "\r\n"
}

// parseHeader reads header lines up to the blank line. The tolerant reading
// (any line end containing LF, surrounding white space ignored, header name
// case-insensitive, optional sign / leading zeros) defines what an
// implementation MAY accept; Canonical marks what it MUST accept.
func parseHeader(data []byte, off int) hdr {
	h := hdr{Canonical: true}
	pos := off
	for {
		nl := bytes.IndexByte(data[pos:], '\n')
		if nl < 0 {
			h.Bad = "header not terminated"
			return h
		}
		raw := string(data[pos : pos+nl+1])
		pos += nl + 1
		if !strings.HasSuffix(raw, "\r\n") {
			h.Canonical = false
		}
		line := strings.TrimSpace(raw)
		if line == "" {
			if raw != "\r\n" {
				h.Canonical = false
			}
			break
		}
		colon := strings.IndexByte(line, ':')
		if colon < 0 {
			h.Bad = "header line without colon"
			return h
		}
		name, value := strings.TrimSpace(line[:colon]), strings.TrimSpace(line[colon+1:])
		if raw != name+": "+value+"\r\n" {
			h.Canonical = false
		}
		for _, r := range name {
			if r <= ' ' || r >= 0x7f {
				h.Canonical = false
			}
		}
		if strings.EqualFold(name, "Content-Length") {
			if name != "Content-Length" {
				h.Canonical = false
			}
			digits := strings.TrimPrefix(value, "+")
			if digits == "" || strings.Trim(digits, "0123456789") != "" {
				h.Bad = "Content-Length is not a number"
				return h
			}
			if digits != value || (len(digits) > 1 && digits[0] == '0') {
				h.Canonical = false
			}
			v, err := strconv.ParseInt(digits, 10, 64)
			if err != nil {
				v = -1 // beyond int64: certainly beyond the stream
			}
			h.Lens = append(h.Lens, v)
		}
	}
	if len(h.Lens) == 0 {
		h.Bad = "no Content-Length header"
		return h
	}
	if len(h.Lens) != 1 {
		h.Canonical = false
	}
	h.BodyStart = pos
	return h
}

type frame struct {
	Start, BodyStart, End int
}

// strictFrames is the wire tap: the byte stream must be a concatenation of
// canonical frames whose Content-Length equals the number of BYTES of the body
// and whose bodies are JSON values. Used on what the code under test wrote.
func strictFrames(data []byte) ([]frame, error) {
	var out []frame
	for off := 0; off < len(data); {
		h := parseHeader(data, off)
		if h.Bad != "" {
			return out, fmt.Errorf("frame %d at byte %d: %s (%q)", len(out), off, h.Bad, clip(data[off:], 60))
		}
		if !h.Canonical {
			return out, fmt.Errorf("frame %d at byte %d: header is not in base-protocol form (%q)", len(out), off, clip(data[off:h.BodyStart], 80))
		}
		n := int(h.Lens[0])
		if n <= 0 || h.BodyStart+n > len(data) {
			return out, fmt.Errorf("frame %d at byte %d: Content-Length %d but only %d bytes follow", len(out), off, h.Lens[0], len(data)-h.BodyStart)
		}
		body := data[h.BodyStart : h.BodyStart+n]
		if !json.Valid(body) {
			// find the real extent of the JSON value to say what the header should have been
			dec := json.NewDecoder(bytes.NewReader(data[h.BodyStart:]))
			var v json.RawMessage
			if dec.Decode(&v) == nil {
				return out, fmt.Errorf("frame %d: Content-Length says %d but the JSON body is %d bytes (%d runes)", len(out), n, len(v), utf8.RuneCount(v))
			}
			return out, fmt.Errorf("frame %d at byte %d: body of %d bytes is not JSON (%q)", len(out), off, n, clip(body, 60))
		}
		out = append(out, frame{off, h.BodyStart, h.BodyStart + n})
		off = h.BodyStart + n
	}
	return out, nil
}

func clip(b []byte, n int) string {
	if len(b) > n {
		return string(b[:n]) + "…"
	}
	return string(b)
}

// ---------------------------------------------------------------------------
// chunked reader: delivers data in the pieces a chunking prescribes.

type chunking struct {
	Name   string `json:"name,omitempty"` // family name used in violation keys
	Family string `json:"family"`
	K      int    `json:"k,omitempty"`    // fixed size
	Seed   int64  `json:"seed,omitempty"` // random sizes
	Cuts   []int  `json:"cuts,omitempty"` // explicit cut offsets (sorted)
	EOFNow bool   `json:"eof_now,omitempty"`
}

type chunkReader struct {
	data    []byte
	pos     int
	ch      chunking
	rnd     *rand.Rand
	ci      int
	postEOF int
	// raw stream only: end offset of every message; coalesced counts the reads
	// that returned bytes of more than one message
	bounds    []int
	coalesced int
}

var errSpin = errors.New("verif: reader polled 10000 times after EOF")

func newChunkReader(data []byte, ch chunking) *chunkReader {
	r := &chunkReader{data: data, ch: ch}
	if ch.Family == "random" {
		r.rnd = rand.New(rand.NewSource(ch.Seed))
	}
	return r
}

func (r *chunkReader) Read(p []byte) (int, error) {
	if r.pos >= len(r.data) {
		r.postEOF++
		if r.postEOF > 10000 {
			panic(errSpin)
		}
		return 0, io.EOF
	}
	n := len(r.data) - r.pos
	switch r.ch.Family {
	case "fixed":
		if r.ch.K < n {
			n = r.ch.K
		}
	case "random":
		var k int
		switch r.rnd.Intn(4) {
		case 0:
			k = 1
		case 1:
			k = 1 + r.rnd.Intn(8)
		case 2:
			k = 1 + r.rnd.Intn(200)
		default:
			k = 1 + r.rnd.Intn(6000)
		}
		if k < n {
			n = k
		}
	case "cuts":
		for r.ci < len(r.ch.Cuts) && r.ch.Cuts[r.ci] <= r.pos {
			r.ci++
		}
		if r.ci < len(r.ch.Cuts) && r.ch.Cuts[r.ci]-r.pos < n {
			n = r.ch.Cuts[r.ci] - r.pos
		}
	}
	if len(p) < n {
		n = len(p)
	}
	copy(p, r.data[r.pos:r.pos+n])
	if r.bounds != nil && n > 0 && sort.SearchInts(r.bounds, r.pos+n) > sort.SearchInts(r.bounds, r.pos+1) {
		r.coalesced++
	}
	r.pos += n
	if r.ch.EOFNow && r.pos >= len(r.data) {
		return n, io.EOF // io.Reader may return the final bytes together with EOF
	}
	return n, nil
}
func (r *chunkReader) Write(p []byte) (int, error) { return len(p), nil }
func (r *chunkReader) Close() error                { return nil }

// bufRWC collects what a stream writes.
type bufRWC struct{ bytes.Buffer }

func (*bufRWC) Close() error { return nil }

// ---------------------------------------------------------------------------
// generators

var pieces = []string{
	"a", "hello", " ", "\u00e9", "\u00df", "\u6f22\u5b57", "\U0001F600", "\u00a0", "\u2028", "<script>", "&amp;", "\"", "\\", "\r\n", "\r\n\r\n",
	"Content-Length: 7\r\n\r\n{\"a\":1}", "Content-Length: 0", "\t", "\u0000", "\u007f", "\u0085", "\ufeff", "\U0001D11E", "null", "{}", "}]",
	"\u65e5\u672c\u8a9e\u30c6\u30ad\u30b9\u30c8", "\u0301e\u0301",
}

func genString(r *rand.Rand) string {
	var sb strings.Builder
	for n := r.Intn(6); n > 0; n-- {
		sb.WriteString(pieces[r.Intn(len(pieces))])
	}
	return sb.String()
}

func genValue(r *rand.Rand, depth int) any {
	k := r.Intn(9)
	if depth <= 0 && k >= 6 {
		k = r.Intn(6)
	}
	switch k {
	case 0:
		return nil
	case 1:
		return r.Intn(2) == 0
	case 2:
		return r.Int63n(1<<40) - 1<<39
	case 3, 4, 5:
		return genString(r)
	case 6, 7:
		m := map[string]any{}
		for n := r.Intn(4); n > 0; n-- {
			m[genString(r)] = genValue(r, depth-1)
		}
		return m
	default:
		a := []any{}
		for n := r.Intn(4); n > 0; n-- {
			a = append(a, genValue(r, depth-1))
		}
		return a
	}
}

// filler: n bytes (about) of mixed 1..4-byte runes.
func filler(r *rand.Rand, n int) string {
	var sb strings.Builder
	al := []string{"a", "b", " ", "é", "漢", "😀", "x", "ж", " "}
	for sb.Len() < n {
		sb.WriteString(al[r.Intn(len(al))])
	}
	return sb.String()
}

func genMessage(r *rand.Rand, size int) mspec {
	var m mspec
	m.Kind = []string{"call", "call", "notify", "result", "result", "error"}[r.Intn(6)]
	if r.Intn(3) == 0 {
		m.StrID = []string{"a", "req-1", "12", "é😀", "id with space", "\"q\"", "0", "null", "a/b", "😀", "tab\there\n", "back\\slash/\u00e9\u2028"}[r.Intn(12)]
	} else {
		m.NumID = []int32{0, 1, 2, 7, 1 << 20, 2147483647, -1, -2147483648}[r.Intn(8)]
		if r.Intn(2) == 0 {
			m.NumID = r.Int31()
		}
	}
	m.Method = []string{"initialize", "textDocument/didChange", "$/cancelRequest", "m", "方法", "Content-Length: 3", "a b", "x/\t😀\"q\""}[r.Intn(8)]
	v := genValue(r, 3)
	if size > 0 {
		v = map[string]any{"text": filler(r, size), "v": v}
	}
	m.Payload = marshal(v)
	if r.Intn(12) == 0 {
		m.Payload = "" // no params / nil result
	}
	m.AsValue = r.Intn(2) == 0
	if m.Kind == "error" {
		m.Code = []int32{-32700, -32600, -32601, -32603, 0, 1, -32002, 2147483647}[r.Intn(8)]
		m.Msg = genString(r)
		if r.Intn(3) == 0 {
			m.Data = marshal(genValue(r, 2))
		}
	}
	return m
}
