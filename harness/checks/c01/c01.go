// Package c01 checks property C01: interpolated strings never change HTML
// structure (text and attribute contexts).
//
// Monitors:
//  1. sink matrix: one templ component per dynamic HTML sink, compiled through
//     the real generator and Go compiler (corpus engine), rendered by a driver
//     with a benign sentinel and with every hostile string; the rendered bytes
//     are re-read OFFLINE with the x/net/html HTML5 tokenizer and compared with
//     the sentinel rendering (differential skeleton oracle, see diff).
//  2. in-process escaper monitor over templ.EscapeString (strict five-entity
//     decoder + tokenizer wrap), over the same strings and a large random set.
package c01

import (
	"encoding/base64"
	"encoding/json"
	"fmt"
	stdhtml "html"
	"math/rand"
	"runtime"
	"sort"
	"strconv"
	"strings"
	"sync"
	"time"

	"github.com/a-h/templ"
	"verif/core"
	"verif/corpus"
	"verif/oracle/html5"
)

// ---------------------------------------------------------------- oracle

// canon puts a token list in alternating form: every tag/comment/doctype is
// preceded by exactly one text token (possibly empty), and one text token ends
// the list. An empty interpolation therefore does not change the shape.

func canon(ts []html5.Tok) []html5.Tok {
	var out []html5.Tok
	lastText := false
	for _, t := range ts {
		if t.Kind == "text" {
			out = append(out, t) // html5.Tokenize already merged adjacent text
			lastText = true
			continue
		}
		if !lastText {
			out = append(out, html5.Tok{Kind: "text"})
		}
		out = append(out, t)
		lastText = false
	}
	if !lastText {
		out = append(out, html5.Tok{Kind: "text"})
	}
	return out
}

func eqNorm(a, b string) bool { return html5.NormText(a) == html5.NormText(b) }

// diff is the deciding oracle. benign = tokens of the rendering with Sentinel,
// got = tokens of the rendering with s. Rules:
//   - same number of tokens, same kinds, same tag names, same attribute names in
//     the same order (exact, no equivalences);
//   - a text / attribute value that does not contain the sentinel in the benign
//     rendering is static and must be byte-identical;
//   - a value that contains the sentinel must equal the benign value with the
//     sentinel replaced by s, modulo html5.NormText only (CR/CRLF->LF,
//     NUL==U+FFFD); for class sinks the class attribute must equal the reference
//     class processing of the entries; for URL sinks s or the failure constant;
//     values owned by another property (style, raw-text content) are skipped;
//   - EmptyOmits sinks: with s=="" the attributes holding the sentinel are absent.
func diff(k *sink, benign, got []html5.Tok, s string) string {
	b, g := canon(benign), canon(got)
	if len(b) != len(g) {
		return fmt.Sprintf("token count %d, benign skeleton has %d: got %s want %s", len(g), len(b), html5.Skeleton(got), html5.Skeleton(benign))
	}
	for i := range b {
		bt, gt := b[i], g[i]
		if bt.Kind != gt.Kind || bt.Name != gt.Name {
			return fmt.Sprintf("token %d is %s, benign skeleton has %s", i, gt, bt)
		}
		switch bt.Kind {
		case "text":
			if k.Free == "#text" && strings.Contains(bt.Data, Sentinel) {
				continue
			}
			if want := strings.ReplaceAll(bt.Data, Sentinel, s); !eqNorm(gt.Data, want) {
				return fmt.Sprintf("text run %d is %q, want %q", i, gt.Data, want)
			}
		case "comment", "doctype":
			if bt.Data != gt.Data {
				return fmt.Sprintf("token %d data %q, want %q", i, gt.Data, bt.Data)
			}
		case "start", "selfclose":
			battrs := bt.Attrs
			if k.EmptyOmits && s == "" {
				battrs = nil
				for _, a := range bt.Attrs {
					if a.Val != Sentinel {
						battrs = append(battrs, a)
					}
				}
			}
			if len(battrs) != len(gt.Attrs) {
				return fmt.Sprintf("tag %d <%s> has %d attributes %v, benign has %d %v", i, gt.Name, len(gt.Attrs), gt.Attrs, len(battrs), battrs)
			}
			for j, ba := range battrs {
				ga := gt.Attrs[j]
				if ba.Key != ga.Key {
					return fmt.Sprintf("tag %d <%s> attribute %d is named %q, want %q", i, gt.Name, j, ga.Key, ba.Key)
				}
				dynamic := strings.Contains(ba.Val, Sentinel)
				switch {
				case (k.Mode == mStructure || k.Mode == mURL) && ba.Key == k.Free:
					if k.Mode == mURL && !eqNorm(ga.Val, s) && ga.Val != failedURL {
						return fmt.Sprintf("<%s %s> is %q, want %q (or the failure constant)", gt.Name, ga.Key, ga.Val, s)
					}
				case k.Mode == mClass && ba.Key == "class" && dynamic:
					if want := k.Exp(s); !eqNorm(ga.Val, want) {
						return fmt.Sprintf("<%s class> is %q, want %q", gt.Name, ga.Val, want)
					}
				default:
					if want := strings.ReplaceAll(ba.Val, Sentinel, s); !eqNorm(ga.Val, want) {
						return fmt.Sprintf("<%s %s> is %q, want %q", gt.Name, ga.Key, ga.Val, want)
					}
				}
			}
		}
	}
	return ""
}

// ---------------------------------------------------------------- engine

type rendering struct {
	I int      `json:"i"`
	O []string `json:"o"`
	E []string `json:"e"`
}

type engine struct {
	c      *core.Ctx
	pkg    *corpus.Pkg
	bin    string
	benign [][]html5.Tok
}

func build(c *core.Ctx) *engine {
	p := corpus.New(c, "c01")
	p.Write("sinks.templ", templSource())
	p.Write("helper.go", helperSrc)
	p.Write("main.go", driverSrc())
	if out, err := p.Generate(); err != nil {
		core.Infra("templ generate failed on the C01 sink matrix: %v\n%s", err, corpus.Tail(out, 3000))
	}
	bin, out, err := p.Build(false, ".")
	if err != nil {
		core.Infra("go build failed on the C01 sink matrix: %v\n%s", err, corpus.Tail(out, 3000))
	}
	e := &engine{c: c, pkg: p, bin: bin}
	rs := e.render([]string{Sentinel}, "")
	if len(rs) != 1 || len(rs[0]) != len(sinks) {
		core.Infra("driver returned no benign rendering")
	}
	for i, doc := range rs[0] {
		ts, err := html5.Tokenize(doc)
		if err != nil || !strings.Contains(string(doc), Sentinel) && sinks[i].Mode != mStructure {
			core.Infra("benign rendering of sink %s unusable: %q (%v)", sinks[i].Name, doc, err)
		}
		e.benign = append(e.benign, ts)
	}
	return e
}

// render runs the driver over strs (all sinks, or only `only`) and returns
// rendered bytes [string][sink].
func (e *engine) render(strs []string, only string) [][][]byte {
	var in strings.Builder
	for i, s := range strs {
		fmt.Fprintf(&in, `{"i":%d,"s":"%s","k":%q}`+"\n", i, base64.StdEncoding.EncodeToString([]byte(s)), only)
	}
	res := corpus.Run(e.bin, nil, []byte(in.String()), nil, e.pkg.Dir, 10*time.Minute)
	if res.Err != nil {
		e.c.Inconclusive(fmt.Sprintf("driver failed (%v, timeout=%v): %s", res.Err, res.TimedOut, corpus.Tail(string(res.Stderr), 800)))
		return nil
	}
	out := make([][][]byte, len(strs))
	dec := json.NewDecoder(strings.NewReader(string(res.Stdout)))
	for dec.More() {
		var r rendering
		if err := dec.Decode(&r); err != nil {
			core.Infra("bad driver output: %v", err)
		}
		for _, m := range r.E {
			e.c.Inconclusive("render error " + m + " for " + core.Q(strs[r.I]))
		}
		docs := make([][]byte, len(r.O))
		for j, o := range r.O {
			docs[j], _ = base64.StdEncoding.DecodeString(o)
		}
		out[r.I] = docs
	}
	return out
}

// check applies the oracle to one (sink, string) rendering.
func (e *engine) check(si int, s string, doc []byte) string {
	ts, err := html5.Tokenize(doc)
	if err != nil {
		return "tokenizer error: " + err.Error()
	}
	return diff(&sinks[si], e.benign[si], ts, s)
}

type c01Case struct {
	Sink string `json:"sink"`
	S64  string `json:"s_base64"`
	S    string `json:"s_quoted"`
}

func mkCase(sink, s string) c01Case {
	return c01Case{sink, base64.StdEncoding.EncodeToString([]byte(s)), strconv.Quote(s)}
}

// shrink: greedy byte-wise reduction of a failing string for one sink; every
// round renders all candidates (chunk and single-byte deletions, then
// replacement of a byte by 'a') in one driver batch and keeps the first that
// still fails. Deterministic.
func (e *engine) shrink(si int, s string) (string, string) {
	msg := ""
	fails := func(cands []string) (string, string, bool) {
		if len(cands) == 0 {
			return "", "", false
		}
		rs := e.render(cands, sinks[si].Name)
		for i, c := range cands {
			if rs != nil && rs[i] != nil {
				if m := e.check(si, c, rs[i][si]); m != "" {
					return c, m, true
				}
			}
		}
		return "", "", false
	}
	for round := 0; round < 200; round++ {
		var cands []string
		// long witnesses (length itself matters, e.g. buffer-size effects) are
		// only reduced coarsely: the candidate set must stay small
		minW := 1
		if len(s) > 256 {
			minW = len(s) / 16
		}
		for w := len(s) / 2; w >= minW; w /= 2 {
			for i := 0; i+w <= len(s); i += w {
				cands = append(cands, s[:i]+s[i+w:])
			}
		}
		c, m, ok := fails(cands)
		if !ok && len(s) > 256 {
			break
		}
		if !ok {
			cands = cands[:0]
			for i := 0; i < len(s); i++ {
				if s[i] != 'a' && len(s) > 1 {
					cands = append(cands, s[:i]+"a"+s[i+1:])
				}
			}
			if c, m, ok = fails(cands); !ok {
				break
			}
		}
		s, msg = c, m
	}
	return s, msg
}

// ---------------------------------------------------------------- escaper monitor

// strictDecode inverts the character references in an escaped string. Every
// '&' must start a well-formed reference terminated by ';' (one of the usual
// spellings of the five metacharacters, any numeric reference, or a named
// reference the HTML decoder knows); a raw metacharacter or an '&' that starts
// no such reference is a fault. Which spelling the escaper chooses is its own
// business.
func strictDecode(esc string) (string, string) {
	var sb strings.Builder
	for i := 0; i < len(esc); {
		ch := esc[i]
		switch ch {
		case '<', '>', '"', '\'':
			return "", fmt.Sprintf("raw %q at offset %d", ch, i)
		case '&':
			j := i + 1
			for j < len(esc) && j-i <= 40 && (esc[j] == '#' || esc[j] >= '0' && esc[j] <= '9' || esc[j] >= 'a' && esc[j] <= 'z' || esc[j] >= 'A' && esc[j] <= 'Z') {
				j++
			}
			if j >= len(esc) || esc[j] != ';' || j == i+1 {
				return "", fmt.Sprintf("raw '&' at offset %d", i)
			}
			ref := esc[i : j+1]
			dec := stdhtml.UnescapeString(ref)
			if dec == ref {
				return "", fmt.Sprintf("raw '&' at offset %d (%s is not a character reference)", i, ref)
			}
			sb.WriteString(dec)
			i = j + 1
		default:
			sb.WriteByte(ch)
			i++
		}
	}
	return sb.String(), ""
}

func escaperFault(s string, tokenize bool) string {
	esc := templ.EscapeString(s)
	dec, m := strictDecode(esc)
	if m != "" {
		return "EscapeString output has " + m + ": " + core.Q(esc)
	}
	if dec != s {
		return fmt.Sprintf("EscapeString output %q decodes to %q", esc, dec)
	}
	if tokenize {
		ts, err := html5.Tokenize([]byte(`<p title="` + esc + `" id=k>` + esc + `</p><i data-a='` + esc + `'></i>`))
		if err != nil || len(ts) < 4 {
			return fmt.Sprintf("wrapped output does not tokenize as <p>text</p><i></i>: %v", ts)
		}
		ts = canon(ts)
		if len(ts) != 9 || ts[1].Name != "p" || len(ts[1].Attrs) != 2 || !eqNorm(ts[1].Attrs[0].Val, s) || ts[1].Attrs[1].Val != "k" ||
			!eqNorm(ts[2].Data, s) || ts[3].Kind != "end" || ts[5].Name != "i" || len(ts[5].Attrs) != 1 || !eqNorm(ts[5].Attrs[0].Val, s) || ts[7].Kind != "end" {
			return fmt.Sprintf("wrapped output tokenizes as %v", ts)
		}
	}
	return ""
}

func shrinkLocal(s string, fails func(string) bool) string {
	for changed := true; changed; {
		changed = false
		for i := 0; i < len(s); i++ {
			if c := s[:i] + s[i+1:]; fails(c) {
				s, changed = c, true
				i--
			}
		}
	}
	return s
}

// ---------------------------------------------------------------- Run

func parallel(n int, f func(w, lo, hi int)) {
	nw := runtime.NumCPU()
	if nw > n {
		nw = n
	}
	if nw < 1 {
		nw = 1
	}
	var wg sync.WaitGroup
	for w := 0; w < nw; w++ {
		wg.Add(1)
		go func(w int) {
			defer wg.Done()
			f(w, n*w/nw, n*(w+1)/nw)
		}(w)
	}
	wg.Wait()
}

func Run(c *core.Ctx) {
	c.Rule = "cases = (sink, string): one compiled templ component per dynamic HTML sink rendered with the string, compared token-by-token (x/net/html tokenizer) with the same component rendered with a benign sentinel; strings = every byte, code points U+0000-U+07FF + boundary list (surrogate bytes, overlongs, truncations, non-characters), all strings of length<=3 (quick) / <=4 (thorough) over a 21-symbol metacharacter alphabet, injection vectors with single-edit mutations, seeded random strings <=64 bytes; non-trivial = the string contains a markup metacharacter, a control character or an invalid UTF-8 byte; distinct by (sink,string)"
	c.Assume("golang.org/x/net/html's tokenizer is a faithful HTML5 tokenizer; values are compared modulo CR/CRLF->LF and NUL==U+FFFD only")
	c.Assume("spread attribute KEYS, templ.Raw, SafeURL/SafeCSS contents and on* handlers are outside C01 (trusted or owned by C03/C04/C05); style values and raw-text (xmp, iframe) content are compared for structure only")
	e := build(c)
	defer e.pkg.Close()
	c.Set("sinks_compiled", len(sinks))

	if c.ReplayFile != "" {
		var cs c01Case
		c.LoadReplay(&cs)
		raw, _ := base64.StdEncoding.DecodeString(cs.S64)
		s := string(raw)
		for si := range sinks {
			if sinks[si].Name == cs.Sink {
				rs := e.render([]string{s}, cs.Sink)
				c.Eval(1)
				c.NontrivialN(2)
				if rs != nil {
					if m := e.check(si, s, rs[0][si]); m != "" {
						c.Violate(cs.Sink+" "+strconv.Quote(s), "sink "+cs.Sink+" with "+strconv.Quote(s)+": "+m, cs)
					}
				}
			}
		}
		if cs.Sink == "EscapeString" {
			c.Eval(1)
			c.NontrivialN(2)
			if m := escaperFault(s, true); m != "" {
				c.Violate("EscapeString "+strconv.Quote(s), m, cs)
			}
		}
		return
	}

	fams := Families(c.Rand("strings"), HTMLAlphabet, Vectors, c.Pick(3, 4), c.Pick(6000, -1), c.Pick(8000, 150000))
	var strs []string
	for _, f := range fams {
		c.Set("strings_"+f.Name, len(f.Strs))
		strs = append(strs, f.Strs...)
	}
	c.Set("strings_total", len(strs))

	// ---- monitor 1: sink matrix
	type fail struct {
		si  int
		s   string
		msg string
	}
	var mu sync.Mutex
	var fails []fail
	covered := make([]int64, len(sinks))
	const batch = 4000
	nb := (len(strs) + batch - 1) / batch
	sem := make(chan struct{}, runtime.NumCPU())
	var wg sync.WaitGroup
	for b := 0; b < nb; b++ {
		wg.Add(1)
		sem <- struct{}{}
		go func(b int) {
			defer wg.Done()
			defer func() { <-sem }()
			lo, hi := b*batch, min((b+1)*batch, len(strs))
			rs := e.render(strs[lo:hi], "")
			if rs == nil {
				return
			}
			cov := make([]int64, len(sinks))
			var local []fail
			nt := 0
			for i, docs := range rs {
				s := strs[lo+i]
				if docs == nil {
					c.Inconclusive("no rendering returned for " + core.Q(s))
					continue
				}
				non := NontrivialHTML(s)
				for si, doc := range docs {
					if m := e.check(si, s, doc); m != "" {
						local = append(local, fail{si, s, m})
					}
					if non {
						cov[si]++
						nt++
					}
				}
			}
			c.Eval((hi - lo) * len(sinks))
			c.NontrivialN(nt) // strings are de-duplicated, so (sink,string) pairs are distinct by construction
			mu.Lock()
			fails = append(fails, local...)
			for i := range cov {
				covered[i] += cov[i]
			}
			mu.Unlock()
		}(b)
	}
	wg.Wait()
	minCov := int64(1 << 62)
	for _, n := range covered {
		minCov = min(minCov, n)
	}
	c.Set("nontrivial_strings_per_sink_min", minCov)
	if minCov == 0 && c.ViolationCount() == 0 {
		c.Inconclusive("a sink saw no non-trivial string")
	}
	// samples: real renderings
	if rs := e.render([]string{`"><script>alert(1)</script>`, "a\x00'\r\n\xff&amp;"}, ""); rs != nil {
		for i, s := range []string{`"><script>alert(1)</script>`, "a\x00'\r\n\xff&amp;"} {
			for _, si := range []int{1 + i*12, 27 + i*6} {
				c.Sample(map[string]string{"sink": sinks[si].Name, "string": strconv.Quote(s), "rendered": strconv.Quote(string(rs[i][si])), "verdict": "held:" + strconv.FormatBool(e.check(si, s, rs[i][si]) == "")})
			}
		}
	}
	// reduce failures: per sink the shortest (then lexicographically first)
	// failing strings are shrunk; the fixed point is the canonical witness.
	sort.Slice(fails, func(i, j int) bool {
		a, b := fails[i], fails[j]
		if a.si != b.si {
			return a.si < b.si
		}
		if len(a.s) != len(b.s) {
			return len(a.s) < len(b.s)
		}
		return a.s < b.s
	})
	c.Set("failing_sink_string_pairs", len(fails))
	perSink := map[int]int{}
	for _, f := range fails {
		if perSink[f.si]++; perSink[f.si] > 3 {
			continue
		}
		s, m := e.shrink(f.si, f.s)
		if m == "" {
			m = f.msg
		}
		name := sinks[f.si].Name
		c.Violate(name+" "+strconv.Quote(s), "sink "+name+" ("+strings.Join(strings.Fields(sinks[f.si].Body), " ")+") rendered with "+strconv.Quote(s)+": "+m, mkCase(name, s))
	}

	// ---- monitor 2: escaper (in-proc)
	for _, s := range strs {
		c.Eval(1)
		if m := escaperFault(s, true); m != "" {
			r := shrinkLocal(s, func(x string) bool { return escaperFault(x, true) != "" })
			c.Violate("EscapeString "+strconv.Quote(r), escaperFault(r, true), mkCase("EscapeString", r))
		}
	}
	nRand := c.Pick(3000000, 60000000)
	seeds := make([]int64, 16)
	base := c.Rand("escaper")
	for i := range seeds {
		seeds[i] = base.Int63()
	}
	var nontriv int64
	parallel(len(seeds), func(w, lo, hi int) {
		for k := lo; k < hi; k++ {
			r := rand.New(rand.NewSource(seeds[k]))
			n := nRand / len(seeds)
			nt := 0
			for i := 0; i < n; i++ {
				s := Random(r, HTMLAlphabet, Vectors, 48)
				if NontrivialHTML(s) {
					nt++
				}
				if m := escaperFault(s, i%64 == 0); m != "" {
					if c.ViolationCount() > 20 {
						continue // plenty of canonical witnesses already
					}
					red := shrinkLocal(s, func(x string) bool { return escaperFault(x, true) != "" })
					c.Violate("EscapeString "+strconv.Quote(red), escaperFault(red, true), mkCase("EscapeString", red))
				}
			}
			c.Eval(n)
			mu.Lock()
			nontriv += int64(nt)
			mu.Unlock()
		}
	})
	c.Set("escaper_random_strings", nRand/len(seeds)*len(seeds))
	c.Set("escaper_random_nontrivial_not_deduplicated", nontriv)
}
