package c01

import (
	"sort"
	"strings"
)

// Sentinel is the benign value every sink is rendered with once; the hostile
// rendering is compared with that skeleton.
const Sentinel = "zQsentinel9"

const failedURL = "about:invalid#TemplFailedSanitizationURL"

// Value rules of a sink (structure is always compared exactly).
const (
	mVerbatim  = iota // every value holding the sentinel must hold the hostile string instead
	mStructure        // values of the attribute named Free (or raw-text content) are not compared
	mClass            // the class attribute must equal Expect(s)
	mURL              // the Free attribute must be the string or templ's documented failure constant
)

type sink struct {
	Name string
	Body string // templ source of the component body; the hostile string is `s`
	Mode int
	Free string              // mStructure/mURL: attribute name whose value is owned by another property ("#text": raw-text content)
	Exp  func(string) string // mClass: reference class processing
	// Nonce: the driver passes the string with templ.WithNonce(ctx, s) instead of as `s`.
	Nonce bool
	// EmptyOmits: the API documents that an empty value omits the attribute.
	EmptyOmits bool
}

// classJoin is the reference for templ's class processing: names in order of
// first appearance, a name switched off by a later (name,false) entry removed,
// duplicates removed, joined with one space. An entry is an opaque string: a
// class entry containing spaces is still emitted verbatim inside the one class
// attribute value (nothing more is demanded for it).
func classJoin(names ...string) string {
	var out []string
	seen := map[string]bool{}
	for _, n := range names {
		if !seen[n] {
			seen[n] = true
			out = append(out, n)
		}
	}
	return strings.Join(out, " ")
}

func sortedJoin(names ...string) string {
	sort.Strings(names)
	return classJoin(names...)
}

func one(s string) string { return s }

var sinks = []sink{
	// --- element text
	{Name: "text_top", Body: `{ s }`},
	{Name: "text_p", Body: `<p>{ s }</p>`},
	{Name: "text_mixed", Body: `<div id="a">before { s } after<b>x</b>{ s }</div><!-- c --><p>z</p>`},
	{Name: "text_err", Body: `<p>{ strErr(s) }</p>`},
	{Name: "text_in_if_for", Body: `<ul>
	for i := 0; i < 2; i++ {
		if i >= 0 {
			<li class="k">{ s }</li>
		}
	}
</ul>`},
	{Name: "text_table", Body: `<table><tr><td>{ s }</td><td title="t">c</td></tr></table>`},
	{Name: "text_title", Body: `<title>{ s }</title>`},
	{Name: "text_textarea", Body: `<textarea name="t">{ s }</textarea><p>after</p>`},
	{Name: "text_option", Body: `<select><option value="1">{ s }</option></select>`},
	{Name: "text_pre", Body: `<pre>{ s }</pre>`},
	{Name: "text_xmp", Body: `<xmp>{ s }</xmp><p>after</p>`, Mode: mStructure, Free: "#text"},
	{Name: "text_iframe", Body: `<iframe>{ s }</iframe><p>after</p>`, Mode: mStructure, Free: "#text"},
	// --- string attributes
	{Name: "attr_only", Body: `<div title={ s }></div>`},
	{Name: "attr_first", Body: `<div title={ s } id="k" hidden>x</div>`},
	{Name: "attr_last", Body: `<div id="k" hidden title={ s }>x</div>`},
	{Name: "attr_middle_boolexpr", Body: `<div hidden?={ true } title={ s } data-y="1">x</div>`},
	{Name: "attr_two", Body: `<div data-a={ s } data-b={ s }>x</div>`},
	{Name: "attr_void_first", Body: `<input value={ s } type="text" disabled/><p>after</p>`},
	{Name: "attr_void_last", Body: `<input type="text" disabled value={ s }/><p>after</p>`},
	{Name: "attr_void_noslash", Body: `<img alt={ s }><p>after</p>`},
	{Name: "attr_err", Body: `<div data-x={ strErr(s) }>x</div>`},
	{Name: "attr_cond_then", Body: `<div
	if len(s) >= 0 {
		title={ s }
	}
	id="z">x</div>`},
	{Name: "attr_cond_else", Body: `<div id="z"
	if len(s) < 0 {
		data-no="1"
	} else {
		title={ s }
	}
>x</div>`},
	{Name: "attr_link_href", Body: `<link rel="stylesheet" href={ s }/>`},
	{Name: "attr_script_elem", Body: `<script data-x={ s }>var a = 1;</script><p>after</p>`},
	{Name: "attr_style_elem", Body: `<style data-x={ s }>p{}</style><p>after</p>`},
	// --- spread attributes (values only; keys are not part of the property)
	{Name: "spread_string", Body: `<div id="a" { templ.Attributes{"data-v": s}... } hidden>x</div>`},
	{Name: "spread_ptr", Body: `<div { templ.Attributes{"data-v": ptr(s)}... } id="a">x</div>`},
	{Name: "spread_kv", Body: `<div id="a" { templ.Attributes{"data-v": templ.KV(s, true)}... }>x</div>`},
	{Name: "spread_mixed", Body: `<input type="text" { templ.Attributes{"a-first": "1", "data-p": ptr(s), "data-s": s, "data-t": templ.KV(s, true), "x-bool": true, "z-last": "9"}... }/><p>after</p>`},
	{Name: "spread_cond", Body: `<div
	if len(s) >= 0 {
		{ templ.Attributes{"data-v": s}... }
	}
>x</div>`},
	// --- class entries through every container form
	{Name: "class_string", Body: `<div class={ s }>x</div>`, Mode: mClass, Exp: one},
	{Name: "class_string_const", Body: `<div id="a" class={ "b", s, "c" } hidden>x</div>`, Mode: mClass, Exp: func(s string) string { return classJoin("b", s, "c") }},
	{Name: "class_slice", Body: `<div class={ []string{s, "b"} }>x</div>`, Mode: mClass, Exp: func(s string) string { return classJoin(s, "b") }},
	{Name: "class_map", Body: `<div class={ map[string]bool{s: true} }>x</div>`, Mode: mClass, Exp: one},
	{Name: "class_map2", Body: `<div class={ map[string]bool{"b": true, s: true} }>x</div>`, Mode: mClass, Exp: func(s string) string { return sortedJoin("b", s) }},
	{Name: "class_kv", Body: `<div class={ templ.KV(s, true) }>x</div>`, Mode: mClass, Exp: one},
	{Name: "class_kvslice", Body: `<div class={ []templ.KeyValue[string, bool]{templ.KV("b", true), templ.KV(s, true)} }>x</div>`, Mode: mClass, Exp: func(s string) string { return classJoin("b", s) }},
	{Name: "class_constant", Body: `<div class={ templ.ConstantCSSClass(s) }>x</div>`, Mode: mClass, Exp: one},
	{Name: "class_templclass", Body: `<div class={ templ.Class(s), templ.SafeClass("b") }>x</div>`, Mode: mClass, Exp: func(s string) string { return classJoin(s, "b") }},
	{Name: "class_classes", Body: `<div class={ templ.Classes(s, "b") }>x</div>`, Mode: mClass, Exp: func(s string) string { return classJoin(s, "b") }},
	{Name: "class_nested", Body: `<div class={ templ.CSSClasses{"a", templ.CSSClasses{templ.Class(s), []string{s}}} }>x</div>`, Mode: mClass, Exp: func(s string) string { return classJoin("a", s) }},
	{Name: "class_cssclass_slice", Body: `<div class={ []templ.CSSClass{templ.ConstantCSSClass(s)} }>x</div>`, Mode: mClass, Exp: one},
	{Name: "class_func", Body: `<div class={ clsFn(s) }>x</div>`, Mode: mClass, Exp: one},
	{Name: "class_kv_cssclass", Body: `<div class={ templ.KV(templ.CSSClass(templ.ConstantCSSClass(s)), true) }>x</div>`, Mode: mClass, Exp: one},
	{Name: "class_component_id", Body: `<div class={ templ.ComponentCSSClass{ID: s} }>x</div>`, Mode: mClass, Exp: one},
	{Name: "class_void_cond", Body: `<input type="text"
	if len(s) >= 0 {
		class={ s, "b" }
	}
/><p>after</p>`, Mode: mClass, Exp: func(s string) string { return classJoin(s, "b") }},
	// --- style attribute (structure only: value semantics belong to C05)
	{Name: "style_string", Body: `<div id="a" style={ s } hidden>x</div>`, Mode: mStructure, Free: "style"},
	{Name: "style_map_value", Body: `<div style={ map[string]string{"color": s} }>x</div>`, Mode: mStructure, Free: "style"},
	{Name: "style_map_key", Body: `<div style={ map[string]string{s: "red"} }>x</div>`, Mode: mStructure, Free: "style"},
	{Name: "style_kv_value", Body: `<div style={ templ.KV("font-family", s) }>x</div>`, Mode: mStructure, Free: "style"},
	{Name: "style_kv_key", Body: `<div style={ templ.KV(s, "red") }>x</div>`, Mode: mStructure, Free: "style"},
	{Name: "style_kv_bool", Body: `<div style={ templ.KV(s, true) }>x</div>`, Mode: mStructure, Free: "style"},
	{Name: "style_safecss", Body: `<input style={ templ.SafeCSS(s) } type="text"/><p>after</p>`, Mode: mStructure, Free: "style"},
	{Name: "style_safeprop_map", Body: `<div style={ map[string]templ.SafeCSSProperty{"color": templ.SafeCSSProperty(s)} }>x</div>`, Mode: mStructure, Free: "style"},
	// forms the documentation lists as supported (whether or not the runtime handles them today):
	// whatever is emitted must stay inside the attribute
	{Name: "style_kv_safeprop", Body: `<div style={ templ.KV("color", templ.SafeCSSProperty(s)) }>x</div>`, Mode: mStructure, Free: "style"},
	{Name: "style_kv_safeprop_key", Body: `<div style={ templ.KV(s, templ.SafeCSSProperty("red")) }>x</div>`, Mode: mStructure, Free: "style"},
	{Name: "style_kv_safeprop_slice", Body: `<div style={ []templ.KeyValue[string, templ.SafeCSSProperty]{templ.KV("color", templ.SafeCSSProperty(s))} }>x</div>`, Mode: mStructure, Free: "style"},
	{Name: "style_func_any", Body: `<div style={ func() (any, error) { return templ.KV("color", templ.SafeCSSProperty(s)), nil } }>x</div>`, Mode: mStructure, Free: "style"},
	{Name: "style_kv_safecss_false", Body: `<div style={ templ.KV(templ.SafeCSS(s), false), templ.KV(s, false) } id="z">x</div>`, Mode: mStructure, Free: "style"},
	{Name: "style_slice_func", Body: `<div style={ []any{"color:red", styleFn(s), templ.KV(templ.SafeCSS(s), true)} }>x</div>`, Mode: mStructure, Free: "style"},
	// --- href / action after URL typing
	{Name: "href_url", Body: `<a id="a" href={ templ.URL(s) } target="_blank">x</a>`, Mode: mURL, Free: "href"},
	{Name: "href_safeurl", Body: `<a href={ templ.SafeURL(s) }>x</a>`},
	{Name: "action_url", Body: `<form action={ templ.URL(s) } method="post"><input type="text"/></form>`, Mode: mURL, Free: "action"},
	{Name: "action_safeurl", Body: `<form method="post" action={ templ.SafeURL(s) }><input type="text"/></form>`},
	// --- JSON script element id / type / nonce
	{Name: "jsonscript_id", Body: `@templ.JSONScript(s, "data")
<p>after</p>`, EmptyOmits: true},
	{Name: "jsonscript_type", Body: `@templ.JSONScript("id", "data").WithType(s)
<p>after</p>`, EmptyOmits: true},
	{Name: "jsonscript_nonce", Body: `@templ.JSONScript("id", "data").WithNonceFromString(s)
<p>after</p>`, EmptyOmits: true},
	{Name: "jsonscript_all", Body: `@templ.JSONScript(s, []string{"data"}).WithType(s).WithNonceFromString(s)
<p>after</p>`, EmptyOmits: true},
	{Name: "jsonscript_ctx_nonce", Body: `@templ.JSONScript("id", 1)
<p>after</p>`, Nonce: true, EmptyOmits: true},
	// --- script nonce from templ.WithNonce
	{Name: "nonce_script_component", Body: `@c01scr("x")
<p>after</p>`, Nonce: true, EmptyOmits: true},
	{Name: "nonce_script_attr", Body: `<button onclick={ c01scr("x") }>b</button>`, Nonce: true, EmptyOmits: true},
	{Name: "nonce_funccall_component", Body: `@templ.JSFuncCall("f", 1)
<p>after</p>`, Nonce: true, EmptyOmits: true},
}

// templSource prints the corpus package: one component per sink.
func templSource() string {
	var sb strings.Builder
	sb.WriteString("package main\n\nscript c01scr(a string) {\n\tconsole.log(a);\n}\n\n")
	for _, k := range sinks {
		sb.WriteString("templ S_" + k.Name + "(s string) {\n\t" + strings.ReplaceAll(k.Body, "\n", "\n\t") + "\n}\n\n")
	}
	return sb.String()
}

const helperSrc = `package main

import "github.com/a-h/templ"

func strErr(s string) (string, error) { return s, nil }
func ptr(s string) *string            { return &s }
func clsFn(s string) func() templ.CSSClass {
	return func() templ.CSSClass { return templ.ConstantCSSClass(s) }
}
func styleFn(s string) func() (string, error) { return func() (string, error) { return s, nil } }
`

// driverSrc: JSONL jobs {"i":n,"s":base64[,"k":sink]} -> {"i":n,"o":[base64 per sink],"e":[errors]}.
// No verdicts are computed here.
func driverSrc() string {
	var sb strings.Builder
	sb.WriteString(`package main

import (
	"bufio"
	"bytes"
	"context"
	"encoding/base64"
	"encoding/json"
	"os"

	"github.com/a-h/templ"
)

type entry struct {
	name  string
	f     func(string) templ.Component
	nonce bool
}

var registry = []entry{
`)
	for _, k := range sinks {
		sb.WriteString("\t{\"" + k.Name + "\", func(s string) templ.Component { return S_" + k.Name + "(s) }, ")
		if k.Nonce {
			sb.WriteString("true},\n")
		} else {
			sb.WriteString("false},\n")
		}
	}
	sb.WriteString(`}

type job struct {
	I int    ` + "`json:\"i\"`" + `
	S string ` + "`json:\"s\"`" + `
	K string ` + "`json:\"k\"`" + `
}

type out struct {
	I int      ` + "`json:\"i\"`" + `
	O []string ` + "`json:\"o\"`" + `
	E []string ` + "`json:\"e,omitempty\"`" + `
}

func main() {
	in := bufio.NewReaderSize(os.Stdin, 1<<20)
	w := bufio.NewWriterSize(os.Stdout, 1<<20)
	defer w.Flush()
	enc := json.NewEncoder(w)
	var buf bytes.Buffer
	for {
		line, err := in.ReadBytes('\n')
		if len(line) > 1 {
			var j job
			if e := json.Unmarshal(line, &j); e != nil {
				panic(e)
			}
			raw, e := base64.StdEncoding.DecodeString(j.S)
			if e != nil {
				panic(e)
			}
			s := string(raw)
			o := out{I: j.I}
			for _, r := range registry {
				if j.K != "" && j.K != r.name {
					o.O = append(o.O, "")
					continue
				}
				buf.Reset()
				ctx := context.Background()
				arg := s
				if r.nonce {
					ctx = templ.WithNonce(ctx, s)
					arg = ""
				}
				if e := r.f(arg).Render(ctx, &buf); e != nil {
					o.E = append(o.E, r.name+": "+e.Error())
				}
				o.O = append(o.O, base64.StdEncoding.EncodeToString(buf.Bytes()))
			}
			if e := enc.Encode(o); e != nil {
				panic(e)
			}
		}
		if err != nil {
			return
		}
	}
}
`)
	return sb.String()
}
