package c01

import (
	"math/rand"
	"sort"
	"strings"
	"unicode/utf8"
)

// HTMLAlphabet is the metacharacter alphabet of the bounded-exhaustive family.
var HTMLAlphabet = []string{"<", ">", "&", "\"", "'", "`", "=", "/", " ", "\t", "\n", "\r", "\f", "\x00", ";", "#", "x", "-", "!", "\\", ":"}

// Vectors are classic markup-injection strings (mutated by single edits).
var Vectors = []string{
	`<script>alert(1)</script>`, `</p><script>alert(1)</script>`, `"><script>alert(1)</script>`, `'><script>alert(1)</script>`,
	`"><img src=x onerror=alert(1)>`, `' onmouseover='alert(1)`, `" onmouseover="alert(1)`, "` onmouseover=alert(1) `",
	`</title><script>alert(1)</script>`, `</textarea><script>alert(1)</script>`, `</TEXTAREA ><svg onload=alert(1)>`, `</xmp><b>`, `</iframe><b>`,
	`<!--`, `-->`, `--!>`, `<!-- --><b>`, `<![CDATA[x]]>`, `]]>`, `<?xml?>`, `<!DOCTYPE html>`, `</`, `</ p>`, `<p`, `<p/`, `< p>`, `<\x00p>`,
	`&lt;script&gt;`, `&amp;lt;`, `&#60;b&#62;`, `&#x3c;b&#x3e;`, `&#0;`, `&#x0;`, `&#xD800;`, `&#1114112;`, `&#128;`, `&#x80;`, `&#13;`, `&lt`, `&LT;`, `&amp`, `&ampx`, `&amp=`,
	`&quot;`, `&apos;`, `&#39;`, `&#34;`, `&notin;`, `&notit;`, `&not`, `&`, `&;`, `&#`, `&#;`, `&#x`, `&#x;`, `&x;`, `&copy`, `&copy=1`, `&copy1`,
	`a"b'c`, `a'b"c`, "a`b", `"`, `'`, `""`, `''`, `"'`, `" x="`, `' x='`, `"/>`, `'/>`, `/>`, `//`, `\"`, `\'`, `\\"`, `\`, `a\`,
	`javascript:alert(1)`, `JaVaScRiPt:alert(1)`, "java\tscript:alert(1)", ` javascript:alert(1)`, `data:text/html,<b>`, `http://x/"onclick="a`, `/a?b=1&c=2`, `mailto:a@b`,
	`x y`, ` x`, `x `, "x\ty", "x\ny", "x\r\ny", "x\ry", "\r", "\r\n", "\n\r", "x\fy", "x\x00y", "\x00", "\x00\x00", "x\x0by",
	"\xff", "\xc0\xaf", "\xe0\x80\xaf", "\xed\xa0\x80", "\xed\xb0\x80", "\xf4\x90\x80\x80", "\xc2", "\xe2\x80", "\xf0\x9f\x98", "a\xffb", "<\xff>", "\xc0<", "\xe0<>", "\xf0\x9f\"", "\xc2\"",
	"\u2028", "\u2029", "\ufeff", "\ufffd", "\ufffe", "\uffff", "\U00010000", "\U0010ffff", "\u00a0", "\u0085", "\u200b", "\u202e",
	`<svg/onload=alert(1)>`, `<a href="x">`, `<a href='x'>`, `<a href=x>`, `<input value=">">`, `<style>*{}</style>`, `</style>`, `</script>`, `<script`, `</script`, `<plaintext>`,
	`{{7*7}}`, `${7*7}`, `{ s }`, `%3Cb%3E`, `<b>`, `\x3cb\x3e`, `+ADw-script+AD4-`,
	`color:red`, `color:red;`, `background:url(javascript:alert(1))`, `x:expression(alert(1))`, `a;b:c`, `};*{`, `/* */`, `width:1px;" onclick="x`,
	strings.Repeat("<", 40), strings.Repeat(`"`, 40), strings.Repeat("&", 40), strings.Repeat("a", 300) + "<",
}

// Boundary code points / byte sequences added to the code point sweep.
var boundary = []string{"\u2028", "\u2029", "\ufeff", "\ufffd", "\ufffe", "\uffff", "\U00010000", "\U0001f600", "\U0010ffff", "\u0800", "\ud7ff", "\ue000",
	"\xed\xa0\x80", "\xed\xbf\xbf", "\xed\xa0\xbd\xed\xb8\x80", // CESU surrogates
	"\xc0\x80", "\xc0\xbc", "\xc1\xbf", "\xe0\x80\xbc", "\xf0\x80\x80\xbc", // overlongs (of NUL and '<')
	"\xc2", "\xdf", "\xe0\xa0", "\xef\xbf", "\xf0\x90\x80", "\xf4\x8f\xbf", "\x80", "\xbf", "\xf5", "\xf8\x88\x80\x80\x80", "\xf4\x90\x80\x80"}

// Exhaustive returns all strings of length 1..n over the alphabet.
func Exhaustive(alpha []string, n int) []string {
	var out []string
	var rec func(p string, d int)
	rec = func(p string, d int) {
		if d > 0 {
			out = append(out, p)
		}
		if d == n {
			return
		}
		for _, a := range alpha {
			rec(p+a, d+1)
		}
	}
	rec("", 0)
	return out
}

// Mutations returns all single-edit mutants of v (delete one byte, insert or
// substitute one metacharacter at every byte position).
func Mutations(v string, meta []string) []string {
	var out []string
	for i := 0; i <= len(v); i++ {
		if i < len(v) {
			out = append(out, v[:i]+v[i+1:])
		}
		for _, m := range meta {
			out = append(out, v[:i]+m+v[i:])
			if i < len(v) {
				out = append(out, v[:i]+m+v[i+1:])
			}
		}
	}
	return out
}

// Random returns a seeded random string of at most maxLen bytes drawn from a
// metacharacter-heavy distribution (alphabet symbols, vector fragments, letters,
// arbitrary bytes, arbitrary code points).
func Random(r *rand.Rand, alpha []string, vectors []string, maxLen int) string {
	var sb strings.Builder
	n := 1 + r.Intn(maxLen)
	for sb.Len() < n {
		switch k := r.Intn(20); {
		case k < 9:
			sb.WriteString(alpha[r.Intn(len(alpha))])
		case k < 12:
			sb.WriteByte("abcxyzABC019 "[r.Intn(13)])
		case k < 14:
			sb.WriteByte(byte(r.Intn(256)))
		case k < 16:
			var b [4]byte
			cp := rune(r.Intn(0x3000))
			if r.Intn(4) == 0 {
				cp = rune(r.Intn(0x110000))
			}
			sb.Write(b[:utf8.EncodeRune(b[:], cp)]) // surrogates encode as U+FFFD
		default:
			v := vectors[r.Intn(len(vectors))]
			if len(v) > 24 {
				o := r.Intn(len(v) - 12)
				v = v[o : o+1+r.Intn(12)]
			}
			sb.WriteString(v)
		}
	}
	s := sb.String()
	if len(s) > maxLen {
		s = s[:maxLen]
	}
	return s
}

// Family is a named list of strings.
type Family struct {
	Name string
	Strs []string
}

// Families builds the string families of DESIGN §4 C01 (also used by C03 with
// its own alphabet and vectors): every byte, code points U+0000-U+07FF plus a
// boundary list, bounded-exhaustive strings over alpha, vectors with
// single-edit mutations (all of them when nMut<0, else a seeded sample of
// nMut), nRand seeded random strings. Value-determined, duplicates removed.
func Families(r *rand.Rand, alpha, vectors []string, exhLen, nMut, nRand int) []Family {
	var bytesF, cps []string
	for b := 0; b < 256; b++ {
		bytesF = append(bytesF, string([]byte{byte(b)}))
	}
	for cp := rune(0x80); cp <= 0x7ff; cp++ {
		cps = append(cps, string(cp))
	}
	cps = append(cps, boundary...)
	var muts []string
	for _, v := range vectors {
		if len(v) > 64 {
			continue
		}
		muts = append(muts, Mutations(v, alpha)...)
	}
	if nMut >= 0 && nMut < len(muts) {
		r.Shuffle(len(muts), func(i, j int) { muts[i], muts[j] = muts[j], muts[i] })
		muts = muts[:nMut]
		sort.Strings(muts)
	}
	var rnd []string
	for i := 0; i < nRand; i++ {
		rnd = append(rnd, Random(r, alpha, vectors, 64))
	}
	// long values cross the runtime's output buffer size (4096), where
	// buffering fast paths and flush ordering live
	var long []string
	for _, n := range []int{4000, 4095, 4096, 4097, 4200, 8191, 8193, 20000} {
		long = append(long, strings.Repeat("x", n), strings.Repeat("ab<c&d\"e'f>", n/11+1)[:n])
	}
	fams := []Family{{"every_byte", bytesF}, {"code_points", cps}, {"exhaustive", Exhaustive(alpha, exhLen)},
		{"vectors", append([]string{""}, vectors...)}, {"vector_mutations", muts}, {"random", rnd}, {"long", long}}
	seen := map[string]bool{}
	for i := range fams {
		var keep []string
		for _, s := range fams[i].Strs {
			if !seen[s] {
				seen[s] = true
				keep = append(keep, s)
			}
		}
		fams[i].Strs = keep
	}
	return fams
}

// NontrivialHTML: the string contains a markup metacharacter, a control
// character or an invalid UTF-8 byte.
func NontrivialHTML(s string) bool {
	return strings.ContainsAny(s, "<>&\"'`=/\\") || !utf8.ValidString(s) || strings.IndexFunc(s, func(r rune) bool { return r < 0x20 || r == 0x7f }) >= 0
}
