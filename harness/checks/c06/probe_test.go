package c06

import (
	"fmt"
	"os"
	"testing"
	"time"

	"verif/checks/ptree"
)

func TestProbe(t *testing.T) {
	b, _ := os.ReadFile("/repo/generator/test-script-usage/template.templ")
	w := ptree.CRLF(string(b))
	var worst time.Duration
	for i := 0; i < len(w); i += 3 {
		t0 := cpuNow()
		Observe(w[:i])
		d := cpuNow() - t0
		if d > worst {
			worst = d
			fmt.Println(i, d)
		}
	}
}
