package c06

import (
	"fmt"
	"sort"
	"strings"

	"github.com/a-h/templ/parser/v2"
	"verif/checks/ptree"
)

// PosStats counts what the position oracle looked at.
type PosStats struct{ Exprs, Named, Ranges int }

// CheckPositions is the position-faithfulness oracle for a template that the
// generate pipeline accepts. Positions are (byte index, 0-based line = number
// of '\n' before the byte, byte column); the harness recomputes line/column
// from the index with its own newline table (ptree.Lines), never with the
// parser's. Rules (trusted base):
//
//	P1 bounds   for every Expression.Range, every NameRange and every other
//	            Range in the tree: 0 <= From.Index <= To.Index <= len(src)
//	P2 linecol  From and To: (Line, Col) is where Index lies in src
//	P3 prefix   src[From.Index:] begins with Expression.Value (non-blank values)
//	P4 name     src[NameRange.From.Index:NameRange.To.Index] == Name for every
//	            struct carrying Name and NameRange (elements, attributes)
func CheckPositions(a *ptree.Accepted) ([]ptree.Alarm, PosStats) {
	src := a.Src
	sl := ptree.NewLines(src)
	it := ptree.Walk(a.TF)
	var alarms []ptree.Alarm
	seen := map[string]bool{}
	alarm := func(kind, slot, f string, args ...any) {
		if !seen[kind+"|"+slot] {
			seen[kind+"|"+slot] = true
			alarms = append(alarms, ptree.Alarm{Kind: kind, Slot: slot, Msg: fmt.Sprintf(f, args...)})
		}
	}
	// rangeOK applies P1 and P2; false means indices are unusable for P3/P4.
	rangeOK := func(slot string, r parser.Range, what string) bool {
		if r.From.Index < 0 || r.From.Index > r.To.Index || int(r.To.Index) > len(src) {
			alarm("range-bounds", slot, "%s: range %d..%d is not an ordered range inside the %d-byte source", what, r.From.Index, r.To.Index, len(src))
			return false
		}
		for _, p := range []parser.Position{r.From, r.To} {
			if l, c := sl.Pos(int(p.Index)); l != int(p.Line) || c != int(p.Col) {
				alarm("linecol", slot, "%s: index %d recorded as line %d col %d, lies at line %d col %d", what, p.Index, p.Line, p.Col, l, c)
			}
		}
		return true
	}
	st := PosStats{Exprs: len(it.Exprs), Named: len(it.Named), Ranges: len(it.Ranges)}
	for _, x := range it.Exprs {
		what := "expression " + fmt.Sprintf("%q", ptree.Clip(x.E.Value, 60))
		if rangeOK(x.Slot, x.E.Range, what) && strings.TrimSpace(x.E.Value) != "" && !strings.HasPrefix(src[x.E.Range.From.Index:], x.E.Value) {
			alarm("value-prefix", x.Slot, "%s: source at range start (index %d) reads %q", what, x.E.Range.From.Index, ptree.Clip(src[x.E.Range.From.Index:], 60))
		}
	}
	for _, n := range it.Named {
		what := fmt.Sprintf("name %q", n.Name)
		if rangeOK(n.Slot, n.R, what) && src[n.R.From.Index:n.R.To.Index] != n.Name {
			alarm("name-range", n.Slot, "%s: NameRange %d..%d covers %q", what, n.R.From.Index, n.R.To.Index, ptree.Clip(src[n.R.From.Index:n.R.To.Index], 60))
		}
	}
	for _, r := range it.Ranges {
		rangeOK(r.Slot, r.R, "range")
	}
	sort.Slice(alarms, func(i, j int) bool {
		if alarms[i].Kind != alarms[j].Kind {
			return alarms[i].Kind < alarms[j].Kind
		}
		return alarms[i].Slot < alarms[j].Slot
	})
	return alarms, st
}
