// Package c06 checks that parser.ParseString is total (terminates promptly,
// never panics, errors carry a position inside the input) and that every
// position recorded in the tree of an accepted file is faithful to the source.
package c06

import (
	"bufio"
	"encoding/binary"
	"encoding/json"
	"fmt"
	"math/rand"
	"os"
	"os/exec"
	"path/filepath"
	"regexp"
	"sort"
	"strconv"
	"strings"
	"sync"
	"sync/atomic"
	"time"

	"verif/checks/ptree"
	"verif/core"
)

const (
	softMs     = 5000  // CPU ms on one input before the solo re-run (observed maximum: tens of ms)
	hardMs     = 60000 // CPU ms of the solo re-run; beyond it an input <= 16 KB is a hang
	hangLimit  = 16 << 10
	maxCrashes = 4 // reproduced fatal crashes after which the sweep stops
	maxHangs   = 2 // solo re-runs of over-budget inputs per run; afterwards the sweep stops (each may cost 60 CPU-seconds)
)

// Case is the replay format (B survives arbitrary bytes; Text is for humans).
type Case struct {
	Name string
	B    []byte
	Text string
}

type input struct {
	name, class, text string
}

// outcome is what the parent knows about one input after the sweep.
type outcome struct {
	rec     Record
	have    bool
	hang    bool   // exceeded the hard budget in the solo re-run
	slow    int64  // finished solo within the hard budget after exceeding the soft one (cpu µs)
	crash   string // fatal crash (stderr tail), reproduced solo
	flaky   string // crash / memory / budget event that did not reproduce solo
	mem     bool   // memory guard tripped again solo
	skipped bool
}

// builder produces the input list in waves so that the thorough tier never
// holds millions of texts at once. Wave 0 carries the value-determined classes
// (corpus, every truncation, CRLF); every wave adds its share of mutations,
// generated programs, random bytes and token soups from streams named after
// the wave. Inputs are deduplicated across waves by hash.
type builder struct {
	c      *core.Ctx
	seeds  []ptree.Seed
	corpus map[string]bool
	seen   map[uint64]bool
}

func newBuilder(c *core.Ctx) *builder {
	// repository corpus + the fixed one-construct forms (short: every prefix of them is taken)
	b := &builder{c: c, seeds: append(ptree.LoadCorpus(c.Repo), ptree.FixedForms()...), corpus: map[string]bool{}, seen: map[uint64]bool{}}
	for _, s := range b.seeds {
		b.corpus[s.Text] = true
	}
	return b
}

func (b *builder) wave(w int) []input {
	c := b.c
	var ins []input
	add := func(name, class, text string) {
		h := core.Hash64(text)
		if b.seen[h] {
			return
		}
		b.seen[h] = true
		ins = append(ins, input{name, class, text})
	}
	whole := func(s ptree.Seed) string {
		if s.Whole {
			return s.Text
		}
		return ptree.Wrap(s.Text)
	}
	if w == 0 {
		for _, s := range b.seeds {
			add(s.Name, "corpus", s.Text)
			if !s.Whole {
				add(s.Name+"+wrap", "corpus-wrapped", ptree.Wrap(s.Text))
			}
		}
		// every truncation (stride 1 up to 1.5 KB, 7 above)
		for _, s := range b.seeds {
			for _, t := range ptree.Truncations(s.Text) {
				add(s.Name+"+trunc", "truncation", t)
			}
			if !s.Whole {
				w := ptree.Wrap(s.Text)
				pre := strings.Index(w, s.Text)
				for i := pre + 1; i < len(w); i++ {
					add(s.Name+"+wrap+trunc", "truncation", w[:i])
				}
			}
		}
		// a leading UTF-8 byte order mark in front of every seed (rejected by
		// the unchanged parser; on a tree that accepts it every position must
		// still count the three bytes)
		for _, s := range b.seeds {
			add(s.Name+"+bom", "bom", "\xEF\xBB\xBF"+whole(s))
		}
		// CRLF variants and their truncations (stride 3)
		for _, s := range b.seeds {
			w := ptree.CRLF(whole(s))
			add(s.Name+"+crlf", "crlf", w)
			if s.Whole {
				for i := 0; i < len(w); i += 3 {
					add(s.Name+"+crlf+trunc", "crlf-truncation", w[:i])
				}
			}
		}
	}
	r := c.Rand(fmt.Sprintf("mutants-%d", w))
	for _, s := range b.seeds {
		t := whole(s)
		for k := 4; k > 0; k-- {
			add(s.Name+"+wide", "multibyte-before-expression", ptree.WideBefore(r, t))
		}
		for k := 250; k > 0; k-- {
			base := t
			if !s.Whole && k%4 == 0 {
				base = s.Text // the fragment on its own, as the table tests feed it to sub-parsers
			}
			add(s.Name+"+mut", "mutation", ptree.Mutate(r, base))
		}
	}
	// generated programs (every slot, multi-line, multi-byte), truncations, mutations
	gr := c.Rand(fmt.Sprintf("programs-%d", w))
	for i := 200; i > 0; i-- {
		p := ptree.GenProgram(rand.New(rand.NewSource(gr.Int63())))
		add("gen", "generated", p)
		for j := gr.Intn(11); j < len(p); j += 11 {
			add("gen+trunc", "generated-truncation", p[:j])
		}
		for k := 0; k < 6; k++ {
			add("gen+mut", "generated-mutation", ptree.Mutate(gr, p))
		}
	}
	rr := c.Rand(fmt.Sprintf("random-%d", w))
	for i := 40000; i > 0; i-- {
		add("random", "random-bytes", ptree.RandomBytes(rr))
		add("soup", "token-soup", ptree.TokenSoup(rr))
	}
	return ins
}

var digits = regexp.MustCompile(`[0-9]+`)

// panicSig abstracts a recovered panic to "message class @ top parser frame".
func panicSig(p string) string {
	lines := strings.Split(p, "\n")
	msg := digits.ReplaceAllString(lines[0], "N")
	for _, l := range lines[1:] {
		if strings.Contains(l, "github.com/a-h/") && !strings.HasPrefix(l, "\t") {
			f := l
			if i := strings.LastIndex(f, "("); i > 0 {
				f = f[:i]
			}
			if i := strings.LastIndex(f, "/"); i >= 0 {
				f = f[i+1:]
			}
			return msg + " @ " + f
		}
	}
	return msg
}

// guarded runs Observe in-process for the reducer with a wall-clock guard; a
// candidate that does not come back counts as "does not show the failure".
func guarded(s string) (Record, bool) {
	ch := make(chan Record, 1)
	go func() { ch <- Observe(s) }()
	select {
	case r := <-ch:
		return r, true
	case <-time.After(20 * time.Second):
		return Record{}, false
	}
}

var posKinds = []string{"oracle-panic", "range-bounds", "linecol", "value-prefix", "name-range"}

func firstKind(al []ptree.Alarm) (ptree.Alarm, bool) {
	for _, k := range posKinds {
		for _, a := range al {
			if a.Kind == k {
				return a, true
			}
		}
	}
	return ptree.Alarm{}, false
}

func Run(c *core.Ctx) {
	c.Rule = "inputs = repository .templ files, parser test data (txtar sections) and table-test literals found at run time (raw and wrapped in a template), every truncation of them (stride 1 up to 1.5 KB, 7 above), CRLF variants and their truncations, multi-byte text inserted before expression openers, token-dictionary mutations (insert/delete/duplicate/replace/unbalance/swap/cut), generated every-slot programs with truncations and mutations, seeded random bytes and token soups; each is parsed in a child process; totality oracle = no recovered panic, no fatal crash, CPU time of the input under the budget, parse.ParseError index within 0..len(input); position oracle (inputs that parse, generate and gofmt) = rules P1-P4 of checks/c06/oracle.go; non-trivial = input not equal to a corpus text that either fails to parse or carries at least one Go expression (distinct by hash)"
	c.Assume("termination is judged by CPU time of the child (getrusage), not wall time: soft budget 5 CPU-s per input (CPU clock of the parsing thread), solo re-run with 60 CPU-s; the loop-progress hook H1 of DESIGN 2.3 is not in the tree, so a livelock is seen only through the budget")
	c.Assume("positions are (byte index, line = count of LF before it, byte column), as produced by github.com/a-h/parse Input.PositionAt")
	if c.ReplayFile != "" {
		replay(c)
		return
	}
	self := os.Getenv("VERIF_SELF")
	if self == "" {
		core.Infra("VERIF_SELF not set (run through ./check)")
	}
	scratch, err := os.MkdirTemp("", "verif-c06-")
	if err != nil {
		core.Infra("mktemp: %v", err)
	}
	core.AtExit(func() { os.RemoveAll(scratch) })

	bld := newBuilder(c)
	corpus := bld.corpus
	const workers = 16
	var hangs, crashes atomic.Int32
	classes := map[string]int{}
	stages := map[string]int{}
	var maxCPU int64
	maxCPUName := ""
	type fail struct {
		text, name, class string
		kind              string // panic | errpos | hang | fatal | memory | <position kind>
		group             string
		msg               string
	}
	var fails []fail
	nExprChecked, nNamed, nRange, nPE, accepted, skipped, parsed, total := 0, 0, 0, 0, 0, 0, 0, 0
	waves := c.Pick(1, 9)
	for w := 0; w < waves && int(hangs.Load()) < maxHangs && int(crashes.Load()) < maxCrashes; w++ {
		ins := bld.wave(w)
		total += len(ins)
		for _, in := range ins {
			classes[in.class]++
		}
		// ---- sweep: batches in child processes, 16 at a time. Batches interleave
		// the input list so that every child gets a similar mix.
		nb := (len(ins) + 1999) / 2000
		if nb < workers {
			nb = workers
		}
		outs := make([]outcome, len(ins))
		var wg sync.WaitGroup
		bch := make(chan int)
		var infraMu sync.Mutex
		var infra []string
		for k := 0; k < workers; k++ {
			wg.Add(1)
			go func() {
				defer wg.Done()
				for b := range bch {
					var idx []int
					var texts []string
					for i := b; i < len(ins); i += nb {
						idx = append(idx, i)
						texts = append(texts, ins[i].text)
					}
					if msg := runBatch(self, scratch, b, texts, idx, outs, &hangs, &crashes); msg != "" {
						infraMu.Lock()
						infra = append(infra, msg)
						infraMu.Unlock()
					}
				}
			}()
		}
		for b := 0; b < nb; b++ {
			bch <- b
		}
		close(bch)
		wg.Wait()
		for _, m := range infra {
			c.Inconclusive("child infrastructure: " + m)
		}

		// ---- judge this wave
		for i, o := range outs {
			in := ins[i]
			addFail := func(kind, group, msg string) {
				fails = append(fails, fail{in.text, in.name, in.class, kind, group, msg})
			}
			if o.skipped || !o.have && !o.hang && o.crash == "" && o.flaky == "" && !o.mem && o.slow == 0 {
				skipped++
				continue
			}
			c.Eval(1)
			switch {
			case o.hang:
				if len(in.text) <= hangLimit {
					addFail("hang", "hang", fmt.Sprintf("parsing did not finish within %d CPU-seconds (solo re-run)", hardMs/1000))
				} else {
					c.Inconclusive(fmt.Sprintf("input %s (%d bytes > 16 KB) exceeded the hard CPU budget", in.name, len(in.text)))
				}
				continue
			case o.mem:
				addFail("memory", "memory", "parsing allocated more than 3 GiB (reproduced solo)")
				continue
			case o.crash != "":
				addFail("fatal", "fatal "+panicSig(o.crash), "the process died while parsing (reproduced solo): "+ptree.Clip(o.crash, 300))
				continue
			case o.flaky != "":
				c.Inconclusive(fmt.Sprintf("input %s: %s (did not reproduce in a solo re-run)", in.name, o.flaky))
				continue
			case o.slow > 0:
				c.Inconclusive(fmt.Sprintf("input %s (%d bytes) needed %d ms CPU: above the soft budget, below the hard one", in.name, len(in.text), o.slow/1000))
			}
			r := o.rec
			stages[r.Stage]++
			if r.CPUus > maxCPU {
				maxCPU, maxCPUName = r.CPUus, fmt.Sprintf("%s (%d bytes)", in.name, len(in.text))
			}
			if !corpus[in.text] && (r.Stage == "parse-error" || r.Stage == "panic:parse" || r.NExpr > 0) {
				c.NontrivialStr(in.text)
			}
			if r.Stage != "parse-error" && r.Stage != "panic:parse" {
				parsed++
			}
			if r.Panic != "" {
				addFail("panic", "panic "+panicSig(r.Panic), "ParseString panicked: "+ptree.Clip(r.Panic, 500))
			}
			if r.PE {
				nPE++
				if r.PosIdx < 0 || r.PosIdx > len(in.text) {
					addFail("errpos", "errpos", fmt.Sprintf("parse error %q carries position index %d outside the %d-byte input", r.Err, r.PosIdx, len(in.text)))
				}
			}
			if r.Stage == "ok" {
				accepted++
				nExprChecked += r.NExpr
				nNamed += r.NNamed
				nRange += r.NRange
				c.Eval(r.NExpr + r.NNamed + r.NRange)
				if al, ok := firstKind(r.Alarms); ok {
					addFail(al.Kind, al.Kind+" "+al.Slot, al.String())
				}
			}
			if len(in.text) < 160 && (i%977 == 0) {
				c.Sample(map[string]any{"name": in.name, "class": in.class, "input": in.text, "stage": r.Stage, "error": r.Err, "error_index": r.PosIdx, "cpu_us": r.CPUus, "expressions": r.NExpr})
			}
		}
	}
	c.Set("inputs_by_class", classes)
	c.Set("inputs_total", total)
	c.Set("waves", waves)
	c.Set("t_sweep_s", time.Since(c.Start).Seconds())
	c.Set("stages", stages)
	c.Set("inputs_run", total-skipped)
	c.Set("inputs_not_run", skipped)
	c.Set("parsed_ok", parsed)
	c.Set("accepted_by_generate_pipeline", accepted)
	c.Set("parse_errors_with_position_checked", nPE)
	c.Set("errors_without_position_not_demanded", stages["parse-error"]-nPE) // e.g. ErrLegacyFileFormat
	c.Set("expressions_position_checked", nExprChecked)
	c.Set("name_ranges_checked", nNamed)
	c.Set("other_ranges_checked", nRange)
	c.Set("max_cpu_us_single_input", maxCPU)
	c.Set("max_cpu_input", maxCPUName)
	c.Set("over_budget_inputs_seen", int(hangs.Load()))
	c.Set("fatal_crashes_reproduced", int(crashes.Load()))
	if skipped > 0 {
		if int(hangs.Load()) >= maxHangs || int(crashes.Load()) >= maxCrashes {
			c.Set("sweep_stopped_after_hangs_or_crashes", true)
		} else {
			c.Inconclusive(fmt.Sprintf("%d inputs were not run", skipped))
		}
	}
	if accepted == 0 || nExprChecked == 0 {
		c.Inconclusive("no accepted input reached the position oracle")
	}

	// ---- canonical witnesses: per group the two smallest failing inputs
	// are reduced with "still fails the same way".
	sort.SliceStable(fails, func(a, b int) bool {
		la, lb := len(fails[a].text), len(fails[b].text)
		if la != lb {
			return la < lb
		}
		return fails[a].text < fails[b].text
	})
	groups := map[string]int{}
	for _, f := range fails {
		groups[f.group]++
	}
	c.Set("alarm_groups", groups)
	per := map[string]int{}
	type job struct {
		f   fail
		red string
	}
	var jobs []*job
	for _, f := range fails {
		if per[f.group] >= 2 {
			continue
		}
		per[f.group]++
		jobs = append(jobs, &job{f: f})
	}
	var rw sync.WaitGroup
	sem := make(chan struct{}, workers)
	for _, j := range jobs {
		rw.Add(1)
		sem <- struct{}{}
		go func(j *job) {
			defer rw.Done()
			defer func() { <-sem }()
			if j.f.kind == "hang" || j.f.kind == "fatal" {
				// every probe is a child with a 1 CPU-second budget; 30 probes
				n := 0
				j.red = ptree.ReduceN(j.f.text, func(s string) bool {
					n++
					dir := filepath.Join(scratch, fmt.Sprintf("red%016x-%d", core.Hash64(j.f.text), n))
					_ = WriteBatch(dir+".bin", []string{s})
					recs, _, _, _ := spawn(self, dir+".bin", 0, 1, dir+".out", dir+".prog", 1000)
					os.Remove(dir + ".bin")
					os.Remove(dir + ".out")
					os.Remove(dir + ".prog")
					if j.f.kind == "fatal" { // died without finishing and without a budget event
						return len(recs) == 0 || !recs[len(recs)-1].Done && !recs[len(recs)-1].Soft && !recs[len(recs)-1].Mem
					}
					return len(recs) > 0 && recs[len(recs)-1].Soft
				}, 30)
				return
			}
			j.red = reduceFail(j.f.kind, j.f.group, j.f.text)
		}(j)
	}
	rw.Wait()
	for _, j := range jobs {
		in := input{j.f.name, j.f.class, j.f.text}
		msg := j.f.msg
		if inProc := j.f.kind != "hang" && j.f.kind != "fatal" && j.f.kind != "memory"; inProc && j.red != in.text {
			if r, ok := guarded(j.red); ok {
				switch {
				case j.f.kind == "panic":
					msg = "ParseString panicked: " + ptree.Clip(r.Panic, 500)
				case j.f.kind == "errpos":
					msg = fmt.Sprintf("parse error %q carries position index %d outside the %d-byte input", r.Err, r.PosIdx, len(j.red))
				default:
					for _, al := range r.Alarms {
						if al.Kind == j.f.kind {
							msg = al.String()
							break
						}
					}
				}
			}
		}
		key := j.f.group + "\n" + strconv.Quote(j.red)
		if len(j.red) > 400 {
			key = fmt.Sprintf("%s\n%s…#%016x", j.f.group, strconv.Quote(j.red[:200]), core.Hash64(j.red))
		}
		c.Violate(key, fmt.Sprintf("input %s (from %s, class %s): %s", strconv.Quote(ptree.Clip(j.red, 300)), in.name, in.class, msg),
			Case{Name: in.name, B: []byte(j.red), Text: strconv.Quote(ptree.Clip(j.red, 2000))})
	}
}

// reduceFail shrinks a failing input in-process (fatal crashes are not
// reduced; hangs are reduced by the caller with child-process probes).
func reduceFail(kind, group, text string) string {
	switch kind {
	case "memory":
		return text
	case "panic":
		return ptree.Reduce(text, func(s string) bool {
			r, ok := guarded(s)
			return ok && r.Panic != "" && "panic "+panicSig(r.Panic) == group
		})
	case "errpos":
		return ptree.Reduce(text, func(s string) bool {
			r, ok := guarded(s)
			return ok && r.PE && (r.PosIdx < 0 || r.PosIdx > len(s))
		})
	}
	return ptree.Reduce(text, func(s string) bool {
		r, ok := guarded(s)
		if !ok {
			return false
		}
		for _, al := range r.Alarms {
			if al.Kind == kind {
				return true
			}
		}
		return false
	})
}

// spawn runs one child over inputs [from,to) of a batch file and returns its
// records, exit status and stderr tail.
func spawn(self, batch string, from, to int, out, prog string, budgetMs int) (recs []Record, exit int, stderr string, infra string) {
	_ = os.Remove(out)
	errPath := out + ".stderr"
	ef, err := os.Create(errPath)
	if err != nil {
		return nil, -1, "", err.Error()
	}
	cmd := exec.Command(self, "--child", "parse", batch, strconv.Itoa(from), strconv.Itoa(to), out, prog, strconv.Itoa(budgetMs))
	cmd.Stderr = ef
	cmd.Stdout = ef
	cmd.Env = append(os.Environ(), "GOMAXPROCS=2", "GOTRACEBACK=single")
	if err := cmd.Start(); err != nil {
		ef.Close()
		return nil, -1, "", "cannot start child: " + err.Error()
	}
	done := make(chan error, 1)
	go func() { done <- cmd.Wait() }()
	// wall-clock watchdog, generous: only a stuck child that burns no CPU
	// (which the CPU budget cannot see) ends here
	select {
	case <-done:
	case <-time.After(45 * time.Minute):
		cmd.Process.Kill()
		<-done
		infra = "child exceeded 45 min wall time without exceeding its CPU budget"
	}
	ef.Close()
	exit = cmd.ProcessState.ExitCode()
	if b, err := os.ReadFile(errPath); err == nil {
		s := string(b)
		if len(s) > 3000 {
			s = s[:1500] + "\n…\n" + s[len(s)-1500:]
		}
		stderr = s
	}
	os.Remove(errPath)
	f, err := os.Open(out)
	if err != nil {
		return nil, exit, stderr, infra
	}
	defer f.Close()
	sc := bufio.NewScanner(f)
	sc.Buffer(make([]byte, 1<<20), 64<<20)
	for sc.Scan() {
		var r Record
		if json.Unmarshal(sc.Bytes(), &r) == nil {
			recs = append(recs, r)
		}
	}
	return recs, exit, stderr, infra
}

func progressIndex(prog string) int {
	b, err := os.ReadFile(prog)
	if err != nil || len(b) < 8 {
		return -1
	}
	return int(binary.LittleEndian.Uint64(b))
}

// runBatch drives one batch to completion, restarting the child after every
// input that killed it or ran out of budget, and re-running such inputs solo.
func runBatch(self, scratch string, b int, texts []string, idx []int, outs []outcome, hangs, crashes *atomic.Int32) string {
	batch := filepath.Join(scratch, fmt.Sprintf("b%d.bin", b))
	// the inputs are on disk before any child sees them
	if err := WriteBatch(batch, texts); err != nil {
		return err.Error()
	}
	defer os.Remove(batch)
	out := filepath.Join(scratch, fmt.Sprintf("b%d.out", b))
	prog := filepath.Join(scratch, fmt.Sprintf("b%d.prog", b))
	defer os.Remove(out)
	defer os.Remove(prog)
	from := 0
	for from < len(texts) {
		if int(hangs.Load()) >= maxHangs || int(crashes.Load()) >= maxCrashes {
			for i := from; i < len(texts); i++ {
				outs[idx[i]].skipped = true
			}
			return ""
		}
		_ = os.Remove(prog)
		recs, exit, stderr, infra := spawn(self, batch, from, len(texts), out, prog, softMs)
		if infra != "" {
			return infra
		}
		done := false
		culprit, why := -1, ""
		for _, r := range recs {
			switch {
			case r.Done:
				done = true
			case r.Soft:
				culprit, why = r.I, "soft"
			case r.Mem:
				culprit, why = r.I, "mem"
			case r.I >= 0 && r.I < len(texts):
				outs[idx[r.I]].rec, outs[idx[r.I]].have = r, true
			}
		}
		if done {
			return ""
		}
		if culprit < 0 {
			culprit, why = progressIndex(prog), "crash"
			if culprit < from || culprit >= len(texts) {
				return fmt.Sprintf("child exited %d without progress information: %s", exit, ptree.Clip(stderr, 300))
			}
		}
		// solo re-run of the culprit with the hard budget (at most maxHangs
		// such re-runs for over-budget inputs per run, see above)
		o := &outs[idx[culprit]]
		if why == "soft" && int(hangs.Add(1)) > maxHangs {
			for i := culprit; i < len(texts); i++ {
				outs[idx[i]].skipped = true
			}
			return ""
		}
		srecs, sexit, sstderr, sinfra := spawn(self, batch, culprit, culprit+1, out, prog, hardMs)
		if sinfra != "" {
			return sinfra
		}
		var last Record
		fin := false
		for _, r := range srecs {
			if r.Done {
				fin = true
			} else {
				last = r
			}
		}
		switch {
		case fin:
			o.rec, o.have = last, true
			if why == "soft" {
				o.slow = last.CPUus
			} else {
				o.flaky = why + " event in the batch run: " + ptree.Clip(stderr, 200)
			}
		case last.Soft:
			o.hang = true
		case last.Mem:
			o.mem = true
		default:
			o.crash = fmt.Sprintf("exit %d\n%s", sexit, sstderr)
			crashes.Add(1)
		}
		from = culprit + 1
	}
	return ""
}

func replay(c *core.Ctx) {
	var cs Case
	c.LoadReplay(&cs)
	self := os.Getenv("VERIF_SELF")
	scratch, err := os.MkdirTemp("", "verif-c06-")
	if err != nil {
		core.Infra("mktemp: %v", err)
	}
	core.AtExit(func() { os.RemoveAll(scratch) })
	text := string(cs.B)
	batch := filepath.Join(scratch, "r.bin")
	if err := WriteBatch(batch, []string{text}); err != nil {
		core.Infra("%v", err)
	}
	recs, exit, stderr, infra := spawn(self, batch, 0, 1, filepath.Join(scratch, "r.out"), filepath.Join(scratch, "r.prog"), hardMs)
	if infra != "" {
		core.Infra("%s", infra)
	}
	c.Eval(1)
	c.NontrivialN(2)
	key := func(g string) string { return g + "\n" + strconv.Quote(text) }
	fin := false
	for _, r := range recs {
		switch {
		case r.Done:
			fin = true
		case r.Soft:
			c.Violate(key("hang"), "parsing did not finish within the hard CPU budget", cs)
		case r.Mem:
			c.Violate(key("memory"), "parsing allocated more than 3 GiB", cs)
		default:
			fmt.Printf("replay: stage=%s err=%q posidx=%d cpu_us=%d alarms=%d\n", r.Stage, r.Err, r.PosIdx, r.CPUus, len(r.Alarms))
			if r.Panic != "" {
				c.Violate(key("panic "+panicSig(r.Panic)), "ParseString panicked: "+r.Panic, cs)
			}
			if r.PE && (r.PosIdx < 0 || r.PosIdx > len(text)) {
				c.Violate(key("errpos"), fmt.Sprintf("parse error %q carries position index %d outside the %d-byte input", r.Err, r.PosIdx, len(text)), cs)
			}
			for _, al := range r.Alarms {
				c.Violate(key(al.Kind+" "+al.Slot), al.String(), cs)
			}
		}
	}
	if !fin && c.ViolationCount() == 0 {
		c.Violate(key("fatal"), fmt.Sprintf("the process died while parsing: exit %d %s", exit, ptree.Clip(stderr, 400)), cs)
	}
}
