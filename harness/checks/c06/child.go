package c06

import (
	"bufio"
	"encoding/binary"
	"encoding/json"
	"errors"
	"fmt"
	"io"
	"os"
	"runtime"
	"runtime/debug"
	"runtime/metrics"
	"strconv"
	"strings"
	"sync/atomic"
	"syscall"
	"time"
	"unsafe"

	"github.com/a-h/parse"
	"github.com/a-h/templ/parser/v2"
	"verif/checks/ptree"
)

// Record is what the child reports per input; all verdicts are drawn from
// records by the parent.
type Record struct {
	I              int           `json:"i"`
	Stage          string        `json:"stage,omitempty"`  // parse-error | generate | gofmt | ok | panic:generate | panic:gofmt
	Err            string        `json:"err,omitempty"`    // error text (clipped)
	PE             bool          `json:"pe,omitempty"`     // the error is (or wraps) a parse.ParseError
	PosIdx         int           `json:"posidx,omitempty"` // its position index
	Panic          string        `json:"panic,omitempty"`  // recovered panic in ParseString: value + stack
	CPUus          int64         `json:"cpu_us"`
	NExpr          int           `json:"nexpr,omitempty"` // non-blank expressions in the tree (parse ok)
	Alarms         []ptree.Alarm `json:"alarms,omitempty"`
	NNamed, NRange int           `json:",omitempty"`
	Soft           bool          `json:"soft,omitempty"` // CPU budget exceeded while on this input; child exits 3
	Mem            bool          `json:"mem,omitempty"`  // memory guard tripped on this input; child exits 4
	Done           bool          `json:"done,omitempty"` // last line of a completed batch
}

// Children is the child-process table for core.Main.
var Children = map[string]func([]string) int{"parse": childParse}

// threadCPU reads the CPU-time clock of one OS thread (Linux per-thread CPU
// clock id: ^tid<<3 | CPUCLOCK_SCHED|CPUCLOCK_PERTHREAD). The parsing goroutine
// is locked to its thread, so this is the CPU time spent parsing, without the
// garbage collector's background workers and without other threads.
func threadCPU(tid int) time.Duration {
	var ts syscall.Timespec
	clock := uintptr((^tid << 3) | 6)
	if _, _, e := syscall.Syscall(syscall.SYS_CLOCK_GETTIME, clock, uintptr(unsafe.Pointer(&ts)), 0); e != 0 {
		return 0
	}
	return time.Duration(ts.Nano())
}

// ReadBatch reads a length-prefixed batch file.
func ReadBatch(path string) ([]string, error) {
	b, err := os.ReadFile(path)
	if err != nil {
		return nil, err
	}
	var out []string
	for len(b) >= 4 {
		n := int(binary.LittleEndian.Uint32(b))
		if 4+n > len(b) {
			return nil, io.ErrUnexpectedEOF
		}
		out = append(out, string(b[4:4+n]))
		b = b[4+n:]
	}
	return out, nil
}

func WriteBatch(path string, in []string) error {
	f, err := os.Create(path)
	if err != nil {
		return err
	}
	w := bufio.NewWriter(f)
	var l [4]byte
	for _, s := range in {
		binary.LittleEndian.PutUint32(l[:], uint32(len(s)))
		w.Write(l[:])
		w.WriteString(s)
	}
	if err := w.Flush(); err != nil {
		return err
	}
	return f.Close()
}

// ParseErrPos extracts the position of a parse.ParseError (also when embedded
// in parser.UntilNotFoundError or wrapped).
func ParseErrPos(err error) (int, bool) {
	switch e := err.(type) {
	case parse.ParseError:
		return e.Pos.Index, true
	case parser.UntilNotFoundError:
		return e.ParseError.Pos.Index, true
	}
	var pe parse.ParseError
	if errors.As(err, &pe) {
		return pe.Pos.Index, true
	}
	var ue parser.UntilNotFoundError
	if errors.As(err, &ue) {
		return ue.ParseError.Pos.Index, true
	}
	return 0, false
}

// Observe runs the real parser (and, when it parses, the generate pipeline and
// the position oracle) on one input and describes what happened. Ordinary
// panics in ParseString are recovered and reported with their stack.
func Observe(in string) (rec Record) {
	var tf parser.TemplateFile
	var err error
	func() {
		defer func() {
			if r := recover(); r != nil {
				rec.Panic = fmt.Sprintf("%v\n%s", r, trimStack(string(debug.Stack())))
			}
		}()
		tf, err = parser.ParseString(in)
	}()
	if rec.Panic != "" {
		rec.Stage = "panic:parse"
		return
	}
	if err != nil {
		rec.Stage, rec.Err = "parse-error", ptree.Clip(err.Error(), 200)
		rec.PosIdx, rec.PE = ParseErrPos(err)
		return
	}
	for _, x := range ptree.Walk(tf).Exprs {
		if strings.TrimSpace(x.E.Value) != "" {
			rec.NExpr++
		}
	}
	a, stage, aerr := ptree.AcceptParsed(in, tf)
	rec.Stage = stage
	if a == nil {
		if aerr != nil {
			rec.Err = ptree.Clip(aerr.Error(), 200)
		}
		return
	}
	func() {
		defer func() {
			if r := recover(); r != nil {
				rec.Alarms = append(rec.Alarms, ptree.Alarm{Kind: "oracle-panic", Slot: "harness", Msg: fmt.Sprint(r)})
			}
		}()
		var st PosStats
		rec.Alarms, st = CheckPositions(a)
		rec.NNamed, rec.NRange = st.Named, st.Ranges
	}()
	return
}

// trimStack keeps the frames below the panic up to the harness.
func trimStack(s string) string {
	lines := strings.Split(s, "\n")
	var out []string
	keep := false
	for i := 0; i < len(lines); i++ {
		if strings.HasPrefix(lines[i], "panic(") {
			keep = true
			i++ // skip its file line
			continue
		}
		if keep {
			if strings.Contains(lines[i], "verif/checks/") {
				break
			}
			out = append(out, lines[i])
			if len(out) >= 16 {
				break
			}
		}
	}
	return strings.Join(out, "\n")
}

// childParse: --child parse <batch> <from> <to> <out> <progress> <budgetMs>
// Processes inputs [from,to) of the batch. Before each input its index is
// written to the progress file, so that a fatal crash or a kill is attributed.
// A watchdog goroutine compares the CPU time (getrusage) spent on the current
// input with the budget and, when exceeded, appends a Soft record and exits 3.
func childParse(args []string) int {
	if len(args) != 6 {
		fmt.Fprintln(os.Stderr, "usage: parse batch from to out progress budgetMs")
		return 2
	}
	batch, err := ReadBatch(args[0])
	if err != nil {
		fmt.Fprintln(os.Stderr, "batch:", err)
		return 2
	}
	from, _ := strconv.Atoi(args[1])
	to, _ := strconv.Atoi(args[2])
	budgetMs, _ := strconv.Atoi(args[5])
	out, err := os.OpenFile(args[3], os.O_CREATE|os.O_WRONLY|os.O_APPEND, 0o644)
	if err != nil {
		fmt.Fprintln(os.Stderr, "out:", err)
		return 2
	}
	prog, err := os.OpenFile(args[4], os.O_CREATE|os.O_WRONLY, 0o644)
	if err != nil {
		fmt.Fprintln(os.Stderr, "progress:", err)
		return 2
	}
	debug.SetMaxStack(64 << 20) // runaway recursion dies as a fatal stack overflow quickly
	emit := func(r Record) {
		b, _ := json.Marshal(r)
		out.Write(append(b, '\n'))
	}
	runtime.LockOSThread()
	tid := syscall.Gettid()
	cpuNow := func() time.Duration { return threadCPU(tid) }
	if cpuNow() == 0 && func() bool {
		for i, x := 0, 0; i < 5e7; i++ {
			x += i
		}
		return cpuNow() == 0
	}() {
		fmt.Fprintln(os.Stderr, "per-thread CPU clock unavailable")
		return 2
	}
	var cur atomic.Int64    // index of the input being parsed
	var curCPU atomic.Int64 // parse thread's CPU time when it started
	cur.Store(-1)
	go func() {
		sample := []metrics.Sample{{Name: "/memory/classes/total:bytes"}}
		for {
			time.Sleep(20 * time.Millisecond)
			i := cur.Load()
			if i < 0 {
				continue
			}
			start := time.Duration(curCPU.Load())
			used := cpuNow() - start
			if i != cur.Load() {
				continue
			}
			if used > time.Duration(budgetMs)*time.Millisecond {
				emit(Record{I: int(i), Soft: true, CPUus: used.Microseconds()})
				os.Exit(3)
			}
			metrics.Read(sample)
			if sample[0].Value.Kind() == metrics.KindUint64 && sample[0].Value.Uint64() > 3<<30 {
				emit(Record{I: int(i), Mem: true, CPUus: used.Microseconds()})
				os.Exit(4)
			}
		}
	}()
	var pb [8]byte
	for i := from; i < to && i < len(batch); i++ {
		binary.LittleEndian.PutUint64(pb[:], uint64(i))
		prog.WriteAt(pb[:], 0)
		t0 := cpuNow()
		curCPU.Store(int64(t0))
		cur.Store(int64(i))
		rec := Observe(batch[i])
		cur.Store(-1)
		rec.I = i
		rec.CPUus = (cpuNow() - t0).Microseconds()
		emit(rec)
	}
	emit(Record{I: -1, Done: true})
	return 0
}
