package c16

// driverSrc is the main package of the scratch module. Commands on stdin:
//
//	R            render every registered component with every argument vector, report, END
//	L n1 n2 ...  start rendering the named components back-to-back in a background loop
//	             (a program that serves requests continuously while its text files change)
//	V            let the loop finish its current pass, render the named components 5 more
//	             passes without any pause, report the LAST pass (+ loop statistics), END
//
// One long-lived process can be asked again after its text files were updated,
// like a program running under `templ generate --watch`. It only reports
// bytes: all verdicts are computed in the harness.
const driverSrc = `package main

import (
	"bufio"
	"bytes"
	"context"
	"encoding/json"
	"fmt"
	"os"
	"sort"
	"strconv"
	"strings"
	"time"

	"github.com/a-h/templ"
)

type A struct {
	S, T string
	B, C bool
	N    int
	L    []string
	U    templ.SafeURL
	CS   templ.ComponentScript
}

var reg = map[string]func(A) templ.Component{}

func register(n string, f func(A) templ.Component) bool { reg[n] = f; return true }
func up(s string) string                               { return strings.ToUpper(s) }
func itoa(n int) string                                { return strconv.Itoa(n) }
func comp(s string) templ.Component                    { return templ.Raw("<u>" + s + "</u>") }

var cs = templ.ComponentScript{Name: "__templ_hi_1a2b", Function: "function __templ_hi_1a2b(m){alert(m)}", Call: "__templ_hi_1a2b(\"m\")", CallInline: "__templ_hi_1a2b(\"m\")"}

var args = []A{
	{S: "hello", T: "world", B: true, N: 3, L: []string{"x", "y"}, U: "/p?a=1&b=2", CS: cs},
	{S: "x\" onmouseover=\"alert(1)", T: "</script><script>alert(1)</script>", C: true, U: templ.SafeURL("javascript:alert(1)"), CS: cs},
	{S: "color:red;background:url(javascript:alert(1))", T: "javascript:alert('x')", B: true, C: true, N: 7, L: []string{"1", "2", "3"}, U: "https://example.com/?q=<>\"'", CS: cs},
	{S: "", T: "\x00\xff<>&'` + "`" + `\\", N: -1, L: []string{""}},
	{S: "color:red", T: "width:1px;height:2px", B: true, L: []string{"<b>"}, U: "mailto:a@b.c", CS: cs},
	{S: "ünï\n\"q\" \\ ` + "`" + `", T: "a'b", C: true, N: 100, L: []string{"a", "b", "c", "d"}, U: "#frag", CS: cs},
}

type res struct {
	N string ` + "`json:\"n\"`" + `
	A int    ` + "`json:\"a\"`" + `
	O []byte ` + "`json:\"o\"`" + `
	E string ` + "`json:\"e,omitempty\"`" + `
}

func render(name string, i int) (r res) {
	r = res{N: name, A: i}
	var b bytes.Buffer
	defer func() {
		if p := recover(); p != nil {
			r.O, r.E = b.Bytes(), fmt.Sprint("panic: ", p)
		}
	}()
	if err := reg[name](args[i]).Render(context.Background(), &b); err != nil {
		r.E = "error: " + err.Error()
	}
	r.O = b.Bytes()
	return r
}

func main() {
	var names []string
	for n := range reg {
		names = append(names, n)
	}
	sort.Strings(names)
	in := bufio.NewScanner(os.Stdin)
	out := bufio.NewWriterSize(os.Stdout, 1<<20)
	enc := json.NewEncoder(out)
	var stop chan struct{}
	var done chan []res
	for in.Scan() {
		f := strings.Fields(in.Text())
		if len(f) == 0 {
			continue
		}
		switch f[0] {
		case "R":
			for _, n := range names {
				for i := range args {
					_ = enc.Encode(render(n, i))
				}
			}
		case "L":
			stop, done = make(chan struct{}), make(chan []res, 1)
			go burst(f[1:], stop, done)
			continue
		case "V":
			if stop != nil {
				close(stop)
				for _, r := range <-done {
					_ = enc.Encode(r)
				}
				stop = nil
			}
		}
		fmt.Fprintln(out, "END")
		out.Flush()
	}
}

// burst renders the named components without pause until stop is closed, then
// 5 more passes; the last pass is what gets reported.
func burst(names []string, stop chan struct{}, done chan []res) {
	passes, maxPass := 0, time.Duration(0)
	pass := func(keep bool) (out []res) {
		t0 := time.Now()
		for _, n := range names {
			if reg[n] == nil {
				continue
			}
			for i := range args {
				r := render(n, i)
				if keep {
					out = append(out, r)
				}
			}
		}
		passes++
		if d := time.Since(t0); d > maxPass {
			maxPass = d
		}
		return out
	}
loop:
	for {
		select {
		case <-stop:
			break loop
		default:
			pass(false)
		}
	}
	var last []res
	for i := 0; i < 5; i++ {
		last = pass(i == 4)
	}
	done <- append(last, res{N: "#passes", A: passes}, res{N: "#max_pass_us", A: int(maxPass / time.Microsecond)})
}
`
