package c16

// driverSrc is the main package of the scratch module. It renders every
// registered component with every argument vector each time a line arrives on
// stdin (so one long-lived process can be asked again after its text files
// were updated, like a program running under `templ generate --watch`), and
// only reports bytes: all verdicts are computed in the harness.
const driverSrc = `package main

import (
	"bufio"
	"bytes"
	"context"
	"encoding/json"
	"fmt"
	"os"
	"sort"
	"strconv"
	"strings"

	"github.com/a-h/templ"
)

type A struct {
	S, T string
	B, C bool
	N    int
	L    []string
	U    templ.SafeURL
	CS   templ.ComponentScript
}

var reg = map[string]func(A) templ.Component{}

func register(n string, f func(A) templ.Component) bool { reg[n] = f; return true }
func up(s string) string                               { return strings.ToUpper(s) }
func itoa(n int) string                                { return strconv.Itoa(n) }
func comp(s string) templ.Component                    { return templ.Raw("<u>" + s + "</u>") }

var cs = templ.ComponentScript{Name: "__templ_hi_1a2b", Function: "function __templ_hi_1a2b(m){alert(m)}", Call: "__templ_hi_1a2b(\"m\")", CallInline: "__templ_hi_1a2b(\"m\")"}

var args = []A{
	{S: "hello", T: "world", B: true, N: 3, L: []string{"x", "y"}, U: "/p?a=1&b=2", CS: cs},
	{S: "x\" onmouseover=\"alert(1)", T: "</script><script>alert(1)</script>", C: true, U: templ.SafeURL("javascript:alert(1)"), CS: cs},
	{S: "color:red;background:url(javascript:alert(1))", T: "javascript:alert('x')", B: true, C: true, N: 7, L: []string{"1", "2", "3"}, U: "https://example.com/?q=<>\"'", CS: cs},
	{S: "", T: "\x00\xff<>&'` + "`" + `\\", N: -1, L: []string{""}},
	{S: "color:red", T: "width:1px;height:2px", B: true, L: []string{"<b>"}, U: "mailto:a@b.c", CS: cs},
	{S: "ünï\n\"q\" \\ ` + "`" + `", T: "a'b", C: true, N: 100, L: []string{"a", "b", "c", "d"}, U: "#frag", CS: cs},
}

type res struct {
	N string ` + "`json:\"n\"`" + `
	A int    ` + "`json:\"a\"`" + `
	O []byte ` + "`json:\"o\"`" + `
	E string ` + "`json:\"e,omitempty\"`" + `
}

func render(name string, i int) (r res) {
	r = res{N: name, A: i}
	var b bytes.Buffer
	defer func() {
		if p := recover(); p != nil {
			r.O, r.E = b.Bytes(), fmt.Sprint("panic: ", p)
		}
	}()
	if err := reg[name](args[i]).Render(context.Background(), &b); err != nil {
		r.E = "error: " + err.Error()
	}
	r.O = b.Bytes()
	return r
}

func main() {
	var names []string
	for n := range reg {
		names = append(names, n)
	}
	sort.Strings(names)
	in := bufio.NewScanner(os.Stdin)
	out := bufio.NewWriterSize(os.Stdout, 1<<20)
	enc := json.NewEncoder(out)
	for in.Scan() {
		for _, n := range names {
			for i := range args {
				_ = enc.Encode(render(n, i))
			}
		}
		fmt.Fprintln(out, "END")
		out.Flush()
	}
}
`
