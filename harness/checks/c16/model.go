package c16

import (
	"fmt"
	"math/rand"
	"strconv"
	"strings"
)

// ---- a small templ body model that can be printed, randomly generated and edited ----

type attr struct {
	K    string // const | bool | expr | boolexpr | cond
	Name string
	Val  string // const: raw source between the quotes; expr/boolexpr/cond: Go expression
	Q    string // quote of a const attribute: `"` or `'`
	Kids []attr // cond: attributes inside
}

type node struct {
	K     string // text | expr | elem | void | raw | script | stext | sexpr | comment | if | for
	S     string // text / Go expression / element name / condition / comment body / js text
	T     string // raw: element content
	Attrs []attr
	Kids  []*node
	Else  []*node
	Sep   string // whitespace printed before the node: "", " " or "\n"
}

func (n *node) clone() *node {
	c := *n
	c.Attrs = cloneAttrs(n.Attrs)
	c.Kids = cloneNodes(n.Kids)
	c.Else = cloneNodes(n.Else)
	return &c
}
func cloneNodes(l []*node) []*node {
	if l == nil {
		return nil
	}
	o := make([]*node, len(l))
	for i, n := range l {
		o[i] = n.clone()
	}
	return o
}
func cloneAttrs(l []attr) []attr {
	if l == nil {
		return nil
	}
	o := make([]attr, len(l))
	for i, a := range l {
		o[i] = a
		o[i].Kids = cloneAttrs(a.Kids)
	}
	return o
}

func printAttrs(sb *strings.Builder, as []attr) {
	for _, a := range as {
		switch a.K {
		case "const":
			sb.WriteString(" " + a.Name + "=" + a.Q + a.Val + a.Q)
		case "bool":
			sb.WriteString(" " + a.Name)
		case "expr":
			sb.WriteString(" " + a.Name + "={ " + a.Val + " }")
		case "boolexpr":
			sb.WriteString(" " + a.Name + "?={ " + a.Val + " }")
		case "cond":
			sb.WriteString("\nif " + a.Val + " {\n")
			printAttrs(sb, a.Kids)
			sb.WriteString("\n}\n")
		}
	}
}

func printNodes(sb *strings.Builder, l []*node) {
	for _, n := range l {
		n.print(sb)
	}
}

func (n *node) print(sb *strings.Builder) {
	switch n.K {
	case "if", "for":
	default:
		sb.WriteString(n.Sep)
	}
	switch n.K {
	case "text", "stext":
		sb.WriteString(n.S)
	case "expr":
		sb.WriteString("{ " + n.S + " }")
	case "sexpr":
		sb.WriteString("{{ " + n.S + " }}")
	case "elem":
		sb.WriteString("<" + n.S)
		printAttrs(sb, n.Attrs)
		sb.WriteString(">")
		printNodes(sb, n.Kids)
		sb.WriteString("</" + n.S + ">")
	case "void":
		sb.WriteString("<" + n.S)
		printAttrs(sb, n.Attrs)
		sb.WriteString("/>")
	case "raw":
		sb.WriteString("<" + n.S)
		printAttrs(sb, n.Attrs)
		sb.WriteString(">" + n.T + "</" + n.S + ">")
	case "script":
		sb.WriteString("<script")
		printAttrs(sb, n.Attrs)
		sb.WriteString(">")
		printNodes(sb, n.Kids)
		sb.WriteString("</script>")
	case "comment":
		sb.WriteString("<!--" + n.S + "-->")
	case "if":
		sb.WriteString("\nif " + n.S + " {\n")
		printNodes(sb, n.Kids)
		if n.Else != nil {
			sb.WriteString("\n} else {\n")
			printNodes(sb, n.Else)
		}
		sb.WriteString("\n}\n")
	case "for":
		sb.WriteString("\nfor _, x := range " + n.S + " {\n")
		printNodes(sb, n.Kids)
		sb.WriteString("\n}\n")
	}
}

// source prints a complete .templ file holding one component.
func source(name string, body []*node) string {
	var sb strings.Builder
	sb.WriteString("package main\n\nvar _ = register(\"" + name + "\", " + name + ")\n\ntempl " + name + "(a A) {\n")
	printNodes(&sb, body)
	sb.WriteString("\n}\n")
	return sb.String()
}

// ---- pools ----

// static text for ordinary text positions (no <, {, } and no leading keyword)
var textPool = []string{
	"hello", "a b  c", `say "hi"`, `it's`, `back\slash`, `\"`, `\\n \t`, "tick`tock", "``", "ünï©ødé 日本 🙂", "tab\there",
	"&amp;&lt;&#39;", "100% &", "ctl\x01\x02", "del\x7f", "nel\u0085", "csi\u009b[0m", "bad\xffutf8", "\xc3\x28", "cr\rlf",
	"nul\x00byte", "$x %s %d", "\ufeffbom", "\u2028ls", "q\"q'q`q\\q",
}

// raw contents for <script> text and <style>
var rawPool = []string{
	"var a = \"x\";\n  var b = 'y';\n", "/* c */\nlet t = `tick ${1} \\n`;", "x = 'a\\\\b';", "\t\r\n", "s = \"ünï 日本\";", "c = \"\x01\x7f\";",
	"u = \"\u0085\u009b\";", "i = \"\xff\xc3\x28\";", "if (a < b && c > d) { f(\"\\\"\") }", "// line\nz = 1", "r = /\\d+\"/g;", "\\", "\"", "`",
}
var stylePool = []string{
	"p { color: red; }\n", "a::before { content: \"\\201C q'\"; }\n\tb { }", "/* ünï */ i { font: `x` }", ".c\x01 { }", "s { x: \"\xff\" }", "\n\n",
}
var commentPool = []string{" c ", " \"q\" 'q' `b` \\ ", "\nmulti\nline\n", " ünï \u0085 \x01 \xff ", " { a.S } "}
var attrValPool = []string{"plain", "with 'single'", `x\y\"`, "tick`", "ünï日本", "new\nline", "c\x01\u0085", "bad\xff", "&amp;&quot;", "a&#10;b", "", "  sp  "}

var strExprs = []string{"a.S", "a.T", "a.S + a.T", `"lit"`, "up(a.S)", "itoa(a.N)", "`raw\\q\"`"}
var boolExprs = []string{"a.B", "a.C", "!a.B", "a.N > 2", "len(a.L) > 1"}
var elemNames = []string{"div", "span", "p", "b", "section", "a", "form", "li", "pre", "h2"}
var defaultAttrNames = []string{"data-x", "title", "id", "value", "data-y"}

// sinkOf: how the generator treats an expression attribute (generator.writeExpressionAttribute / writeAttributeCSS)
func sinkOf(elem, name string) string {
	switch {
	case (elem == "a" && name == "href") || (elem == "form" && name == "action"):
		return "url"
	case strings.HasPrefix(name, "on") || strings.HasPrefix(name, "hx-on:"):
		return "script"
	case name == "style":
		return "style"
	case name == "class":
		return "class"
	}
	return "default"
}

// repName: canonical attribute name of a sink for violation keys.
func repName(elem, name string) string {
	switch sinkOf(elem, name) {
	case "url":
		return elem + "." + name
	case "script":
		if strings.HasPrefix(name, "hx-on:") {
			return "hx-on:click"
		}
		return "onclick"
	case "style", "class":
		return name
	}
	return "data-x"
}

func exprType(e string) string {
	switch {
	case e == "a.U" || strings.HasPrefix(e, "templ.URL("):
		return "url"
	case e == "a.CS":
		return "script"
	case strings.HasPrefix(e, "comp("):
		return "component"
	case strings.HasPrefix(e, `"`) || strings.HasPrefix(e, "`"):
		return "const" // untyped string constant: compiles in every sink
	}
	return "string"
}

type gen struct{ r *rand.Rand }

func (g *gen) pick(l []string) string { return l[g.r.Intn(len(l))] }
func (g *gen) sep() string            { return []string{"", "", " ", "\n", "\n"}[g.r.Intn(5)] }

func (g *gen) constAttr() attr {
	v := g.pick(attrValPool)
	q := `"`
	if strings.Contains(v, `"`) {
		q = `'`
	}
	if strings.Contains(v, "'") && q == "'" {
		v = strings.ReplaceAll(v, "'", "")
	}
	return attr{K: "const", Name: g.pick([]string{"class", "title", "data-k", "lang", "style", "href"}), Val: v, Q: q}
}

func (g *gen) attrs(elem string) []attr {
	var out []attr
	used := map[string]bool{}
	for n := g.r.Intn(3); n > 0; n-- {
		var a attr
		switch g.r.Intn(7) {
		case 0, 1:
			a = g.constAttr()
		case 2:
			a = attr{K: "bool", Name: g.pick([]string{"hidden", "disabled", "checked"})}
		case 3, 4:
			nm := g.pick(append([]string{"style", "class", "href"}, defaultAttrNames...))
			a = attr{K: "expr", Name: nm, Val: g.pick(strExprs)}
			if sinkOf(elem, nm) == "url" {
				a.Val = g.pick([]string{"a.U", "templ.URL(a.T)"})
			}
		case 5:
			a = attr{K: "boolexpr", Name: g.pick([]string{"hidden", "disabled"}), Val: g.pick(boolExprs)}
		case 6:
			a = attr{K: "cond", Val: g.pick(boolExprs), Kids: []attr{{K: "const", Name: "data-c", Val: g.pick([]string{"1", "ünï", "x y"}), Q: `"`}}}
			if g.r.Intn(2) == 0 {
				a.Kids = append(a.Kids, attr{K: "expr", Name: "data-e", Val: g.pick(strExprs)})
			}
		}
		if used[a.Name] {
			continue
		}
		used[a.Name] = true
		out = append(out, a)
	}
	return out
}

func (g *gen) text() *node { return &node{K: "text", S: g.pick(textPool), Sep: g.sep()} }

func (g *gen) exprShape(pos, e string) *node {
	switch pos {
	case "text":
		return &node{K: "elem", S: "div", Kids: []*node{{K: "expr", S: e}}}
	case "script":
		return &node{K: "script", Kids: []*node{{K: "stext", S: "var v = "}, {K: "sexpr", S: e}, {K: "stext", S: ";"}}}
	case "scriptstr":
		return &node{K: "script", Kids: []*node{{K: "stext", S: `var v = "`}, {K: "sexpr", S: e}, {K: "stext", S: `";`}}}
	case "comment":
		return &node{K: "comment", S: " { " + e + " } "}
	case "call":
		return &node{K: "text", S: "@" + e, Sep: "\n"}
	}
	// attr:<elem>.<name>
	en := strings.SplitN(strings.TrimPrefix(pos, "attr:"), ".", 2)
	return &node{K: "elem", S: en[0], Attrs: []attr{{K: "expr", Name: en[1], Val: e}}}
}

// positions an expression can be moved between (matrix dimension)
var positions = []string{"text", "attr:div.data-x", "attr:div.style", "attr:div.class", "attr:a.href", "attr:form.action", "attr:div.onclick", "attr:div.hx-on:click", "script", "scriptstr", "comment", "call"}

func posKey(pos string) string {
	if !strings.HasPrefix(pos, "attr:") {
		return pos
	}
	en := strings.SplitN(strings.TrimPrefix(pos, "attr:"), ".", 2)
	return "attr:" + repName(en[0], en[1])
}

// accepts: does generated code for an expression of type ty compile at pos?
func accepts(pos, ty string) bool {
	if ty == "const" { // untyped string constant: fits string and SafeURL, not ComponentScript / Component
		return pos != "call" && posKey(pos) != "attr:onclick" && posKey(pos) != "attr:hx-on:click"
	}
	switch posKey(pos) {
	case "text", "attr:data-x":
		return ty == "string"
	case "attr:a.href", "attr:form.action":
		return ty == "url"
	case "attr:onclick", "attr:hx-on:click":
		return ty == "script"
	case "call":
		return ty == "component"
	}
	return true // style, class, script {{ }}, comment take any value
}

// exprPos recognises the shapes made by exprShape (so that a random program's node can be moved).
func exprPos(n *node) (pos, e string, ok bool) {
	switch {
	case n.K == "elem" && len(n.Attrs) == 0 && len(n.Kids) == 1 && n.Kids[0].K == "expr" && n.S == "div":
		return "text", n.Kids[0].S, true
	case n.K == "elem" && len(n.Attrs) == 1 && n.Attrs[0].K == "expr" && len(n.Kids) == 0:
		return "attr:" + n.S + "." + n.Attrs[0].Name, n.Attrs[0].Val, true
	case n.K == "script" && len(n.Kids) == 3 && n.Kids[1].K == "sexpr" && len(n.Attrs) == 0:
		if strings.HasSuffix(n.Kids[0].S, `"`) {
			return "scriptstr", n.Kids[1].S, true
		}
		return "script", n.Kids[1].S, true
	}
	return "", "", false
}

func (g *gen) nodeAt(depth int) *node {
	k := g.r.Intn(15)
	if depth <= 0 && (k == 2 || k == 6 || k == 7) {
		k = 0
	}
	var n *node
	switch k {
	case 0, 1:
		n = g.text()
	case 2:
		n = &node{K: "elem", S: g.pick(elemNames)}
		n.Attrs = g.attrs(n.S)
		n.Kids = g.nodes(depth-1, 1+g.r.Intn(3))
	case 3:
		n = &node{K: "elem", S: g.pick(elemNames), Kids: []*node{g.text()}}
		n.Attrs = g.attrs(n.S)
	case 4, 5:
		n = &node{K: "expr", S: g.pick(strExprs)}
	case 6:
		n = &node{K: "if", S: g.pick(boolExprs), Kids: g.nodes(depth-1, 1+g.r.Intn(2))}
		if g.r.Intn(3) > 0 {
			n.Else = g.nodes(depth-1, 1+g.r.Intn(2))
		}
	case 7:
		n = &node{K: "for", S: "a.L", Kids: append(g.nodes(depth-1, 1), &node{K: "expr", S: "x", Sep: "\n"})}
	case 8:
		n = &node{K: "script", Kids: []*node{{K: "stext", S: g.pick(rawPool)}}}
		if g.r.Intn(2) == 0 {
			n.Kids = append(n.Kids, &node{K: "stext", S: "\nvar v = "}, &node{K: "sexpr", S: g.pick(strExprs)}, &node{K: "stext", S: ";" + g.pick(rawPool)})
		}
	case 9:
		n = &node{K: "raw", S: "style", T: g.pick(stylePool)}
	case 10:
		n = &node{K: "comment", S: g.pick(commentPool)}
	case 11:
		n = &node{K: "void", S: g.pick([]string{"br", "hr", "input", "img"})}
		n.Attrs = g.attrs(n.S)
	case 12:
		// a movable expression holder
		pos := g.pick([]string{"text", "attr:div.data-x", "attr:div.title", "attr:div.style", "script", "scriptstr", "attr:span.id"})
		n = g.exprShape(pos, g.pick(strExprs))
	case 13:
		n = &node{K: "elem", S: "a", Attrs: []attr{{K: "expr", Name: "href", Val: g.pick([]string{"a.U", "templ.URL(a.T)"})}}, Kids: []*node{g.text()}}
	case 14:
		n = &node{K: "elem", S: "button", Attrs: []attr{{K: "expr", Name: "onclick", Val: "a.CS"}}, Kids: []*node{g.text()}}
	}
	n.Sep = g.sep()
	return n
}

func (g *gen) nodes(depth, n int) []*node {
	var out []*node
	for i := 0; i < n; i++ {
		out = append(out, g.nodeAt(depth))
	}
	return out
}

func (g *gen) program() []*node { return g.nodes(2, 2+g.r.Intn(4)) }

// ---- edit catalogue ----

// lists returns every child list of the tree (pointers, so they can be edited in place).
func lists(body *[]*node) []*[]*node {
	out := []*[]*node{body}
	var walk func(l []*node)
	walk = func(l []*node) {
		for _, n := range l {
			switch n.K {
			case "elem", "if", "for":
				out = append(out, &n.Kids)
				walk(n.Kids)
				if n.Else != nil {
					out = append(out, &n.Else)
					walk(n.Else)
				}
			}
		}
	}
	walk(*body)
	return out
}

func allNodes(body []*node) []*node {
	var out []*node
	var walk func(l []*node)
	walk = func(l []*node) {
		for _, n := range l {
			out = append(out, n)
			walk(n.Kids)
			walk(n.Else)
		}
	}
	walk(body)
	return out
}

func filter(l []*node, f func(*node) bool) []*node {
	var o []*node
	for _, n := range l {
		if f(n) {
			o = append(o, n)
		}
	}
	return o
}

func isStatic(n *node) bool {
	switch n.K {
	case "text", "comment", "raw":
		return true
	case "elem":
		for _, a := range n.Attrs {
			if a.K != "const" && a.K != "bool" {
				return false
			}
		}
		for _, k := range n.Kids {
			if !isStatic(k) {
				return false
			}
		}
		return true
	}
	return false
}

// edit applies one random edit from the catalogue in place and returns its
// canonical kind ("" if the chosen edit had no site in this program).
func (g *gen) edit(body *[]*node) string {
	all := allNodes(*body)
	pickN := func(f func(*node) bool) *node {
		c := filter(all, f)
		if len(c) == 0 {
			return nil
		}
		return c[g.r.Intn(len(c))]
	}
	ls := lists(body)
	switch g.r.Intn(20) {
	case 0, 1: // text edit
		if n := pickN(func(n *node) bool { return n.K == "text" || n.K == "stext" }); n != nil {
			if n.K == "stext" {
				n.S = n.S + g.pick(rawPool)
				return "text:edit-script"
			}
			switch g.r.Intn(3) {
			case 0:
				n.S = g.pick(textPool)
			case 1:
				n.S += g.pick(textPool)
			default:
				n.S = g.pick(textPool) + n.S
			}
			return "text:edit"
		}
	case 2: // insert a static node
		l := ls[g.r.Intn(len(ls))]
		n := g.text()
		if g.r.Intn(2) == 0 {
			n = &node{K: "elem", S: g.pick(elemNames), Kids: []*node{g.text()}, Sep: g.sep()}
		}
		i := g.r.Intn(len(*l) + 1)
		*l = append((*l)[:i:i], append([]*node{n}, (*l)[i:]...)...)
		return "static:insert"
	case 3: // delete a static node
		l := ls[g.r.Intn(len(ls))]
		for i, n := range *l {
			if isStatic(n) && len(*l) > 1 {
				*l = append((*l)[:i:i], (*l)[i+1:]...)
				return "static:delete"
			}
		}
	case 4: // constant attribute: change value / rename / add / remove
		if n := pickN(func(n *node) bool { return n.K == "elem" || n.K == "void" }); n != nil {
			for i, a := range n.Attrs {
				if a.K == "const" {
					switch g.r.Intn(3) {
					case 0:
						n.Attrs[i] = g.constAttr()
						n.Attrs[i].Name = a.Name
						return "attrconst:value"
					case 1:
						n.Attrs[i].Name = g.pick([]string{"data-r", "title", "lang", "class", "style"})
						return "attrconst:rename"
					default:
						n.Attrs = append(n.Attrs[:i:i], n.Attrs[i+1:]...)
						return "attrconst:remove"
					}
				}
			}
			n.Attrs = append(n.Attrs, g.constAttr())
			n.Attrs[len(n.Attrs)-1].Name = "data-new"
			return "attrconst:add"
		}
	case 5: // element rename
		if n := pickN(func(n *node) bool { return n.K == "elem" }); n != nil {
			old := n.S
			n.S = g.pick(elemNames)
			if n.S == old {
				return ""
			}
			for _, a := range n.Attrs {
				if a.K == "expr" && sinkOf(old, a.Name) != sinkOf(n.S, a.Name) {
					return fmt.Sprintf("expr[%s]:attr:%s->attr:%s", exprType(a.Val), repName(old, a.Name), repName(n.S, a.Name))
				}
			}
			return "elem:rename"
		}
	case 6, 7, 8: // expression attribute rename
		if n := pickN(func(n *node) bool {
			for _, a := range n.Attrs {
				if a.K == "expr" {
					return true
				}
			}
			return false
		}); n != nil {
			for i, a := range n.Attrs {
				if a.K == "expr" {
					nn := g.pick(append([]string{"style", "class", "href", "action", "onclick", "hx-on:click", "style", "style"}, defaultAttrNames...))
					if nn == a.Name {
						return ""
					}
					n.Attrs[i].Name = nn
					return fmt.Sprintf("expr[%s]:attr:%s->attr:%s", exprType(a.Val), repName(n.S, a.Name), repName(n.S, nn))
				}
			}
		}
	case 9, 10, 11: // move an expression between positions
		for _, l := range ls {
			for i, n := range *l {
				if pos, e, ok := exprPos(n); ok && g.r.Intn(2) == 0 {
					np := positions[g.r.Intn(len(positions))]
					if posKey(np) == posKey(pos) {
						continue
					}
					nn := g.exprShape(np, e)
					nn.Sep = n.Sep
					(*l)[i] = nn
					return fmt.Sprintf("expr[%s]:%s->%s", exprType(e), posKey(pos), posKey(np))
				}
			}
		}
	case 12: // reorder siblings
		l := ls[g.r.Intn(len(ls))]
		if len(*l) >= 2 {
			i, j := g.r.Intn(len(*l)), g.r.Intn(len(*l))
			if i != j {
				(*l)[i], (*l)[j] = (*l)[j], (*l)[i]
				return "reorder"
			}
		}
	case 13: // swap branch bodies / move a node across a block boundary
		if g.r.Intn(2) == 0 {
			if n := pickN(func(n *node) bool { return n.K == "if" && n.Else != nil }); n != nil {
				n.Kids, n.Else = n.Else, n.Kids
				return "struct:swap-branches"
			}
		}
		for _, l := range ls {
			for i, n := range *l {
				if (n.K != "if" && n.K != "for") || g.r.Intn(2) == 0 {
					continue
				}
				what := func(m *node) string {
					if m.K == "expr" {
						return "expr"
					}
					if isStatic(m) {
						return "static"
					}
					return "node"
				}
				if i+1 < len(*l) && g.r.Intn(2) == 0 { // following sibling moves to the end of the block
					m := (*l)[i+1]
					*l = append((*l)[:i+1:i+1], (*l)[i+2:]...)
					n.Kids = append(n.Kids, m)
					return "struct:" + what(m) + "-into-" + n.K
				}
				if len(n.Kids) > 1 { // last node of the block moves behind it
					m := n.Kids[len(n.Kids)-1]
					if m.S == "x" {
						continue
					}
					n.Kids = n.Kids[:len(n.Kids)-1]
					*l = append((*l)[:i+1:i+1], append([]*node{m}, (*l)[i+1:]...)...)
					return "struct:" + what(m) + "-out-of-" + n.K
				}
			}
		}
	case 14: // constant <-> expression
		if n := pickN(func(n *node) bool {
			return n.K == "text" || (n.K == "expr" && strings.HasPrefix(n.S, `"`))
		}); n != nil {
			if n.K == "text" {
				n.K, n.S = "expr", strconv.Quote(n.S)
				return "text:const->expr"
			}
			s, _ := strconv.Unquote(n.S)
			n.K, n.S = "text", s
			return "text:expr->const"
		}
		if n := pickN(func(n *node) bool { return len(n.Attrs) > 0 }); n != nil {
			for i, a := range n.Attrs {
				if a.K == "const" && a.Name != "class" && a.Name != "style" && a.Name != "href" {
					n.Attrs[i] = attr{K: "expr", Name: a.Name, Val: strconv.Quote(a.Val)}
					return "attr:const->expr"
				}
				if a.K == "expr" && strings.HasPrefix(a.Val, `"`) && sinkOf(n.S, a.Name) == "default" {
					s, _ := strconv.Unquote(a.Val)
					n.Attrs[i] = attr{K: "const", Name: a.Name, Val: s, Q: `"`}
					return "attr:expr->const"
				}
			}
		}
	case 15: // boolean attribute constant <-> expression
		if n := pickN(func(n *node) bool { return len(n.Attrs) > 0 }); n != nil {
			for i, a := range n.Attrs {
				if a.K == "bool" {
					n.Attrs[i] = attr{K: "boolexpr", Name: a.Name, Val: g.pick(boolExprs)}
					return "boolattr:const->expr"
				}
				if a.K == "boolexpr" {
					n.Attrs[i] = attr{K: "bool", Name: a.Name}
					return "boolattr:expr->const"
				}
			}
		}
	case 16: // Go changes: these MUST be classified as needing a rebuild
		if n := pickN(func(n *node) bool { return n.K == "if" || n.K == "expr" || n.K == "sexpr" }); n != nil {
			old := n.S
			if n.K == "if" {
				n.S = g.pick(boolExprs)
			} else if n.S != "x" {
				n.S = g.pick(strExprs)
			}
			if n.S == old {
				return ""
			}
			return "go:change-" + n.K
		}
	case 17: // wrap / unwrap
		l := ls[g.r.Intn(len(ls))]
		if len(*l) == 0 {
			return ""
		}
		i := g.r.Intn(len(*l))
		n := (*l)[i]
		if n.K == "elem" && len(n.Attrs) == 0 && len(n.Kids) > 0 && g.r.Intn(2) == 0 {
			*l = append((*l)[:i:i], append(cloneNodes(n.Kids), (*l)[i+1:]...)...)
			return "unwrap"
		}
		if n.K != "if" && n.K != "for" {
			(*l)[i] = &node{K: "elem", S: "em", Kids: []*node{n}, Sep: n.Sep}
			return "wrap"
		}
	case 18: // wrap in a condition (Go change)
		l := ls[g.r.Intn(len(ls))]
		if len(*l) == 0 {
			return ""
		}
		i := g.r.Intn(len(*l))
		(*l)[i] = &node{K: "if", S: g.pick(boolExprs), Kids: []*node{(*l)[i]}}
		return "go:wrap-if"
	case 19: // whitespace between nodes
		if n := pickN(func(n *node) bool { return n.K != "stext" && n.K != "sexpr" }); n != nil {
			old := n.Sep
			n.Sep = g.sep()
			if n.Sep != old {
				return "whitespace"
			}
		}
	}
	return ""
}
