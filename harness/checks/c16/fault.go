package c16

// Late-failure histories: `templ generate --watch --source-map-visualisations`.
//
// generate() can fail AFTER it has written the Go file and the text file and AFTER it has
// remembered the new output as the one later edits are compared with (the visualisation file
// cannot be written, or the context is cancelled before it is). cmd.go honours the flags of a
// result that comes with an error, so the decision "this edit needs a recompilation" has to
// survive the failure: otherwise the program compiled from the old Go code keeps running
// against the text file of the new code.
//
// Oracle (no build needed): every Go expression planted in a version is a unique marker call
// mk("eN"). The monitor follows what cmd.go would have compiled: the marker sequence of the Go
// file on disk at the last step that reported GoUpdated (with or without an error). After every
// step the marker sequence of the Go file now on disk must equal it.

import (
	"context"
	"fmt"
	"math/rand"
	"os"
	"path/filepath"
	"regexp"
	"strings"
	"time"

	"github.com/a-h/templ"
	"github.com/a-h/templ/cmd/templ/generatecmd"
	"github.com/a-h/templ/generator"
	"github.com/fsnotify/fsnotify"
	"verif/core"
	"verif/corpus"
)

type faultStep struct {
	Src   string `json:"src"`
	Kind  string `json:"kind"`  // base | text | go
	Fault string `json:"fault"` // "" | visdir | ctx
}

var markerRe = regexp.MustCompile(`mk\("e\d+"\)`)

func faultSource(lits []string, exprs []string, attr bool) string {
	var sb strings.Builder
	sb.WriteString("package p\n\nfunc mk(s string) string { return s }\n\ntempl Page() {\n")
	for i, e := range exprs {
		if attr && i == 0 {
			fmt.Fprintf(&sb, "\t<p title={ %s }>%s</p>\n", e, lits[i%len(lits)])
			continue
		}
		fmt.Fprintf(&sb, "\t<p>%s{ %s }</p>\n", lits[i%len(lits)], e)
	}
	fmt.Fprintf(&sb, "\t<i>%s</i>\n}\n", lits[len(lits)-1])
	return sb.String()
}

// faultHistories builds seeded histories: T0, then 2..5 edits, each text-only or Go-changing,
// each with or without a late fault.
func faultHistories(r *rand.Rand, n int) [][]faultStep {
	var out [][]faultStep
	next := 0
	mk := func() string { next++; return fmt.Sprintf(`mk("e%d")`, next) }
	word := func() string { return fmt.Sprintf("w%d ", r.Intn(1000000)) }
	for h := 0; h < n; h++ {
		lits := []string{word(), word(), word()}
		exprs := []string{mk()}
		if r.Intn(2) == 0 {
			exprs = append(exprs, mk())
		}
		attr := r.Intn(3) == 0
		hist := []faultStep{{Src: faultSource(lits, exprs, attr), Kind: "base"}}
		steps := 2 + r.Intn(4)
		for s := 0; s < steps; s++ {
			kind := "text"
			// the first edit of every second history changes Go code, so that a fault on it is
			// followed by text-only edits often
			if (s == 0 && h%2 == 0) || r.Intn(3) == 0 {
				kind = "go"
			}
			if kind == "text" {
				lits = append([]string(nil), lits...)
				lits[r.Intn(len(lits))] = word()
			} else {
				exprs = append([]string(nil), exprs...)
				switch r.Intn(4) {
				case 0: // another expression in the same place
					exprs[r.Intn(len(exprs))] = mk()
				case 1: // one more expression (one more literal too)
					exprs = append(exprs, mk())
				case 2: // one expression fewer
					if len(exprs) > 1 {
						exprs = exprs[:len(exprs)-1]
					} else {
						exprs[0] = mk()
					}
				case 3: // same literal count, first expression moves between text and attribute
					attr = !attr
					exprs[0] = mk()
				}
			}
			fault := ""
			switch r.Intn(4) {
			case 0, 1:
				fault = "visdir"
			case 2:
				fault = "ctx"
			}
			hist = append(hist, faultStep{Src: faultSource(lits, exprs, attr), Kind: kind, Fault: fault})
		}
		out = append(out, hist)
	}
	return out
}

func faultScenario(c *core.Ctx, hists [][]faultStep) {
	base := time.Date(2001, 1, 1, 0, 0, 0, 0, time.UTC)
	scratch := corpus.Scratch("c16fault")
	for hi, hist := range hists {
		dir := filepath.Join(scratch, fmt.Sprintf("h%04d", hi))
		if err := os.MkdirAll(dir, 0o755); err != nil {
			core.Infra("mkdir %s: %v", dir, err)
		}
		templFile := filepath.Join(dir, "page.templ")
		goFile := filepath.Join(dir, "page_templ.go")
		visFile := filepath.Join(dir, "page_templ_sourcemap.html")
		// templ generate --watch --source-map-visualisations
		h := generatecmd.NewFSEventHandler(discardLog, dir, true,
			[]generator.GenerateOpt{generator.WithVersion(templ.Version())}, true, false, generatecmd.FileWriter, false)
		compiled := "" // marker sequence of the code the running program was built from
		window := 0    // edits since then
		for k, st := range hist {
			if err := os.WriteFile(templFile, []byte(st.Src), 0o644); err != nil {
				core.Infra("write %s: %v", templFile, err)
			}
			stamp := base.Add(time.Duration(k) * time.Hour)
			_ = os.Chtimes(templFile, stamp, stamp)
			ctx, cancel := context.WithCancel(context.Background())
			_ = os.RemoveAll(visFile)
			switch st.Fault {
			case "visdir":
				if err := os.Mkdir(visFile, 0o755); err != nil {
					core.Infra("mkdir %s: %v", visFile, err)
				}
			case "ctx":
				cancel()
			}
			op := fsnotify.Write
			if k == 0 {
				op = fsnotify.Create
			}
			r, err := h.HandleEvent(ctx, fsnotify.Event{Name: templFile, Op: op})
			cancel()
			_ = os.RemoveAll(visFile)
			c.Add("fault_steps", 1)
			if err != nil {
				c.Add("fault_steps_with_handler_error", 1)
			} else if st.Fault != "" {
				c.Add("fault_steps_fault_had_no_effect", 1)
			}
			code, rerr := os.ReadFile(goFile)
			if rerr != nil {
				if k == 0 {
					c.Inconclusive(fmt.Sprintf("fault history %d: base template not generated: %v / %v", hi, err, rerr))
				}
				break
			}
			onDisk := strings.Join(markerRe.FindAllString(string(code), -1), " ")
			want := strings.Join(markerRe.FindAllString(st.Src[strings.Index(st.Src, "templ Page"):], -1), " ")
			if err != nil && onDisk == want && st.Kind == "go" {
				c.Add("late_failures_after_new_go_code_was_written", 1)
			}
			// cmd.go: flags of a result are honoured whether or not an error came with it
			c.Eval(1)
			if r.GoUpdated {
				compiled, window = onDisk, 0
				continue
			}
			window++
			if onDisk == compiled {
				if window > 1 || st.Kind == "text" {
					c.NontrivialStr(hist[k-1].Src, st.Src)
				}
				continue
			}
			key := fmt.Sprintf("late-failure: recompilation decision lost (%s edit, fault %q at step %d of %d)", st.Kind, faultOf(hist, k), k, len(hist)-1)
			c.Violate("late-failure: Go code on disk differs from the compiled program, no edit since asked for a recompilation",
				fmt.Sprintf("%s: program compiled from expressions [%s], Go file on disk now has [%s], %d edit(s) in between all classified GoUpdated=false", key, compiled, onDisk, window),
				&tcase{Name: "Page", Group: "fault", Label: key, FaultHist: hist})
			break
		}
	}
	if c.Get("late_failures_after_new_go_code_was_written") == 0 {
		c.Inconclusive("fault histories: no handler call failed after the new Go code had been written; the late-failure window was not observed")
	}
}

// faultOf names the most recent fault at or before step k.
func faultOf(hist []faultStep, k int) string {
	for ; k > 0; k-- {
		if hist[k].Fault != "" {
			return fmt.Sprintf("%s@%d", hist[k].Fault, k)
		}
	}
	return ""
}
