package c16

import (
	"context"
	"fmt"
	"math/rand"
	"net"
	"os"
	"os/exec"
	"path/filepath"
	"regexp"
	"strings"
	"syscall"
	"time"

	"verif/core"
	"verif/corpus"
)

// Watch-mode CLI scenario: the real `templ generate -watch -cmd ...` runs as a
// subprocess on a small project. Each round saves a.templ with a changed Go
// expression (needs a rebuild) and, a few ms later, b.templ with changed static
// text only (or the other way round / a.templ alone as controls).
//
// Oracle (decided from the ORDER of debug log lines, never from the clock):
// between the "File updated … a.templ" line of a round and the end of the round
// (a reload was sent after it and the log then stayed silent for much longer
// than the 100 ms debounce) there must be an "Executing command" line — a
// Go-changing save must get the program rebuilt/restarted, whatever else was
// saved in the same debounce batch. Rounds in which the two saves fell into
// different batches are counted as uninformative, not judged differently.

var (
	reUpdated = regexp.MustCompile(`File updated \[ file=(\S+)`)
	watchKey  = "watch: a Go-changing save followed by a text-only save in the same debounce batch sends the reload without re-running --cmd"
)

type watchRound struct {
	Kind  string `json:"kind"` // "go-then-text" | "text-then-go" | "go-only"
	GapMs int    `json:"gap_ms"`
}

func watchTempl(pkg, name, expr, text string) string {
	return "package " + pkg + "\n\ntempl " + name + "(s string) {\n\t<p>" + text + "</p>\n\t<div>{ " + expr + " }</div>\n}\n"
}

func freePort() int {
	l, err := net.Listen("tcp", "127.0.0.1:0")
	if err != nil {
		return 17331
	}
	defer l.Close()
	return l.Addr().(*net.TCPAddr).Port
}

// readLog returns the complete lines logged so far.
func readLog(f string) []string {
	b, _ := os.ReadFile(f)
	s := string(b)
	if i := strings.LastIndexByte(s, '\n'); i >= 0 {
		s = s[:i]
	} else {
		s = ""
	}
	if s == "" {
		return nil
	}
	return strings.Split(s, "\n")
}

// waitLog polls until cond(lines) holds and the log has then been silent for
// quiet; gives up after max (watchdog → caller reports inconclusive).
func waitLog(f string, cond func([]string) bool, quiet, max time.Duration) ([]string, bool) {
	deadline := time.Now().Add(max)
	lastN, lastChange := -1, time.Now()
	for time.Now().Before(deadline) {
		l := readLog(f)
		if len(l) != lastN {
			lastN, lastChange = len(l), time.Now()
		}
		if cond(l) && time.Since(lastChange) >= quiet {
			return l, true
		}
		time.Sleep(25 * time.Millisecond)
	}
	return readLog(f), false
}

func watchScenario(c *core.Ctx, rounds []watchRound) {
	bin := corpus.TemplBin(c, false)
	dir := corpus.Scratch("c16watch")
	proj := filepath.Join(dir, "proj")
	_ = os.MkdirAll(proj, 0o755)
	_ = os.MkdirAll(filepath.Join(dir, "txt"), 0o755)
	runsLog := filepath.Join(dir, "runs.log")
	script := filepath.Join(dir, "rec.sh")
	_ = os.WriteFile(script, []byte("echo run >> "+runsLog+"\n"), 0o755)
	write := func(name, src string) { _ = os.WriteFile(filepath.Join(proj, name), []byte(src), 0o644) }
	write("a.templ", watchTempl("proj", "A", "s", "a0"))
	write("b.templ", watchTempl("proj", "B", "s", "b0"))
	write("c.templ", watchTempl("proj", "C", "s", "c0"))
	logFile := filepath.Join(dir, "watch.log")
	lf, _ := os.Create(logFile)
	ctx, cancel := context.WithCancel(context.Background())
	defer cancel()
	cmd := exec.CommandContext(ctx, bin, "generate", "-watch", "-path", proj, "-cmd", "/bin/sh "+script,
		"-proxy", "http://127.0.0.1:9", "-proxyport", fmt.Sprint(freePort()), "-open-browser=false", "-log-level", "debug")
	cmd.Dir = dir
	cmd.Env = append(os.Environ(), "TEMPL_DEV_MODE_ROOT="+filepath.Join(dir, "txt"), "NO_COLOR=1")
	cmd.Stdout, cmd.Stderr = lf, lf
	if err := cmd.Start(); err != nil {
		c.Inconclusive("watch scenario: cannot start templ generate -watch: " + err.Error())
		return
	}
	defer func() {
		_ = cmd.Process.Signal(syscall.SIGINT)
		done := make(chan struct{})
		go func() { _ = cmd.Wait(); close(done) }()
		select {
		case <-done:
		case <-time.After(10 * time.Second):
			_ = cmd.Process.Kill()
		}
		lf.Close()
	}()
	count := func(l []string, sub string) int {
		n := 0
		for _, x := range l {
			if strings.Contains(x, sub) {
				n++
			}
		}
		return n
	}
	// the watcher is installed and the initial generation batch is complete
	lines, ok := waitLog(logFile, func(l []string) bool {
		return count(l, "Waiting for context to be cancelled") > 0 && count(l, "Sending reload event") > 0
	}, 600*time.Millisecond, 90*time.Second)
	if !ok {
		c.Inconclusive("watch scenario: templ generate -watch did not reach its idle state within 90 s: " + corpus.Tail(strings.Join(lines, "\n"), 600))
		return
	}
	if count(lines, "Executing command") == 0 {
		c.Violate("watch: initial generation did not run --cmd", "templ generate -watch -cmd: no 'Executing command' after the initial generation", nil)
	}
	informative, split, judged := 0, 0, 0
	for ri, r := range rounds {
		from := len(lines)
		goSave := func() {
			write("a.templ", watchTempl("proj", "A", fmt.Sprintf("s + \"r%d\"", ri), fmt.Sprintf("a%d", ri)))
		}
		textSave := func() { write("b.templ", watchTempl("proj", "B", "s", fmt.Sprintf("text of round %d", ri))) }
		switch r.Kind {
		case "go-then-text":
			goSave()
			time.Sleep(time.Duration(r.GapMs) * time.Millisecond)
			textSave()
		case "text-then-go":
			textSave()
			time.Sleep(time.Duration(r.GapMs) * time.Millisecond)
			goSave()
		default:
			goSave()
		}
		// end of round: a.templ's update was logged, a reload was sent after it, then silence >> debounce
		var ok bool
		lines, ok = waitLog(logFile, func(l []string) bool {
			ua := -1
			for i := from; i < len(l); i++ {
				if m := reUpdated.FindStringSubmatch(l[i]); m != nil && strings.HasSuffix(m[1], "a.templ") && ua < 0 {
					ua = i
				}
				if ua >= 0 && i > ua && strings.Contains(l[i], "Sending reload event") {
					return true
				}
			}
			return false
		}, 700*time.Millisecond, 45*time.Second)
		if !ok {
			c.Add("watch_rounds_without_observation", 1)
			continue
		}
		// tokens of this round in log order
		var toks []string
		for _, x := range lines[from:] {
			switch {
			case strings.Contains(x, "Executing command"):
				toks = append(toks, "X")
			case strings.Contains(x, "Sending reload event"):
				toks = append(toks, "R")
			default:
				if m := reUpdated.FindStringSubmatch(x); m != nil && strings.HasSuffix(m[1], ".templ") {
					toks = append(toks, "U"+strings.TrimSuffix(filepath.Base(m[1]), ".templ"))
				}
			}
		}
		seq := strings.Join(toks, " ")
		judged++
		c.Eval(1)
		c.NontrivialStr("watch", r.Kind, fmt.Sprint(ri))
		c.Add("watch_batches_observed", count(lines[from:], "Sending reload event"))
		// were both saves in one batch, Go-changing one first? (the interesting schedule)
		firstBatch := strings.SplitN(seq, "R", 2)[0]
		ia, ib := strings.Index(firstBatch, "Ua"), strings.Index(firstBatch, "Ub")
		switch {
		case r.Kind == "go-then-text" && ia >= 0 && ib > ia:
			informative++
		case r.Kind == "go-then-text":
			split++
		}
		if ia >= 0 && ib >= 0 {
			c.Add("watch_batches_with_go_and_text_event", 1)
		}
		// the rule: Ua ... X somewhere after it within the round
		if i := strings.Index(seq, "Ua"); i >= 0 && !strings.Contains(seq[i:], "X") {
			c.Violate(watchKey, fmt.Sprintf("%s (round %d %s gap=%dms, log order: %s)", watchKey, ri, r.Kind, r.GapMs, seq),
				map[string]any{"watch_rounds": rounds})
		}
		if ri < 2 {
			c.Sample(map[string]any{"watch_round": r, "log_order": seq})
		}
	}
	c.Add("watch_rounds_judged", judged)
	c.Add("watch_rounds_go_then_text_in_one_batch", informative)
	c.Add("watch_rounds_saves_split_over_batches", split)
	if b, err := os.ReadFile(runsLog); err == nil {
		c.Add("watch_cmd_executions_recorded_by_cmd", strings.Count(string(b), "run"))
	}
	c.Add("watch_executing_command_lines", count(lines, "Executing command"))
	if informative == 0 {
		c.Inconclusive("watch scenario: no round had the Go-changing and the text-only save in one debounce batch (machine too loaded?)")
	}
}

func watchRounds(r *rand.Rand, n int) []watchRound {
	var out []watchRound
	for i := 0; i < n; i++ {
		k := "go-then-text"
		switch {
		case i%4 == 2:
			k = "text-then-go"
		case i%8 == 7:
			k = "go-only"
		}
		out = append(out, watchRound{Kind: k, GapMs: 10 + r.Intn(50)})
	}
	return out
}
