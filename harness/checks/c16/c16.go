// Package c16: watch-mode rendering equals a fresh build.
//
// Engine: corpus + in-process handler. The real generatecmd.FSEventHandler
// (devMode=true) is driven through HandleEvent on a scratch package; binaries
// built from its output are run with and without TEMPL_DEV_MODE=true.
//
//	clause 1: for every template version, the binary built from it renders the
//	          same bytes in development mode (reading the text file) and normally.
//	clause 2: for every edit (or run of edits) that the handler classified as
//	          NOT needing recompilation, the OLD binary reading the NEW text file
//	          renders exactly what the freshly built NEW binary renders.
package c16

import (
	"bufio"
	"bytes"
	"context"
	"encoding/json"
	"fmt"
	"go/format"
	"io"
	"log/slog"
	"os"
	"os/exec"
	"path/filepath"
	"regexp"
	"sort"
	"strings"
	"sync"
	"time"
	"unicode/utf8"

	"github.com/a-h/templ"
	"github.com/a-h/templ/cmd/templ/generatecmd"
	"github.com/a-h/templ/generator"
	"github.com/a-h/templ/parser/v2"
	"github.com/a-h/templ/runtime"
	"github.com/fsnotify/fsnotify"
	"verif/core"
	"verif/corpus"
)

// tcase is one .templ file followed through a sequence of versions.
type tcase struct {
	Name  string   `json:"name"`  // component name, file is lower(name).templ
	Group string   `json:"group"` // matrix | hostile | random
	Label string   `json:"label"` // hostile: position/class; matrix: key
	Vers  []string `json:"vers"`  // T0, T1, ... (complete file sources)
	Kinds []string `json:"kinds"` // Kinds[i] = canonical kind of the edit Vers[i-1] -> Vers[i]

	// path forms the handler (given the .templ path) and the runtime (given its _templ.go path) must agree on
	File    string `json:"file,omitempty"`     // file base name if not lower(Name): spaces, dots, non-ASCII
	Link    string `json:"link,omitempty"`     // .templ is a file-level symlink: abs | rel | chain | into-linked-dir
	PkgForm string `json:"pkg_form,omitempty"` // whole package reached through a symlinked directory, handler given a relative root

	WatchRounds []watchRound `json:"watch_rounds,omitempty"` // replay of the watch-mode CLI scenario instead
	FaultHist   []faultStep  `json:"fault_hist,omitempty"`   // replay of a late-failure history instead

	alive  bool
	cls    []class
	failed map[int]bool // steps whose own single-edit window was reported
}

type class struct{ Go, Text bool }

type rres struct {
	N string `json:"n"`
	A int    `json:"a"`
	O []byte `json:"o"`
	E string `json:"e"`
}

// proc is a long-lived driver process.
type proc struct {
	cmd *exec.Cmd
	in  io.WriteCloser
	out *bufio.Reader
}

func startProc(bin, dir string, env []string) (*proc, error) {
	cmd := exec.Command(bin)
	cmd.Dir = dir
	cmd.Env = append(os.Environ(), env...)
	in, _ := cmd.StdinPipe()
	out, _ := cmd.StdoutPipe()
	ef, _ := os.Create(bin + ".stderr")
	cmd.Stderr = ef
	if err := cmd.Start(); err != nil {
		return nil, err
	}
	ef.Close()
	return &proc{cmd, in, bufio.NewReaderSize(out, 1<<20)}, nil
}

// renderAll asks the process to render everything once (watchdog: 2 min).
func (p *proc) renderAll() (map[string][]rres, error) { return p.ask("R") }

// send writes a command that has no answer (L: start the background render loop).
func (p *proc) send(cmd string) error {
	_, err := io.WriteString(p.in, cmd+"\n")
	return err
}

// ask sends a command and collects the answer up to END.
func (p *proc) ask(cmd string) (map[string][]rres, error) {
	type ret struct {
		m   map[string][]rres
		err error
	}
	ch := make(chan ret, 1)
	go func() {
		if _, err := io.WriteString(p.in, cmd+"\n"); err != nil {
			ch <- ret{nil, err}
			return
		}
		m := map[string][]rres{}
		for {
			line, err := p.out.ReadBytes('\n')
			if err != nil {
				ch <- ret{nil, fmt.Errorf("driver ended: %v", err)}
				return
			}
			if bytes.Equal(bytes.TrimSpace(line), []byte("END")) {
				ch <- ret{m, nil}
				return
			}
			var r rres
			if err := json.Unmarshal(line, &r); err != nil {
				ch <- ret{nil, fmt.Errorf("bad driver line %q: %v", line, err)}
				return
			}
			m[r.N] = append(m[r.N], r)
		}
	}()
	select {
	case r := <-ch:
		return r.m, r.err
	case <-time.After(2 * time.Minute):
		_ = p.cmd.Process.Kill()
		return nil, fmt.Errorf("driver did not answer within 2 minutes")
	}
}

func (p *proc) stop() {
	if p == nil {
		return
	}
	p.in.Close()
	done := make(chan struct{})
	go func() { _ = p.cmd.Wait(); close(done) }()
	select {
	case <-done:
	case <-time.After(10 * time.Second):
		_ = p.cmd.Process.Kill()
	}
}

func same(a, b []rres) (bool, string) {
	if len(a) != len(b) {
		return false, fmt.Sprintf("%d vs %d renders", len(a), len(b))
	}
	for i := range a {
		if !bytes.Equal(a[i].O, b[i].O) || (a[i].E != "") != (b[i].E != "") {
			return false, fmt.Sprintf("argument vector %d: %q (err=%q) vs %q (err=%q)", a[i].A, a[i].O, a[i].E, b[i].O, b[i].E)
		}
	}
	return true, ""
}

var reBuildErr = regexp.MustCompile(`(?m)^(?:\./)?([^/:]+)_templ\.go:\d+`)

type batch struct {
	c       *core.Ctx
	cases   []*tcase
	pkg     *corpus.Pkg
	txtRoot string // where the in-process handler writes text files (TEMPL_DEV_MODE_ROOT of the harness)
	pubRoot string // where the driver processes read them; filled by publish() only
	dir     string // the package directory as handler, compiler and drivers are told (may contain a symlink component)
	viaLink bool   // dir goes through a symlinked directory and the handler gets a relative root
	shared  string // directory outside the package holding the targets of file-level symlinks
	// results
	matrixFailed map[string]bool
}

func fileBase(tc *tcase) string {
	if tc.File != "" {
		return tc.File
	}
	return strings.ToLower(tc.Name)
}

// link makes the case's .templ path a file-level symlink to a file in another directory.
func (b *batch) link(tc *tcase) {
	if b.shared == "" {
		b.shared = corpus.Scratch("c16shared")
		_ = os.MkdirAll(filepath.Join(b.shared, "realdir"), 0o755)
		_ = os.Symlink("realdir", filepath.Join(b.shared, "linkdir"))
	}
	target := filepath.Join(b.shared, fileBase(tc)+".templ")
	var err error
	switch tc.Link {
	case "abs":
		err = os.Symlink(target, b.file(tc))
	case "rel": // ln -s ../shared/page.templ page.templ
		rel, _ := filepath.Rel(b.pkg.Dir, target) // resolved from the REAL directory holding the link
		err = os.Symlink(rel, b.file(tc))
	case "chain":
		_ = os.Symlink(fileBase(tc)+".real.templ", target)
		err = os.Symlink(target, b.file(tc))
	case "into-linked-dir":
		err = os.Symlink(filepath.Join(b.shared, "linkdir", fileBase(tc)+".templ"), b.file(tc))
	}
	if err != nil {
		core.Infra("symlink: %v", err)
	}
}

func (b *batch) file(tc *tcase) string {
	return filepath.Join(b.dir, fileBase(tc)+".templ")
}

// publish makes the handler's current text file of tc visible to the driver
// processes: complete content, explicit mtime, atomically (rename). The text
// file name hashes only the template path, so it is the same in both roots.
// This removes two wall-clock effects the statement does not speak about: a
// reader seeing a half-written file, and the runtime's "modified <100ms ago"
// shortcut (mtimes are in 2001 and strictly increasing per step).
func (b *batch) publish(tc *tcase, stamp time.Time) {
	name := filepath.Base(runtime.GetDevModeTextFileName(b.file(tc)))
	data, err := os.ReadFile(filepath.Join(b.txtRoot, name))
	if err != nil {
		return
	}
	tmp := filepath.Join(b.pubRoot, name+".tmp")
	if err := os.WriteFile(tmp, data, 0o644); err != nil {
		core.Infra("publish: %v", err)
	}
	_ = os.Chtimes(tmp, stamp, stamp)
	if err := os.Rename(tmp, filepath.Join(b.pubRoot, name)); err != nil {
		core.Infra("publish: %v", err)
	}
}

func (b *batch) drop(tc *tcase) {
	tc.alive = false
	_ = os.Remove(b.file(tc))
	_ = os.Remove(strings.TrimSuffix(b.file(tc), ".templ") + "_templ.go")
}

// build compiles the package; files that do not compile are returned (and the
// build repeated without them) so that one bad pair never hides the others.
func (b *batch) build(step int, byFile map[string]*tcase, onFail func(tc *tcase, msg string)) string {
	bin := filepath.Join(b.dir, fmt.Sprintf("b%d.bin", step))
	for attempt := 0; attempt < 6; attempt++ {
		ctx, cancel := context.WithTimeout(context.Background(), 15*time.Minute)
		cmd := exec.CommandContext(ctx, "go", "build", "-gcflags=-e", "-o", bin, ".")
		cmd.Dir = b.dir
		cmd.Env = corpus.Env("PWD=" + b.dir) // the compiler records file names below $PWD (keeps a symlink component)
		out, err := cmd.CombinedOutput()
		cancel()
		if err == nil {
			return bin
		}
		bad := map[string]string{}
		for _, l := range strings.Split(string(out), "\n") {
			if m := reBuildErr.FindStringSubmatch(l); m != nil {
				if _, ok := bad[m[1]]; !ok {
					bad[m[1]] = l
				}
			}
		}
		if len(bad) == 0 {
			core.Infra("C16 scratch package does not build (step %d): %v\n%s", step, err, corpus.Tail(string(out), 2000))
		}
		var fs []string
		for f := range bad {
			if byFile[f] == nil {
				core.Infra("C16: build error in unknown file %s: %s", f, bad[f])
			}
			fs = append(fs, f)
		}
		sort.Strings(fs) // m… before p…: matrix witnesses are judged before random programs
		for _, f := range fs {
			onFail(byFile[f], bad[f])
			b.drop(byFile[f])
		}
	}
	core.Infra("C16: scratch package still does not build after 6 attempts (step %d)", step)
	return ""
}

var discardLog = slog.New(slog.NewTextHandler(io.Discard, nil))

// run executes the three-step flow of DESIGN §4 C16 for one scratch package.
func (b *batch) run() {
	c := b.c
	b.pkg = corpus.New(c, "c16")
	defer b.pkg.Close()
	b.pkg.Write("main.go", driverSrc)
	b.dir = b.pkg.Dir
	root := b.dir
	if b.viaLink {
		// <scratch>/via link/pkg -> real package directory; the handler is given a RELATIVE root
		ld := filepath.Join(corpus.Scratch("c16ln"), "via link")
		_ = os.MkdirAll(ld, 0o755)
		if err := os.Symlink(b.pkg.Dir, filepath.Join(ld, "pkg")); err != nil {
			core.Infra("symlink: %v", err)
		}
		b.dir = filepath.Join(ld, "pkg")
		if wd, err := os.Getwd(); err == nil {
			if rel, err := filepath.Rel(wd, b.dir); err == nil {
				root = rel
			}
		}
	}
	byFile := map[string]*tcase{}
	maxStep := 0
	for _, tc := range b.cases {
		tc.alive = true
		tc.cls = make([]class, len(tc.Vers))
		byFile[fileBase(tc)] = tc
		if tc.Link != "" {
			b.link(tc) // every later write goes THROUGH the link, as an editor saving the shared file does
		}
		if len(tc.Vers)-1 > maxStep {
			maxStep = len(tc.Vers) - 1
		}
	}
	// the handler exactly as `templ generate --watch` creates it (include-version defaults to true)
	h := generatecmd.NewFSEventHandler(discardLog, root, true,
		[]generator.GenerateOpt{generator.WithVersion(templ.Version())}, false, false, generatecmd.FileWriter, false)
	base := time.Date(2001, 1, 1, 0, 0, 0, 0, time.UTC)
	b.pubRoot = corpus.Scratch("c16pub")
	env := []string{"TEMPL_DEV_MODE_ROOT=" + b.pubRoot}
	var procs []*proc
	defer func() {
		for _, p := range procs {
			p.stop()
		}
	}()

	for k := 0; k <= maxStep; k++ {
		var active []*tcase
		for _, tc := range b.cases {
			if tc.alive && len(tc.Vers) > k {
				active = append(active, tc)
			}
		}
		if len(active) == 0 {
			break
		}
		stamp := base.Add(time.Duration(k) * time.Hour) // strictly increasing, far in the past
		// burst: the old binaries keep rendering a subset back-to-back while the edit is
		// processed and published (a served program under load); no pause is introduced
		// between the renders before and after the update.
		var burstSet []string
		if k > 0 {
			for _, tc := range active {
				if tc.Group == "random" && len(burstSet) < 20 {
					burstSet = append(burstSet, tc.Name)
				}
			}
			if len(burstSet) > 0 {
				for _, p := range procs {
					_ = p.send("L " + strings.Join(burstSet, " "))
				}
			}
		}
		// (1)/(2): write version k, let the real handler process the event
		var wg sync.WaitGroup
		sem := make(chan struct{}, 8)
		for _, tc := range active {
			wg.Add(1)
			sem <- struct{}{}
			go func(tc *tcase) {
				defer wg.Done()
				defer func() { <-sem }()
				f := b.file(tc)
				if err := os.WriteFile(f, []byte(tc.Vers[k]), 0o644); err != nil {
					c.Inconclusive(fmt.Sprintf("cannot write %s (%s): %v", tc.Name, tc.Label, err))
					b.drop(tc)
					return
				}
				_ = os.Chtimes(f, stamp, stamp)
				op := fsnotify.Write
				if k == 0 {
					op = fsnotify.Create
				}
				r, err := h.HandleEvent(context.Background(), fsnotify.Event{Name: f, Op: op})
				if err != nil {
					// the watcher reports the error and keeps showing the old state: nothing to compare
					c.Add("handler_errors", 1)
					if k == 0 {
						c.Inconclusive(fmt.Sprintf("handler rejected base template %s: %v", tc.Name, err))
					}
					b.drop(tc)
					return
				}
				tc.cls[k] = class{r.GoUpdated, r.TextUpdated}
				if k == 0 && !r.GoUpdated {
					c.Violate("first-generation-not-classified-as-go-update", "a new template was classified as needing no compilation: "+tc.Name, tc)
				}
			}(tc)
		}
		wg.Wait()
		// publish every text file with an explicit mtime (defeats the runtime's 100ms-since-mtime
		// shortcut and makes "newer than what the process cached" true at every step)
		for _, tc := range b.cases {
			if tc.alive {
				b.publish(tc, stamp)
			}
		}
		// verdict renders of the burst: right after the update, still without a pause
		bursts := make([]map[string][]rres, len(procs))
		if len(burstSet) > 0 {
			for j, p := range procs {
				m, err := p.ask("V")
				if err != nil {
					c.Inconclusive(fmt.Sprintf("step %d: burst of build %d: %v", k, j, err))
					return
				}
				bursts[j] = m
				c.Add("burst_loop_passes_spanning_an_update", m["#passes"][0].A)
				if us := int64(m["#max_pass_us"][0].A); us > c.Get("burst_max_pass_us") {
					c.Add("burst_max_pass_us", int(us-c.Get("burst_max_pass_us")))
				}
				if m["#max_pass_us"][0].A >= 100000 {
					c.Add("burst_loops_with_a_gap_over_100ms", 1)
				}
			}
		}
		// (3) fresh build of the regenerated code
		bin := b.build(k, byFile, func(tc *tcase, msg string) {
			switch {
			case k == 0 || len(tc.Vers) <= k:
				c.Inconclusive(fmt.Sprintf("template %s (%s) does not compile: %s", tc.Name, tc.Group, msg))
			case tc.cls[k].Go:
				c.Add("discarded_new_code_does_not_compile_but_rebuild_was_requested", 1)
			default:
				// classified "no recompilation needed", yet a fresh build is impossible
				c.Eval(1)
				c.NontrivialStr(tc.Vers[k-1], tc.Vers[k])
				b.violate2(tc, k-1, k, true, "freshly generated code does not compile ("+msg+"), the running program keeps rendering")
			}
		})
		normal, err := func() (map[string][]rres, error) {
			p, err := startProc(bin, b.dir, append(env, "TEMPL_DEV_MODE="))
			if err != nil {
				return nil, err
			}
			defer p.stop()
			return p.renderAll()
		}()
		if err != nil {
			c.Inconclusive(fmt.Sprintf("step %d: normal run failed: %v", k, err))
			return
		}
		dp, err := startProc(bin, b.dir, append(env, "TEMPL_DEV_MODE=true"))
		if err != nil {
			c.Inconclusive(fmt.Sprintf("step %d: dev run failed: %v", k, err))
			return
		}
		procs = append(procs, dp)
		dev := make([]map[string][]rres, len(procs))
		for j, p := range procs {
			if dev[j], err = p.renderAll(); err != nil {
				c.Inconclusive(fmt.Sprintf("step %d: dev-mode process of build %d: %v", k, j, err))
				return
			}
		}
		c.Add("builds", 1)
		for _, tc := range active {
			if !tc.alive {
				continue
			}
			want, ok := normal[tc.Name]
			if !ok {
				c.Inconclusive("component missing from build: " + tc.Name)
				continue
			}
			// clause 1: dev-mode bytes == normal bytes, same binary
			c.Eval(len(want))
			c.Add("clause1_renders", len(want))
			if ok, why := same(dev[k][tc.Name], want); !ok {
				key := "clause1 " + tc.Group + " " + tc.Label
				if tc.Group == "random" {
					key += "#" + core.Q(tc.Vers[k])
				}
				noteKey(key)
				c.Violate(key, fmt.Sprintf("development-mode rendering differs from normal rendering of the same binary (%s step %d): %s", tc.Name, k, why), tc)
			}
			if k == 0 {
				continue
			}
			// clause 2: every window j..k of edits all classified "no recompilation"
			blamed := false
			for j := k - 1; j >= 0 && !tc.cls[j+1].Go; j-- {
				old, ok := dev[j][tc.Name]
				if !ok {
					break
				}
				c.Eval(1)
				c.Add("clause2_windows", 1)
				c.NontrivialStr(tc.Vers[j], tc.Vers[k])
				okk, why := same(old, want)
				if j == k-1 {
					c.Add("clause2_single_edits_no_recompile", 1)
					addKind(c, "no_recompile", tc.Kinds[k])
				}
				if !okk && !blamed {
					blamed = true // longer windows contain this one
					b.violate2(tc, j, k, false, why)
				}
				// same window, but the old binary never stopped rendering across the update
				if bo, in := bursts[j][tc.Name]; in && okk {
					c.Eval(1)
					c.Add("burst_windows_checked", 1)
					if ok2, why2 := same(bo, want); !ok2 {
						key := "continuous-rendering: old binary that renders without pause across a text-only update keeps serving the old text"
						noteKey(key)
						c.Violate(key, fmt.Sprintf("%s (%s, versions %d->%d, after %d back-to-back passes): %s", key, tc.Name, j, k, bursts[j]["#passes"][0].A, why2), tc)
					}
				}
			}
			if tc.cls[k].Go {
				c.Add("edits_classified_go_updated", 1)
				addKind(c, "go_updated", tc.Kinds[k])
			}
		}
	}
}

var otherKeys = map[string]bool{}

// violations are reported at the end, those outside the matrix family first
// (core prints only the first 25; a new kind must not drown in the known family)
type pendingV struct {
	matrix       bool
	key, summary string
	tc           *tcase
}

var pending []pendingV

func deferViolation(matrix bool, key, summary string, tc *tcase) {
	kindMu.Lock()
	pending = append(pending, pendingV{matrix, key, summary, tc})
	kindMu.Unlock()
}

func flushViolations(c *core.Ctx) {
	kindMu.Lock()
	defer kindMu.Unlock()
	fam := map[string]bool{}
	for _, p := range pending {
		if p.matrix {
			fam[p.key] = true
		}
	}
	rank := func(p pendingV) int { // new kinds first, then the minimal witnesses, then their random re-discoveries
		switch {
		case !fam[p.key]:
			return 0
		case p.matrix:
			return 1
		}
		return 2
	}
	sort.SliceStable(pending, func(i, j int) bool { return rank(pending[i]) < rank(pending[j]) })
	for _, p := range pending {
		c.Violate(p.key, p.summary, p.tc)
	}
	pending = nil
}

func noteKey(k string) { kindMu.Lock(); otherKeys[k] = true; kindMu.Unlock() }

var kindMu sync.Mutex
var kindCounts = map[string]map[string]int{}

func addKind(c *core.Ctx, bucket, kind string) {
	kindMu.Lock()
	defer kindMu.Unlock()
	if i := strings.IndexAny(kind, "[:"); i > 0 { // family only: expr, text, attrconst, ...
		kind = kind[:i]
	}
	if kindCounts[bucket] == nil {
		kindCounts[bucket] = map[string]int{}
	}
	kindCounts[bucket][kind]++
}

// violate2 reports a clause-2 violation of window j..k with a canonical key.
// Single edits whose kind has a minimal witness in the matrix are keyed by the
// kind when that witness fails too (same root cause), otherwise by kind+program.
func (b *batch) violate2(tc *tcase, j, k int, nocompile bool, why string) {
	// a longer window is blamed on a single step inside it that fails on its own
	suffix := ""
	if nocompile {
		suffix = " (new code does not compile)"
	}
	var key string
	if tc.failed == nil {
		tc.failed = map[int]bool{}
	}
	if tc.Group == "paths" {
		tc.failed[k] = true
		key = "clause2 paths " + tc.Label // canonical: the path form, not the (fixed) edit
	} else if k-j == 1 {
		tc.failed[k] = true
		key = tc.Kinds[k] + suffix
		if tc.Group != "matrix" && !b.matrixFailed[key] {
			if goCodeDiffers(tc.Vers[j], tc.Vers[k]) {
				key += " [generated Go code changed]" // root cause named; the kind is the canonical witness class
			} else {
				key += " in-context#" + fmt.Sprintf("%x", core.Hash64(tc.Vers[j], tc.Vers[k]))
			}
		}
	} else {
		for i := j + 1; i <= k; i++ {
			if tc.failed[i] {
				return // root cause already reported by that step's own single-edit window
			}
		}
		key = "seq:" + strings.Join(tc.Kinds[j+1:k+1], "+") + suffix
		if goCodeDiffers(tc.Vers[j], tc.Vers[k]) {
			key += " [generated Go code changed]"
		} else {
			key += fmt.Sprintf("#%x", core.Hash64(tc.Vers[j], tc.Vers[k]))
		}
	}
	if tc.Group == "matrix" {
		b.matrixFailed[key] = true
	} else {
		noteKey(key)
	}
	deferViolation(tc.Group == "matrix", key, fmt.Sprintf("edit %s classified as needing no recompilation, but the old binary with the new text file differs from a fresh build (%s, versions %d->%d): %s\n--- old:\n%s\n--- new:\n%s",
		strings.Join(tc.Kinds[j+1:k+1], "+"), tc.Name, j, k, why, body(tc.Vers[j]), body(tc.Vers[k])), tc)
}

var (
	reLit = regexp.MustCompile(`(templruntime\.WriteString\(templ_7745c5c3_Buffer, \d+, )"(?:[^"\\]|\\.)*"\)`)
	rePos = regexp.MustCompile(`Line: \d+, Col: \d+`)
)

// goCodeDiffers is a DIAGNOSTIC used only to name the root cause in a
// violation key (never to decide a verdict): does the generated Go code of the
// two versions differ in anything but literal texts and error positions?
func goCodeDiffers(a, b string) bool {
	sk := func(src string) string {
		t, err := parser.ParseString(src)
		if err != nil {
			return "parse error"
		}
		var w bytes.Buffer
		if _, err := generator.Generate(t, &w); err != nil {
			return "generate error"
		}
		return rePos.ReplaceAllString(reLit.ReplaceAllString(w.String(), `$1"")`), "")
	}
	return sk(a) != sk(b)
}

func body(src string) string {
	if i := strings.Index(src, "templ "); i >= 0 {
		return src[i:]
	}
	return src
}

// hostileClass names the byte classes of the statement present in s.
func hostileClass(s string) []string {
	var out []string
	add := func(b bool, n string) {
		if b {
			out = append(out, n)
		}
	}
	add(strings.ContainsAny(s, `"'`), "quote")
	add(strings.Contains(s, `\`), "backslash")
	add(strings.Contains(s, "`"), "backtick")
	add(strings.ContainsAny(s, "\n\r"), "newline")
	c0, c1, na := false, false, false
	for _, r := range s {
		switch {
		case r < 0x20 && r != '\n' && r != '\r' && r != '\t' || r == 0x7f:
			c0 = true
		case r >= 0x80 && r < 0xa0:
			c1 = true
		case r >= 0xa0 && r != utf8.RuneError:
			na = true
		}
	}
	add(c0, "c0")
	add(c1, "c1")
	add(na, "non-ascii")
	add(!utf8.ValidString(s), "invalid-utf8")
	return out
}

// parses: workload filter (not an oracle): the source is accepted by the
// parser and its generated code is gofmt-able, i.e. the watcher would accept it.
// pathCases: programs whose .templ path takes a form on which the watcher
// (GetDevModeTextFileName(<x>.templ)) and the running program
// (GetDevModeTextFileName(<x>_templ.go)) must still compute the same text
// file: file-level symlinks (absolute, relative, chained, into a symlinked
// directory) and file names with spaces, dots, non-ASCII, upper case.
// Each has a text-only edit (clause 2) after the base version (clause 1).
func pathCases(c *core.Ctx, name func(string) string, pkgForm string) []*tcase {
	var out []*tcase
	mk := func(link, file string) {
		n := name("N")
		body := func(v int) []*node {
			return []*node{
				{K: "elem", S: "div", Attrs: []attr{{K: "const", Name: "class", Val: "k", Q: `"`}}, Kids: []*node{{K: "text", S: fmt.Sprintf("text v%d ", v)}, {K: "expr", S: "a.S"}}},
				{K: "elem", S: "p", Kids: []*node{{K: "text", S: strings.Repeat("more ", v+1)}, {K: "expr", S: "a.T"}}, Sep: "\n"},
			}
		}
		label := "file-name " + core.Q(file)
		if link != "" {
			label = "symlinked-templ " + link
		}
		if pkgForm != "" {
			label += " in " + pkgForm
		}
		c.Add("path_form_programs", 1)
		out = append(out, &tcase{Name: n, Group: "paths", Label: label, File: file, Link: link, PkgForm: pkgForm,
			Vers: []string{source(n, body(0)), source(n, body(1)), source(n, body(2))}, Kinds: []string{"", "text:edit", "text:edit"}})
	}
	for _, l := range []string{"abs", "rel", "chain", "into-linked-dir"} {
		mk(l, "")
	}
	for _, f := range []string{"sp ace 1", "dots.v1.x", "ünï-日本", "Mixed_Case", "plus+eq=1", "x_linux"} {
		mk("", f)
	}
	mk("rel", "linked sp ace.v2")
	return out
}

// b64like / svgPath: deterministic large static payloads without any templ metacharacter.
func b64like(n int) string {
	const al = "ABCDEFGHIJKLMNOPQRSTUVWXYZabcdefghijklmnopqrstuvwxyz0123456789+/"
	b := make([]byte, n)
	x := uint32(12345)
	for i := range b {
		x = x*1664525 + 1013904223
		b[i] = al[x>>26]
	}
	return string(b)
}

func svgPath(n int) string {
	var sb strings.Builder
	sb.WriteString("M0 0")
	x := uint32(777)
	for sb.Len() < n {
		x = x*1664525 + 1013904223
		fmt.Fprintf(&sb, " L%d.%d %d", x>>25, (x>>12)&7, (x>>18)&127)
	}
	return sb.String()
}

func parses(src string) bool {
	defer func() { _ = recover() }()
	t, err := parser.ParseString(src)
	if err != nil {
		return false
	}
	var w bytes.Buffer
	if _, err := generator.Generate(t, &w); err != nil {
		return false
	}
	if _, err := format.Source(w.Bytes()); err != nil {
		if os.Getenv("VERIF_C16_DEBUG") != "" {
			fmt.Fprintf(os.Stderr, "DEBUG not gofmt-able: %v\n%s\n", err, src)
		}
		return false
	}
	return true
}

// Run is the C16 check.
func Run(c *core.Ctx) {
	c.Rule = "case = one .templ file followed through versions T0..Tn (n<=4) by the real FSEventHandler(devMode) in-process; per version: dev-mode bytes == normal bytes of the binary built from it (clause 1, x 6 argument vectors); per window of edits all classified GoUpdated=false: old binary + new text file == fresh build (clause 2). Additionally: (a) large literals: programs whose merged static text between two expressions is 80 KB / 300 KB (base64 image, svg path, script blob) in clause 1; (b) burst: old binaries render a subset back-to-back in a loop while the edit is handled and the text file is published, verdict = last of 5 passes right after (no pause introduced) must equal the fresh build; (c) watch CLI: real `templ generate -watch -cmd` subprocess, rounds of (Go-changing save, text-only save a few ms later), decided from debug-log order: a logged update of the Go-changing file must be followed by 'Executing command' before the round's final reload; (d) late failures: the handler with source-map visualisations on, seeded histories in which the visualisation file is blocked by a directory or the context is cancelled at some steps (generate() fails after the Go and text files were written), result flags honoured with or without an error as cmd.go does: after every step the marker expressions of the Go file on disk must be those at the last step that reported GoUpdated. Groups: matrix = every ordered pair of 12 expression positions x 5 expression types whose T compiles, + 13 control-flow structure witnesses; hostile = static text classes x positions; random = seeded programs + edit catalogue. non-trivial = (T,T') windows classified 'no recompilation', distinct by source hash"
	c.Assume("text-file and template mtimes are set explicitly to strictly increasing instants in 2001, so the runtime's 'modified <100ms ago' cache shortcut never applies; behaviour inside that 100ms window is not examined")
	c.Assume("rendered bytes and the presence of a render error are compared, not error messages (they carry source positions)")
	txtRoot := corpus.Scratch("c16txt")
	os.Setenv("TEMPL_DEV_MODE_ROOT", txtRoot)

	if c.ReplayFile != "" {
		var tc tcase
		c.LoadReplay(&tc)
		if len(tc.WatchRounds) > 0 {
			watchScenario(c, tc.WatchRounds)
			c.NontrivialN(1)
			return
		}
		if len(tc.FaultHist) > 0 {
			faultScenario(c, [][]faultStep{tc.FaultHist})
			c.NontrivialN(1)
			return
		}
		b := &batch{c: c, cases: []*tcase{&tc}, txtRoot: txtRoot, matrixFailed: map[string]bool{}, viaLink: tc.PkgForm != ""}
		if tc.Group != "matrix" { // key by kind as in the original run when the kind is a matrix kind
			for _, k := range tc.Kinds {
				b.matrixFailed[k], b.matrixFailed[k+" (new code does not compile)"] = true, true
			}
		}
		b.run()
		flushViolations(c)
		c.NontrivialN(1)
		return
	}

	// ---- the watch-mode CLI itself: debounce batches and the rebuild decision
	watchScenario(c, watchRounds(c.Rand("watch"), c.Pick(10, 40)))

	// ---- late failures of generate() under --source-map-visualisations
	faultScenario(c, faultHistories(c.Rand("fault"), c.Pick(120, 1500)))

	matrixFailed := map[string]bool{}
	nBatches := c.Pick(1, 30)
	for bi := 0; bi < nBatches; bi++ {
		var cases []*tcase
		id := 0
		name := func(p string) string { id++; return fmt.Sprintf("%s%04d", p, id) }
		if bi == 0 {
			// ---- matrix: every ordered pair of positions, every expression type whose T compiles
			for _, ty := range []struct{ ty, e string }{{"string", "a.S"}, {"url", "a.U"}, {"script", "a.CS"}, {"component", "comp(a.S)"}, {"const", `"color:red"`}} {
				g := &gen{}
				for _, p1 := range positions {
					if !accepts(p1, ty.ty) {
						continue
					}
					for _, p2 := range positions {
						if p1 == p2 {
							continue
						}
						n := name("M")
						key := fmt.Sprintf("expr[%s]:%s->%s", ty.ty, posKey(p1), posKey(p2))
						cases = append(cases, &tcase{Name: n, Group: "matrix", Label: key, Kinds: []string{"", key},
							Vers: []string{source(n, []*node{g.exprShape(p1, ty.e)}), source(n, []*node{g.exprShape(p2, ty.e)})}})
					}
				}
			}
			cases = append(cases, pathCases(c, name, "")...)
			// ---- structure witnesses: same expression sequence and literal count, different control flow
			bx := func() *node { return &node{K: "elem", S: "b", Kids: []*node{{K: "text", S: "x"}}} }
			iy := func() *node { return &node{K: "elem", S: "i", Kids: []*node{{K: "text", S: "y"}}} }
			ex := func() *node { return &node{K: "expr", S: "a.S"} }
			fx := func() *node { return &node{K: "elem", S: "b", Kids: []*node{{K: "expr", S: "x"}}} }
			blk := func(k string, kids []*node, els []*node) *node {
				c := "a.B"
				if k == "for" {
					c = "a.L"
				}
				return &node{K: k, S: c, Kids: kids, Else: els}
			}
			structs := []struct {
				key  string
				a, b []*node
			}{
				{"struct:swap-branches", []*node{blk("if", []*node{bx()}, []*node{ex()})}, []*node{blk("if", []*node{ex()}, []*node{bx()})}},
				{"struct:reorder-expr-static", []*node{ex(), bx()}, []*node{bx(), ex()}},
				{"struct:reorder-static-expr", []*node{bx(), ex()}, []*node{ex(), bx()}},
				{"struct:expr-into-if", []*node{blk("if", []*node{bx()}, nil), ex()}, []*node{blk("if", []*node{bx(), ex()}, nil)}},
				{"struct:expr-out-of-if", []*node{blk("if", []*node{bx(), ex()}, nil)}, []*node{blk("if", []*node{bx()}, nil), ex()}},
				{"struct:expr-into-for", []*node{blk("for", []*node{fx()}, nil), ex()}, []*node{blk("for", []*node{fx(), ex()}, nil)}},
				{"struct:expr-out-of-for", []*node{blk("for", []*node{fx(), ex()}, nil)}, []*node{blk("for", []*node{fx()}, nil), ex()}},
				{"struct:expr-then->else", []*node{blk("if", []*node{bx(), ex()}, []*node{iy()})}, []*node{blk("if", []*node{bx()}, []*node{ex(), iy()})}},
				{"struct:expr-else->then", []*node{blk("if", []*node{bx()}, []*node{ex(), iy()})}, []*node{blk("if", []*node{bx(), ex()}, []*node{iy()})}},
				{"struct:static-into-if", []*node{blk("if", []*node{bx(), ex()}, nil), iy()}, []*node{blk("if", []*node{bx(), ex(), iy()}, nil)}},
				{"struct:static-out-of-if", []*node{blk("if", []*node{bx(), ex(), iy()}, nil)}, []*node{blk("if", []*node{bx(), ex()}, nil), iy()}},
				{"struct:static-into-for", []*node{blk("for", []*node{fx(), ex()}, nil), iy()}, []*node{blk("for", []*node{fx(), ex(), iy()}, nil)}},
				{"struct:static-out-of-for", []*node{blk("for", []*node{fx(), ex(), iy()}, nil)}, []*node{blk("for", []*node{fx(), ex()}, nil), iy()}},
			}
			for _, st := range structs {
				n := name("M")
				cases = append(cases, &tcase{Name: n, Group: "matrix", Label: st.key, Kinds: []string{"", st.key}, Vers: []string{source(n, st.a), source(n, st.b)}})
			}
			c.Set("matrix_pairs", len(cases))
			// ---- hostile static text, every pool item at every position that can hold it
			type hp struct {
				pos  string
				pool []string
				mk   func(s string) []*node
			}
			hps := []hp{
				{"text-in-div", textPool, func(s string) []*node {
					return []*node{{K: "elem", S: "div", Kids: []*node{{K: "text", S: s}, {K: "expr", S: "a.S"}, {K: "text", S: s}}}}
				}},
				{"text-top", textPool, func(s string) []*node { return []*node{{K: "text", S: s}, {K: "expr", S: "a.S", Sep: " "}} }},
				{"pre", append(textPool, "line1\n  line2\n\tline3"), func(s string) []*node { return []*node{{K: "elem", S: "pre", Kids: []*node{{K: "text", S: s}}}} }},
				{"script", rawPool, func(s string) []*node {
					return []*node{{K: "script", Kids: []*node{{K: "stext", S: s}, {K: "stext", S: "\nvar v = "}, {K: "sexpr", S: "a.S"}, {K: "stext", S: ";\n" + s}}}}
				}},
				{"style", stylePool, func(s string) []*node { return []*node{{K: "raw", S: "style", T: s}} }},
				{"comment", commentPool, func(s string) []*node { return []*node{{K: "comment", S: s}, {K: "expr", S: "a.T"}} }},
				{"attr-dq", attrValPool, func(s string) []*node {
					return []*node{{K: "elem", S: "div", Attrs: []attr{{K: "const", Name: "title", Val: strings.ReplaceAll(s, `"`, "&quot;"), Q: `"`}, {K: "expr", Name: "data-x", Val: "a.S"}}}}
				}},
				{"attr-sq", attrValPool, func(s string) []*node {
					return []*node{{K: "elem", S: "div", Attrs: []attr{{K: "const", Name: "title", Val: strings.ReplaceAll(s, `'`, "&#39;"), Q: `'`}}}}
				}},
			}
			// ---- large literals: one merged static text run far beyond 64 KiB between two expressions
			// (inline base64 image, inline svg path, big script/style): the text file holds it on ONE line
			for _, n := range []int{80_000, 300_000} {
				blob := b64like(n)
				path := svgPath(n)
				hps = append(hps,
					hp{fmt.Sprintf("large-text-%dk", n/1000), []string{blob}, func(s string) []*node {
						return []*node{{K: "elem", S: "div", Kids: []*node{{K: "expr", S: "a.S"}, {K: "text", S: s}, {K: "expr", S: "a.T"}}}}
					}},
					hp{fmt.Sprintf("large-img-base64-%dk", n/1000), []string{blob}, func(s string) []*node {
						return []*node{{K: "expr", S: "a.S"}, {K: "void", S: "img", Attrs: []attr{{K: "const", Name: "src", Val: "data:image/png;base64," + s, Q: `"`}}}, {K: "expr", S: "a.T"}}
					}},
					hp{fmt.Sprintf("large-svg-%dk", n/1000), []string{path}, func(s string) []*node {
						return []*node{{K: "expr", S: "a.S"}, {K: "elem", S: "svg", Attrs: []attr{{K: "const", Name: "viewBox", Val: "0 0 100 100", Q: `"`}},
							Kids: []*node{{K: "void", S: "path", Attrs: []attr{{K: "const", Name: "d", Val: s, Q: `"`}}}}}, {K: "expr", S: "a.T"}}
					}},
					hp{fmt.Sprintf("large-script-%dk", n/1000), []string{blob}, func(s string) []*node {
						return []*node{{K: "script", Kids: []*node{{K: "stext", S: "var a = "}, {K: "sexpr", S: "a.S"}, {K: "stext", S: ";\nvar blob = \"" + s + "\";\nvar b = "}, {K: "sexpr", S: "a.T"}, {K: "stext", S: ";"}}}}
					}},
				)
			}
			accepted, rejected := map[string]int{}, 0
			for _, h := range hps {
				for _, s := range h.pool {
					n := name("H")
					src := source(n, h.mk(s))
					if !parses(src) {
						rejected++
						id--
						continue
					}
					cl := hostileClass(s)
					for _, x := range cl {
						accepted[h.pos+"/"+x]++
					}
					label := h.pos + " " + core.Q(s)
					if len(s) > 1000 {
						label = h.pos
						c.Add("large_literal_programs", 1)
					}
					cases = append(cases, &tcase{Name: n, Group: "hostile", Label: label, Vers: []string{src}, Kinds: []string{""}})
				}
			}
			c.Set("hostile_accepted_by_parser_position_class", accepted)
			c.Set("hostile_rejected_by_parser", rejected)
		}
		// ---- random programs with edit sequences of 1..4 steps
		r := c.Rand(fmt.Sprintf("batch%d", bi))
		g := &gen{r: r}
		nRandom := 140
		if bi > 0 {
			nRandom = 400
		}
		tries := 0
		for made := 0; made < nRandom && tries < nRandom*50; tries++ {
			n := fmt.Sprintf("P%04d", made+1)
			prog := g.program()
			src := source(n, prog)
			if !parses(src) {
				c.Add("random_programs_rejected_by_parser", 1)
				continue
			}
			tc := &tcase{Name: n, Group: "random", Vers: []string{src}, Kinds: []string{""}}
			steps := 1 + r.Intn(4)
			for s := 0; s < steps; s++ {
				for t := 0; t < 30; t++ {
					cand := cloneNodes(prog)
					kind := g.edit(&cand)
					if kind == "" {
						continue
					}
					ns := source(n, cand)
					if ns == tc.Vers[len(tc.Vers)-1] || !parses(ns) {
						continue
					}
					prog = cand
					tc.Vers = append(tc.Vers, ns)
					tc.Kinds = append(tc.Kinds, kind)
					break
				}
			}
			if len(tc.Vers) < 2 {
				continue
			}
			cases = append(cases, tc)
			made++
			if made <= 2 && bi == 0 {
				c.Sample(map[string]any{"name": tc.Name, "kinds": tc.Kinds[1:], "T0": body(tc.Vers[0]), "T1": body(tc.Vers[1])})
			}
		}
		b := &batch{c: c, cases: cases, txtRoot: txtRoot, matrixFailed: matrixFailed}
		c.Add("files", len(cases))
		b.run()
		if bi == 0 {
			// ---- the same flow once more on a package whose directory is reached through a
			// symlinked path component, with a RELATIVE root given to the handler
			const form = "via-symlinked-dir+relative-root"
			id = 0
			lc := pathCases(c, name, form)
			for _, tc := range cases {
				if tc.Group == "random" && len(tc.Vers) <= 3 && len(lc) < 24 {
					cp := &tcase{Name: tc.Name, Group: tc.Group, Vers: tc.Vers, Kinds: tc.Kinds, PkgForm: form}
					lc = append(lc, cp)
					c.Add("path_form_programs", 1)
				}
			}
			lb := &batch{c: c, cases: lc, txtRoot: txtRoot, matrixFailed: matrixFailed, viaLink: true}
			c.Add("files", len(lc))
			lb.run()
		}
	}
	flushViolations(c)
	var mf []string
	for k := range matrixFailed {
		mf = append(mf, k)
	}
	sort.Strings(mf)
	c.Set("matrix_pairs_violating", mf)
	kindMu.Lock()
	var ok []string
	for k := range otherKeys {
		ok = append(ok, k)
	}
	sort.Strings(ok)
	c.Set("violation_keys_outside_matrix", ok)
	c.Set("single_edit_kinds_by_classification", kindCounts)
	kindMu.Unlock()
	if c.Get("clause2_single_edits_no_recompile") == 0 {
		c.Inconclusive("no edit was classified as needing no recompilation: clause 2 was never exercised")
	}
}
