// Package c13 checks property C13: a component receives exactly the child
// block passed at its call site.
//
// Engine: corpus. One compiled call-tree interpreter (tmpl.go) renders call
// trees given as data; the reference semantics below compute the marker
// structure that the property demands; the rendered bytes are tokenised with
// the HTML5 tokenizer and must have exactly that structure.
package c13

import (
	"bytes"
	"encoding/base64"
	"encoding/json"
	"fmt"
	"math/rand"
	"os"
	"os/exec"
	"path/filepath"
	"sort"
	"strings"
	"sync"
	"time"

	"verif/core"
	"verif/corpus"
	"verif/oracle/html5"
)

// T mirrors the driver's tree node.
type T struct {
	K    string `json:"k"`
	M    string `json:"m"`
	H    int    `json:"h,omitempty"`
	Kids []T    `json:"kids,omitempty"`
	Args []T    `json:"args,omitempty"`
}

func hasBlock(k string) bool { return strings.HasSuffix(k, "+") }
func isJoin(k string) bool   { return strings.HasPrefix(k, "join") }

// ---------------------------------------------------------------- reference

// ref is the reference call-tree semantics (the trusted base of this check):
//   - a callee sees exactly the block of its call site; no block => nothing;
//   - the block is rendered where, and as often as, the callee places its slot,
//     with the block's own nested calls evaluated by the same rules;
//   - nothing else ever renders a block (no sibling, no descendant).
//
// Output: one `kind#marker[` … `]` per marker element, in document order.
// Once handles render (block or fixed component) on their first use per
// context and nothing afterwards; a skipped or ignored block is rendered
// nowhere.
type ref struct {
	sb    *strings.Builder
	work  int // notation bytes written to any writer, captured/discarded ones included
	once  map[int]bool
	oncec map[int]bool
}

func expected(forest []T) string {
	s, _ := expectedWork(forest)
	return s
}

func expectedWork(forest []T) (string, int) {
	r := &ref{sb: &strings.Builder{}, once: map[int]bool{}, oncec: map[int]bool{}}
	r.forest(forest)
	return r.sb.String(), r.work
}

func (r *ref) w(s string) {
	r.work += len(s)
	r.sb.WriteString(s)
}

// gen: a generated callee with marker m whose children slot renders children().
func (r *ref) gen(kind, m string, children func()) {
	w := r.w
	switch kind {
	case "slot":
		w("slot#" + m + "[")
		children()
		w("]")
	case "ign":
		w("ign#" + m + "[]")
	case "twice":
		w("twice#" + m + "[")
		children()
		children()
		w("]")
	case "pass":
		w("pass#" + m + "[slot#" + m + ".i[")
		children()
		w("]]")
	case "inner":
		w("inner#" + m + "[slot#" + m + ".i[]]")
	case "after":
		w("after#" + m + "[")
		children()
		w("slot#" + m + ".i[]]")
	}
}

// capture evaluates the block of t exactly once into a buffer of its own (a
// callee that renders its children into its own writer) and returns what the
// block rendered there.
func (r *ref) capture(t T) string {
	save := r.sb
	r.sb = &strings.Builder{}
	r.blk(t)
	s := r.sb.String()
	r.sb = save
	return s
}

func (r *ref) forest(ts []T) {
	for _, t := range ts {
		r.node(t)
	}
}

func (r *ref) blk(t T) {
	if !hasBlock(t.K) {
		return
	}
	r.w("b#" + t.M + "[")
	r.forest(t.Kids)
	r.w("]")
}

// wrapper: a generated wrapper template whose call site of the callee has a
// particular source shape. The callee sees exactly what that block denotes:
// nothing for whitespace/comment-only blocks (never the wrapper's own
// children), the wrapper's children where `{ children... }` stands.
func (r *ref) wrapper(t T, shape, callee string) {
	w := r.w
	base := t.K[:len(t.K)-1]
	w(base + "#" + t.M + "[")
	var children func()
	switch shape {
	case "ws", "gc", "gb", "nl", "nlt":
		children = func() {}
	case "hc":
		children = func() { w("COMMENT(<!-- c -->)") }
	case "ch", "chif":
		children = func() { r.blk(t) }
	case "ch2":
		children = func() { r.blk(t); r.blk(t) }
	case "cht":
		children = func() { r.blk(t); w("T(tx)") }
	}
	r.gen(callee, t.M+".i", children)
	switch shape {
	case "nl": // `{ children... }` on the next line is a sibling of the call
		r.blk(t)
	case "nlt":
		w("T(tx)")
	}
	w("]")
}

func (r *ref) node(t T) {
	w := r.w
	if sc, ok := wrapperBases[t.K[:len(t.K)-1]]; ok {
		r.wrapper(t, sc[0], sc[1])
		return
	}
	switch t.K[:len(t.K)-1] {
	case "slot":
		w("slot#" + t.M + "[")
		r.blk(t)
		w("]")
	case "legacy":
		w("slot#" + t.M + "[]")
	case "ign":
		w("ign#" + t.M + "[]")
	case "twice":
		w("twice#" + t.M + "[")
		r.blk(t)
		r.blk(t)
		w("]")
	case "pass":
		w("pass#" + t.M + "[slot#" + t.M + ".i[")
		r.blk(t)
		w("]]")
	case "inner":
		w("inner#" + t.M + "[slot#" + t.M + ".i[]]")
	case "after":
		w("after#" + t.M + "[")
		r.blk(t)
		w("slot#" + t.M + ".i[]]")
	case "once":
		if !r.once[t.H%2] {
			r.once[t.H%2] = true
			r.blk(t)
		}
	case "oncec":
		if !r.oncec[t.H%2] {
			r.oncec[t.H%2] = true
			w(fmt.Sprintf("slot#oc%d[]", t.H%2))
		}
	case "flush":
		r.blk(t)
	case "join":
		r.forest(t.Args)
	case "fnget":
		w("fget#" + t.M + "[")
		r.blk(t)
		w("]")
	case "fnign":
		w("fign#" + t.M + "[]")
	case "fnwith":
		w("fwith#" + t.M + "[slot#" + t.M + ".i[")
		r.blk(t)
		w("]]")
	// callees that render their children into a writer of their own: the block
	// is evaluated once, there, and shows up only where the callee puts what
	// it captured (inside its marker: once, twice, or not at all).
	case "fncap":
		c := r.capture(t)
		w("cap#" + t.M + "[" + c + "]")
	case "fncap2":
		c := r.capture(t)
		w("cap2#" + t.M + "[" + c + c + "]")
	case "fndrop":
		r.capture(t)
		w("drop#" + t.M + "[]")
	// forwarding wrappers: the generated callee m.f sees exactly what the
	// wrapper passed (its own children wrapped in w#m / unwrapped / nothing);
	// whatever that callee calls without a block sees nothing.
	case "fwdslot", "fwdinner", "fwdafter", "fwdtwice", "fwdign", "fwdpass":
		r.gen(t.K[3:len(t.K)-1], t.M+".f", func() {
			w("w#" + t.M + "[")
			r.blk(t)
			w("]")
		})
	// WithChildren(ctx, nil): the callee gets no block; the layer's own block
	// is rendered nowhere.
	case "fwdnilslot", "fwdnilafter", "fwdniltwice":
		r.gen(t.K[6:len(t.K)-1], t.M+".f", func() {})
	case "fwdnil2":
		r.gen("slot", t.M+".g.f", func() {})
	case "fwdsame":
		r.gen("after", t.M+".f", func() { r.blk(t) })
	case "fwdnop":
		r.gen("after", t.M+".f", func() {})
	case "fwd2":
		r.gen("after", t.M+".g.f", func() {
			w("w#" + t.M + ".g[w1#" + t.M + "[")
			r.blk(t)
			w("]]")
		})
	case "capslot": // hand-written: captures a generated slot callee that is given the children
		save := r.sb
		r.sb = &strings.Builder{}
		w("slot#" + t.M + ".i[")
		r.blk(t)
		w("]")
		c := r.sb.String()
		r.sb = save
		w("capslot#" + t.M + "[" + c + "]")
	case "capchain": // generated: @fncap(m) { @slot(m.i) { children... } }
		save := r.sb
		r.sb = &strings.Builder{}
		w("slot#" + t.M + ".i[")
		r.blk(t)
		w("]")
		c := r.sb.String()
		r.sb = save
		w("cap#" + t.M + "[" + c + "]")
	default:
		w("BADKIND#" + t.K + "[]")
	}
}

// observed reduces rendered bytes to the same notation. Anything that is not
// a marker element or inter-element whitespace shows up literally and so
// produces a mismatch.
func observed(b []byte) string {
	toks, err := html5.Tokenize(b)
	var sb strings.Builder
	if err != nil {
		fmt.Fprintf(&sb, "TOKENIZER-ERROR(%v)", err)
	}
	for _, t := range toks {
		switch t.Kind {
		case "start":
			k, m := "", ""
			for _, a := range t.Attrs {
				switch a.Key {
				case "k":
					k = a.Val
				case "m":
					m = a.Val
				}
			}
			if t.Name != "div" {
				k = "<" + t.Name + ">" + k
			}
			sb.WriteString(k + "#" + m + "[")
		case "end":
			sb.WriteString("]")
		case "text":
			for _, word := range strings.Fields(t.Data) { // whitespace is not C13's business
				sb.WriteString("T(" + word + ")")
			}
		default:
			sb.WriteString(strings.ToUpper(t.Kind) + "(" + t.Raw + ")")
		}
	}
	return sb.String()
}

// ---------------------------------------------------------------- trees

// key is the canonical text of a forest (markers are implied: preorder index).
func key(ts []T) string {
	var parts []string
	for _, t := range ts {
		s := t.K
		if strings.HasPrefix(t.K, "once") {
			s = fmt.Sprintf("%s%d%s", t.K[:len(t.K)-1], t.H%2, t.K[len(t.K)-1:])
		}
		if isJoin(t.K) {
			s += "(" + key(t.Args) + ")"
		}
		if hasBlock(t.K) {
			s += "{" + key(t.Kids) + "}"
		}
		parts = append(parts, s)
	}
	return strings.Join(parts, " ")
}

func clone(ts []T) []T {
	if ts == nil {
		return nil
	}
	out := make([]T, len(ts))
	for i, t := range ts {
		out[i] = T{K: t.K, M: t.M, H: t.H, Kids: clone(t.Kids), Args: clone(t.Args)}
	}
	return out
}

func count(ts []T) int {
	n := 0
	for _, t := range ts {
		n += 1 + count(t.Kids) + count(t.Args)
	}
	return n
}

// canon renumbers markers in preorder and once handles by first appearance.
func canon(ts []T) []T {
	out := clone(ts)
	n := 0
	hm := map[string]int{}
	var walk func(ts []T)
	walk = func(ts []T) {
		for i := range ts {
			ts[i].M = fmt.Sprint(n)
			n++
			if strings.HasPrefix(ts[i].K, "once") {
				base := "once"
				if strings.HasPrefix(ts[i].K, "oncec") {
					base = "oncec"
				}
				id := fmt.Sprintf("%s/%d", base, ts[i].H%2)
				if _, ok := hm[id]; !ok {
					c := 0
					for k := range hm {
						if strings.HasPrefix(k, base+"/") {
							c++
						}
					}
					hm[id] = c
				}
				ts[i].H = hm[id]
			} else {
				ts[i].H = 0
			}
			walk(ts[i].Args)
			walk(ts[i].Kids)
		}
	}
	walk(out)
	return out
}

// reductions returns every one-step reduction of a forest, smallest first:
// delete a node with its subtree, replace a node by its kids/args, turn a
// call with a block into the same call without one.
func reductions(ts []T) [][]T {
	var out [][]T
	// path-addressed edit: rebuild the forest with f applied at list position
	var rec func(cur []T, rebuild func([]T) []T)
	rec = func(cur []T, rebuild func([]T) []T) {
		for i := range cur {
			i := i
			// delete
			del := append(append([]T{}, cur[:i]...), cur[i+1:]...)
			out = append(out, rebuild(del))
			// hoist
			if len(cur[i].Kids)+len(cur[i].Args) > 0 {
				h := append([]T{}, cur[:i]...)
				h = append(h, cur[i].Args...)
				h = append(h, cur[i].Kids...)
				h = append(h, cur[i+1:]...)
				out = append(out, rebuild(h))
			}
			// drop block
			if hasBlock(cur[i].K) && cur[i].K != "fnwith+" {
				d := append([]T{}, cur...)
				d[i] = T{K: cur[i].K[:len(cur[i].K)-1] + "-", M: cur[i].M, H: cur[i].H, Args: cur[i].Args}
				out = append(out, rebuild(d))
			}
			rec(cur[i].Kids, func(n []T) []T {
				c := append([]T{}, cur...)
				c[i].Kids = n
				return rebuild(c)
			})
			rec(cur[i].Args, func(n []T) []T {
				c := append([]T{}, cur...)
				c[i].Args = n
				return rebuild(c)
			})
		}
	}
	rec(ts, func(n []T) []T { return clone(n) })
	sort.SliceStable(out, func(a, b int) bool { return count(out[a]) < count(out[b]) })
	return out
}

// representative maps a kind to the canonical representative of its class
// (used only after no smaller tree fails, so that one root cause is not
// reported once per receiving callee): every block-less call becomes a plain
// slot callee, every generated callee with a block the plain slot callee with
// a block (ign for callees that do not render it). Hand-written wrappers with
// a block are never renamed: they are distinct code paths.
var representative = map[string]string{
	"twice-": "slot-", "pass-": "slot-", "after-": "slot-", "legacy-": "slot-", "fnget-": "slot-", "once-": "slot-",
	"flush-": "slot-", "inner-": "slot-", "ign-": "slot-", "fnign-": "slot-", "oncec-": "slot-", "join-": "slot-",
	"fncap-": "slot-", "fncap2-": "slot-", "fndrop-": "slot-", "capslot-": "slot-", "capchain-": "slot-",
	"fwdslot-": "slot-", "fwdinner-": "slot-", "fwdafter-": "slot-", "fwdtwice-": "slot-", "fwdign-": "slot-", "fwdpass-": "slot-", "fwdsame-": "slot-", "fwdnop-": "slot-", "fwd2-": "slot-",
	"twice+": "slot+", "pass+": "slot+", "after+": "slot+", "inner+": "ign+",
}

func init() {
	for _, b := range []string{"fwdnilslot", "fwdnilafter", "fwdniltwice", "fwdnil2"} {
		representative[b+"-"] = "slot-"
	}
	for base := range wrapperBases {
		representative[base+"-"] = "slot-"
	}
}

// renamings returns every forest obtained by renaming one node to its class
// representative (same size; strictly fewer non-representative kinds).
func renamings(ts []T) [][]T {
	var out [][]T
	var rec func(cur []T, rebuild func([]T) []T)
	rec = func(cur []T, rebuild func([]T) []T) {
		for i := range cur {
			i := i
			if rep, ok := representative[cur[i].K]; ok && !(isJoin(cur[i].K) && len(cur[i].Args) > 0) {
				d := append([]T{}, cur...)
				d[i].K = rep
				out = append(out, rebuild(d))
			}
			rec(cur[i].Kids, func(n []T) []T {
				c := append([]T{}, cur...)
				c[i].Kids = n
				return rebuild(c)
			})
			rec(cur[i].Args, func(n []T) []T {
				c := append([]T{}, cur...)
				c[i].Args = n
				return rebuild(c)
			})
		}
	}
	rec(ts, func(n []T) []T { return clone(n) })
	return out
}

// structToks splits a structure string into `kind#m[` and `]` tokens.
func structToks(s string) []string {
	var out []string
	start := 0
	for i := 0; i < len(s); i++ {
		switch s[i] {
		case '[':
			out = append(out, s[start:i+1])
			start = i + 1
		case ']':
			if start < i {
				out = append(out, s[start:i])
			}
			out = append(out, "]")
			start = i + 1
		}
	}
	if start < len(s) {
		out = append(out, s[start:])
	}
	return out
}

func tokMarker(t string) string {
	i := strings.IndexByte(t, '#')
	if i < 0 || !strings.HasSuffix(t, "[") {
		return ""
	}
	m := t[i+1 : len(t)-1]
	if j := strings.IndexByte(m, '.'); j >= 0 { // 3.i, 3.f, 3.g.f.i ... belong to node 3
		m = m[:j]
	}
	return m
}

// blameSlice keeps only the nodes named at the first divergence between the
// expected and the rendered structure (the diverging element on either side
// and the elements enclosing it) together with their ancestors.
func blameSlice(f []T, exp, obs string) []T {
	te, to := structToks(exp), structToks(obs)
	i := 0
	for i < len(te) && i < len(to) && te[i] == to[i] {
		i++
	}
	keep := map[string]bool{}
	for _, ts := range [][]string{te, to} {
		var stack []string
		for j := 0; j < i && j < len(ts); j++ {
			if ts[j] == "]" {
				if len(stack) > 0 {
					stack = stack[:len(stack)-1]
				}
			} else if strings.HasSuffix(ts[j], "[") {
				stack = append(stack, tokMarker(ts[j]))
			}
		}
		for _, m := range stack {
			keep[m] = true
		}
		if i < len(ts) {
			keep[tokMarker(ts[i])] = true
		}
	}
	delete(keep, "")
	var prune func(ts []T) []T
	prune = func(ts []T) []T {
		var out []T
		for _, t := range ts {
			t.Kids, t.Args = prune(t.Kids), prune(t.Args)
			if keep[t.M] || len(t.Kids)+len(t.Args) > 0 {
				out = append(out, t)
			}
		}
		return out
	}
	return prune(clone(f))
}

// nontrivial: the tree contains a call with a block whose callee is a
// hand-written wrapper or does not render the block, followed (later in
// preorder: a later sibling or a descendant) by a call without a block to a
// callee that renders a slot.
func nontrivial(ts []T) bool {
	var flat []T
	var walk func(ts []T)
	walk = func(ts []T) {
		for _, t := range ts {
			flat = append(flat, t)
			walk(t.Args)
			walk(t.Kids)
		}
	}
	walk(ts)
	unconsumed := map[string]bool{"ign+": true, "inner+": true, "once+": true, "oncec+": true, "flush+": true, "join+": true, "fnign+": true, "fnget+": true, "fncap+": true, "fncap2+": true, "fndrop+": true, "capslot+": true, "capchain+": true,
		"fwdinner+": true, "fwdign+": true, "fwdnop+": true, "fwdsame+": true, "fwdafter+": true, "fwd2+": true}
	slotBearing := map[string]bool{"slot-": true, "twice-": true, "pass-": true, "after-": true, "legacy-": true, "once-": true, "flush-": true, "fnget-": true, "fncap-": true, "fncap2-": true, "capslot-": true, "capchain-": true,
		"fwdslot-": true, "fwdafter-": true, "fwdtwice-": true, "fwdpass-": true, "fwdsame-": true, "fwd2-": true}
	seen := false
	for _, t := range flat {
		if seen && slotBearing[t.K] {
			return true
		}
		if unconsumed[t.K] {
			seen = true
		}
	}
	return false
}

// enumerate lists every forest with exactly n nodes over the given kinds
// (once handles: always handle 0).
func enumerate(n int, kinds []string) [][]T {
	memo := map[int][][]T{}
	var forests func(n int) [][]T
	forests = func(n int) [][]T {
		if n == 0 {
			return [][]T{nil}
		}
		if f, ok := memo[n]; ok {
			return f
		}
		var out [][]T
		for _, k := range kinds {
			for rest := 0; rest <= n-1; rest++ {
				sub := n - 1 - rest
				// split sub between args and kids
				for a := 0; a <= sub; a++ {
					b := sub - a
					if a > 0 && !isJoin(k) {
						continue
					}
					if b > 0 && !hasBlock(k) {
						continue
					}
					for _, args := range forests(a) {
						for _, kids := range forests(b) {
							for _, tail := range forests(rest) {
								f := append([]T{{K: k, Args: args, Kids: kids}}, tail...)
								out = append(out, f)
							}
						}
					}
				}
			}
		}
		memo[n] = out
		return out
	}
	return forests(n)
}

// randomForest draws a tree emphasising an unconsumed block followed by a
// slot-bearing sibling or descendant.
func randomForest(r *rand.Rand, budget *int, depth int) []T {
	leaky := []string{"once+", "once+", "flush+", "fnign+", "ign+", "inner+", "oncec+", "join+", "fnget+", "fncap+", "fncap2+", "fndrop+", "capslot+", "capchain+", "fwdinner+", "fwdafter+", "fwdsame+", "fwdnop+", "fwd2+", "fwdign+", "fwdnilslot+", "fwdnilafter+", "fwdniltwice+", "fwdnil2+"}
	slotty := []string{"slot-", "slot-", "twice-", "pass-", "after-", "legacy-", "once-", "flush-", "fnget-", "fncap-", "capchain-", "fwdslot-", "fwdafter-", "fwdinner-"}
	var out []T
	n := 1 + r.Intn(4)
	for i := 0; i < n && *budget > 0; i++ {
		var ks []string
		switch p := r.Intn(10); {
		case p < 4:
			ks = []string{leaky[r.Intn(len(leaky))], slotty[r.Intn(len(slotty))]}
		case p < 5:
			ks = []string{slotty[r.Intn(len(slotty))]}
		default:
			ks = []string{allKinds[r.Intn(len(allKinds))]}
		}
		for _, k := range ks {
			*budget--
			t := T{K: k, H: r.Intn(2)}
			if depth > 0 {
				if hasBlock(k) && r.Intn(4) > 0 {
					t.Kids = randomForest(r, budget, depth-1)
				}
				if isJoin(k) {
					t.Args = randomForest(r, budget, depth-1)
				}
			}
			out = append(out, t)
		}
	}
	return out
}

// ---------------------------------------------------------------- driver

type job struct {
	ID    int `json:"id"`
	Limit int `json:"limit"`
	Tree  []T `json:"tree"`
}

// outputLimit: the driver aborts a render (write error) once it has written
// this many bytes to the output and to capture buffers together - 8 times the
// structure notation the correct render writes to all of them (a marker
// element is at most ~4 times as long as its notation) plus slack - so that
// a block that ends up rendering itself is cut short instead of overflowing
// the stack.
func outputLimit(f []T) int {
	_, work := expectedWork(f)
	return 8*work + 1024
}

type result struct {
	ID  int    `json:"id"`
	Out string `json:"out"`
	Err string `json:"err,omitempty"`
}

type engine struct {
	c     *core.Ctx
	p     *corpus.Pkg
	bin   string
	cache map[string]string // canonical tree text -> rendered structure
}

// eval returns the rendered structure of canonical forests, rendering only
// those not seen before.
func (e *engine) eval(fs [][]T) []string {
	if len(e.cache) > 600000 { // bound memory; the cache is only a speed-up
		e.cache = map[string]string{}
	}
	var todo [][]T
	var todoKeys []string
	seen := map[string]bool{}
	keys := make([]string, len(fs))
	for i, f := range fs {
		keys[i] = key(f)
		if _, ok := e.cache[keys[i]]; !ok && !seen[keys[i]] {
			seen[keys[i]] = true
			todo = append(todo, f)
			todoKeys = append(todoKeys, keys[i])
		}
	}
	for i, o := range e.run(todo) {
		e.cache[todoKeys[i]] = o
	}
	out := make([]string, len(fs))
	for i := range fs {
		out[i] = e.cache[keys[i]]
	}
	return out
}

func fails(f []T, obs string) bool {
	return obs != expected(f) && !strings.HasPrefix(obs, "INCONCLUSIVE")
}

func build(c *core.Ctx) *engine {
	p := corpus.New(c, "c13")
	p.Write("t.templ", templSrc())
	p.Write("main.go", helperSrc)
	if out, err := p.Generate(); err != nil {
		core.Infra("templ generate failed for the C13 interpreter: %v\n%s", err, corpus.Tail(out, 2000))
	}
	// -gcflags=-l (no inlining in the scratch main package only): with
	// inlining the nested block closures of the interpreter are duplicated
	// ~20000 times and the build takes minutes instead of seconds. The templ
	// packages under test are compiled as usual.
	bin := filepath.Join(p.Dir, "driver.bin")
	cmd := exec.Command("go", "build", "-tags", "verif", "-gcflags=-l", "-o", bin, ".")
	cmd.Dir = p.Dir
	cmd.Env = corpus.Env()
	if out, err := cmd.CombinedOutput(); err != nil {
		core.Infra("go build failed for the C13 interpreter: %v\n%s", err, corpus.Tail(string(out), 3000))
	}
	return &engine{c: c, p: p, bin: bin, cache: map[string]string{}}
}

// run renders all forests (in parallel driver processes) and returns, per
// forest, the observed structure (or a description of a render error/crash).
func (e *engine) run(forests [][]T) []string {
	res := make([]string, len(forests))
	idx := make([]int, len(forests))
	for i := range idx {
		idx[i] = i
	}
	const workers = 12
	chunk := (len(forests) + workers - 1) / workers
	if chunk < 1 {
		chunk = 1
	}
	var wg sync.WaitGroup
	for s := 0; s < len(idx); s += chunk {
		t := s + chunk
		if t > len(idx) {
			t = len(idx)
		}
		wg.Add(1)
		go func(part []int) {
			defer wg.Done()
			e.runPart(forests, part, res)
		}(idx[s:t])
	}
	wg.Wait()
	return res
}

func (e *engine) runPart(forests [][]T, part []int, res []string) {
	if len(part) == 0 {
		return
	}
	var in bytes.Buffer
	enc := json.NewEncoder(&in)
	for _, i := range part {
		_ = enc.Encode(job{ID: i, Limit: outputLimit(forests[i]), Tree: forests[i]})
	}
	rr := corpus.Run(e.bin, nil, in.Bytes(), nil, e.p.Dir, 10*time.Minute)
	got := map[int]bool{}
	dec := json.NewDecoder(bytes.NewReader(rr.Stdout))
	for {
		var r result
		if err := dec.Decode(&r); err != nil {
			break
		}
		b, _ := base64.StdEncoding.DecodeString(r.Out)
		s := observed(b)
		if r.Err != "" {
			s += " RENDER-" + r.Err
		}
		res[r.ID] = s
		got[r.ID] = true
	}
	if len(got) == len(part) {
		return
	}
	// the driver died: bisect to the crashing job(s)
	var missing []int
	for _, i := range part {
		if !got[i] {
			missing = append(missing, i)
		}
	}
	if rr.TimedOut {
		for _, i := range missing {
			res[i] = "INCONCLUSIVE watchdog"
		}
		return
	}
	if len(missing) == 1 {
		res[missing[0]] = "DRIVER-CRASHED " + corpus.Tail(firstLines(string(rr.Stderr), 3), 300)
		return
	}
	h := len(missing) / 2
	e.runPart(forests, missing[:h], res)
	e.runPart(forests, missing[h:], res)
}

func firstLines(s string, n int) string {
	ls := strings.SplitN(s, "\n", n+1)
	if len(ls) > n {
		ls = ls[:n]
	}
	return strings.Join(ls, " | ")
}

// Reduction of failing forests to canonical witnesses, all forests in lock
// step so that each round is one batch of driver work; forests that become
// equal are merged. sliceAndCap (after every batch): (1) blame slice, kept if
// it still fails, then at most perSignature forests per signature are kept.
// shrinkAll (at the end): (2) greedy one-step size reductions and (3) renaming
// of kinds to class representatives, while the tree still fails.
func (e *engine) sliceAndCap(cur map[string][]T, failing [][]T, obsFailing []string) map[string][]T {
	if cur == nil {
		cur = map[string][]T{}
	}
	var slices [][]T
	for i, f := range failing {
		slices = append(slices, canon(blameSlice(f, expected(f), obsFailing[i])))
	}
	so := e.eval(slices)
	sliced := 0
	for i, f := range failing {
		if len(slices[i]) > 0 && fails(slices[i], so[i]) {
			f = slices[i]
			sliced++
		}
		cur[key(f)] = f
	}
	dbg("blame slices that still fail: %d of %d; distinct so far %d", sliced, len(failing), len(cur))
	cur = capBySignature(cur)
	dbg("after the per-signature cap: %d", len(cur))
	return cur
}

func (e *engine) shrinkAll(cur map[string][]T) (min [][]T, obs []string) {
	done := map[string][]T{}
	for round := 0; len(cur) > 0 && round < 400; round++ {
		dbg("shrink round %d: %d forests", round, len(cur))
		keys := make([]string, 0, len(cur))
		for k := range cur {
			keys = append(keys, k)
		}
		sort.Strings(keys)
		var batch [][]T
		var owner []string
		for _, k := range keys {
			for _, r := range reductions(cur[k]) {
				batch = append(batch, canon(r))
				owner = append(owner, k)
			}
			for _, r := range renamings(cur[k]) {
				batch = append(batch, canon(r))
				owner = append(owner, k)
			}
		}
		got := e.eval(batch)
		next := map[string][]T{}
		moved := map[string]bool{}
		for i, r := range batch {
			if moved[owner[i]] {
				continue
			}
			if fails(r, got[i]) {
				moved[owner[i]] = true
				if _, isDone := done[key(r)]; !isDone {
					next[key(r)] = r
				}
			}
		}
		for _, k := range keys {
			if !moved[k] {
				done[k] = cur[k]
			}
		}
		cur = next
	}
	for k, f := range cur { // round limit hit: keep as is
		done[k] = f
	}
	keys := make([]string, 0, len(done))
	for k := range done {
		keys = append(keys, k)
	}
	sort.Slice(keys, func(a, b int) bool {
		if len(keys[a]) != len(keys[b]) {
			return len(keys[a]) < len(keys[b])
		}
		return keys[a] < keys[b]
	})
	for _, k := range keys {
		min = append(min, done[k])
	}
	obs = e.eval(min)
	return min, obs
}

// signature groups failing trees that look alike (same set of kinds); only
// the perSignature smallest of a group are reduced, which bounds the work when
// a defect makes almost every tree fail, while every distinct kind of failure
// is still reduced and reported.
const perSignature = 20

func capBySignature(cur map[string][]T) map[string][]T {
	groups := map[string][]string{}
	for k, f := range cur {
		kinds := map[string]bool{}
		var walk func(ts []T)
		walk = func(ts []T) {
			for _, t := range ts {
				kinds[t.K] = true
				walk(t.Args)
				walk(t.Kids)
			}
		}
		walk(f)
		var ks []string
		for x := range kinds {
			ks = append(ks, x)
		}
		sort.Strings(ks)
		sig := strings.Join(ks, ",")
		if count(f) > 6 { // big (unsliced) trees: their kind sets are all different
			sig = "big"
		}
		groups[sig] = append(groups[sig], k)
	}
	out := map[string][]T{}
	for _, ks := range groups {
		sort.Slice(ks, func(a, b int) bool {
			ca, cb := count(cur[ks[a]]), count(cur[ks[b]])
			if ca != cb {
				return ca < cb
			}
			return ks[a] < ks[b]
		})
		if len(ks) > perSignature {
			ks = ks[:perSignature]
		}
		for _, k := range ks {
			out[k] = cur[k]
		}
	}
	return out
}

func dbg(f string, a ...any) {
	if os.Getenv("VERIF_DEBUG") != "" {
		fmt.Fprintf(os.Stderr, "[c13 %s] "+f+"\n", append([]any{time.Now().Format("15:04:05")}, a...)...)
	}
}

// ---------------------------------------------------------------- check

// threeNodeKinds: the kinds of the exhaustive 3-node forests in the quick
// tier: everything except the forwarders whose generated callee only repeats
// what fwdinner / fwdafter / fwdsame / fwdnop / fwd2 already exercise.
func threeNodeKinds() []string {
	skip := map[string]bool{"fwdslot": true, "fwdtwice": true, "fwdign": true, "fwdpass": true, "fwdnilslot": true, "fwdniltwice": true, "fwdnil2": true}
	var ks []string
	for _, k := range allKinds {
		if _, isWrapper := wrapperBases[k[:len(k)-1]]; !skip[k[:len(k)-1]] && !isWrapper {
			ks = append(ks, k)
		}
	}
	return ks
}

// reducedKinds is the kind set used for the largest exhaustive size.
var reducedKinds = []string{"slot-", "slot+", "ign+", "twice-", "twice+", "pass-", "after+", "inner+", "once-", "once+", "oncec+", "flush-", "flush+", "fnign+", "fnget-", "fnget+", "join+", "fnwith+", "fncap+", "capchain+", "fwdinner+", "fwdsame+"}

// Run is the C13 check.
func Run(c *core.Ctx) {
	c.Rule = "cases = call trees (forests of calls; kinds: generated callees slot/ign/twice/pass/inner/after and legacy call syntax, hand-written OnceHandle.Once, Once(WithComponent), templ.Flush, templ.Join, function components reading/ignoring children, function components capturing their children into a buffer of their own (written once, twice, discarded; hand-written and generated capture layers around a slot callee), generated wrapper templates whose call site has a special source shape (whitespace-only / Go-comment-only / HTML-comment-only block, exactly { children... }, twice, plus text, inside an if, block-less call followed by { children... } or { expr } on the next line; over slot/twice/ign callees), forwarding wrappers that hand their children (wrapped, unwrapped, replaced by nothing, replaced by nil, through a chain of two) to a generated callee with WithChildren without clearing, WithChildren from code; each with and without a block) rendered by one compiled interpreter whose dispatcher is expanded inline for 3 levels; oracle = reference call-tree semantics, exact marker structure on the HTML5 token stream; exhaustive part: every forest with <=2 nodes over all kinds, 3 nodes over all kinds but four redundant forwarders and the source-shape wrappers (thorough: all kinds) and over a reduced kind set (N=4, thorough); non-trivial = tree with a block given to a wrapper/ignoring callee followed in preorder by a block-less call to a slot-rendering callee; distinct by canonical tree text"
	c.Assume("hand-written function components follow the documented protocol (GetChildren, then ClearChildren before rendering anything else)")
	c.Assume("golang.org/x/net/html tokenizer")
	e := build(c)
	defer e.p.Close()

	if c.ReplayFile != "" {
		var f []T
		c.LoadReplay(&f)
		f = canon(f)
		got := e.eval([][]T{f})
		c.Eval(1)
		c.NontrivialN(2)
		if want := expected(f); got[0] != want {
			c.Violate("tree: "+key(f), fmt.Sprintf("tree %s: expected structure %s, rendered %s", key(f), want, got[0]), f)
		}
		return
	}

	var front map[string][]T // failing trees kept for reduction (sliced, capped per signature)
	nfail := 0
	maxNodes, nontriv, total := 0, 0, 0
	// process evaluates one batch of forests and collects the failing ones.
	process := func(forests [][]T) {
		for i := range forests {
			forests[i] = canon(forests[i])
		}
		got := e.eval(forests)
		total += len(forests)
		dbg("rendered %d", total)
		var failing [][]T
		var failingObs []string
		defer func() {
			if len(failing) > 0 {
				nfail += len(failing)
				front = e.sliceAndCap(front, failing, failingObs)
			}
		}()
		for i, f := range forests {
			c.Eval(1)
			if strings.HasPrefix(got[i], "INCONCLUSIVE") {
				c.Inconclusive("watchdog while rendering " + key(f))
				continue
			}
			if n := count(f); n > maxNodes {
				maxNodes = n
			}
			if nontrivial(f) {
				nontriv++
				c.NontrivialStr(key(f))
				if nontriv%40000 == 1 {
					c.Sample(map[string]any{"tree": key(f), "structure": got[i]})
				}
			}
			if got[i] != expected(f) {
				failing = append(failing, f)
				failingObs = append(failingObs, got[i])
			}
		}
	}
	exh := 0
	for n := 1; n <= 2; n++ {
		fs := enumerate(n, allKinds)
		c.Set(fmt.Sprintf("exhaustive_trees_%d_nodes_all_kinds", n), len(fs))
		exh += len(fs)
		process(fs)
	}
	{
		ks := threeNodeKinds()
		if !c.Quick() {
			ks = allKinds
		}
		fs := enumerate(3, ks)
		c.Set("exhaustive_trees_3_nodes", len(fs))
		c.Set("exhaustive_trees_3_nodes_kinds", len(ks))
		exh += len(fs)
		process(fs)
	}
	if !c.Quick() {
		fs := enumerate(4, reducedKinds)
		c.Set("exhaustive_trees_4_nodes_reduced_kinds", len(fs))
		exh += len(fs)
		process(fs)
	}
	r := c.Rand("trees")
	nr := c.Pick(100000, 4000000)
	const batchSize = 250000
	for done := 0; done < nr; {
		n := batchSize
		if nr-done < n {
			n = nr - done
		}
		batch := make([][]T, 0, n)
		for i := 0; i < n; i++ {
			b := 4 + r.Intn(24)
			batch = append(batch, randomForest(r, &b, 1+r.Intn(6)))
		}
		process(batch)
		done += n
	}
	c.Set("exhaustive_trees", exh)
	c.Set("random_trees", nr)
	c.Set("kinds", len(allKinds))
	c.Set("max_nodes", maxNodes)
	c.Set("failing_trees_before_reduction", nfail)
	dbg("failing %d", nfail)
	seen := map[string]bool{}
	defer reportStale(c, seen)
	if nfail == 0 {
		return
	}
	min, obs := e.shrinkAll(front)
	c.Set("reduction_cap_per_signature", perSignature)
	c.Set("canonical_witnesses", len(min))
	for i, f := range min {
		want := expected(f)
		if obs[i] == want { // cannot happen (min forests failed when selected); be safe
			continue
		}
		seen["tree: "+key(f)] = true
		c.Violate("tree: "+key(f), fmt.Sprintf("children do not go exactly to their call site: tree %s expected structure %s, rendered %s", key(f), want, obs[i]), f)
	}
}

// reportStale records the listed known findings (all small enough to be part
// of the exhaustive enumeration of every run) that did not fail in this run.
func reportStale(c *core.Ctx, seen map[string]bool) {
	stale := []string{}
	for _, k := range c.KnownKeys() {
		if !seen[k] {
			stale = append(stale, k)
		}
	}
	c.Set("known_findings_not_reproduced", stale)
}
